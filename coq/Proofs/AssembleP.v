From Coq Require Import Reals Lra.
From MuxV Require Import Base.Num Base.Vec3 Base.RInst Model.Helpers Proofs.HelpersP Proofs.KernelP.
From MuxV Require Import Model.Assemble.
Local Open Scope R_scope.

(* a rigid motion of the whole scene (rotation r, translation t): new attitude r q (first r, then q), new position t + R_r^-1 p *)
Definition moved_q (r q : quat R) : quat R := quat_mult r q.
Definition moved_p (r : quat R) (t p : v3 R) : v3 R := vadd t (quat_inv_trans r p).
Definition move (r : quat R) (t x : v3 R) : v3 R := vadd t (quat_inv_trans r x).

Theorem to_earth_rigid r t q p x : to_earth (moved_q r q) (moved_p r t p) x = move r t (to_earth q p x).
Proof.
  unfold to_earth, moved_q, moved_p, move. rewrite inv_trans_mult, inv_trans_add.
  destruct t, (quat_inv_trans r p), (quat_inv_trans r (quat_inv_trans q x)). unfold vadd; cbn [vx vy vz]; rnum. apply V3_eq; ring.
Qed.
Theorem dir_to_earth_rigid r q u : dir_to_earth (moved_q r q) u = quat_inv_trans r (dir_to_earth q u).
Proof. unfold dir_to_earth, moved_q. apply inv_trans_mult. Qed.
Theorem node_seen_rigid r t same q p e a : node_seen same (moved_q r q) (moved_p r t p) e a = move r t (node_seen same q p e a).
Proof. unfold node_seen. apply to_earth_rigid. Qed.
(* the vectors from nodes to control points only turn: this is what the influence and the residual see *)
Theorem r_vec_rigid r t pc node : r_vec (move r t pc) (move r t node) = quat_inv_trans r (r_vec pc node).
Proof.
  unfold r_vec, move. rewrite inv_trans_sub.
  destruct t, (quat_inv_trans r pc), (quat_inv_trans r node). unfold vadd, vsub; cbn [vx vy vz]; rnum. apply V3_eq; ring.
Qed.
