(* Classical lifting-line theory: the closed forms C18 compares the code with, and the planform facts behind its area / MAC limits. *)
From Coq Require Import Reals Lra Lia Psatz List.
From Coquelicot Require Import Coquelicot.
Import ListNotations.
Local Open Scope R_scope.

(* ---- Prandtl's elliptic solution -------------------------------------------------------------------------------------------- *)
Section Elliptic.
  (* full span b, root chord cr, freestream V, section lift slope a0, geometric angle alpha; elliptic chord c = cr sin(theta),
     elliptic circulation G = G0 sin(theta), y = -(b/2) cos(theta) *)
  Variables b cr V a0 alpha G0 : R.
  Hypotheses (Hb : 0 < b) (Hcr : 0 < cr) (HV : 0 < V) (Ha0 : 0 < a0).
  Let S := PI * b * cr / 4.                 (* area of the ellipse *)
  Let RA := b * b / S.
  (* Prandtl: an elliptic circulation induces the uniform downwash G0 / (2 b) *)
  Let w := G0 / (2 * b).
  (* the lifting-line equation at station theta:  rho V G = 1/2 rho V^2 c a0 (alpha - w / V) *)
  Definition ll_equation (theta : R) : Prop := V * (G0 * sin theta) = / 2 * V * V * (cr * sin theta) * a0 * (alpha - w / V).

  Lemma RA_pos : 0 < RA.
  Proof.
    unfold RA, S. assert (HP : 0 < PI) by apply PI_RGT_0.
    assert (0 < PI * b * cr) by (apply Rmult_lt_0_compat; [apply Rmult_lt_0_compat|]; assumption).
    apply Rdiv_lt_0_compat; [apply Rmult_lt_0_compat; assumption | lra].
  Qed.

  (* the elliptic circulation solves the lifting-line equation at every station exactly for one strength *)
  Theorem elliptic_solves : G0 = / 2 * V * cr * a0 * alpha / (1 + a0 * cr / (4 * b)) -> forall theta, ll_equation theta.
  Proof.
    intros HG theta. unfold ll_equation, w.
    assert (Hd : 1 + a0 * cr / (4 * b) <> 0) by (assert (0 < a0 * cr / (4 * b)) by (apply Rdiv_lt_0_compat; nra); lra).
    assert (Hac : 0 < a0 * cr) by nra.
    rewrite HG. field. repeat split; nra.
  Qed.
  Theorem elliptic_unique : (exists theta, sin theta <> 0 /\ ll_equation theta) -> G0 = / 2 * V * cr * a0 * alpha / (1 + a0 * cr / (4 * b)).
  Proof.
    intros [theta [Hs He]]. unfold ll_equation, w in He.
    assert (Hd : 0 < 1 + a0 * cr / (4 * b)) by (assert (0 < a0 * cr / (4 * b)) by (apply Rdiv_lt_0_compat; nra); lra).
    assert (E0 : V * sin theta * (G0 * (1 + a0 * cr / (4 * b)) - / 2 * V * cr * a0 * alpha) = 0).
    { transitivity (V * (G0 * sin theta) - / 2 * V * V * (cr * sin theta) * a0 * (alpha - G0 / (2 * b) / V)); [field; lra | rewrite He; ring]. }
    assert (E : G0 * (1 + a0 * cr / (4 * b)) = / 2 * V * cr * a0 * alpha).
    { apply Rmult_integral in E0. destruct E0 as [E0|E0]; [|lra].
      apply Rmult_integral in E0. destruct E0 as [E0|E0]; [lra | contradiction]. }
    assert (Hac : 0 < a0 * cr) by nra.
    apply (Rmult_eq_reg_r (1 + a0 * cr / (4 * b))); [|lra]. rewrite E. field. repeat split; nra.
  Qed.

  (* lift = rho V * integral of G dy = rho V G0 (pi b / 4);   CL = lift / (1/2 rho V^2 S) *)
  Definition CL := (V * G0 * (PI * b / 4)) / (/ 2 * V * V * S).
  Definition CDi := CL * (w / V).            (* induced drag = lift tilted by the uniform downwash angle *)

  Theorem CL_closed_form : G0 = / 2 * V * cr * a0 * alpha / (1 + a0 * cr / (4 * b)) -> CL = a0 * alpha / (1 + a0 / (PI * RA)).
  Proof.
    intro HG. unfold CL, RA, S. assert (HP := PI_RGT_0).
    assert (Hd : 1 + a0 * cr / (4 * b) <> 0) by (assert (0 < a0 * cr / (4 * b)) by (apply Rdiv_lt_0_compat; nra); lra).
    assert (Hac : 0 < a0 * cr) by nra. assert (0 < PI * b) by nra.
    rewrite HG. field. repeat split; nra.
  Qed.
  Theorem CDi_closed_form : CDi = CL * CL / (PI * RA).
  Proof. unfold CDi, CL, w, RA, S. assert (HP := PI_RGT_0). field. repeat split; lra. Qed.
  Theorem lift_slope : a0 * cr / (4 * b) = a0 / (PI * RA).
  Proof. unfold RA, S. assert (HP := PI_RGT_0). field. repeat split; lra. Qed.
End Elliptic.

(* roll damping: a roll rate p adds the antisymmetric angle -p y / V = (p b / 2V) cos(theta); with the elliptic chord the circulation is
   G = A2 sin(2 theta) and Prandtl's downwash of that mode is 2 A2 sin(2 theta) / (b sin(theta)) ... the closed form follows by the same algebra *)
Section RollDamping.
  Variables b cr V a0 pbar A2 : R.          (* pbar = p b / (2 V) *)
  Hypotheses (Hb : 0 < b) (Hcr : 0 < cr) (HV : 0 < V) (Ha0 : 0 < a0).
  Let Sw := PI * b * cr / 4.
  Let RAw := b * b / Sw.
  (* station theta: local angle pbar cos(theta); downwash of the sin(2 theta) mode: w = 2 A2 sin(2 theta) / (2 b sin theta) * 2 = A2 * 2 cos(theta) * 2 / (2 b) *)
  Definition ll_roll (theta : R) : Prop :=
    V * (A2 * sin (2 * theta)) = / 2 * V * V * (cr * sin theta) * a0 * (pbar * cos theta - (2 * A2 * sin (2 * theta) / (2 * b * sin theta)) / V).
  Theorem roll_mode_solves : A2 = / 4 * V * cr * a0 * pbar / (1 + 2 * (a0 * cr / (4 * b))) -> forall theta, sin theta <> 0 -> ll_roll theta.
  Proof.
    intros HA theta Hs. unfold ll_roll. rewrite sin_2a.
    assert (Hd : 1 + 2 * (a0 * cr / (4 * b)) <> 0) by (assert (0 < a0 * cr / (4 * b)) by (apply Rdiv_lt_0_compat; nra); lra).
    assert (Hac : 0 < a0 * cr) by nra.
    rewrite HA. field. repeat split; try assumption; nra.
  Qed.
  (* rolling moment = -rho V * integral of G y dy = -rho V A2 (pi b^2 / 16)   (integral of sin(2t) cos(t) sin(t) over [0,pi] = pi/4);
     Cl = moment / (1/2 rho V^2 S b) *)
  Definition Cl := - (V * A2 * (PI * b * b / 16)) / (/ 2 * V * V * Sw * b).
  Theorem Cl_pbar_closed_form : A2 = / 4 * V * cr * a0 * pbar / (1 + 2 * (a0 * cr / (4 * b))) -> Cl = - a0 / (8 * (1 + 2 * a0 / (PI * RAw))) * pbar.
  Proof.
    intro HA. unfold Cl, RAw, Sw. assert (HP := PI_RGT_0).
    assert (Hd : 1 + 2 * (a0 * cr / (4 * b)) <> 0) by (assert (0 < a0 * cr / (4 * b)) by (apply Rdiv_lt_0_compat; nra); lra).
    assert (Hac : 0 < a0 * cr) by nra. assert (0 < PI * b) by nra.
    rewrite HA. field. repeat split; nra.
  Qed.
End RollDamping.

(* ---- the elliptic planform: concavity and the trapezoid rule the code integrates areas with ---------------------------------- *)
Definition ell (x : R) : R := sqrt (1 - x * x).

Lemma ell_nonneg x : 0 <= ell x.
Proof. apply sqrt_pos. Qed.
Lemma ell_sq x : -1 <= x <= 1 -> ell x * ell x = 1 - x * x.
Proof. intro H. unfold ell. apply sqrt_sqrt. nra. Qed.

(* concavity of the elliptic chord: between two stations the chord lies above the straight line *)
Theorem ell_concave x y u : -1 <= x <= 1 -> -1 <= y <= 1 -> 0 <= u <= 1 ->
  u * ell x + (1 - u) * ell y <= ell (u * x + (1 - u) * y).
Proof.
  intros Hx Hy Hu.
  set (m := u * x + (1 - u) * y).
  assert (Hm : -1 <= m <= 1) by (unfold m; nra).
  assert (Px := ell_nonneg x). assert (Py := ell_nonneg y). assert (Pm := ell_nonneg m).
  assert (Sx := ell_sq x Hx). assert (Sy := ell_sq y Hy). assert (Sm := ell_sq m Hm).
  set (ex := ell x) in *. set (ey := ell y) in *. set (em := ell m) in *.
  (* (u ex + (1-u) ey)^2 <= u ex^2 + (1-u) ey^2 = 1 - (u x^2 + (1-u) y^2) <= 1 - m^2 = em^2 *)
  assert (H1 : (u * ex + (1 - u) * ey) * (u * ex + (1 - u) * ey) <= u * (ex * ex) + (1 - u) * (ey * ey)).
  { assert (0 <= u * (1 - u) * ((ex - ey) * (ex - ey))) by (apply Rmult_le_pos; [nra | exact (Rle_0_sqr _)]).
    assert (u * (ex * ex) + (1 - u) * (ey * ey) - (u * ex + (1 - u) * ey) * (u * ex + (1 - u) * ey) = u * (1 - u) * ((ex - ey) * (ex - ey))) by ring.
    lra. }
  assert (H2 : u * (ex * ex) + (1 - u) * (ey * ey) <= em * em).
  { rewrite Sx, Sy, Sm. unfold m. assert (0 <= u * (1 - u) * ((x - y) * (x - y))) by (apply Rmult_le_pos; [nra | exact (Rle_0_sqr _)]).
    assert (1 - (u * x + (1 - u) * y) * (u * x + (1 - u) * y) - (u * (1 - x * x) + (1 - u) * (1 - y * y)) = u * (1 - u) * ((x - y) * (x - y))) by ring.
    lra. }
  assert (H3 : 0 <= u * ex + (1 - u) * ey) by nra.
  nra.
Qed.

(* trapezoid rule on a list of stations *)
Fixpoint trap (f : R -> R) (xs : list R) : R :=
  match xs with
  | a :: ((b :: _) as r) => (b - a) * (f a + f b) / 2 + trap f r
  | _ => 0
  end.

(* inserting one more station between two neighbours never lowers the trapezoid area of a concave chord ... *)
Theorem trap_insert_concave (f : R -> R) a m c :
  a < m < c -> (c - m) / (c - a) * f a + (1 - (c - m) / (c - a)) * f c <= f m ->
  trap f [a; c] <= trap f [a; m; c].
Proof.
  intros [H1 H2] Hc. simpl.
  assert (Hd : 0 < c - a) by lra.
  assert (E : (c - m) / (c - a) * f a + (1 - (c - m) / (c - a)) * f c = ((c - m) * f a + (m - a) * f c) / (c - a)) by (field; lra).
  rewrite E in Hc.
  assert (Hc' : (c - m) * f a + (m - a) * f c <= f m * (c - a)).
  { apply (Rmult_le_reg_r (/ (c - a))); [apply Rinv_0_lt_compat; lra|]. 
    replace (f m * (c - a) * / (c - a)) with (f m) by (field; lra). exact Hc. }
  nra.
Qed.
(* ... so for the elliptic planform every refinement of the node set brings the integrated area closer from below *)
Theorem ell_trap_insert a m c : -1 <= a -> c <= 1 -> a < m < c -> trap ell [a; c] <= trap ell [a; m; c].
Proof.
  intros Ha Hc Hm. apply trap_insert_concave; [exact Hm|].
  assert (Hd : 0 < c - a) by lra.
  set (u := (c - m) / (c - a)).
  assert (Hu : 0 <= u <= 1).
  { unfold u. split; [apply Rmult_le_pos; [lra | left; apply Rinv_0_lt_compat; lra]|].
    apply (Rmult_le_reg_r (c - a)); [lra|]. unfold Rdiv. rewrite Rmult_assoc, Rinv_l by lra. lra. }
  assert (Em : u * a + (1 - u) * c = m) by (unfold u; field; lra).
  pose proof (ell_concave a c u ltac:(lra) ltac:(lra) Hu) as H. rewrite Em in H. exact H.
Qed.
(* insertion anywhere in a longer node list *)
Lemma trap_cons f a b r : trap f (a :: b :: r) = (b - a) * (f a + f b) / 2 + trap f (b :: r).
Proof. reflexivity. Qed.
Theorem ell_trap_refine (pre : list R) a m c (post : list R) : -1 <= a -> c <= 1 -> a < m < c ->
  trap ell (pre ++ a :: c :: post) <= trap ell (pre ++ a :: m :: c :: post).
Proof.
  intros Ha Hc Hm. induction pre as [|p pre IH].
  - simpl app. rewrite !trap_cons. pose proof (ell_trap_insert a m c Ha Hc Hm) as H. simpl in H. lra.
  - destruct pre as [|q pre'].
    + simpl app in *. rewrite (trap_cons ell p a), (trap_cons ell p a). lra.
    + simpl app in *. rewrite (trap_cons ell p q), (trap_cons ell p q). lra.
Qed.

(* ---- integrals of the elliptic planform: area factor pi/4 and mean aerodynamic chord 8 c_root / (3 pi) ------------------------ *)
Lemma RInt_one_minus_sq : is_RInt (fun x => 1 - x * x) 0 1 (2 / 3).
Proof.
  replace (2 / 3) with ((fun x => x - x * x * x / 3) 1 - (fun x => x - x * x * x / 3) 0) by (simpl; field).
  apply (is_RInt_derive (fun x => x - x * x * x / 3) (fun x => 1 - x * x)).
  - intros x _. auto_derive; [exact I | field].
  - intros x _. apply (ex_derive_continuous (fun x => 1 - x * x)). auto_derive. exact I.
Qed.

Lemma continuous_ell x : continuous ell x.
Proof.
  unfold ell. apply continuous_sqrt_comp. apply (ex_derive_continuous (fun x => 1 - x * x)). auto_derive. exact I.
Qed.

(* integral of cos^2 over [0, pi/2] by its antiderivative *)
Lemma RInt_cos_sq : is_RInt (fun t => cos t * cos t) 0 (PI / 2) (PI / 4).
Proof.
  replace (PI / 4) with ((fun t => t / 2 + sin t * cos t / 2) (PI / 2) - (fun t => t / 2 + sin t * cos t / 2) 0).
  2:{ simpl. rewrite cos_PI2, sin_0. field. }
  apply (is_RInt_derive (fun t => t / 2 + sin t * cos t / 2) (fun t => cos t * cos t)).
  - intros t _. auto_derive; [exact I|]. assert (H := sin2_cos2 t). unfold Rsqr in H. nra.
  - intros t _. apply (ex_derive_continuous (fun t => cos t * cos t)). auto_derive. exact I.
Qed.

(* area factor of the ellipse: the integral of sqrt(1 - x^2) over [0, 1] is pi/4 (substitution x = sin t) *)
Theorem RInt_ell : is_RInt ell 0 1 (PI / 4).
Proof.
  assert (HP := PI_RGT_0).
  assert (Hmin : Rmin 0 (PI / 2) = 0) by (apply Rmin_left; lra).
  assert (Hmax : Rmax 0 (PI / 2) = PI / 2) by (apply Rmax_right; lra).
  (* change of variable *)
  assert (Hc : is_RInt (fun t => scal (cos t) (ell (sin t))) 0 (PI / 2) (RInt ell (sin 0) (sin (PI / 2)))).
  { apply (is_RInt_comp ell sin cos).
    - intros x _. apply continuous_ell.
    - intros x _. split; [auto_derive; [exact I | ring] | apply (ex_derive_continuous cos); auto_derive; exact I]. }
  rewrite sin_0, sin_PI2 in Hc.
  (* the integrand is cos^2 on the interval *)
  assert (He : is_RInt (fun t => cos t * cos t) 0 (PI / 2) (RInt ell 0 1)).
  { apply (is_RInt_ext (fun t => scal (cos t) (ell (sin t)))); [|exact Hc].
    rewrite Hmin, Hmax. intros t Ht. unfold scal; simpl; unfold mult; simpl. unfold ell.
    assert (Hcos : 0 <= cos t) by (apply cos_ge_0; lra).
    replace (1 - sin t * sin t) with (cos t * cos t) by (assert (H := sin2_cos2 t); unfold Rsqr in H; lra).
    rewrite sqrt_square by exact Hcos. reflexivity. }
  assert (Hv : RInt ell 0 1 = PI / 4).
  { rewrite <- (is_RInt_unique _ _ _ _ He). apply is_RInt_unique. exact RInt_cos_sq. }
  rewrite <- Hv. apply (RInt_correct (V := R_CompleteNormedModule) ell 0 1). apply (ex_RInt_continuous (V := R_CompleteNormedModule)). intros z _. apply continuous_ell.
Qed.

(* mean aerodynamic chord of the elliptic wing: c(y) = cr * ell(eta); MAC = int c^2 / int c = cr (2/3) / (pi/4) = 8 cr / (3 pi) *)
Theorem elliptic_MAC cr : 0 < cr ->
  is_RInt (fun x => (cr * ell x) * (cr * ell x)) 0 1 (cr * cr * (2 / 3)) /\ is_RInt (fun x => cr * ell x) 0 1 (cr * (PI / 4)) /\
  (cr * cr * (2 / 3)) / (cr * (PI / 4)) = 8 * cr / (3 * PI).
Proof.
  intro Hcr. assert (HP := PI_RGT_0). split; [|split].
  - apply (is_RInt_ext (fun x => scal (cr * cr) (1 - x * x))).
    + rewrite Rmin_left, Rmax_right by lra. intros x Hx. unfold scal; simpl; unfold mult; simpl.
      assert (E := ell_sq x ltac:(lra)). rewrite <- E. ring.
    + apply (is_RInt_scal (fun x => 1 - x * x)). exact RInt_one_minus_sq.
  - apply (is_RInt_scal ell 0 1 cr (PI / 4)). exact RInt_ell.
  - field. split; lra.
Qed.
(* planform area: both semispans (length b/2, span fraction in [0,1]) give S = pi b cr / 4, the area used in the closed forms above *)
Theorem elliptic_area b cr : is_RInt (fun x => b / 2 * (cr * ell x)) 0 1 (PI * b * cr / 8) /\ 2 * (PI * b * cr / 8) = PI * b * cr / 4.
Proof.
  split; [|field].
  replace (PI * b * cr / 8) with (scal (b / 2) (scal cr (PI / 4))) by (unfold scal; simpl; unfold mult; simpl; field).
  apply (is_RInt_scal (fun x => cr * ell x)). apply (is_RInt_scal ell 0 1 cr (PI / 4)). exact RInt_ell.
Qed.
