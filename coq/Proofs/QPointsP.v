(* Section dihedral of a quarter-chord curve given by points (C12): the angle derived from the points is the one whose
   span direction - as the integrands of the curve and the unswept section vectors use it - is the direction of the
   differenced chord in the y-z plane, on both sides and in every quadrant (vertical fins, pieces running back inboard).
   numpy.arctan2 enters through its specification; an instance built from atan shows that the specification is met. *)
From Coq Require Import Reals Lra List Psatz.
From MuxV Require Import Base.Num Base.Vec3 Base.RInst Model.QCurve Proofs.QCurveP.
Import ListNotations.
Local Open Scope R_scope.

Definition atan2_spec (atan2 : R -> R -> R) : Prop :=
  forall y x, (x <> 0 \/ y <> 0) -> cos (atan2 y x) = x / sqrt (x * x + y * y) /\ sin (atan2 y x) = y / sqrt (x * x + y * y).

Lemma yz_pos (a b : R) : a <> 0 \/ b <> 0 -> 0 < sqrt (a * a + b * b).
Proof. intros H. apply sqrt_lt_R0. destruct H as [H|H]; nra. Qed.

Section Spec.
  Variable atan2 : R -> R -> R.
  Hypothesis Hspec : atan2_spec atan2.

  (* the direction in which the curve leaves a section with internal dihedral d: root + ds on the left with ds = -[cos, sin],
     root - ds on the right (Model/QCurve.v: ig_y, ig_z, qc_standard) *)
  Definition span_dir (left_side : bool) (d : R) : R * R := if left_side then (- cos d, - sin d) else (cos d, sin d).

  Theorem dihedral_points_direction left_side p0 p1 :
    let dy := vy p1 - vy p0 in
    let dz := vz p1 - vz p0 in
    dy <> 0 \/ dz <> 0 ->
    span_dir left_side (dihedral_points atan2 left_side p0 p1) = (dy / sqrt (dy * dy + dz * dz), dz / sqrt (dy * dy + dz * dz)).
  Proof.
    intros dy dz H. unfold span_dir, dihedral_points. rnum. fold dy dz.
    pose proof (yz_pos _ _ H) as HL.
    destruct left_side.
    - assert (H' : - dy <> 0 \/ - dz <> 0) by (destruct H; [left|right]; lra).
      destruct (Hspec (- dz) (- dy) H') as [Hc Hs]. rewrite Hc, Hs.
      replace (- dy * - dy + - dz * - dz) with (dy * dy + dz * dz) by ring.
      f_equal; field; lra.
    - destruct (Hspec dz dy H) as [Hc Hs]. rewrite Hc, Hs. reflexivity.
  Qed.

  (* the two halves of a wing given by points: the left curve is the mirror image of the right one (qc_points_mirror), and the
     derived section angles are mirror images too: equal cosine, opposite sine, i.e. d_left = - d_right up to a full turn *)
  Theorem dihedral_points_mirror p0 p1 :
    vy p1 - vy p0 <> 0 \/ vz p1 - vz p0 <> 0 ->
    let dr := dihedral_points atan2 false p0 p1 in
    let dl := dihedral_points atan2 true (mirror_y p0) (mirror_y p1) in
    cos dl = cos dr /\ sin dl = - sin dr.
  Proof.
    intros H dr dl.
    assert (Hm : vy (mirror_y p1) - vy (mirror_y p0) <> 0 \/ vz (mirror_y p1) - vz (mirror_y p0) <> 0).
    { destruct p0, p1; unfold mirror_y in *; cbn [vx vy vz] in *; rnum. destruct H; [left|right]; lra. }
    pose proof (dihedral_points_direction true (mirror_y p0) (mirror_y p1) Hm) as Hl.
    pose proof (dihedral_points_direction false p0 p1 H) as Hr.
    fold dl in Hl. fold dr in Hr. unfold span_dir in Hl, Hr.
    destruct p0 as [x0 y0 z0], p1 as [x1 y1 z1]; unfold mirror_y in *; cbn [vx vy vz] in *; rnum.
    replace ((- y1 - - y0) * (- y1 - - y0)) with ((y1 - y0) * (y1 - y0)) in Hl by ring.
    injection Hl as Hl1 Hl2. injection Hr as Hr1 Hr2.
    apply Ropp_eq_compat in Hl1. rewrite Ropp_involutive in Hl1.
    apply Ropp_eq_compat in Hl2. rewrite Ropp_involutive in Hl2.
    pose proof (yz_pos _ _ H) as HL.
    split.
    - rewrite Hl1, Hr1. field. lra.
    - rewrite Hl2, Hr2. reflexivity.
  Qed.
End Spec.

(* ---- section sweep from the same chord ---- *)
(* the x-advance of the curve per unit length in the y-z plane is +tan(internal sweep) on the left (root + ds) and -tan on the right
   (root - ds): with the angle derived from the points this is the slope of the chord, on both sides *)
Theorem sweep_points_direction (left_side : bool) (p0 p1 : v3 R) :
  let dy := vy p1 - vy p0 in
  let dz := vz p1 - vz p0 in
  (if left_side then tan (sweep_points atan (fun x => x * x) left_side p0 p1) else - tan (sweep_points atan (fun x => x * x) left_side p0 p1))
  = (vx p1 - vx p0) / sqrt (dy * dy + dz * dz).
Proof.
  intros dy dz. unfold sweep_points. rnum. fold dy dz. destruct left_side.
  - rewrite Ropp_involutive. apply atan_right_inv.
  - rewrite tan_neg, Ropp_involutive. apply atan_right_inv.
Qed.
Theorem sweep_points_mirror (p0 p1 : v3 R) :
  sweep_points atan (fun x => x * x) true (mirror_y p0) (mirror_y p1) = - sweep_points atan (fun x => x * x) false p0 p1.
Proof.
  destruct p0 as [x0 y0 z0], p1 as [x1 y1 z1]. unfold sweep_points, mirror_y; cbn [vx vy vz]; rnum.
  replace ((- y1 - - y0) * (- y1 - - y0)) with ((y1 - y0) * (y1 - y0)) by ring. reflexivity.
Qed.

(* ---- the specification is met: arctan2 from atan ---- *)
Definition atan2R (y x : R) : R :=
  match Rlt_dec 0 x with
  | left _ => atan (y / x)
  | right _ =>
    match Rlt_dec x 0 with
    | left _ => if Rle_dec 0 y then atan (y / x) + PI else atan (y / x) - PI
    | right _ => if Rlt_dec 0 y then PI / 2 else - (PI / 2)
    end
  end.

Lemma sqrt_sq_pos x : 0 < x -> sqrt (x * x) = x.
Proof. intros. apply sqrt_square. lra. Qed.

Lemma hyp_quot (x y : R) : x <> 0 -> sqrt (1 + (y / x)²) = sqrt (x * x + y * y) / Rabs x.
Proof.
  intros Hx.
  assert (Ha : 0 < Rabs x) by (apply Rabs_pos_lt; exact Hx).
  replace (1 + (y / x)²) with ((x * x + y * y) / (Rabs x * Rabs x)).
  - rewrite sqrt_div_alt by nra. rewrite sqrt_square by lra. reflexivity.
  - unfold Rsqr. replace (Rabs x * Rabs x) with (x * x).
    + field. exact Hx.
    + unfold Rabs. destruct (Rcase_abs x); ring.
Qed.

Theorem atan2R_spec : atan2_spec atan2R.
Proof.
  intros y x H. unfold atan2R.
  pose proof (yz_pos _ _ H) as HL.
  destruct (Rlt_dec 0 x) as [Hx|Hx].
  - rewrite cos_atan, sin_atan, hyp_quot by lra. rewrite (Rabs_right x) by lra. split; field; lra.
  - destruct (Rlt_dec x 0) as [Hx'|Hx'].
    + assert (Hq : sqrt (1 + (y / x)²) = sqrt (x * x + y * y) / - x).
      { rewrite hyp_quot by lra. rewrite (Rabs_left x) by lra. reflexivity. }
      destruct (Rle_dec 0 y) as [Hy|Hy].
      * rewrite cos_plus, sin_plus, cos_PI, sin_PI, cos_atan, sin_atan, Hq. split; field; lra.
      * rewrite cos_minus, sin_minus, cos_PI, sin_PI, cos_atan, sin_atan, Hq. split; field; lra.
    + assert (x = 0) by lra. subst x.
      assert (Hy0 : y <> 0) by (destruct H; [lra | assumption]).
      replace (0 * 0 + y * y) with (y * y) in * by ring.
      destruct (Rlt_dec 0 y) as [Hy|Hy].
      * rewrite cos_PI2, sin_PI2, sqrt_sq_pos by lra. split; field; lra.
      * rewrite cos_neg, sin_neg, cos_PI2, sin_PI2.
        replace (y * y) with ((- y) * (- y)) by ring. rewrite sqrt_sq_pos by lra. split; field; lra.
Qed.
