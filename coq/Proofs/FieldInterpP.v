(* Piecewise-linear interpolation of a field table (C17): barycentric coordinates sum to one and reproduce the point; they are the
   only such weights; the interpolant returns the node value at a node, reproduces every affine field exactly - whatever simplex the
   triangulation hands over -, stays between the smallest and largest node value inside the simplex, and two tetrahedra sharing a
   face agree on that face (the interpolant is well defined and continuous whichever neighbour the point location returns). *)
From Coq Require Import Reals Lra List Psatz.
From MuxV Require Import Base.Num Base.RInst Base.Vec3 Model.FieldInterp.
Import ListNotations.
Local Open Scope R_scope.

Ltac fi_unfold := unfold field_interp, bary, tet_volume6, det3, vdot, vcross, vsub in *; cbn [vx vy vz] in *; rnum.

Definition comb (l0 l1 l2 l3 : R) (a b c d : v3 R) : v3 R :=
  V3 (l0 * vx a + l1 * vx b + l2 * vx c + l3 * vx d) (l0 * vy a + l1 * vy b + l2 * vy c + l3 * vy d)
     (l0 * vz a + l1 * vz b + l2 * vz c + l3 * vz d).

Lemma bary_sum a b c d p : let '(l0, l1, l2, l3) := bary a b c d p in l0 + l1 + l2 + l3 = 1.
Proof. unfold bary. rnum. ring. Qed.

Lemma bary_point a b c d p : tet_volume6 a b c d <> 0 ->
  let '(l0, l1, l2, l3) := bary a b c d p in comb l0 l1 l2 l3 a b c d = p.
Proof.
  intros HD. destruct a as [ax ay az], b as [bx by_ bz], c as [cx cy cz], d as [dx dy dz], p as [px py pz].
  unfold comb. fi_unfold. f_equal; field; exact HD.
Qed.

(* uniqueness: any weights that sum to one and reproduce p are the barycentric coordinates (so the transform-matrix evaluation
   scipy uses and Cramer's rule are the same real numbers) *)
Lemma bary_unique a b c d p m0 m1 m2 m3 : tet_volume6 a b c d <> 0 ->
  m0 + m1 + m2 + m3 = 1 -> comb m0 m1 m2 m3 a b c d = p -> bary a b c d p = (m0, m1, m2, m3).
Proof.
  intros HD Hs Hp. subst p. assert (m0 = 1 - m1 - m2 - m3) by lra. subst m0. clear Hs.
  destruct a as [ax ay az], b as [bx by_ bz], c as [cx cy cz], d as [dx dy dz].
  unfold comb. fi_unfold.
  assert (E1 : forall x y z w x' y' z' w' : R, x = x' -> y = y' -> z = z' -> w = w' -> (x, y, z, w) = (x', y', z', w')) by (intros; subst; reflexivity).
  assert (H1 : forall D n m : R, D <> 0 -> n = m * D -> n / D = m) by (intros D n m HD' E; rewrite E; field; exact HD').
  assert (L1 : forall l1 l2 l3 : R, l1 = m1 -> l2 = m2 -> l3 = m3 -> (1 - l1 - l2 - l3, l1, l2, l3) = (1 - m1 - m2 - m3, m1, m2, m3))
    by (intros; subst; reflexivity).
  apply L1; apply H1; try exact HD; ring.
Qed.

Theorem interp_affine a b c d p (g : v3 R) (k : R) : tet_volume6 a b c d <> 0 ->
  field_interp a b c d (vdot g a + k) (vdot g b + k) (vdot g c + k) (vdot g d + k) p = vdot g p + k.
Proof.
  intros HD. destruct a as [ax ay az], b as [bx by_ bz], c as [cx cy cz], d as [dx dy dz], p as [px py pz], g as [gx gy gz].
  fi_unfold. field. exact HD.
Qed.

(* for affine data the value does not depend on the simplex used *)
Corollary interp_affine_any_simplex a b c d a' b' c' d' p g k :
  tet_volume6 a b c d <> 0 -> tet_volume6 a' b' c' d' <> 0 ->
  field_interp a b c d (vdot g a + k) (vdot g b + k) (vdot g c + k) (vdot g d + k) p =
  field_interp a' b' c' d' (vdot g a' + k) (vdot g b' + k) (vdot g c' + k) (vdot g d' + k) p.
Proof. intros H1 H2. rewrite !interp_affine by assumption. reflexivity. Qed.

Theorem interp_nodes a b c d fa fb fc fd : tet_volume6 a b c d <> 0 ->
  field_interp a b c d fa fb fc fd a = fa /\ field_interp a b c d fa fb fc fd b = fb /\
  field_interp a b c d fa fb fc fd c = fc /\ field_interp a b c d fa fb fc fd d = fd.
Proof.
  intros HD.
  assert (Ha : bary a b c d a = (1, 0, 0, 0)) by (apply bary_unique; [exact HD | lra | destruct a, b, c, d; unfold comb; cbn [vx vy vz]; f_equal; ring]).
  assert (Hb : bary a b c d b = (0, 1, 0, 0)) by (apply bary_unique; [exact HD | lra | destruct a, b, c, d; unfold comb; cbn [vx vy vz]; f_equal; ring]).
  assert (Hc : bary a b c d c = (0, 0, 1, 0)) by (apply bary_unique; [exact HD | lra | destruct a, b, c, d; unfold comb; cbn [vx vy vz]; f_equal; ring]).
  assert (Hd : bary a b c d d = (0, 0, 0, 1)) by (apply bary_unique; [exact HD | lra | destruct a, b, c, d; unfold comb; cbn [vx vy vz]; f_equal; ring]).
  unfold field_interp. rewrite Ha, Hb, Hc, Hd. rnum. repeat split; ring.
Qed.

Definition in_tet (a b c d p : v3 R) : Prop :=
  let '(l0, l1, l2, l3) := bary a b c d p in 0 <= l0 /\ 0 <= l1 /\ 0 <= l2 /\ 0 <= l3.

Theorem interp_bounds a b c d fa fb fc fd p lo hi : in_tet a b c d p ->
  lo <= fa <= hi -> lo <= fb <= hi -> lo <= fc <= hi -> lo <= fd <= hi ->
  lo <= field_interp a b c d fa fb fc fd p <= hi.
Proof.
  unfold in_tet, field_interp. pose proof (bary_sum a b c d p) as Hs.
  destruct (bary a b c d p) as [[[l0 l1] l2] l3]. rnum. intros (H0 & H1 & H2 & H3) Ha Hb Hc Hd.
  assert (l0 = 1 - l1 - l2 - l3) by lra. subst l0. split; nra.
Qed.

(* two tetrahedra that share the face (a, b, c): at a point of that face both give the same value, whatever the fourth nodes carry *)
Theorem interp_shared_face a b c d d' fa fb fc fd fd' p :
  tet_volume6 a b c d <> 0 -> tet_volume6 a b c d' <> 0 ->
  (let '(_, _, _, l3) := bary a b c d p in l3 = 0) ->
  field_interp a b c d fa fb fc fd p = field_interp a b c d' fa fb fc fd' p.
Proof.
  intros HD HD' H3. pose proof (bary_point a b c d p HD) as Hp. pose proof (bary_sum a b c d p) as Hs.
  unfold field_interp at 1. destruct (bary a b c d p) as [[[l0 l1] l2] l3]. subst l3.
  assert (E : bary a b c d' p = (l0, l1, l2, 0)).
  { apply bary_unique; [exact HD' | lra |]. rewrite <- Hp. destruct a, b, c, d, d'. unfold comb. cbn [vx vy vz]. f_equal; ring. }
  unfold field_interp. rewrite E. rnum. ring.
Qed.

(* the wind columns: an affine wind field V0 + A p is reproduced component by component *)
Theorem wind_affine a b c d p (gx gy gz : v3 R) (k : v3 R) : tet_volume6 a b c d <> 0 ->
  let w q := V3 (vdot gx q + vx k) (vdot gy q + vy k) (vdot gz q + vz k) in
  wind_interp a b c d (w a) (w b) (w c) (w d) p = w p.
Proof. intros HD w. unfold wind_interp, w. cbn [vx vy vz]. rewrite !interp_affine by exact HD. reflexivity. Qed.

Example unit_tet_inside :
  let a := V3 0 0 0 in let b := V3 1 0 0 in let c := V3 0 1 0 in let d := V3 0 0 1 in
  tet_volume6 a b c d <> 0 /\ in_tet a b c d (V3 (1/4) (1/4) (1/4)) /\ field_interp a b c d 1 2 3 5 (V3 (1/4) (1/4) (1/4)) = 11/4.
Proof. cbv zeta. unfold in_tet. fi_unfold. repeat split; try lra; field. Qed.
