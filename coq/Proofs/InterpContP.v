(* np.interp over strictly increasing abscissae is a sum of ramps, hence continuous; so the dihedral integrands of the quarter-chord
   curve are Riemann integrable for every piece-wise linear (strictly increasing) table. *)
From Coq Require Import Reals Lra List Psatz.
From Coquelicot Require Import Coquelicot.
From MuxV Require Import Base.Num Base.RInst Base.Interp Proofs.InterpP.
Import ListNotations.
Local Open Scope R_scope.

(* clamp(x; lo, hi) - lo, written with absolute values *)
Definition ramp (lo hi x : R) : R := (Rabs (x - lo) - Rabs (x - hi) + (hi - lo)) / 2.
Lemma ramp_below lo hi x : lo <= hi -> x <= lo -> ramp lo hi x = 0.
Proof. intros H1 H2. unfold ramp. rewrite (Rabs_left1 (x - lo)), (Rabs_left1 (x - hi)) by lra. lra. Qed.
Lemma ramp_inside lo hi x : lo <= x <= hi -> ramp lo hi x = x - lo.
Proof. intros [H1 H2]. unfold ramp. rewrite (Rabs_right (x - lo)), (Rabs_left1 (x - hi)) by lra. lra. Qed.
Lemma ramp_above lo hi x : lo <= hi -> hi <= x -> ramp lo hi x = hi - lo.
Proof. intros H1 H2. unfold ramp. rewrite (Rabs_right (x - lo)), (Rabs_right (x - hi)) by lra. lra. Qed.
Lemma ramp_continuous lo hi x : continuous (ramp lo hi) x.
Proof.
  unfold ramp. apply (continuous_scal_l (fun x => Rabs (x - lo) - Rabs (x - hi) + (hi - lo)) (/ 2)).
  apply (continuous_plus (fun x => Rabs (x - lo) - Rabs (x - hi)) (fun _ => hi - lo)); [|apply continuous_const].
  apply (continuous_minus (fun x => Rabs (x - lo)) (fun x => Rabs (x - hi))).
  - apply continuous_Rabs_comp. apply (continuous_minus (fun x => x) (fun _ => lo)); [apply continuous_id | apply continuous_const].
  - apply continuous_Rabs_comp. apply (continuous_minus (fun x => x) (fun _ => hi)); [apply continuous_id | apply continuous_const].
Qed.

Fixpoint pl_from (xj yj : R) (rest : list (R * R)) (x : R) : R :=
  match rest with
  | [] => 0
  | (x1, y1) :: r => (y1 - yj) / (x1 - xj) * ramp xj x1 x + pl_from x1 y1 r x
  end.

Lemma pl_zero rest : forall xj yj x, incr_from xj rest -> x <= xj -> pl_from xj yj rest x = 0.
Proof.
  induction rest as [|[x1 y1] r IH]; intros xj yj x Hi Hx; [reflexivity|].
  destruct Hi as [H1 H2]. cbn [pl_from]. rewrite ramp_below by lra. rewrite (IH x1 y1 x H2) by lra. ring.
Qed.

Lemma interp_go_pl rest : forall xj yj x, incr_from xj rest -> xj <= x -> interp_go x xj yj rest = yj + pl_from xj yj rest x.
Proof.
  induction rest as [|[x1 y1] r IH]; intros xj yj x Hi Hx.
  - cbn. rnum. ring.
  - destruct Hi as [H1 H2]. rewrite interp_go_eq. cbn [pl_from].
    destruct (Rleb x1 x) eqn:E.
    + apply Rleb_true in E. rewrite (IH x1 y1 x H2 E). rewrite ramp_above by lra. field. lra.
    + apply Rleb_false in E. rewrite (pl_zero r x1 y1 x H2) by lra. rewrite ramp_inside by lra.
      destruct (Reqb xj x) eqn:E2.
      * apply Reqb_true in E2. subst x. ring.
      * ring.
Qed.

Theorem interp_pl x0 y0 rest x : incr_from x0 rest -> interp x ((x0, y0) :: rest) = y0 + pl_from x0 y0 rest x.
Proof.
  intro Hi. unfold interp. change (nltb x x0) with (Rltb x x0). destruct (Rltb x x0) eqn:E.
  - apply Rltb_true in E. rewrite (pl_zero rest x0 y0 x Hi) by lra. ring.
  - apply Rltb_false in E. apply interp_go_pl; assumption.
Qed.

Lemma pl_continuous rest : forall xj yj x, continuous (pl_from xj yj rest) x.
Proof.
  induction rest as [|[x1 y1] r IH]; intros xj yj x.
  - apply continuous_const.
  - cbn [pl_from].
    apply (continuous_plus (fun x => (y1 - yj) / (x1 - xj) * ramp xj x1 x) (pl_from x1 y1 r)); [|apply IH].
    apply (continuous_scal_r ((y1 - yj) / (x1 - xj)) (ramp xj x1)). apply ramp_continuous.
Qed.

Theorem interp_continuous tbl x : incr tbl -> continuous (fun s => interp s tbl) x.
Proof.
  destruct tbl as [|[x0 y0] rest]; intro Hi; [apply continuous_const|].
  apply (continuous_ext (fun s => y0 + pl_from x0 y0 rest s)); [intro s; symmetry; apply interp_pl; exact Hi|].
  apply (continuous_plus (fun _ => y0) (pl_from x0 y0 rest)); [apply continuous_const | apply pl_continuous].
Qed.

(* ---- the integrability hypotheses of the quarter-chord curve theorem, discharged for constants and strictly increasing tables ---- *)
From MuxV Require Import Base.Vec3 Model.QCurve Proofs.QCurveP.

Definition wf_dist (d : dist R) : Prop := match d with DConst _ => True | DTab tbl => incr tbl end.

Lemma incr_from_rad dr x rest : incr_from x rest -> incr_from x (rad_tbl dr rest).
Proof.
  revert x; induction rest as [|[x1 y1] r IH]; intros x H; [exact I|].
  destruct H as [H1 H2]. split; [exact H1 | apply IH; exact H2].
Qed.
Lemma incr_rad dr tbl : incr tbl -> incr (rad_tbl dr tbl).
Proof. destruct tbl as [|[x0 y0] r]; [intros; exact I|]. intro H. apply incr_from_rad; exact H. Qed.

Lemma angle_val_continuous dr d x : wf_dist d -> continuous (angle_val dr d) x.
Proof.
  destruct d as [c|tbl]; intro H; cbn [angle_val].
  - apply continuous_const.
  - apply interp_continuous. apply incr_rad; exact H.
Qed.

Lemma ex_RInt_cos_angle dr d : wf_dist d -> forall a b, ex_RInt (fun s => cos (angle_val dr d s)) a b.
Proof.
  intros H a b. apply (ex_RInt_continuous (V := R_CompleteNormedModule)). intros z _.
  apply continuous_cos_comp. apply angle_val_continuous; exact H.
Qed.
Lemma ex_RInt_sin_angle dr d : wf_dist d -> forall a b, ex_RInt (fun s => sin (angle_val dr d s)) a b.
Proof.
  intros H a b. apply (ex_RInt_continuous (V := R_CompleteNormedModule)). intros z _.
  apply continuous_sin_comp. apply angle_val_continuous; exact H.
Qed.
Lemma ex_RInt_tan_angle dr d : wf_dist d -> (forall s, cos (angle_val dr d s) <> 0) ->
  forall a b, ex_RInt (fun s => tan (angle_val dr d s)) a b.
Proof.
  intros H Hc a b. apply (ex_RInt_continuous (V := R_CompleteNormedModule)). intros z _.
  apply (continuous_comp (angle_val dr d) tan); [apply angle_val_continuous; exact H|].
  apply continuous_tan. apply Hc.
Qed.

(* the curve theorem without integrability hypotheses: constants or strictly increasing (piece-wise linear) tables, sweep never 90 deg *)
Theorem qc_standard_is_curve_tables dr sw di : wf_dist sw -> wf_dist di -> (forall s, cos (angle_val dr sw s) <> 0) ->
  forall left_side root b rest s, nondecr 0 rest -> 0 <= s <= last rest 0 ->
  qc_code dr sw di left_side root b (0 :: rest) s = curve_spec dr sw di left_side root b s.
Proof.
  intros Hsw Hdi Hc. apply qc_standard_is_curve.
  - apply ex_RInt_tan_angle; assumption.
  - apply ex_RInt_cos_angle; assumption.
  - apply ex_RInt_sin_angle; assumption.
Qed.
