From Coq Require Import Reals Lra.
From MuxV Require Import Base.Num Base.Vec3 Base.RInst Model.Helpers Model.AeroState Model.Restore Proofs.HelpersP.
Local Open Scope R_scope.

Lemma normalize_unit_id (q : quat R) : qn2 q = 1 -> quat_normalize q = q.
Proof.
  intro H. destruct q as [a b c d]. unfold quat_normalize. unfold qn2 in H.
  replace (quat_norm2 (Q4 a b c d)) with 1 by (rewrite <- H; reflexivity). rnum. rewrite sqrt_1. f_equal; field.
Qed.

(* with the frame put back, the two analyses leave the complete state as they found it *)
Theorem restore_id fcos fsin fasin fatan2 d2r (s : fstate R) : qn2 (f_q s) = 1 -> restore fcos fsin fasin fatan2 d2r s = s.
Proof.
  intro Hq. destruct s as [p q v w fr]. cbn [f_q] in Hq. unfold restore, reset_from, set_state_dict. cbn [f_p f_q f_v f_w f_frame].
  rewrite (normalize_unit_id q Hq). cbn [parse_rates]. rewrite (inv_trans_trans_unit q v Hq). reflexivity.
Qed.
(* without it, everything but the frame comes back: a rate frame other than "body" is lost *)
Theorem restore_without_frame_loses_it fcos fsin fasin fatan2 d2r (s : fstate R) : qn2 (f_q s) = 1 ->
  restore_without_frame fcos fsin fasin fatan2 d2r s = mk_fs (f_p s) (f_q s) (f_v s) (f_w s) FBody.
Proof.
  intro Hq. destruct s as [p q v w fr]. cbn [f_q] in Hq. unfold restore_without_frame, reset_from, set_state_dict. cbn [f_p f_q f_v f_w f_frame].
  rewrite (normalize_unit_id q Hq). cbn [parse_rates]. rewrite (inv_trans_trans_unit q v Hq). reflexivity.
Qed.
