(* The per-pair slices fill exactly the two columns the interpolator reads: the blended coefficient is the linear
   interpolation between the two bracketing airfoils, on both sides. *)
From Coq Require Import Reals Lra List Bool Arith Lia.
From MuxV Require Import Base.Num Base.RInst Model.AirfoilBlend.
Import ListNotations.
Local Open Scope R_scope.

(* ---- counting a predicate that is "prefix-closed" along a list ---- *)
Section Count.
  Variable p : R -> bool.
  Definition prefix_closed (l : list R) : Prop :=
    forall a b, (a <= b)%nat -> (b < length l)%nat -> p (nth b l 0) = true -> p (nth a l 0) = true.

  Lemma prefix_closed_tl c r : prefix_closed (c :: r) -> prefix_closed r.
  Proof. intros H a b Hab Hb Hp. apply (H (S a) (S b)); cbn; auto; lia. Qed.

  Lemma count_cons c r : count p (c :: r) = ((if p c then 1 else 0) + count p r)%nat.
  Proof. unfold count. cbn [filter]. destruct (p c); reflexivity. Qed.
  Lemma count_le l : (count p l <= length l)%nat.
  Proof. induction l as [|c r IH]; [cbn; lia|]. rewrite count_cons. cbn [length]. destruct (p c); lia. Qed.

  Lemma count_all_false l : (forall a, (a < length l)%nat -> p (nth a l 0) = false) -> count p l = 0%nat.
  Proof.
    induction l as [|c r IH]; intros H; [reflexivity|]. rewrite count_cons.
    pose proof (H 0%nat) as H0. cbn [nth length] in H0. rewrite H0 by lia. cbn. apply IH. intros a Ha. apply (H (S a)). cbn; lia.
  Qed.

  Lemma count_iff l : prefix_closed l -> forall i, (i < length l)%nat -> ((i < count p l)%nat <-> p (nth i l 0) = true).
  Proof.
    induction l as [|c r IH]; intros Hpc i Hi; [cbn in Hi; lia|].
    rewrite count_cons. destruct i as [|i'].
    - cbn [nth]. destruct (p c) eqn:E; [split; [reflexivity|lia]|].
      split; [|discriminate]. intros Hlt. exfalso.
      assert (count p r = 0%nat).
      { apply count_all_false. intros a Ha. destruct (p (nth a r 0)) eqn:E2; [|reflexivity].
        pose proof (Hpc 0%nat (S a)) as H0. cbn [nth length] in H0. rewrite H0 in E; [discriminate|lia|lia|assumption]. }
      lia.
    - cbn [nth length] in *. pose proof (IH (prefix_closed_tl _ _ Hpc) i' (proj2 (Nat.succ_lt_mono _ _) Hi)) as IHi.
      destruct (p c) eqn:E.
      + split; intros H; [apply IHi; lia | apply IHi in H; lia].
      + (* p c = false: then nothing further is true *)
        split.
        * intros H. exfalso. assert (Hc : (i' < count p r)%nat) by lia. apply IHi in Hc.
          pose proof (Hpc 0%nat (S i')) as H0. cbn [nth length] in H0. rewrite H0 in E; [discriminate|lia|lia|assumption].
        * intros H. exfalso. pose proof (Hpc 0%nat (S i')) as H0. cbn [nth length] in H0. rewrite H0 in E; [discriminate|lia|lia|assumption].
  Qed.
End Count.

Definition ascending (l : list R) : Prop := forall a b, (a <= b)%nat -> (b < length l)%nat -> nth a l 0 <= nth b l 0.
Definition descending (l : list R) : Prop := forall a b, (a <= b)%nat -> (b < length l)%nat -> nth b l 0 <= nth a l 0.
Definition strictly_increasing (l : list R) : Prop := forall a b, (a < b)%nat -> (b < length l)%nat -> nth a l 0 < nth b l 0.

Lemma asc_lt_closed l s : ascending l -> prefix_closed (fun c => Rltb c s) l.
Proof. intros H a b Hab Hb Hp. apply Rltb_true in Hp. apply Rltb_true. pose proof (H a b Hab Hb). lra. Qed.
Lemma asc_le_closed l s : ascending l -> prefix_closed (fun c => Rleb c s) l.
Proof. intros H a b Hab Hb Hp. apply Rleb_true in Hp. apply Rleb_true. pose proof (H a b Hab Hb). lra. Qed.
Lemma desc_gt_closed l s : descending l -> prefix_closed (fun c => Rltb s c) l.
Proof. intros H a b Hab Hb Hp. apply Rltb_true in Hp. apply Rltb_true. pose proof (H a b Hab Hb). lra. Qed.
Lemma strict_asc l : strictly_increasing l -> ascending l.
Proof. intros H a b Hab Hb. destruct (Nat.eq_dec a b) as [->|Hn]; [lra|]. apply Rlt_le. apply H; lia. Qed.

(* searchsorted on non-decreasing stations (a step change repeats a station) *)
Lemma searchsorted_between spans x j : ascending spans -> (S j < length spans)%nat ->
  nth j spans 0 < x <= nth (S j) spans 0 -> searchsorted spans x = S j.
Proof.
  intros Hs Hj [H1 H2]. unfold searchsorted. change (fun s => nltb s x) with (fun s => Rltb s x).
  pose proof (count_iff (fun s => Rltb s x) spans (asc_lt_closed spans x Hs)) as C.
  assert (A : (j < count (fun s => Rltb s x) spans)%nat) by (apply C; [lia | apply Rltb_true; assumption]).
  assert (B : ~ (S j < count (fun s => Rltb s x) spans)%nat).
  { intro Hc. apply C in Hc; [|lia]. apply Rltb_true in Hc. lra. }
  lia.
Qed.
Lemma searchsorted_first spans x : strictly_increasing spans -> (0 < length spans)%nat -> x <= nth 0 spans 0 -> searchsorted spans x = 0%nat.
Proof.
  intros Hs Hl Hx. unfold searchsorted. change (fun s => nltb s x) with (fun s => Rltb s x).
  apply count_all_false. intros a Ha. apply Rltb_false.
  destruct a as [|a']; [assumption|]. pose proof (Hs 0%nat (S a')) as H. apply Rlt_le. eapply Rle_lt_trans; [exact Hx|apply H; lia].
Qed.

(* the slices *)
Lemma slices_right_nth cps st prev j : (j < length st)%nat ->
  nth j (slices_right cps st prev) (0%nat, 0%nat) =
  (match j with 0%nat => prev | S j' => count (fun c => Rleb c (nth j' st 0)) cps end, count (fun c => Rleb c (nth j st 0)) cps).
Proof.
  revert prev j; induction st as [|s r IH]; intros prev j Hj; [cbn in Hj; lia|].
  cbn [slices_right]. destruct j as [|j']; [reflexivity|]. cbn [nth]. rewrite IH by (cbn in Hj; lia).
  destruct j'; reflexivity.
Qed.
Lemma slices_right_len cps st prev : length (slices_right cps st prev) = length st.
Proof. revert prev; induction st as [|s r IH]; intros prev; [reflexivity|]. cbn. rewrite IH. reflexivity. Qed.
Lemma slices_left_nth cps st prev j : (j < length st)%nat ->
  nth j (slices_left cps st prev) (0%nat, 0%nat) =
  (count (fun c => Rltb (nth j st 0) c) cps, match j with 0%nat => prev | S j' => count (fun c => Rltb (nth j' st 0) c) cps end).
Proof.
  revert prev j; induction st as [|s r IH]; intros prev j Hj; [cbn in Hj; lia|].
  cbn [slices_left]. destruct j as [|j']; [reflexivity|]. cbn [nth]. rewrite IH by (cbn in Hj; lia).
  destruct j'; reflexivity.
Qed.
Lemma slices_left_len cps st prev : length (slices_left cps st prev) = length st.
Proof. revert prev; induction st as [|s r IH]; intros prev; [reflexivity|]. cbn. rewrite IH. reflexivity. Qed.

Lemma nth_tl (l : list R) j : nth j (tl l) 0 = nth (S j) l 0.
Proof. destruct l; [destruct j; reflexivity|reflexivity]. Qed.
Lemma length_tl (l : list R) : length (tl l) = (length l - 1)%nat.
Proof. destruct l; cbn; lia. Qed.

(* membership of control point i in the slice of pair j *)
Lemma in_slice_right cps spans i j : ascending cps -> (i < length cps)%nat -> (S j < length spans)%nat ->
  in_slice (nth j (slices false cps spans) (0%nat, 0%nat)) i = true <->
  (match j with 0%nat => True | _ => nth j spans 0 < nth i cps 0 end) /\ nth i cps 0 <= nth (S j) spans 0.
Proof.
  intros Ha Hi Hj. unfold slices. change (fun c => nleb c ?s) with (fun c => Rleb c s).
  rewrite slices_right_nth by (rewrite length_tl; lia). unfold in_slice. cbn [fst snd].
  rewrite andb_true_iff, Nat.leb_le, Nat.ltb_lt, !nth_tl.
  pose proof (count_iff (fun c => Rleb c (nth (S j) spans 0)) cps (asc_le_closed cps _ Ha) i Hi) as C1.
  rewrite C1, Rleb_true. destruct j as [|j'].
  - split; intros [_ H]; split; [exact I|assumption|lia|assumption].
  - rewrite nth_tl.
    pose proof (count_iff (fun c => Rleb c (nth (S j') spans 0)) cps (asc_le_closed cps _ Ha) i Hi) as C0.
    split; intros [H1 H2]; split; try assumption.
    + destruct (Rlt_dec (nth (S j') spans 0) (nth i cps 0)); [assumption|]. exfalso.
      assert (Hc : (i < count (fun c => Rleb c (nth (S j') spans 0%R)) cps)%nat) by (apply C0; apply Rleb_true; lra). lia.
    + destruct (le_lt_dec (count (fun c => Rleb c (nth (S j') spans 0%R)) cps) i); [assumption|]. exfalso.
      apply C0 in l. apply Rleb_true in l. lra.
Qed.
Lemma in_slice_left cps spans i j : descending cps -> (i < length cps)%nat -> (S j < length spans)%nat ->
  in_slice (nth j (slices true cps spans) (0%nat, 0%nat)) i = true <->
  nth i cps 0 <= nth (S j) spans 0 /\ (match j with 0%nat => True | _ => nth j spans 0 < nth i cps 0 end).
Proof.
  intros Ha Hi Hj. unfold slices. change (fun c => nltb ?s c) with (fun c => Rltb s c).
  rewrite slices_left_nth by (rewrite length_tl; lia). unfold in_slice. cbn [fst snd].
  rewrite andb_true_iff, Nat.leb_le, Nat.ltb_lt, !nth_tl.
  pose proof (count_iff (fun c => Rltb (nth (S j) spans 0) c) cps (desc_gt_closed cps _ Ha) i Hi) as C1.
  split.
  - intros [H1 H2]. split.
    + destruct (Rle_dec (nth i cps 0) (nth (S j) spans 0)); [assumption|]. exfalso.
      assert (Hc : (i < count (fun c => Rltb (nth (S j) spans 0%R) c) cps)%nat) by (apply C1; apply Rltb_true; lra). lia.
    + destruct j as [|j']; [exact I|]. rewrite nth_tl in H2.
      apply (count_iff (fun c => Rltb (nth (S j') spans 0) c) cps (desc_gt_closed cps _ Ha) i Hi) in H2. apply Rltb_true in H2. assumption.
  - intros [H1 H2]. split.
    + destruct (le_lt_dec (count (fun c => Rltb (nth (S j) spans 0%R) c) cps) i); [assumption|]. exfalso.
      apply C1 in l. apply Rltb_true in l. lra.
    + destruct j as [|j']; [assumption|]. rewrite nth_tl.
      apply (count_iff (fun c => Rltb (nth (S j') spans 0) c) cps (desc_gt_closed cps _ Ha) i Hi). apply Rltb_true. assumption.
Qed.
Lemma slices_len left_side cps spans : length (slices left_side cps spans) = (length spans - 1)%nat.
Proof. unfold slices. destruct left_side; [rewrite slices_left_len|rewrite slices_right_len]; apply length_tl. Qed.

(* ---- the main theorem ---- *)
Lemma coef_pair sls (fv : nat -> nat -> R) i j :
  (j < length sls)%nat -> in_slice (nth j sls (0%nat, 0%nat)) i = true ->
  coef sls fv i j = fv i j /\
  ((S j < length sls)%nat -> in_slice (nth (S j) sls (0%nat, 0%nat)) i = false -> coef sls fv i (S j) = fv i (S j)) /\
  ((length sls <= S j)%nat -> coef sls fv i (S j) = fv i (S j)).
Proof.
  intros Hj Hin. unfold coef. repeat split.
  - apply Nat.ltb_lt in Hj. rewrite Hj, Hin. reflexivity.
  - intros Hj1 Hout. apply Nat.ltb_lt in Hj1. rewrite Hj1, Hout. cbn [andb]. replace (S j - 1)%nat with j by lia. rewrite Hin. reflexivity.
  - intros Hge. apply Nat.ltb_ge in Hge. rewrite Hge. cbn [andb]. replace (S j - 1)%nat with j by lia. rewrite Hin. reflexivity.
Qed.

Theorem blend_spec (left_side : bool) (cps spans : list R) (fv : nat -> nat -> R) (i j : nat) :
  ascending spans -> (if left_side then descending cps else ascending cps) ->
  (i < length cps)%nat -> (S j < length spans)%nat ->
  nth j spans 0 < nth i cps 0 <= nth (S j) spans 0 -> nth i cps 0 < nth (length spans - 1) spans 0 ->
  blend_at left_side cps spans fv i =
    let d := (nth i cps 0 - nth j spans 0) / (nth (S j) spans 0 - nth j spans 0) in
    (1 - d) * fv i j + d * fv i (S j).
Proof.
  intros Hs Hc Hi Hj [Hx1 Hx2] Hlast. unfold blend_at. change (@n0 R RNum) with 0.
  rewrite (searchsorted_between spans (nth i cps 0) j Hs Hj (conj Hx1 Hx2)).
  replace (S j - 1)%nat with j by lia. cbv zeta.
  set (sls := slices left_side cps spans).
  assert (Hlen : length sls = (length spans - 1)%nat) by apply slices_len.
  destruct left_side.
  - (* left: control points in descending order *)
    assert (Hin : in_slice (nth j sls (0%nat, 0%nat)) i = true).
    { apply in_slice_left; try assumption. split; [assumption|]. destruct j; [exact I|assumption]. }
    destruct (coef_pair sls fv i j) as [C1 [C2 C3]]; [lia|assumption|]. rewrite C1.
    destruct (le_lt_dec (length sls) (S j)) as [Hge|Hlt].
    + rewrite C3 by assumption. rcompute. ring.
    + rewrite C2; [rcompute; ring|assumption|].
      destruct (in_slice (nth (S j) sls (0%nat, 0%nat)) i) eqn:E; [|reflexivity]. exfalso.
      apply in_slice_left in E; try assumption; [|lia]. destruct E as [_ E]. lra.
  - (* right: control points in ascending order; the same pair as on the left *)
    assert (Hin : in_slice (nth j sls (0%nat, 0%nat)) i = true).
    { apply in_slice_right; try assumption. split; [destruct j; [exact I|assumption]|assumption]. }
    destruct (coef_pair sls fv i j) as [C1 [C2 C3]]; [lia|assumption|]. rewrite C1.
    destruct (le_lt_dec (length sls) (S j)) as [Hge|Hl].
    + rewrite C3 by assumption. rcompute. ring.
    + rewrite C2; [rcompute; ring|assumption|].
      destruct (in_slice (nth (S j) sls (0%nat, 0%nat)) i) eqn:E; [|reflexivity]. exfalso.
      apply in_slice_right in E; try assumption; [|lia]. destruct E as [E _]. lra.
Qed.
