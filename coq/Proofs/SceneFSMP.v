(* Cache coherence of the Scene state machine for all call histories. *)
From Coq Require Import List Bool Arith Lia.
From MuxV Require Import Model.SceneFSM.
Import ListNotations.

Definition I1 (s : scene) : Prop := geo s = geo_of (acs s).
Definition I2 (s : scene) : Prop := solved s = true -> snap s = acs s.
Definition Inv (s : scene) : Prop := I1 s /\ I2 s.

Lemma geo_of_upd n f l :
  (forall a, a_name (f a) = a_name a /\ a_geom (f a) = a_geom a /\ a_pose (f a) = a_pose a) ->
  geo_of (upd n f l) = geo_of l.
Proof.
  intros Hf. unfold geo_of. induction l as [|a r IH]; [reflexivity|]. cbn [upd]. destruct (Nat.eqb (a_name a) n); cbn [map].
  - destruct (Hf a) as [H1 [H2 H3]]. rewrite H1, H2, H3. reflexivity.
  - rewrite IH. reflexivity.
Qed.
Lemma geo_of_upd_same_pose n l a p v :
  get n l = Some a -> a_pose a = p ->
  geo_of (upd n (fun x => mk_ac (a_name x) (a_geom x) p v (a_ctrl x)) l) = geo_of l.
Proof.
  unfold geo_of. induction l as [|b r IH]; intros Hg Hp; [discriminate|]. cbn [upd get] in *.
  destruct (Nat.eqb (a_name b) n); cbn [map].
  - inversion Hg; subst. reflexivity.
  - rewrite IH by assumption. reflexivity.
Qed.

Definition all_fresh (os : list output) : Prop := Forall fresh os.
Lemma all_fresh_app a b : all_fresh a -> all_fresh b -> all_fresh (a ++ b).
Proof. intros; apply Forall_app; split; assumption. Qed.

(* primitives that keep the geometry cache coherent *)
Definition geo_safe (p : prim) : Prop := match p with PSetPoseVel _ _ _ => False | _ => True end.
Lemma pstep_I1 s p : I1 s -> geo_safe p -> I1 (fst (pstep s p)) /\ all_fresh (snd (pstep s p)).
Proof.
  unfold I1. intros H Hs. destruct p; cbn in *; try contradiction.
  - split; [|constructor]. rewrite geo_of_upd; [assumption|]. intros; cbn; auto.
  - split; [|constructor]. rewrite geo_of_upd; [assumption|]. intros; cbn; auto.
  - split; [reflexivity|constructor].
  - split; [assumption|constructor].
  - split; [assumption|]. repeat constructor. cbn. assumption.
  - destruct (solved s); cbn; [split; [assumption|constructor]|]. split; [assumption|]. repeat constructor. cbn. assumption.
Qed.
Lemma prun_I1 ps : forall s, I1 s -> Forall geo_safe ps -> I1 (fst (prun s ps)) /\ all_fresh (snd (prun s ps)).
Proof.
  induction ps as [|p r IH]; intros s H Hs; [split; [assumption|constructor]|].
  inversion Hs as [|? ? Hp Hr]; subst. cbn [prun].
  destruct (pstep_I1 s p H Hp) as [H1 F1]. destruct (pstep s p) as [s1 o1]. cbn in *.
  destruct (IH s1 H1 Hr) as [H2 F2]. destruct (prun s1 r) as [s2 o2]. cbn in *.
  split; [assumption | apply all_fresh_app; assumption].
Qed.
(* a pose change immediately followed by a refresh is safe as a block *)
Lemma pose_block s n p v rest :
  I1 s -> (forall s', I1 s' -> I1 (fst (prun s' rest)) /\ all_fresh (snd (prun s' rest))) ->
  I1 (fst (prun s (PSetPoseVel n p v :: PRefresh :: rest))) /\ all_fresh (snd (prun s (PSetPoseVel n p v :: PRefresh :: rest))).
Proof.
  intros H Hrest. cbn [prun pstep].
  set (s1 := mk_scene (acs (mk_scene (upd n (fun a => mk_ac (a_name a) (a_geom a) p v (a_ctrl a)) (acs s)) (geo s) (solved s) (snap s)))
                      (geo_of (acs (mk_scene (upd n (fun a => mk_ac (a_name a) (a_geom a) p v (a_ctrl a)) (acs s)) (geo s) (solved s) (snap s)))) false
                      (snap (mk_scene (upd n (fun a => mk_ac (a_name a) (a_geom a) p v (a_ctrl a)) (acs s)) (geo s) (solved s) (snap s)))).
  assert (H1 : I1 s1) by reflexivity.
  destruct (Hrest s1 H1) as [H2 F2]. destruct (prun s1 rest) as [s2 o2]. cbn in *. split; assumption.
Qed.

Lemma vel_steps_safe n vs : Forall geo_safe (vel_steps n vs).
Proof. induction vs; cbn; repeat constructor; assumption. Qed.
Lemma ctrl_steps_safe n cs : Forall geo_safe (ctrl_steps n cs).
Proof. induction cs; cbn; repeat constructor; assumption. Qed.

Lemma pose_steps_ok n ps rest :
  (forall s', I1 s' -> I1 (fst (prun s' rest)) /\ all_fresh (snd (prun s' rest))) ->
  forall s, I1 s -> I1 (fst (prun s (pose_steps n ps ++ rest))) /\ all_fresh (snd (prun s (pose_steps n ps ++ rest))).
Proof.
  intros Hrest. induction ps as [|[p v] r IH]; intros s H; [apply Hrest; assumption|].
  cbn [pose_steps flat_map app fst snd]. change (flat_map _ r) with (pose_steps n r).
  apply pose_block; [assumption|]. intros s' H'.
  cbn [prun]. destruct (pstep_I1 s' PSolve H' I) as [H1 F1]. destruct (pstep s' PSolve) as [s1 o1]. cbn in *.
  destruct (IH s1 H1) as [H2 F2]. destruct (prun s1 (pose_steps n r ++ rest)) as [s2 o2]. cbn in *.
  split; [assumption | apply all_fresh_app; assumption].
Qed.

(* the solved flag after a primitive sequence that ends in PUnsolve is false; after PSolve the snapshot is current *)
Lemma prun_app s a b : prun s (a ++ b) = let '(s1, o1) := prun s a in let '(s2, o2) := prun s1 b in (s2, o1 ++ o2).
Proof.
  revert s; induction a as [|p r IH]; intros s; cbn [app prun].
  - destruct (prun s b); reflexivity.
  - destruct (pstep s p) as [s1 o1]. rewrite IH. destruct (prun s1 r) as [s2 o2]. destruct (prun s2 b) as [s3 o3].
    rewrite app_assoc. reflexivity.
Qed.
Lemma ends_unsolved s ps : solved (fst (prun s (ps ++ [PUnsolve]))) = false.
Proof.
  rewrite prun_app. destruct (prun s ps) as [s1 o1]. cbn. reflexivity.
Qed.

Ltac fsm := cbn [app prun pstep fst snd acs geo solved snap].
Theorem step_inv s o : Inv s -> Inv (fst (step s o)) /\ all_fresh (snd (step s o)).
Proof.
  intros [H1 H2]. destruct o; cbn [step].
  - (* AddAircraft *)
    fsm. split; [split; [reflexivity|unfold I2; fsm; intros; discriminate]|constructor].
  - (* RemoveAircraft *)
    destruct (has_name n (acs s)); [|split; [split; assumption|repeat constructor]].
    fsm. destruct (del n (acs s)) eqn:E; fsm; (split; [split; [reflexivity|unfold I2; fsm; intros; discriminate]|constructor]).
  - (* SetState *)
    destruct (get n (acs s)) as [a|] eqn:G; [|split; [split; assumption|repeat constructor]].
    destruct (Nat.eqb (a_pose a) pose) eqn:E.
    + apply Nat.eqb_eq in E. fsm. split; [split; [|unfold I2; fsm; intros; discriminate]|constructor].
      unfold I1 in *. fsm. rewrite (geo_of_upd_same_pose n (acs s) a pose vel G E). assumption.
    + fsm. split; [split; [reflexivity|unfold I2; fsm; intros; discriminate]|constructor].
  - (* SetControls *)
    destruct (has_name n (acs s)); [|split; [split; assumption|repeat constructor]].
    fsm. split; [split; [|unfold I2; fsm; intros; discriminate]|constructor].
    unfold I1 in *. fsm. rewrite geo_of_upd; [assumption|]. intros; cbn; auto.
  - (* SolveForces *)
    destruct (acs s) eqn:E; [split; [split; assumption|repeat constructor]|].
    fsm. rewrite E. split; [split; [unfold I1 in *; fsm; rewrite <- E; assumption|unfold I2; fsm; intros; reflexivity]|].
    repeat constructor. cbn [fresh]. unfold I1 in H1. rewrite <- E. assumption.
  - (* Distributions *)
    destruct (acs s) eqn:E; [split; [split; assumption|repeat constructor]|].
    fsm. destruct (solved s) eqn:Es; fsm.
    + split; [split; [assumption|assumption]|]. repeat constructor; cbn [fresh]; [apply H2; assumption|assumption].
    + rewrite E. split; [split; [unfold I1 in *; fsm; rewrite <- E; assumption|unfold I2; fsm; intros; reflexivity]|].
      repeat constructor; cbn [fresh]; unfold I1 in H1; rewrite <- E; assumption.
  - (* VelAnalysis *)
    destruct (get n (acs s)) as [a|]; [|split; [split; assumption|repeat constructor]].
    destruct (prun_I1 (vel_steps n perturbed ++ [PSetVel n (a_vel a); PUnsolve]) s H1) as [HI HF].
    { apply Forall_app; split; [apply vel_steps_safe|repeat constructor]. }
    split; [split; [assumption|]|assumption].
    intros Hs. exfalso. change [PSetVel n (a_vel a); PUnsolve] with ([PSetVel n (a_vel a)] ++ [PUnsolve]) in Hs.
    rewrite app_assoc, ends_unsolved in Hs. discriminate.
  - (* CtrlAnalysis *)
    destruct (get n (acs s)) as [a|]; [|split; [split; assumption|repeat constructor]].
    destruct (prun_I1 (ctrl_steps n perturbed ++ [PSetCtrl n (a_ctrl a); PUnsolve]) s H1) as [HI HF].
    { apply Forall_app; split; [apply ctrl_steps_safe|repeat constructor]. }
    split; [split; [assumption|]|assumption].
    intros Hs. exfalso. change [PSetCtrl n (a_ctrl a); PUnsolve] with ([PSetCtrl n (a_ctrl a)] ++ [PUnsolve]) in Hs.
    rewrite app_assoc, ends_unsolved in Hs. discriminate.
  - (* PoseAnalysis *)
    destruct (get n (acs s)) as [a|]; [|split; [split; assumption|repeat constructor]].
    destruct (pose_steps_ok n perturbed [PSetPoseVel n (a_pose a) (a_vel a); PRefresh; PUnsolve]) with (s := s) as [HI HF]; [|assumption|].
    { intros s' H'. apply pose_block; [assumption|]. intros s'' H''. apply prun_I1; [assumption|repeat constructor]. }
    split; [split; [assumption|]|assumption].
    intros Hs. exfalso.
    change [PSetPoseVel n (a_pose a) (a_vel a); PRefresh; PUnsolve] with ([PSetPoseVel n (a_pose a) (a_vel a); PRefresh] ++ [PUnsolve]) in Hs.
    rewrite app_assoc, ends_unsolved in Hs. discriminate.
  - (* TrimSet *)
    destruct (get n (acs s)) as [a|]; [|split; [split; assumption|repeat constructor]].
    set (ps := flat_map (fun vc : nat * nat => [PSetVel n (fst vc); PSetCtrl n (snd vc); PSolve]) visited).
    destruct (prun_I1 (ps ++ [PSetVel n vel; PSetCtrl n ctrl; PUnsolve]) s H1) as [HI HF].
    { apply Forall_app; split; [|repeat constructor]. unfold ps. clear. induction visited; cbn; repeat constructor; assumption. }
    split; [split; [assumption|]|assumption].
    intros Hs. exfalso. change [PSetVel n vel; PSetCtrl n ctrl; PUnsolve] with ([PSetVel n vel; PSetCtrl n ctrl] ++ [PUnsolve]) in Hs.
    rewrite app_assoc, ends_unsolved in Hs. discriminate.
Qed.

Theorem run_inv os : forall s, Inv s -> Inv (fst (run s os)) /\ all_fresh (snd (run s os)).
Proof.
  induction os as [|o r IH]; intros s H; [split; [assumption|constructor]|].
  cbn [run]. destruct (step_inv s o H) as [H1 F1]. destruct (step s o) as [s1 o1]. cbn in *.
  destruct (IH s1 H1) as [H2 F2]. destruct (run s1 r) as [s2 o2]. cbn in *.
  split; [assumption | apply all_fresh_app; assumption].
Qed.
Lemma init_inv : Inv init.
Proof. split; [reflexivity|unfold I2; fsm; intros; discriminate]. Qed.
