(* The finite-difference step of a control derivative applied to a control input (C09, C15): a deflection given as a span-wise table is
   moved as a whole - the input seen by every section changes by exactly the step, the span column and hence the end-point test of the
   control surface are untouched.  (Adding the step to the whole array, as the pinned snapshot did, moves the span column too: the
   end-point test then rejects the perturbed table whenever the step is not zero.) *)
From Coq Require Import Reals Lra List Bool.
From MuxV Require Import Base.Num Base.RInst Base.Interp Proofs.InterpP Model.Controls.
Import ListNotations.
Local Open Scope R_scope.

Definition shift_tbl (d : R) (tbl : list (R * R)) : list (R * R) := map (fun p => (fst p + 0, snd p + d)) tbl.

Lemma shift_tbl_fst d tbl : map fst (shift_tbl d tbl) = map fst tbl.
Proof. unfold shift_tbl. rewrite map_map. apply map_ext. intros [x y]. cbn. ring. Qed.

Lemma interp_go_shift d x xj yj rest : interp_go x xj (yj + d) (shift_tbl d rest) = interp_go x xj yj rest + d.
Proof.
  revert xj yj; induction rest as [|[x1 y1] r IH]; intros xj yj; [reflexivity|].
  change (shift_tbl d ((x1, y1) :: r)) with ((x1 + 0, y1 + d) :: shift_tbl d r).
  rewrite (interp_go_eq x xj (yj + d)), (interp_go_eq x xj yj). replace (x1 + 0) with x1 by ring.
  destruct (Rleb x1 x); [apply IH|].
  destruct (Reqb xj x); [reflexivity|]. unfold Rdiv. ring.
Qed.

Theorem interp_shift d x tbl : tbl <> [] -> interp x (shift_tbl d tbl) = interp x tbl + d.
Proof.
  destruct tbl as [|[x0 y0] r]; [congruence|]. intros _.
  change (shift_tbl d ((x0, y0) :: r)) with ((x0 + 0, y0 + d) :: shift_tbl d r). unfold interp.
  replace (x0 + 0) with x0 by ring.
  change (nltb x x0) with (Rltb x x0). destruct (Rltb x x0); [reflexivity|]. apply interp_go_shift.
Qed.

(* every section inside the surface sees the input moved by the step, for a number and for a table (a function cannot be perturbed: the code
   raises on function + float) *)
Theorem input_at_shift (c : cinput R) d s :
  (match c with CConst _ => True | CTable tbl => tbl <> [] | CFun _ => False end) ->
  input_at (shift_input c d) true s = input_at c true s + d.
Proof.
  destruct c as [v|tbl|f]; intros H; cbn [shift_input input_at].
  - reflexivity.
  - change (map (fun p : R * R => (@nadd R RNum (fst p) (@n0 R RNum), @nadd R RNum (snd p) d)) tbl) with (shift_tbl d tbl).
    apply interp_shift. exact H.
  - destruct H.
Qed.

(* and the shifted table is accepted by the same surface *)
Lemma last_map {A B} (f : A -> B) l a : last (map f l) (f a) = f (last l a).
Proof. revert a; induction l as [|x l IH]; intros a; [reflexivity|]. destruct l as [|y l]; [reflexivity|]. change (last (map f (y :: l)) (f a) = f (last (y :: l) a)). apply IH. Qed.

Lemma shift_input_table d tbl : shift_input (CTable tbl) d = CTable (shift_tbl d tbl).
Proof. reflexivity. Qed.
Lemma ends_ok_fst root tip p r :
  table_ends_ok root tip (CTable (p :: r)) = Reqb (fst p) root && Reqb (last (map fst (p :: r)) (fst p)) tip.
Proof. cbn [table_ends_ok]. rewrite (last_map fst). reflexivity. Qed.

Theorem shift_keeps_ends (c : cinput R) d root tip : table_ends_ok root tip (shift_input c d) = table_ends_ok root tip c.
Proof.
  destruct c as [v|tbl|f]; [reflexivity| |reflexivity]. rewrite shift_input_table. destruct tbl as [|[x0 y0] r]; [reflexivity|].
  change (shift_tbl d ((x0, y0) :: r)) with ((x0 + 0, y0 + d) :: shift_tbl d r).
  rewrite !ends_ok_fst. cbn [fst].
  change (map fst ((x0 + 0, y0 + d) :: shift_tbl d r)) with (map fst (shift_tbl d ((x0, y0) :: r))).
  rewrite shift_tbl_fst. replace (x0 + 0) with x0 by ring. reflexivity.
Qed.

(* the pinned snapshot added the step to both columns: a table accepted by the surface is then rejected for every non-zero step *)
Definition shift_both (d : R) (tbl : list (R * R)) : list (R * R) := map (fun p => (fst p + d, snd p + d)) tbl.
Theorem shift_both_rejected d root tip tbl : d <> 0 ->
  table_ends_ok root tip (CTable tbl) = true -> table_ends_ok root tip (CTable (shift_both d tbl)) = false.
Proof.
  intros Hd. destruct tbl as [|[x0 y0] r]; [discriminate|].
  cbn [table_ends_ok shift_both map fst]. change (@neqb R RNum) with Reqb.
  intros H. apply andb_true_iff in H. destruct H as [H _]. apply Reqb_true in H. subst root.
  apply andb_false_iff. left. destruct (Reqb (x0 + d) x0) eqn:E; [|reflexivity]. apply Reqb_true in E. lra.
Qed.
