(* Post-conditions of the iterative analyses and the aerodynamic-centre formula. *)
From Coq Require Import Reals Lra List Bool.
From MuxV Require Import Base.Num Base.Vec3 Base.RInst Model.Helpers Model.AeroState Model.Analyses Proofs.HelpersP.
Import ListNotations.
Local Open Scope R_scope.

Section T.
  Variables (fcos fsin ftan fatan fasin : R -> R) (fatan2 : R -> R -> R) (d2r r2d : R).
  Variable W : v3 R.
  Variable F : ast R -> list R.
  Variable solve2 : R -> R -> R -> R -> R -> R -> R * R.

  Notation tloop := (target_CL_loop fcos fsin ftan fatan fasin fatan2 d2r r2d W F).
  Notation ploop := (pitch_trim_loop fcos fsin ftan fatan fasin fatan2 d2r r2d W F solve2).

  (* target_CL: a normal return means the lift coefficient passed in / last computed is within the tolerance, and it is the
     lift coefficient of the state the aircraft is left in (invariant: CL = CL_of s) *)
  Theorem target_CL_post fuel : forall s alpha CL target relax tol a sf,
    CL = CL_of F s -> tloop fuel s alpha CL target relax tol = Some (a, sf) -> Rabs (CL_of F sf - target) <= tol.
  Proof.
    induction fuel as [|f IH]; intros s alpha CL target relax tol a sf Hinv H; cbn [target_CL_loop] in H.
    - change (nltb tol (nabs (nsub CL target))) with (Rltb tol (Rabs (CL - target))) in H.
      destruct (Rltb tol (Rabs (CL - target))) eqn:E; [discriminate|]. apply Rltb_false in E. inversion H; subst. exact E.
    - change (nltb tol (nabs (nsub CL target))) with (Rltb tol (Rabs (CL - target))) in H.
      destruct (Rltb tol (Rabs (CL - target))) eqn:E.
      + destruct f as [|f']; [discriminate|]. eapply IH; [|exact H]. reflexivity.
      + apply Rltb_false in E. inversion H; subst. exact E.
  Qed.

  (* pitch_trim: a normal return means both residuals, evaluated by the solver in the state the aircraft is left in, are within tol *)
  Theorem pitch_trim_post fuel : forall s ic alpha flap R CLd Cmd relax tol a fl sf,
    R = trim_res F s CLd Cmd -> ploop fuel s ic alpha flap R CLd Cmd relax tol = Some (a, fl, sf) ->
    Rabs (nth 0 (F sf) 0 - CLd) <= tol /\ Rabs (nth 2 (F sf) 0 - Cmd) <= tol.
  Proof.
    induction fuel as [|f IH]; intros s ic alpha flap R CLd Cmd relax tol a fl sf Hinv H; cbn [pitch_trim_loop] in H.
    - unfold big in H. change (nltb tol (nabs (fst R))) with (Rltb tol (Rabs (fst R))) in H.
      change (nltb tol (nabs (snd R))) with (Rltb tol (Rabs (snd R))) in H.
      destruct (Rltb tol (Rabs (fst R))) eqn:E1; [discriminate|]. destruct (Rltb tol (Rabs (snd R))) eqn:E2; [discriminate|].
      apply Rltb_false in E1, E2. cbn in H. inversion H; subst. split; assumption.
    - unfold big in H. change (nltb tol (nabs (fst R))) with (Rltb tol (Rabs (fst R))) in H.
      change (nltb tol (nabs (snd R))) with (Rltb tol (Rabs (snd R))) in H.
      destruct (Rltb tol (Rabs (fst R))) eqn:E1; cbn [orb] in H.
      + destruct (Analyses.get_ae _ _ _ _ _) as [[a0 b0] V0]. destruct (solve2 _ _ _ _ _ _) as [d0 d1].
        destruct f as [|f']; [discriminate|]. eapply IH; [|exact H]. reflexivity.
      + destruct (Rltb tol (Rabs (snd R))) eqn:E2.
        * destruct (Analyses.get_ae _ _ _ _ _) as [[a0 b0] V0]. destruct (solve2 _ _ _ _ _ _) as [d0 d1].
          destruct f as [|f']; [discriminate|]. eapply IH; [|exact H]. reflexivity.
        * apply Rltb_false in E1, E2. inversion H; subst. split; assumption.
  Qed.

  (* pitch_trim_using_orientation: the same post-condition ... *)
  Notation oloop := (orient_trim_loop fcos fsin F solve2).
  Theorem orient_trim_post fuel : forall s ic phi theta psi flap R CLd Cmd relax tol v0 w0 p0 th fl sf,
    R = trim_res F s CLd Cmd -> oloop fuel s ic phi theta psi flap R CLd Cmd relax tol v0 w0 p0 = Some (th, fl, sf) ->
    Rabs (nth 0 (F sf) 0 - CLd) <= tol /\ Rabs (nth 2 (F sf) 0 - Cmd) <= tol.
  Proof.
    induction fuel as [|f IH]; intros s ic phi theta psi flap R CLd Cmd relax tol v0 w0 p0 th fl sf Hinv H; cbn [orient_trim_loop] in H.
    - unfold big in H. change (nltb tol (nabs (fst R))) with (Rltb tol (Rabs (fst R))) in H.
      change (nltb tol (nabs (snd R))) with (Rltb tol (Rabs (snd R))) in H.
      destruct (Rltb tol (Rabs (fst R))) eqn:E1; [discriminate|]. destruct (Rltb tol (Rabs (snd R))) eqn:E2; [discriminate|].
      apply Rltb_false in E1, E2. cbn in H. inversion H; subst. split; assumption.
    - unfold big in H. change (nltb tol (nabs (fst R))) with (Rltb tol (Rabs (fst R))) in H.
      change (nltb tol (nabs (snd R))) with (Rltb tol (Rabs (snd R))) in H.
      destruct (Rltb tol (Rabs (fst R))) eqn:E1; cbn [orb] in H.
      + destruct (solve2 _ _ _ _ _ _) as [d0 d1]. destruct f as [|f']; [discriminate|]. eapply IH; [|exact H]. reflexivity.
      + destruct (Rltb tol (Rabs (snd R))) eqn:E2.
        * destruct (solve2 _ _ _ _ _ _) as [d0 d1]. destruct f as [|f']; [discriminate|]. eapply IH; [|exact H]. reflexivity.
        * apply Rltb_false in E1, E2. inversion H; subst. split; assumption.
  Qed.

  (* ... and what it changes: the returned state is the one it was given (already trimmed) or has the attitude of the unchanged bank and
     heading with the returned elevation, the rates and the position recorded before the loop, the recorded Earth-fixed velocity handed
     back through the new attitude, and the controls of the state it was given except the chosen one *)
  Lemma nth_set_nth_other (l : list R) i j x : i <> j -> nth j (set_nth l i x) 0 = nth j l 0.
  Proof.
    revert i j; induction l as [|a l IH]; intros i j Hij; [destruct i; reflexivity|].
    destruct i as [|i]; destruct j as [|j]; cbn [set_nth nth]; try reflexivity; [congruence|]. apply IH. congruence.
  Qed.
  Theorem orient_trim_frame fuel : forall s ic phi theta psi flap R CLd Cmd relax tol v0 w0 p0 th fl sf,
    oloop fuel s ic phi theta psi flap R CLd Cmd relax tol v0 w0 p0 = Some (th, fl, sf) ->
    (sf = s /\ th = theta /\ fl = flap) \/
    (s_q sf = euler_to_quat fcos fsin phi th psi /\ s_w sf = w0 /\ s_p sf = p0 /\
     s_v sf = quat_inv_trans (s_q sf) (quat_trans (s_q sf) v0) /\
     forall j, j <> ic -> nth j (s_c sf) 0 = nth j (s_c s) 0).
  Proof.
    induction fuel as [|f IH]; intros s ic phi theta psi flap R CLd Cmd relax tol v0 w0 p0 th fl sf H; cbn [orient_trim_loop] in H.
    - destruct (big tol R); [discriminate|]. inversion H; subst. left. repeat split.
    - destruct (big tol R); [|inversion H; subst; left; repeat split].
      destruct (solve2 _ _ _ _ _ _) as [d0 d1]. destruct f as [|f']; [discriminate|].
      apply IH in H. right. destruct H as [[Hs [Ht Hf]]|[Hq [Hw [Hp [Hv Hc]]]]].
      + subst. cbn [s_q s_w s_p s_v s_c set_c with_attitude]. repeat split.
        intros j Hj. rewrite !nth_set_nth_other by congruence. reflexivity.
      + repeat split; try assumption. intros j Hj. rewrite (Hc j Hj). cbn [s_c set_c with_attitude].
        rewrite !nth_set_nth_other by congruence. reflexivity.
  Qed.

  (* the iteration cap: with fuel = max_iterations the loops never return after max_iterations updates *)
  Theorem target_CL_cap : forall s alpha CL target relax tol, tol < Rabs (CL - target) ->
    tloop 1 s alpha CL target relax tol = None.
  Proof.
    intros. cbn [target_CL_loop]. change (nltb tol (nabs (nsub CL target))) with (Rltb tol (Rabs (CL - target))).
    destruct (Rltb tol (Rabs (CL - target))) eqn:E; [reflexivity|]. apply Rltb_false in E. lra.
  Qed.
End T.

(* ---- aerodynamic centre (scene.py 2954-2971), Phillips eqs 4.8.29-31 ----
   With axial/normal coefficients CA = -Cx, CN = -Cz and the moment transferred to a point (x, z) (in reference lengths,
   positive forward / down as the code uses them)  Cm_P = Cm - x Cz + z Cx, the returned point makes the first and the second
   central alpha-differences of Cm_P vanish. *)
Section AC.
  Variables (Cx0 Cx1 Cx2 Cz0 Cz1 Cz2 Cm0 Cm1 Cm2 delta : R).   (* at alpha0 - delta, alpha0, alpha0 + delta *)
  Let CA_a := (- Cx2 + Cx0) / (2 * delta).
  Let CN_a := (- Cz2 + Cz0) / (2 * delta).
  Let Cm_a := (Cm2 - Cm0) / (2 * delta).
  Let CA_a2 := (- Cx2 + 2 * Cx1 - Cx0) / (delta * delta).
  Let CN_a2 := (- Cz2 + 2 * Cz1 - Cz0) / (delta * delta).
  Let Cm_a2 := (Cm2 - 2 * Cm1 + Cm0) / (delta * delta).
  Let den := CN_a * CA_a2 - CA_a * CN_a2.
  Definition x_ac := (CA_a * Cm_a2 - Cm_a * CA_a2) / den.
  Definition z_ac := (CN_a * Cm_a2 - Cm_a * CN_a2) / den.
  Definition CmP (Cx Cz Cm : R) : R := Cm - x_ac * Cz + z_ac * Cx.

  Theorem aero_center_stationary : delta <> 0 -> den <> 0 ->
    (* first central difference of Cm about the returned point *)
    (CmP Cx2 Cz2 Cm2 - CmP Cx0 Cz0 Cm0) / (2 * delta) = 0 /\
    (* second central difference *)
    (CmP Cx2 Cz2 Cm2 - 2 * CmP Cx1 Cz1 Cm1 + CmP Cx0 Cz0 Cm0) / (delta * delta) = 0.
  Proof.
    intros Hd Hden. unfold CmP, x_ac, z_ac. unfold den in *. unfold CA_a, CN_a, Cm_a, CA_a2, CN_a2, Cm_a2 in *.
    assert (Hn : (- Cz2 + Cz0) * (- Cx2 + 2 * Cx1 - Cx0) - (- Cx2 + Cx0) * (- Cz2 + 2 * Cz1 - Cz0) <> 0).
    { intro E. apply Hden. clear Hden.
      replace ((- Cz2 + Cz0) / (2 * delta) * ((- Cx2 + 2 * Cx1 - Cx0) / (delta * delta)) -
               (- Cx2 + Cx0) / (2 * delta) * ((- Cz2 + 2 * Cz1 - Cz0) / (delta * delta)))
        with (((- Cz2 + Cz0) * (- Cx2 + 2 * Cx1 - Cx0) - (- Cx2 + Cx0) * (- Cz2 + 2 * Cz1 - Cz0)) / (2 * delta * delta * delta))
        by (field; assumption).
      rewrite E. unfold Rdiv. ring. }
    split; field; repeat split; assumption.
  Qed.
End AC.
