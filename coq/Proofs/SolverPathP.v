(* Independence of the solver path: the fixed points of the relaxed Newton update are exactly the zeros of the residual,
   whatever the relaxation factor and the starting vector; the linear solver returns the solution of its system. *)
From Coq Require Import Reals Lra List Bool Lia.
From MuxV Require Import Base.Num Base.Vec3 Base.RInst Model.Kernel Model.Residual.
Import ListNotations.
Local Open Scope R_scope.

Definition zeros {A} (l : list A) : list R := map (fun _ => 0) l.
Definition all_zero (l : list R) : Prop := Forall (fun x => x = 0) l.

Lemma map2_add_zero (g d : list R) w : length d = length g -> w <> 0 ->
  (map2 (fun x dx => x + w * dx) g d = g <-> all_zero d).
Proof.
  revert d; induction g as [|x g IH]; intros [|dx d] Hl Hw; try discriminate.
  - split; [constructor | reflexivity].
  - cbn [map2]. split.
    + intros H. injection H as H1 H2. constructor.
      * assert (w * dx = 0) by lra. apply Rmult_integral in H. destruct H; [contradiction|assumption].
      * apply (IH d); [cbn in Hl; lia|assumption|assumption].
    + intros H. inversion H as [|? ? H1 H2]; subst. f_equal; [ring|]. apply (IH d); [cbn in Hl; lia|assumption|assumption].
Qed.

Section FP.
  Variables (fatan2 : R -> R -> R) (O : opts) (solve : list (list R) -> list R -> list R) (relax : R).
  Variables (cs : list (cpt R)) (Ss : list (section R)) (Vm : list (list (v3 R))).
  Notation res := (residual fatan2 O cs Ss Vm).
  Notation jac := (jacobian fatan2 O cs Ss Vm).
  (* what is assumed of np.linalg.solve at the iterate g: the matrix is invertible there, so the only right-hand side with a zero
     solution is the zero vector, and the solution has as many entries as unknowns *)
  Definition solve_regular (g : list R) : Prop :=
    forall b, length b = length g -> length (solve (jac g) b) = length g /\ (all_zero (solve (jac g) b) <-> all_zero b).

  Lemma all_zero_opp l : all_zero (map Ropp l) <-> all_zero l.
  Proof.
    induction l as [|x l IH]; cbn [map]; [split; constructor|].
    split; intros H; inversion H as [|? ? H1 H2]; subst; constructor; try lra; apply IH; assumption.
  Qed.

  Theorem fixed_points_are_zeros g : relax <> 0 -> length (res g) = length g -> solve_regular g ->
    (newton_update fatan2 O solve relax cs Ss Vm g = g <-> all_zero (res g)).
  Proof.
    intros Hw Hl Hs. unfold newton_update. change (map nopp (res g)) with (map Ropp (res g)).
    destruct (Hs (map Ropp (res g))) as [Hlen Hz]; [rewrite map_length; assumption|].
    change (fun x d : R => (x + relax * d)%num) with (fun x d : R => x + relax * d).
    rewrite (map2_add_zero g _ relax Hlen Hw), Hz. apply all_zero_opp.
  Qed.
End FP.
