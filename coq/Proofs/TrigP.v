(* The (alpha, beta, V) <-> body-velocity encoding of airplane.py round-trips (hypotheses HA / HB of the analyses theorems),
   with the real trigonometric functions and NumPy's atan2. *)
From Coq Require Import Reals Lra Psatz.
From MuxV Require Import Base.Num Base.Vec3 Base.RInst Model.Helpers Model.AeroState.
Local Open Scope R_scope.

Lemma V3_eq_R (a b c a' b' c' : R) : a = a' -> b = b' -> c = c' -> V3 a b c = V3 a' b' c'.
Proof. intros; subst; reflexivity. Qed.

(* numpy.arctan2 / math.atan2 *)
Definition Ratan2 (y x : R) : R :=
  if Rlt_dec 0 x then atan (y / x)
  else if Rlt_dec x 0 then (if Rle_dec 0 y then atan (y / x) + PI else atan (y / x) - PI)
  else if Rlt_dec 0 y then PI / 2 else if Rlt_dec y 0 then - (PI / 2) else 0.

Lemma Ratan2_pos y x : 0 < x -> Ratan2 y x = atan (y / x).
Proof. intro H. unfold Ratan2. destruct (Rlt_dec 0 x); [reflexivity | contradiction]. Qed.

Definition d2r : R := PI / 180.
Definition r2d : R := 180 / PI.
Lemma d2r_r2d x : x * r2d * d2r = x.
Proof. unfold d2r, r2d. assert (H := PI_RGT_0). field. lra. Qed.
Lemma r2d_d2r x : x * d2r * r2d = x.
Proof. unfold d2r, r2d. assert (H := PI_RGT_0). field. lra. Qed.

(* body velocity for angles in radians, in closed form *)
Section Closed.
  Variables (al be V : R).
  Hypothesis Hal : - (PI / 2) < al < PI / 2.
  Let ca := cos al.
  Let sa := sin al.
  Let tau := tan be.                       (* = t * ca *)
  Let r := sqrt (1 + tau * tau).

  Lemma ca_pos : 0 < ca.
  Proof. unfold ca. apply cos_gt_0; lra. Qed.
  Lemma r_pos : 0 < r.
  Proof. unfold r. apply sqrt_lt_R0. nra. Qed.
  Lemma r_sq : r * r = 1 + tau * tau.
  Proof. unfold r. apply sqrt_sqrt. nra. Qed.

  (* the code's expression *)
  Definition bv_code : v3 R :=
    let B_f := atan (tan be / ca) in
    let denom := 1 / sqrt (1 - sa * sa * sin B_f * sin B_f) in
    V3 (V * ca * cos B_f * denom) (V * ca * sin B_f * denom) (V * sa * cos B_f * denom).

  Theorem bv_closed_form : bv_code = V3 (V * ca / r) (V * tau / r) (V * sa / r).
  Proof.
    pose proof ca_pos as Hca. pose proof r_pos as Hr. pose proof r_sq as Hr2.
    unfold bv_code. cbv zeta.
    set (t := tan be / ca).
    assert (Ht : t * ca = tau) by (unfold t, tau; field; lra).
    set (s := sqrt (1 + t²)).
    assert (Hs : 0 < s) by (unfold s; apply sqrt_lt_R0; unfold Rsqr; nra).
    assert (Hs2 : s * s = 1 + t * t) by (unfold s; rewrite sqrt_sqrt; unfold Rsqr; nra).
    rewrite sin_atan, cos_atan. fold s.
    assert (Hsc : sa * sa + ca * ca = 1) by (unfold sa, ca; pose proof (sin2_cos2 al) as H; unfold Rsqr in H; lra).
    (* the square root in the denominator *)
    assert (HD : sqrt (1 - sa * sa * (t / s) * (t / s)) = r / s).
    { apply sqrt_lem_1.
      - assert (E : 1 - sa * sa * (t / s) * (t / s) = (r * r) / (s * s)).
        { rewrite Hr2, Hs2, <- Ht. field_simplify_eq; [|nra]. nra. }
        rewrite E. apply Rlt_le, Rdiv_lt_0_compat; nra.
      - apply Rlt_le, Rdiv_lt_0_compat; assumption.
      - rewrite <- Ht in Hr2. field_simplify_eq; [|lra].
        assert (E2 : r * r * (s * s) = (1 + t * ca * (t * ca)) * (1 + t * t)) by (rewrite Hr2, Hs2; ring).
        nra. }
    rewrite HD.
    apply V3_eq_R; rewrite <- ?Ht; field; repeat split; lra.
  Qed.
End Closed.

(* the model's body_velocity (angles in degrees) is the code's expression at the angles in radians *)
Lemma body_velocity_code a b V : body_velocity cos sin tan atan d2r a b V = bv_code (a * d2r) (b * d2r) V.
Proof. reflexivity. Qed.

Definition encR (vb : v3 R) : R * R * R :=
  (degrees r2d (Ratan2 (vz vb) (vx vb)), degrees r2d (asin (vy vb / sqrt (vx vb * vx vb + vy vb * vy vb + vz vb * vz vb))),
   sqrt (vx vb * vx vb + vy vb * vy vb + vz vb * vz vb)).
Definition decR (a b V : R) : v3 R := body_velocity cos sin tan atan d2r a b V.

Lemma tan_sq_cos x : cos x <> 0 -> 1 + tan x * tan x = / (cos x * cos x).
Proof.
  intro H. unfold tan. pose proof (sin2_cos2 x) as S. unfold Rsqr in S. field_simplify_eq; [|exact H]. nra.
Qed.

(* HA: decoding (alpha, beta, V) and encoding again gives the same triple, for angles inside (-90, 90) degrees and V > 0 *)
Theorem enc_dec a b V : -90 < a < 90 -> -90 < b < 90 -> 0 < V -> encR (decR a b V) = (a, b, V).
Proof.
  intros Ha Hb HV. assert (HP := PI_RGT_0).
  set (al := a * d2r). set (be := b * d2r).
  assert (Hal : - (PI / 2) < al < PI / 2) by (unfold al, d2r; split; nra).
  assert (Hbe : - (PI / 2) < be < PI / 2) by (unfold be, d2r; split; nra).
  unfold decR. rewrite body_velocity_code. fold al be. rewrite (bv_closed_form al be V Hal).
  pose proof (ca_pos al Hal) as Hca. pose proof (r_pos be) as Hr. pose proof (r_sq be) as Hr2.
  set (ca := cos al) in *. set (sa := sin al). set (tau := tan be) in *. set (r := sqrt (1 + tau * tau)) in *.
  assert (Hsc : sa * sa + ca * ca = 1) by (unfold sa, ca; pose proof (sin2_cos2 al) as H; unfold Rsqr in H; lra).
  unfold encR. cbn [vx vy vz].
  (* the speed *)
  assert (HVV : sqrt (V * ca / r * (V * ca / r) + V * tau / r * (V * tau / r) + V * sa / r * (V * sa / r)) = V).
  { apply sqrt_lem_1; [|lra|].
    - assert (0 <= (V * ca / r) * (V * ca / r) /\ 0 <= (V * tau / r) * (V * tau / r) /\ 0 <= (V * sa / r) * (V * sa / r)) by (repeat split; apply Rle_0_sqr). lra.
    - transitivity (V * V * ((ca * ca + tau * tau + sa * sa) / (r * r))); [|field; lra].
      rewrite Hr2. replace (ca * ca + tau * tau + sa * sa) with (1 + tau * tau) by lra. field. nra. }
  rewrite HVV.
  (* alpha *)
  assert (Hu : 0 < V * ca / r) by (apply Rdiv_lt_0_compat; nra).
  rewrite (Ratan2_pos _ _ Hu).
  replace (V * sa / r / (V * ca / r)) with (tan al) by (unfold tan; fold sa ca; field; repeat split; lra).
  rewrite (atan_tan al Hal).
  (* beta: tau / r = sin(atan tau) = sin be *)
  replace (V * tau / r / V) with (sin (atan tau)).
  2:{ rewrite sin_atan. replace (sqrt (1 + tau²)) with r by (unfold r, Rsqr; reflexivity). field. split; lra. }
  unfold tau. rewrite (atan_tan be Hbe). rewrite asin_sin by lra.
  unfold degrees, al, be. rewrite !r2d_d2r. reflexivity.
Qed.

(* HB: encoding a forward body velocity (u > 0) and decoding again gives the same vector *)
Theorem dec_enc vb : 0 < vx vb -> let '(a, b, V) := encR vb in decR a b V = vb.
Proof.
  destruct vb as [u v w]. cbn [vx vy vz]. intro Hu. assert (HP := PI_RGT_0).
  unfold encR. cbn [vx vy vz].
  set (V := sqrt (u * u + v * v + w * w)).
  assert (HV2 : V * V = u * u + v * v + w * w) by (unfold V; apply sqrt_sqrt; nra).
  assert (HV : 0 < V) by (unfold V; apply sqrt_lt_R0; nra).
  set (p := sqrt (u * u + w * w)).
  assert (Hp2 : p * p = u * u + w * w) by (unfold p; apply sqrt_sqrt; nra).
  assert (Hp : 0 < p) by (unfold p; apply sqrt_lt_R0; nra).
  rewrite (Ratan2_pos _ _ Hu).
  unfold decR. rewrite body_velocity_code. unfold degrees. rewrite !d2r_r2d.
  set (al := atan (w / u)). set (be := asin (v / V)).
  assert (Hal : - (PI / 2) < al < PI / 2) by (unfold al; pose proof (atan_bound (w / u)); lra).
  rewrite (bv_closed_form al be V Hal).
  (* cos and sin of alpha *)
  assert (Hq : sqrt (1 + (w / u)²) = p / u).
  { apply sqrt_lem_1; [unfold Rsqr; nra | apply Rlt_le, Rdiv_lt_0_compat; lra |]. unfold Rsqr. field_simplify_eq; [|lra]. nra. }
  assert (Hca : cos al = u / p) by (unfold al; rewrite cos_atan, Hq; field; split; lra).
  assert (Hsa : sin al = w / p) by (unfold al; rewrite sin_atan, Hq; field; split; lra).
  (* tan of beta *)
  assert (Hx : -1 < v / V < 1).
  { assert (v * v < V * V) by nra. assert (Hv1 : -V < v < V) by nra.
    split; [apply (Rmult_lt_reg_r V); [lra|] | apply (Rmult_lt_reg_r V); [lra|]]; unfold Rdiv; rewrite Rmult_assoc, Rinv_l by lra; lra. }
  assert (Hcb : cos be = p / V).
  { unfold be. rewrite cos_asin by lra. apply sqrt_lem_1; [unfold Rsqr; nra | apply Rlt_le, Rdiv_lt_0_compat; lra |].
    unfold Rsqr. field_simplify_eq; [|lra]. nra. }
  assert (Hsb : sin be = v / V) by (unfold be; apply sin_asin; lra).
  assert (Htau : tan be = v / p) by (unfold tan; rewrite Hsb, Hcb; field; split; lra).
  assert (Hr : sqrt (1 + tan be * tan be) = V / p).
  { rewrite Htau. apply sqrt_lem_1; [nra | apply Rlt_le, Rdiv_lt_0_compat; lra |]. field_simplify_eq; [|lra]. nra. }
  rewrite Hr, Hca, Hsa, Htau. apply V3_eq_R; field; repeat split; lra.
Qed.

(* ---- the two hypotheses of the analyses theorems, discharged for the real functions ---- *)
From MuxV Require Import Model.Analyses Proofs.AnalysesP.
Definition okA_real (a b V : R) : Prop := -90 < a < 90 /\ -90 < b < 90 /\ 0 < V.      (* degrees *)
Definition okB_real (vb : v3 R) : Prop := 0 < vx vb.                                      (* forward flight *)

Theorem HA_real : forall a b V, okA_real a b V -> enc asin Ratan2 r2d (dec cos sin tan atan d2r a b V) = (a, b, V).
Proof. intros a b V [Ha [Hb HV]]. exact (enc_dec a b V Ha Hb HV). Qed.
Theorem HB_real : forall vb, okB_real vb -> let '(a, b, V) := enc asin Ratan2 r2d vb in dec cos sin tan atan d2r a b V = vb.
Proof. intros vb H. exact (dec_enc vb H). Qed.
