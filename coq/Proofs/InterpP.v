From Coq Require Import Reals Lra List.
From MuxV Require Import Base.Num Base.RInst Base.Interp.
Import ListNotations.
Local Open Scope R_scope.

(* strictly increasing abscissae *)
Fixpoint incr_from (x : R) (l : list (R * R)) : Prop :=
  match l with [] => True | (x1, _) :: r => x < x1 /\ incr_from x1 r end.
Definition incr (l : list (R * R)) : Prop :=
  match l with [] => True | (x0, _) :: r => incr_from x0 r end.
(* non-decreasing abscissae (step tables repeat a node) *)
Fixpoint nondecr_from (x : R) (l : list (R * R)) : Prop :=
  match l with [] => True | (x1, _) :: r => x <= x1 /\ nondecr_from x1 r end.

Lemma interp_go_eq x xj yj rest :
  interp_go x xj yj rest =
  match rest with
  | [] => yj
  | (x1, y1) :: r => if Rleb x1 x then interp_go x x1 y1 r
                     else if Reqb xj x then yj else (y1 - yj) / (x1 - xj) * (x - xj) + yj
  end.
Proof. destruct rest as [|[x1 y1] r]; reflexivity. Qed.

(* a table whose ordinates all equal c interpolates to c everywhere *)
Lemma interp_go_const c x xj rest :
  Forall (fun p => snd p = c) rest -> interp_go x xj c rest = c.
Proof.
  revert xj; induction rest as [|[x1 y1] r IH]; intros xj HF; [reflexivity|].
  rewrite interp_go_eq. pose proof (Forall_inv HF) as H1. pose proof (Forall_inv_tail HF) as H2.
  cbn in H1; subst y1.
  destruct (Rleb x1 x); [apply IH; assumption|].
  destruct (Reqb xj x); [reflexivity|]. unfold Rdiv; ring.
Qed.
Lemma interp_const c x tbl : tbl <> [] -> Forall (fun p => snd p = c) tbl -> interp x tbl = c.
Proof.
  destruct tbl as [|[x0 y0] r]; [congruence|]. intros _ HF.
  pose proof (Forall_inv HF) as H1. pose proof (Forall_inv_tail HF) as H2. cbn in H1; subst y0. unfold interp.
  change (nltb x x0) with (Rltb x x0). destruct (Rltb x x0); [reflexivity|].
  apply interp_go_const; assumption.
Qed.

(* between two consecutive nodes the value is the linear interpolant; nodes are reproduced *)
Lemma interp_go_first x xj yj x1 y1 r :
  xj <= x < x1 -> interp_go x xj yj ((x1, y1) :: r) = yj + (y1 - yj) / (x1 - xj) * (x - xj).
Proof.
  intros [H1 H2]. rewrite interp_go_eq.
  destruct (Rleb x1 x) eqn:E; [apply Rleb_true in E; lra|].
  destruct (Reqb xj x) eqn:E2; [apply Reqb_true in E2; subst; ring | ring].
Qed.
Lemma interp_go_skip x xj yj x1 y1 r :
  x1 <= x -> interp_go x xj yj ((x1, y1) :: r) = interp_go x x1 y1 r.
Proof.
  intros H. rewrite interp_go_eq. destruct (Rleb x1 x) eqn:E; [reflexivity|]. apply Rleb_false in E; lra.
Qed.
Lemma interp_go_node xj yj rest : incr_from xj rest -> interp_go xj xj yj rest = yj.
Proof.
  destruct rest as [|[x1 y1] r]; [reflexivity|]. intros [H _]. rewrite interp_go_first by lra. ring.
Qed.

Lemma incr_from_In_lt x0 r x y : incr_from x0 r -> In (x, y) r -> x0 < x.
Proof.
  revert x0; induction r as [|[x2 y2] r IH]; intros x0 Hi Hin; [destruct Hin|].
  destruct Hi as [H12 Hi]. destruct Hin as [E|Hin]; [inversion E; subst; assumption|].
  specialize (IH _ Hi Hin); lra.
Qed.

(* nth node of a strictly increasing table is reproduced exactly *)
Lemma interp_go_reproduces xj yj rest x y :
  incr_from xj rest -> In (x, y) rest -> interp_go x xj yj rest = y.
Proof.
  revert xj yj; induction rest as [|[x1 y1] r IH]; intros xj yj Hi Hin; [destruct Hin|].
  destruct Hi as [Hlt Hi]. destruct Hin as [E|Hin].
  - inversion E; subst. rewrite interp_go_skip by lra. apply interp_go_node; assumption.
  - assert (x1 < x) by (eapply incr_from_In_lt; eassumption).
    rewrite interp_go_skip by lra. apply IH; assumption.
Qed.
Theorem interp_reproduces_nodes tbl x y : incr tbl -> In (x, y) tbl -> interp x tbl = y.
Proof.
  destruct tbl as [|[x0 y0] r]; [intros _ []|]. intros Hi Hin. unfold interp.
  change (nltb x x0) with (Rltb x x0).
  destruct Hin as [E|Hin].
  - inversion E; subst. destruct (Rltb x x) eqn:E1; [reflexivity|]. apply interp_go_node; exact Hi.
  - assert (x0 < x) by (eapply incr_from_In_lt; eassumption).
    destruct (Rltb x x0) eqn:E1; [apply Rltb_true in E1; lra|]. apply interp_go_reproduces; assumption.
Qed.

(* clamping outside the table *)
Lemma interp_left x x0 y0 r : x < x0 -> interp x ((x0, y0) :: r) = y0.
Proof. intros H. unfold interp. change (nltb x x0) with (Rltb x x0). destruct (Rltb x x0) eqn:E; [reflexivity|]. apply Rltb_false in E; lra. Qed.

(* two-node table: the affine function through the nodes on [x0,x1) *)
Lemma interp_two x x0 y0 x1 y1 : x0 <= x < x1 ->
  interp x [(x0, y0); (x1, y1)] = y0 + (y1 - y0) / (x1 - x0) * (x - x0).
Proof.
  intros H. unfold interp. change (nltb x x0) with (Rltb x x0).
  destruct (Rltb x x0) eqn:E; [apply Rltb_true in E; lra|]. apply interp_go_first; assumption.
Qed.
