(* Span-wise grid over the reals: cosine clustering, linear spacing, areas, allocation. *)
From Coq Require Import Reals Lra List Bool Arith Lia ZArith.
From MuxV Require Import Base.Num Base.RInst Model.Grid.
Import ListNotations.
Local Open Scope R_scope.

Lemma ofnat_INR k : @ofnat R RNum k = INR k.
Proof. unfold ofnat. cbn. symmetry. apply INR_IZR_INZ. Qed.

(* np.linspace over the reals *)
Lemma linspace_R start stop num k : (2 <= num)%nat -> (k < num)%nat ->
  linspace start stop num k = start + INR k * (stop - start) / INR (num - 1).
Proof.
  intros Hn Hk. unfold linspace. rewrite !ofnat_INR.
  assert (Hpos : 0 < INR (num - 1)) by (apply lt_0_INR; lia).
  destruct (Nat.leb num 1) eqn:E0; [apply Nat.leb_le in E0; lia|].
  destruct (Nat.eqb k (num - 1)) eqn:E.
  - apply Nat.eqb_eq in E. subst k. rnum. field. lra.
  - rnum. field. lra.
Qed.

Section Cos.
  Definition nodeF := node_frac cos PI (1/2).
  Definition cpF := cp_frac cos PI (1/2).

  Lemma node_frac_R n k : (1 <= n)%nat -> (k <= n)%nat -> nodeF n k = (1 - cos (INR k * PI / INR n)) / 2.
  Proof.
    intros Hn Hk. unfold nodeF, node_frac. rewrite linspace_R by lia. replace (n + 1 - 1)%nat with n by lia.
    rnum.
    replace (0 + INR k * (PI - 0) / INR n) with (INR k * PI / INR n) by (unfold Rdiv; ring). unfold Rdiv. ring.
  Qed.
  Lemma cp_frac_R n k : (1 <= n)%nat -> (k < n)%nat -> cpF n k = (1 - cos ((2 * INR k + 1) * PI / (2 * INR n))) / 2.
  Proof.
    intros Hn Hk. unfold cpF, cp_frac.
    assert (Hpos : 0 < INR n) by (apply lt_0_INR; lia).
    assert (E : linspace (T:=R) (PI / ofnat n) PI n k - PI / (nofZ 2 * ofnat n) = (2 * INR k + 1) * PI / (2 * INR n)).
    { rewrite !ofnat_INR. rnum.
      destruct (Nat.eq_dec n 1) as [->|Hn1].
      - assert (k = 0)%nat by lia. subst k. unfold linspace. cbn [Nat.leb]. rewrite !ofnat_INR. cbn [INR]. rnum. field.
      - rewrite linspace_R by lia. assert (Hm : 0 < INR (n - 1)) by (apply lt_0_INR; lia).
        assert (Em : INR (n - 1) = INR n - 1) by (rewrite minus_INR by lia; cbn; ring). rewrite Em in *. field. split; lra. }
    rnum. rewrite E. unfold Rdiv. ring.
  Qed.

  Lemma cos_lt x y : 0 <= x -> x < y -> y <= PI -> cos y < cos x.
  Proof. intros. apply cos_decreasing_1; lra. Qed.

  (* one control point strictly between consecutive nodes; nodes strictly increasing; ends at 0 and 1 *)
  Theorem section_interleaved n k : (1 <= n)%nat -> (k < n)%nat ->
    nodeF n k < cpF n k < nodeF n (S k).
  Proof.
    intros Hn Hk. rewrite !node_frac_R, cp_frac_R by lia.
    assert (Hpos : 0 < INR n) by (apply lt_0_INR; lia).
    assert (Hk0 : 0 <= INR k) by apply pos_INR.
    assert (HkS : INR (S k) = INR k + 1) by (rewrite S_INR; ring).
    assert (Hkn : INR k + 1 <= INR n) by (rewrite <- HkS; apply le_INR; lia).
    pose proof PI_RGT_0 as Hpi.
    set (a := INR k * PI / INR n). set (m := (2 * INR k + 1) * PI / (2 * INR n)). set (b := INR (S k) * PI / INR n).
    assert (Ha0 : 0 <= a) by (unfold a; apply Rmult_le_pos; [apply Rmult_le_pos; lra|apply Rlt_le, Rinv_0_lt_compat; lra]).
    assert (Hh : 0 < PI / (2 * INR n)) by (apply Rdiv_lt_0_compat; lra).
    assert (Ham : a < m).
    { assert (E : m - a = PI / (2 * INR n)) by (unfold a, m; field; lra). lra. }
    assert (Hmb : m < b).
    { assert (E : b - m = PI / (2 * INR n)) by (unfold b, m; rewrite HkS; field; lra). lra. }
    assert (Hbpi : b <= PI).
    { assert (E : PI - b = PI * (INR n - (INR k + 1)) / INR n) by (unfold b; rewrite HkS; field; lra).
      assert (0 <= PI * (INR n - (INR k + 1)) / INR n).
      { apply Rmult_le_pos; [apply Rmult_le_pos; lra|apply Rlt_le, Rinv_0_lt_compat; lra]. }
      lra. }
    pose proof (cos_lt a m Ha0 Ham ltac:(lra)). pose proof (cos_lt m b ltac:(lra) Hmb Hbpi). lra.
  Qed.
  Theorem section_ends n : (1 <= n)%nat -> nodeF n 0 = 0 /\ nodeF n n = 1.
  Proof.
    intros Hn. rewrite !node_frac_R by lia. assert (Hpos : 0 < INR n) by (apply lt_0_INR; lia). split.
    - cbn [INR]. replace (0 * PI / INR n) with 0 by (unfold Rdiv; ring). rewrite cos_0. lra.
    - replace (INR n * PI / INR n) with PI by (field; lra). rewrite cos_PI. lra.
  Qed.
  Theorem section_nodes_increasing n k : (1 <= n)%nat -> (k < n)%nat -> nodeF n k < nodeF n (S k).
  Proof. intros Hn Hk. pose proof (section_interleaved n k Hn Hk). lra. Qed.
End Cos.

(* linear spacing *)
Theorem linear_grid_R n k : (1 <= n)%nat ->
  ((k <= n)%nat -> nth k (fst (linear_grid (T:=R) n)) 0 = INR k / INR n) /\
  ((k < n)%nat -> nth k (snd (linear_grid (T:=R) n)) 0 = (2 * INR k + 1) / (2 * INR n)).
Proof.
  intros Hn. assert (Hpos : 0 < INR n) by (apply lt_0_INR; lia). unfold linear_grid. cbn [fst snd]. split; intros Hk.
  - rewrite nth_indep with (d' := linspace 0 1 (n + 1) 0%nat) by (rewrite map_length, seq_length; lia).
    rewrite map_nth, seq_nth by lia. change (@n0 R RNum) with 0. change (@n1 R RNum) with 1.
    rewrite linspace_R by lia. replace (n + 1 - 1)%nat with n by lia. cbn [Nat.add]. field. lra.
  - set (f := linspace (T:=R) _ _ n).
    rewrite nth_indep with (d' := f 0%nat) by (rewrite map_length, seq_length; lia).
    rewrite map_nth, seq_nth by lia. cbn [Nat.add]. unfold f. rewrite !ofnat_INR.
    change (@n1 R RNum) with 1. change (@nofZ R RNum 2) with 2. change (@ndiv R RNum) with Rdiv. change (@nsub R RNum) with Rminus.
    change (@nmul R RNum) with Rmult.
    destruct (Nat.eq_dec n 1) as [->|Hn1].
    + assert (k = 0)%nat by lia. subst k. unfold linspace. cbn [Nat.leb]. rewrite !ofnat_INR. cbn [INR]. rnum. field.
    + rewrite linspace_R by lia. assert (Em : INR (n - 1) = INR n - 1) by (rewrite minus_INR by lia; cbn; ring).
      assert (Hm : 0 < INR (n - 1)) by (apply lt_0_INR; lia). rewrite Em in *. field. split; lra.
Qed.

(* allocation: after the correction the sections receive exactly N control points *)
Lemma zsum_shift : forall l a, fold_left Z.add l a = (a + fold_left Z.add l 0)%Z.
Proof. induction l as [|x l IH]; intros a; cbn; [lia|]. rewrite IH, (IH x). lia. Qed.
Lemma zmax_list_in (l : list Z) : l <> [] -> In (zmax_list l) l.
Proof.
  unfold zmax_list. destruct l as [|x0 l]; [congruence|]. intros _. cbn [hd].
  assert (H : forall l' d, In (fold_right Z.max d l') (d :: l')).
  { induction l' as [|y l' IH]; intro d; cbn [fold_right]; [left; reflexivity|].
    destruct (Z.max_spec y (fold_right Z.max d l')) as [[_ E]|[_ E]]; rewrite E.
    - destruct (IH d) as [H|H]; [left; exact H | right; right; exact H].
    - right; left; reflexivity. }
  destruct (H (x0 :: l) x0) as [E|E]; [rewrite <- E; left; reflexivity | exact E].
Qed.
Lemma dec_first_sum m l : In m l -> fold_left Z.add (dec_first m l) 0%Z = (fold_left Z.add l 0 - 1)%Z.
Proof.
  induction l as [|x l IH]; intro H; [destruct H|]. cbn [dec_first].
  destruct (x =? m)%Z eqn:E.
  - cbn [fold_left]. rewrite (zsum_shift l (0 + (x - 1))%Z), (zsum_shift l (0 + x)%Z). lia.
  - apply Z.eqb_neq in E. destruct H as [H|H]; [congruence|].
    cbn [fold_left]. rewrite (zsum_shift (dec_first m l)), (zsum_shift l (0 + x)%Z), (IH H). lia.
Qed.
Lemma dec_first_nonempty m l : l <> [] -> dec_first m l <> [].
Proof. destruct l; [congruence|]. intros _. cbn. destruct (z =? m)%Z; discriminate. Qed.
Lemma take_from_largest_sum k : forall l, l <> [] -> fold_left Z.add (take_from_largest k l) 0%Z = (fold_left Z.add l 0 - Z.of_nat k)%Z.
Proof.
  induction k as [|k IH]; intros l Hl; cbn [take_from_largest]; [lia|].
  rewrite IH by (apply dec_first_nonempty; exact Hl).
  rewrite dec_first_sum by (apply zmax_list_in; exact Hl). lia.
Qed.
Theorem alloc_sum Ncp rounded : rounded <> [] -> Forall (fun r => 0 <= r)%Z rounded -> fold_left Z.add (alloc Ncp rounded) 0%Z = Ncp.
Proof.
  destruct rounded as [|r0 rest]; [congruence|]. intros _ Hnn. unfold alloc.
  assert (Hr : (0 <= r0)%Z) by (inversion Hnn; assumption).
  set (diff := (fold_left Z.add (r0 :: rest) 0 - Ncp)%Z).
  destruct (0 <=? r0 - diff)%Z eqn:E.
  - unfold diff. cbn [fold_left]. rewrite (zsum_shift rest (0 + r0)%Z), zsum_shift. lia.
  - apply Z.leb_gt in E. rewrite take_from_largest_sum by discriminate.
    rewrite Z2Nat.id by lia. unfold diff. lia.
Qed.

(* areas: sum of section areas = semispan x trapezoid rule of the node chords over the node span fractions *)
Fixpoint trapezoid (spans chords : list R) : R :=
  match spans, chords with
  | s0 :: ((s1 :: _) as sr), c0 :: ((c1 :: _) as cr) => Rabs (s1 - s0) * ((c0 + c1) / 2) + trapezoid sr cr
  | _, _ => 0
  end.
Theorem area_sum b spans chords : length spans = length chords ->
  fold_right Rplus 0 (areas b spans (mean_chords chords)) = b * trapezoid spans chords.
Proof.
  revert chords; induction spans as [|s0 sr IH]; intros chords Hl; [cbn; ring|].
  destruct chords as [|c0 cr]; [discriminate|]. destruct sr as [|s1 sr']; [cbn; ring|].
  destruct cr as [|c1 cr']; [discriminate|].
  change (areas b (s0 :: s1 :: sr') (mean_chords (c0 :: c1 :: cr')))
    with ((Rabs (s1 - s0) * b * ((c1 + c0) / 2)) :: areas b (s1 :: sr') (mean_chords (c1 :: cr'))).
  change (trapezoid (s0 :: s1 :: sr') (c0 :: c1 :: cr')) with (Rabs (s1 - s0) * ((c0 + c1) / 2) + trapezoid (s1 :: sr') (c1 :: cr')).
  cbn [fold_right]. rewrite IH by (cbn in *; lia). unfold Rdiv. ring.
Qed.
