(* Grouping of half-segments into wings (C12): as many wings as originals, each wing begins with its original, every member is one of the
   aircraft's half-segments, a wing and the assigned set only ever grow, a half-segment is only appended by a pass if no wing had it, and a
   finished wing is closed: one more pass over all half-segments adds nothing (the exit condition of the while loop). *)
From Coq Require Import List Bool Arith Lia.
From MuxV Require Import Model.Wings.
Import ListNotations.

Lemma pass_ext origs o jm l : forall wing assigned added,
  exists ext new, let '(w, a, _) := pass origs o jm l wing assigned added in
    w = wing ++ ext /\ a = new ++ assigned /\ Forall (fun s => In s l) ext /\ Forall (fun s => In s l) new.
Proof.
  induction l as [|s r IH]; intros wing assigned added; cbn [pass].
  - exists [], []. rewrite app_nil_r. repeat split; constructor.
  - assert (K : forall w a ad, (exists e n, let '(w', a', _) := pass origs o jm r w a ad in
        w' = w ++ e /\ a' = n ++ a /\ Forall (fun s => In s r) e /\ Forall (fun s => In s r) n)) by (intros; apply IH).
    assert (Up : forall P : hs -> Prop, forall l0, Forall (fun x => In x r) l0 -> Forall (fun x => In x (s :: r)) l0)
      by (intros _ l0 F; eapply Forall_impl; [|exact F]; intros x Hx; right; exact Hx).
    destruct (isin s origs || isin s assigned || negb (cont s)).
    + destruct (K wing assigned added) as (e & n & H). exists e, n. destruct (pass origs o jm r wing assigned added) as [[w a] ad].
      destruct H as (H1 & H2 & H3 & H4). repeat split; auto; apply (Up (fun _ => True)); assumption.
    + destruct (tries o jm wing s) as [|k] eqn:Ek.
      * destruct (K wing assigned added) as (e & n & H). exists e, n. destruct (pass origs o jm r wing assigned added) as [[w a] ad].
        destruct H as (H1 & H2 & H3 & H4). repeat split; auto; apply (Up (fun _ => True)); assumption.
      * destruct (K (wing ++ repeat s (S k)) (s :: assigned) true) as (e & n & H).
        exists (repeat s (S k) ++ e), (n ++ [s]).
        destruct (pass origs o jm r (wing ++ repeat s (S k)) (s :: assigned) true) as [[w a] ad].
        destruct H as (H1 & H2 & H3 & H4). repeat split.
        -- rewrite H1, app_assoc. reflexivity.
        -- rewrite H2, <- app_assoc. reflexivity.
        -- apply Forall_app; split; [|apply (Up (fun _ => True)); assumption].
           apply Forall_forall. intros x Hx. apply repeat_spec in Hx. subst x. left; reflexivity.
        -- apply Forall_app; split; [apply (Up (fun _ => True)); assumption|]. constructor; [left; reflexivity|constructor].
Qed.

(* a pass appends a half-segment only if no wing had it (wing_ID = -1), it is not an original, and it is a continuation *)
Lemma pass_fresh origs o jm l : forall wing assigned added,
  let '(_, a, _) := pass origs o jm l wing assigned added in
  exists new, a = new ++ assigned /\
    (forall pre s post, new = pre ++ s :: post -> isin s (post ++ assigned) = false /\ isin s origs = false /\ cont s = true).
Proof.
  induction l as [|s r IH]; intros wing assigned added; cbn [pass].
  - exists []. split; [reflexivity|]. intros pre s post E. destruct pre; discriminate.
  - destruct (isin s origs || isin s assigned || negb (cont s)) eqn:Eg.
    + apply IH.
    + destruct (tries o jm wing s) as [|k]; [apply IH|].
      specialize (IH (wing ++ repeat s (S k)) (s :: assigned) true).
      destruct (pass origs o jm r (wing ++ repeat s (S k)) (s :: assigned) true) as [[w a] ad].
      destruct IH as (new & Ea & Hn). exists (new ++ [s]). split; [rewrite Ea, <- app_assoc; reflexivity|].
      intros pre x post E.
      apply orb_false_iff in Eg. destruct Eg as [Eg Ec]. apply orb_false_iff in Eg. destruct Eg as [Eo Ea'].
      destruct post as [|y post'] using rev_ind.
      * apply app_inj_tail in E. destruct E as [_ <-]. cbn [app]. repeat split; auto. destruct (cont s); [reflexivity|discriminate].
      * clear IHpost'. rewrite app_comm_cons, app_assoc in E. apply app_inj_tail in E. destruct E as [E <-].
        destruct (Hn pre x post' E) as (H1 & H2 & H3). repeat split; auto. rewrite <- app_assoc. exact H1.
Qed.

Lemma grow_ext fuel origs o jm segs : forall wing assigned w a,
  grow fuel origs o jm segs wing assigned = Some (w, a) ->
  exists ext new, w = wing ++ ext /\ a = new ++ assigned /\ Forall (fun s => In s segs) ext /\ Forall (fun s => In s segs) new.
Proof.
  induction fuel as [|f IH]; intros wing assigned w a; cbn [grow]; [discriminate|].
  pose proof (pass_ext origs o jm segs wing assigned false) as (e & n & H).
  destruct (pass origs o jm segs wing assigned false) as [[w1 a1] ad]. destruct H as (H1 & H2 & H3 & H4).
  destruct ad.
  - intros G. apply IH in G. destruct G as (e2 & n2 & G1 & G2 & G3 & G4). exists (e ++ e2), (n2 ++ n). subst.
    rewrite <- !app_assoc. repeat split; auto; apply Forall_app; auto.
  - intros G. injection G as <- <-. exists e, n. auto.
Qed.

(* exit condition of the while loop: a finished wing is closed under one more pass *)
Lemma grow_closed fuel origs o jm segs : forall wing assigned w a,
  grow fuel origs o jm segs wing assigned = Some (w, a) -> pass origs o jm segs w a false = (w, a, false).
Proof.
  induction fuel as [|f IH]; intros wing assigned w a; cbn [grow]; [discriminate|].
  destruct (pass origs o jm segs wing assigned false) as [[w1 a1] ad] eqn:Ep. destruct ad.
  - apply IH.
  - intros G. injection G as <- <-.
    (* a pass that reports no addition left the state unchanged, so repeating it gives the same *)
    assert (Hsame : forall l wg asg, pass origs o jm l wg asg false = (w1, a1, false) -> w1 = wg /\ a1 = asg).
    { induction l as [|s r IHl]; intros wg asg; cbn [pass]; [intros E; injection E as <- <-; auto|].
      destruct (isin s origs || isin s asg || negb (cont s)); [apply IHl|].
      destruct (tries o jm wg s) as [|k]; [apply IHl|].
      intros E. exfalso.
      assert (Ht : forall l' w' a', snd (pass origs o jm l' w' a' true) = true).
      { induction l' as [|s' r' IH']; intros w' a'; cbn [pass]; [reflexivity|].
        destruct (isin s' origs || isin s' a' || negb (cont s')); [apply IH'|]. destruct (tries o jm w' s'); apply IH'. }
      specialize (Ht r (wg ++ repeat s (S k)) (s :: asg)). rewrite E in Ht. discriminate. }
    destruct (Hsame _ _ _ Ep) as [-> ->]. exact Ep.
Qed.

Lemma start_wing_spec segs o assigned : In o segs ->
  let '(w, a) := start_wing segs o assigned in
  (exists r, w = o :: r) /\ Forall (fun s => In s segs) w /\ exists new, a = new ++ assigned.
Proof.
  intros Ho. unfold start_wing. destruct (mir o && y0 o).
  - destruct (twin segs o) as [t|] eqn:Et.
    + repeat split; [eexists; reflexivity| |exists [t; o]; reflexivity].
      constructor; [exact Ho|]. constructor; [|constructor]. unfold twin in Et. apply find_some in Et. apply Et.
    + repeat split; [eexists; reflexivity| |exists [o]; reflexivity]. constructor; [exact Ho|constructor].
  - repeat split; [eexists; reflexivity| |exists [o]; reflexivity]. constructor; [exact Ho|constructor].
Qed.

Definition heads (ws : list (list hs)) (os : list hs) : Prop := Forall2 (fun w o => exists r, w = o :: r) ws os.

Lemma build_spec segs origs : forall todo wings assigned done ws a,
  Forall (fun o => In o segs) todo -> heads wings done -> Forall (Forall (fun s => In s segs)) wings ->
  build segs origs todo wings assigned = Some (ws, a) ->
  heads ws (done ++ todo) /\ Forall (Forall (fun s => In s segs)) ws /\ exists new, a = new ++ assigned.
Proof.
  induction todo as [|o r IH]; intros wings assigned done ws a Hin Hh Hm; cbn [build].
  - intros E. injection E as <- <-. rewrite app_nil_r. repeat split; auto. exists []. reflexivity.
  - inversion Hin as [|? ? Ho Hr]; subst.
    pose proof (start_wing_spec segs o assigned Ho) as Hs. destruct (start_wing segs o assigned) as [w0 a0].
    destruct Hs as ((r0 & Ew0) & Hw0 & (n0 & Ea0)).
    destruct (grow (S (length segs)) origs o (y0 o) segs w0 a0) as [[w a1]|] eqn:Eg; [|discriminate].
    apply grow_ext in Eg. destruct Eg as (e & n & E1 & E2 & E3 & E4).
    intros B. apply (IH _ _ (done ++ [o])) in B; auto.
    + rewrite <- app_assoc in B. cbn [app] in B. destruct B as (B1 & B2 & (n2 & B3)). repeat split; auto.
      exists (n2 ++ n ++ n0). subst. rewrite <- !app_assoc. reflexivity.
    + apply Forall2_app; [exact Hh|]. constructor; [|constructor]. exists (r0 ++ e). subst. reflexivity.
    + apply Forall_app; split; [exact Hm|]. constructor; [|constructor]. subst w. apply Forall_app; auto.
Qed.

Lemma originals_in segs : Forall (fun o => In o segs) (originals segs).
Proof. apply Forall_forall. intros o Ho. apply filter_In in Ho. apply Ho. Qed.

Theorem wings_spec segs ws : wings_of segs = Some ws ->
  length ws = length (originals segs) /\ heads ws (originals segs) /\ Forall (Forall (fun s => In s segs)) ws.
Proof.
  unfold wings_of. destruct (build segs (originals segs) (originals segs) [] []) as [[ws' a]|] eqn:B; [|discriminate].
  cbn [option_map fst]. intros E. injection E as <-.
  apply (build_spec _ _ _ _ _ []) in B; [|apply originals_in|constructor|constructor].
  cbn [app] in B. destruct B as (B1 & B2 & _). repeat split; auto. clear - B1. induction B1; cbn; auto.
Qed.

(* a left half lying against its right half never starts a wing; a half-segment that is not a continuation always does otherwise *)
Theorem originals_spec segs s : In s (originals segs) <->
  In s segs /\ skipped s = false /\ (cont s = false \/ (mir s = true /\ pmir s = false)).
Proof.
  unfold originals. rewrite filter_In. unfold is_orig. split.
  - intros (Hi & H). apply andb_true_iff in H. destruct H as (H1 & H2). repeat split; auto.
    + destruct (skipped s); [discriminate|reflexivity].
    + apply orb_true_iff in H2. destruct H2 as [H2|H2]; [left; destruct (cont s); [discriminate|reflexivity]|right].
      apply andb_true_iff in H2. destruct H2 as (H2 & H3). split; auto. destruct (pmir s); [discriminate|reflexivity].
  - intros (Hi & H1 & H2). split; auto. rewrite H1. cbn. destruct H2 as [->|(-> & ->)]; [reflexivity|]. apply orb_true_r.
Qed.

(* non-vacuity: a two-sided main wing with a two-sided outer panel at its tip, and a one-sided fin carrying a two-sided T-tail *)
Example wings_example :
  let mainL := mk_hs 1 false true true false 0 false in let mainR := mk_hs 1 true true true false 0 false in
  let outL := mk_hs 2 false true true true 1 true in let outR := mk_hs 2 true true true true 1 true in
  let fin := mk_hs 3 true false true false 0 false in
  let ttL := mk_hs 4 false true true true 3 false in let ttR := mk_hs 4 true true true true 3 false in
  wings_of [mainL; mainR; outL; outR; fin; ttL; ttR] = Some [[mainR; mainL; outL; outR]; [fin]; [ttR; ttL]].
Proof. vm_compute. reflexivity. Qed.

(* ---- every member of a wing is recorded as assigned (wing_ID <> -1), so what a later pass takes (pass_fresh: not in assigned) is in no
   earlier wing ---- *)
Lemma pass_members origs o jm l : forall wing assigned added,
  Forall (fun s => In s assigned) wing ->
  let '(w, a, _) := pass origs o jm l wing assigned added in Forall (fun s => In s a) w.
Proof.
  induction l as [|s r IH]; intros wing assigned added Hw; cbn [pass]; [exact Hw|].
  destruct (isin s origs || isin s assigned || negb (cont s)); [apply IH; exact Hw|].
  destruct (tries o jm wing s) as [|k]; [apply IH; exact Hw|].
  apply IH. apply Forall_app; split.
  - eapply Forall_impl; [|exact Hw]. intros x Hx. right; exact Hx.
  - apply Forall_forall. intros x Hx. apply repeat_spec in Hx. subst x. left; reflexivity.
Qed.

Lemma grow_members fuel origs o jm segs : forall wing assigned w a,
  Forall (fun s => In s assigned) wing -> grow fuel origs o jm segs wing assigned = Some (w, a) -> Forall (fun s => In s a) w.
Proof.
  induction fuel as [|f IH]; intros wing assigned w a Hw; cbn [grow]; [discriminate|].
  pose proof (pass_members origs o jm segs wing assigned false Hw) as Hp.
  destruct (pass origs o jm segs wing assigned false) as [[w1 a1] ad]. destruct ad.
  - apply IH. exact Hp.
  - intros E. injection E as <- <-. exact Hp.
Qed.

Lemma start_wing_members segs o assigned :
  let '(w, a) := start_wing segs o assigned in Forall (fun s => In s a) w.
Proof.
  unfold start_wing. destruct (mir o && y0 o).
  - destruct (twin segs o) as [t|].
    + constructor; [right; left; reflexivity|]. constructor; [left; reflexivity|constructor].
    + constructor; [left; reflexivity|constructor].
  - constructor; [left; reflexivity|constructor].
Qed.

Lemma start_wing_grows segs o assigned : exists new, snd (start_wing segs o assigned) = new ++ assigned.
Proof.
  unfold start_wing. destruct (mir o && y0 o); [destruct (twin segs o) as [t|]|].
  - exists [t; o]. reflexivity.
  - exists [o]. reflexivity.
  - exists [o]. reflexivity.
Qed.

Lemma build_members segs origs : forall todo wings assigned ws a,
  Forall (Forall (fun s => In s assigned)) wings ->
  build segs origs todo wings assigned = Some (ws, a) -> Forall (Forall (fun s => In s a)) ws.
Proof.
  induction todo as [|o r IH]; intros wings assigned ws a Hm; cbn [build].
  - intros E. injection E as <- <-. exact Hm.
  - pose proof (start_wing_members segs o assigned) as Hs.
    destruct (start_wing_grows segs o assigned) as (n0 & Hg0).
    destruct (start_wing segs o assigned) as [w0 a0]. cbn [snd] in Hg0.
    destruct (grow (S (length segs)) origs o (y0 o) segs w0 a0) as [[w a1]|] eqn:Eg; [|discriminate].
    pose proof (grow_members _ _ _ _ _ _ _ _ _ Hs Eg) as Hw.
    apply grow_ext in Eg. destruct Eg as (e & n & E1 & E2 & _ & _).
    apply IH. apply Forall_app; split; [|constructor; [exact Hw|constructor]].
    assert (Hgrow : forall x, In x assigned -> In x a1).
    { intros x Hx. subst a1 a0. apply in_or_app. right. apply in_or_app. right. exact Hx. }
    eapply Forall_impl; [|exact Hm]. intros wg Hwg. eapply Forall_impl; [|exact Hwg]. intros x Hx. apply Hgrow. exact Hx.
Qed.

(* every member of every wing is recorded as assigned *)
Theorem wings_members_assigned segs ws a :
  build segs (originals segs) (originals segs) [] [] = Some (ws, a) -> Forall (Forall (fun s => In s a)) ws.
Proof. apply build_members. constructor. Qed.

(* hence: what a pass takes for a later wing is key-different from every member of the wings built so far *)
Theorem pass_takes_from_no_earlier_wing origs o jm l wings wing assigned added :
  Forall (Forall (fun s => In s assigned)) wings ->
  let '(_, a, _) := pass origs o jm l wing assigned added in
  exists new, a = new ++ assigned /\
    forall s, In s new -> forall wg m, In wg wings -> In m wg -> keyeq s m = false.
Proof.
  intros Hm. pose proof (pass_fresh origs o jm l wing assigned added) as Hf.
  destruct (pass origs o jm l wing assigned added) as [[w a] ad]. destruct Hf as (new & Ea & Hn).
  exists new. split; [exact Ea|]. intros s Hs wg m Hwg Hmw.
  apply in_split in Hs. destruct Hs as (pre & post & E). destruct (Hn pre s post E) as (H1 & _ & _).
  unfold isin in H1. rewrite existsb_app in H1. apply orb_false_iff in H1. destruct H1 as [_ H1].
  rewrite Forall_forall in Hm. specialize (Hm wg Hwg). rewrite Forall_forall in Hm. specialize (Hm m Hmw).
  destruct (keyeq s m) eqn:K; [|reflexivity].
  assert (existsb (keyeq s) assigned = true) by (apply existsb_exists; exists m; split; assumption). congruence.
Qed.
