(* Span coordinates along a wing: the reflected wing (segments in reverse order, sides exchanged, span fractions stored in reverse)
   has the span coordinates L - s in reverse order, with the roles of inbound and outbound nodes exchanged - the relation that
   [sec_mirror] in Proofs/ReidP.v assumes. *)
From Coq Require Import Reals Lra List.
From MuxV Require Import Base.Num Base.RInst Model.Gather.
Import ListNotations.
Local Open Scope R_scope.

Definition flip (g : segsp R) : segsp R := mk_segsp (negb (g_left g)) (g_b g) (rev (g_nodes g)) (rev (g_cps g)).
Definition mirror_wing (segs : list (segsp R)) : list (segsp R) := rev (map flip segs).
Definition refl (L : R) (l : list R) : list R := rev (map (fun s => L - s) l).

Lemma wing_length_cons g r : wing_length (g :: r) = g_b g + wing_length r.
Proof.
  unfold wing_length. cbn [fold_left]. rnum.
  assert (E : forall l a, fold_left (fun (a0 : R) (g0 : segsp R) => a0 + g_b g0) l a = a + fold_left (fun (a0 : R) (g0 : segsp R) => a0 + g_b g0) l 0).
  { induction l as [|x l IH]; intro a; cbn [fold_left]; [ring|]. rewrite IH, (IH (0 + g_b x)). ring. }
  rewrite E. ring.
Qed.
Lemma wing_length_flip segs : wing_length (mirror_wing segs) = wing_length segs.
Proof.
  unfold mirror_wing. induction segs as [|g r IH]; [reflexivity|].
  cbn [map rev]. rewrite wing_length_cons.
  assert (A : forall l1 l2, wing_length (l1 ++ l2) = wing_length l1 + wing_length (T := R) l2).
  { induction l1 as [|x l1 IHl]; intro l2; [cbn [app]; assert (Z : wing_length (T := R) [] = 0) by reflexivity; rewrite Z; ring|].
    change ((x :: l1) ++ l2) with (x :: (l1 ++ l2)). rewrite !wing_length_cons, IHl. ring. }
  rewrite A, IH. rewrite (wing_length_cons (flip g) []). assert (Z : wing_length (T := R) [] = 0) by reflexivity. rewrite Z. cbn [g_b flip]. ring.
Qed.

Lemma span_of_flip L l cur b s : span_of (negb l) (L - cur - b) b s = L - span_of l cur b s.
Proof. destruct l; unfold span_of; cbn [negb]; rnum; ring. Qed.

Lemma removelast_rev {A} (l : list A) : removelast (rev l) = rev (tl l).
Proof.
  destruct l as [|a l]; [reflexivity|]. cbn [rev tl]. apply removelast_last.
Qed.
Lemma tl_rev {A} (l : list A) : tl (rev l) = rev (removelast l).
Proof.
  induction l as [|a l IH] using rev_ind; [reflexivity|].
  rewrite rev_app_distr. cbn [rev app tl]. rewrite removelast_last. reflexivity.
Qed.

Lemma seg_nodes_flip L cur g : seg_nodes (L - cur - g_b g) (flip g) = refl L (seg_nodes cur g).
Proof.
  unfold seg_nodes, refl, flip. cbn [g_left g_b g_nodes]. rewrite map_rev, map_map. f_equal. apply map_ext. intro s. apply span_of_flip.
Qed.
Lemma seg_PC_flip L cur g : seg_PC (L - cur - g_b g) (flip g) = refl L (seg_PC cur g).
Proof.
  unfold seg_PC, refl, flip. cbn [g_left g_b g_cps]. rewrite map_rev, map_map. f_equal. apply map_ext. intro s. apply span_of_flip.
Qed.
Lemma map_tl {A B} (f : A -> B) l : map f (tl l) = tl (map f l).
Proof. destruct l; reflexivity. Qed.
Lemma map_removelast {A B} (f : A -> B) l : map f (removelast l) = removelast (map f l).
Proof. induction l as [|a l IH]; [reflexivity|]. destruct l; [reflexivity|]. cbn [removelast map] in *. f_equal. exact IH. Qed.
Lemma seg_P0_flip L cur g : seg_P0 (L - cur - g_b g) (flip g) = refl L (seg_P1 cur g).
Proof. unfold seg_P0, seg_P1. rewrite seg_nodes_flip. unfold refl. rewrite removelast_rev, map_tl. reflexivity. Qed.
Lemma seg_P1_flip L cur g : seg_P1 (L - cur - g_b g) (flip g) = refl L (seg_P0 cur g).
Proof. unfold seg_P0, seg_P1. rewrite seg_nodes_flip. unfold refl. rewrite tl_rev, map_removelast. reflexivity. Qed.

Lemma wing_map_app (f : R -> segsp R -> list R) l1 : forall cur l2,
  wing_map f cur (l1 ++ l2) = wing_map f cur l1 ++ wing_map f (cur + wing_length l1) l2.
Proof.
  induction l1 as [|g l1 IH]; intros cur l2.
  - assert (Z : wing_length (T := R) [] = 0) by reflexivity. rewrite Z. cbn [app wing_map]. replace (cur + 0) with cur by ring. reflexivity.
  - change ((g :: l1) ++ l2) with (g :: (l1 ++ l2)). cbn [wing_map]. rnum. rewrite IH, wing_length_cons, app_assoc.
    replace (cur + g_b g + wing_length l1) with (cur + (g_b g + wing_length l1)) by ring. reflexivity.
Qed.

Section Mirror.
  Variables (F F' : R -> segsp R -> list R) (L : R).
  Hypothesis HF : forall c g, F' (L - c - g_b g) (flip g) = refl L (F c g).
  Lemma wing_map_mirror segs : forall cur,
    wing_map F' (L - cur - wing_length segs) (mirror_wing segs) = refl L (wing_map F cur segs).
  Proof.
    induction segs as [|g r IH]; intro cur; [reflexivity|].
    unfold mirror_wing in *. cbn [map rev]. rewrite wing_map_app. fold (mirror_wing r). rewrite wing_length_flip.
    rewrite wing_length_cons. cbn [wing_map]. rnum.
    replace (L - cur - (g_b g + wing_length r)) with (L - (cur + g_b g) - wing_length r) by ring. unfold mirror_wing. rewrite IH.
    replace (L - (cur + g_b g) - wing_length r + wing_length r) with (L - cur - g_b g) by ring.
    rewrite app_nil_r, HF. unfold refl. rewrite map_app, rev_app_distr. reflexivity.
  Qed.
End Mirror.

(* measured from the left tip of the reflected wing, control points and nodes sit at L - s, in reverse order, inbound <-> outbound *)
Theorem wing_spans_mirror segs : let L := wing_length segs in
  wing_PC 0 (mirror_wing segs) = refl L (wing_PC 0 segs) /\
  wing_P0 0 (mirror_wing segs) = refl L (wing_P1 0 segs) /\
  wing_P1 0 (mirror_wing segs) = refl L (wing_P0 0 segs).
Proof.
  cbv zeta. set (L := wing_length segs).
  assert (E : 0 = L - 0 - wing_length segs) by (unfold L; ring).
  unfold wing_PC, wing_P0, wing_P1. rewrite E at 1 3 5.
  split; [|split].
  - apply (wing_map_mirror seg_PC seg_PC L (seg_PC_flip L)).
  - apply (wing_map_mirror seg_P1 seg_P0 L (seg_P0_flip L)).
  - apply (wing_map_mirror seg_P0 seg_P1 L (seg_P1_flip L)).
Qed.

(* consecutive sections of a segment share a node: P1 of one is P0 of the next *)
Theorem seg_nodes_shared cur g : tl (seg_P0 cur g) = removelast (seg_P1 cur g).
Proof.
  unfold seg_P0, seg_P1. generalize (seg_nodes cur g). intro l.
  induction l as [|a l IH]; [reflexivity|]. destruct l as [|b l]; [reflexivity|]. destruct l as [|c l]; [reflexivity|].
  cbn [removelast tl] in *. reflexivity.
Qed.
