(* Every left-hand segment of a wing whose tip is farther from the x-axis than the initial distance to beat is picked by the sort;
   with -1 that is every segment (distances are not negative), with 0 a segment whose tip lies on the axis is dropped. *)
From Coq Require Import Reals Lra List Bool Arith Lia.
From MuxV Require Import Base.Num Base.RInst Model.SegSort.
Import ListNotations.
Local Open Scope R_scope.

Lemma picked_in i sorted : picked i sorted = true <-> In i sorted.
Proof.
  unfold picked. rewrite existsb_exists. split.
  - intros [x [Hx E]]. apply Nat.eqb_eq in E. subst. exact Hx.
  - intros H. exists i. split; [exact H | apply Nat.eqb_refl].
Qed.

Lemma pass_best_some (l : list (seg (T:=R))) sorted b beat : pass l sorted (Some b) beat <> None.
Proof.
  revert b beat; induction l as [|[i n] r IH]; intros b beat; cbn [pass]; [discriminate|].
  destruct (_ && _); apply IH.
Qed.

(* a pass that picks nothing: every segment is already picked or does not beat the initial distance *)
Lemma pass_none (l : list (seg (T:=R))) sorted beat : pass l sorted None beat = None ->
  forall i n, In (i, n) l -> In i sorted \/ n <= beat.
Proof.
  induction l as [|[j m] r IH]; intros H i n Hin; [destruct Hin|]. cbn [pass] in H.
  change (nltb beat m) with (Rltb beat m) in H.
  destruct (Rltb beat m && negb (picked j sorted)) eqn:E.
  - exfalso. exact (pass_best_some r sorted (j, m) m H).
  - destruct Hin as [Heq|Hin]; [|exact (IH H i n Hin)]. inversion Heq; subst.
    apply andb_false_iff in E. destruct E as [E|E].
    + right. apply Rltb_false in E. exact E.
    + left. apply negb_false_iff in E. apply picked_in. exact E.
Qed.

(* a pass that picks something picks a segment of the wing that was not picked before and beats the distance *)
Lemma pass_some (l : list (seg (T:=R))) sorted best beat i n : pass l sorted best beat = Some (i, n) ->
  best = Some (i, n) \/ (In (i, n) l /\ ~ In i sorted /\ beat < n).
Proof.
  revert best beat; induction l as [|[j m] r IH]; intros best beat H; cbn [pass] in H; [left; exact H|].
  change (nltb beat m) with (Rltb beat m) in H.
  destruct (Rltb beat m && negb (picked j sorted)) eqn:E.
  - apply andb_true_iff in E. destruct E as [E1 E2]. apply Rltb_true in E1. apply negb_true_iff in E2.
    destruct (IH _ _ H) as [Hb|[Hin [Hn Hlt]]].
    + inversion Hb; subst. right. split; [left; reflexivity|]. split; [|exact E1].
      intro Hc. apply picked_in in Hc. congruence.
    + right. split; [right; exact Hin|]. split; [exact Hn | lra].
  - destruct (IH _ _ H) as [Hb|[Hin [Hn Hlt]]]; [left; exact Hb|]. right. split; [right; exact Hin | split; assumption].
Qed.

(* candidates still to be picked *)
Definition todo (init : R) (l : list (seg (T:=R))) (sorted : list nat) : list (seg (T:=R)) :=
  filter (fun s => Rltb init (snd s) && negb (picked (fst s) sorted)) l.

Lemma todo_in init l sorted i n : In (i, n) (todo init l sorted) <-> In (i, n) l /\ init < n /\ ~ In i sorted.
Proof.
  unfold todo. rewrite filter_In. cbn [fst snd]. rewrite andb_true_iff, Rltb_true, negb_true_iff. split.
  - intros [H1 [H2 H3]]. repeat split; try assumption. intro Hc. apply picked_in in Hc. congruence.
  - intros [H1 [H2 H3]]. repeat split; try assumption. destruct (picked i sorted) eqn:E; [|reflexivity]. apply picked_in in E. contradiction.
Qed.

Lemma todo_shrinks init l sorted i n : NoDup (map fst l) -> In (i, n) (todo init l sorted) ->
  (length (todo init l (sorted ++ [i])) < length (todo init l sorted))%nat.
Proof.
  intros Hnd Hin. unfold todo in *. induction l as [|[j m] r IH]; [destruct Hin|].
  cbn [map] in Hnd. inversion Hnd as [|? ? Hnotin Hnd']; subst.
  cbn [filter fst snd] in *.
  assert (Hle : forall (r' : list (seg (T:=R))),
             (length (filter (fun s => Rltb init (snd s) && negb (picked (fst s) (sorted ++ [i]))) r')
              <= length (filter (fun s => Rltb init (snd s) && negb (picked (fst s) sorted)) r'))%nat).
  { induction r' as [|[a b] r' IHr]; [cbn; lia|]. cbn [filter fst snd].
    destruct (Rltb init b); cbn [andb]; [|exact IHr].
    destruct (picked a sorted) eqn:Ea.
    - assert (Eb : picked a (sorted ++ [i]) = true) by (apply picked_in; apply in_or_app; left; apply picked_in; exact Ea).
      rewrite Eb. cbn [negb]. exact IHr.
    - cbn [negb]. destruct (picked a (sorted ++ [i])); cbn [negb length]; lia. }
  destruct (Rltb init m && negb (picked j sorted)) eqn:E.
  - destruct Hin as [Heq|Hin].
    + inversion Heq; subst.
      assert (Ep : picked i (sorted ++ [i]) = true) by (apply picked_in; apply in_or_app; right; left; reflexivity).
      rewrite Ep. cbn [negb]. rewrite andb_false_r. cbn [length]. apply Nat.lt_succ_r. exact (Hle r).
    + specialize (IH Hnd' Hin).
      destruct (Rltb init m && negb (picked j (sorted ++ [i]))); cbn [length]; lia.
  - specialize (IH Hnd' Hin).
    assert (E' : Rltb init m && negb (picked j (sorted ++ [i])) = false).
    { apply andb_false_iff in E. apply andb_false_iff. destruct E as [E|E]; [left; exact E|right].
      apply negb_false_iff in E. apply negb_false_iff. apply picked_in. apply in_or_app. left. apply picked_in. exact E. }
    rewrite E'. exact IH.
Qed.

Lemma sorted_kept init fuel (l : list (seg (T:=R))) sorted i : In i sorted -> In i (sort_left init fuel l sorted).
Proof.
  revert sorted; induction fuel as [|f IH]; intros sorted H; cbn [sort_left]; [exact H|].
  destruct (pass l sorted None init) as [[j m]|]; [|exact H]. apply IH. apply in_or_app. left. exact H.
Qed.

Theorem sort_left_complete init (l : list (seg (T:=R))) : NoDup (map fst l) ->
  forall fuel sorted, (length (todo init l sorted) <= fuel)%nat ->
  forall i n, In (i, n) l -> init < n -> In i (sort_left init fuel l sorted).
Proof.
  intros Hnd fuel. induction fuel as [|f IH]; intros sorted Hf i n Hin Hn.
  - cbn [sort_left]. destruct (in_dec Nat.eq_dec i sorted) as [Hs|Hs]; [exact Hs|]. exfalso.
    assert (Ht : In (i, n) (todo init l sorted)) by (apply todo_in; repeat split; assumption).
    destruct (todo init l sorted); [destruct Ht | cbn in Hf; lia].
  - cbn [sort_left]. destruct (pass l sorted None init) as [[j m]|] eqn:E.
    + destruct (pass_some l sorted None init j m E) as [Hb|[Hjin [Hjn Hjlt]]]; [discriminate|].
      assert (Ht : In (j, m) (todo init l sorted)) by (apply todo_in; repeat split; assumption).
      pose proof (todo_shrinks init l sorted j m Hnd Ht) as Hsh.
      apply (fun H => IH (sorted ++ [j]) H i n Hin Hn). lia.
    + destruct (pass_none l sorted init E i n Hin) as [Hs|Hle]; [exact Hs | lra].
Qed.

Lemma NoDup_snoc {A} (l : list A) a : NoDup l -> ~ In a l -> NoDup (l ++ [a]).
Proof.
  induction l as [|x l IH]; intros Hnd Hn; cbn [app].
  - constructor; [intros []|constructor].
  - inversion Hnd as [|? ? Hx Hl]; subst. constructor.
    + intro Hc. apply in_app_or in Hc. destruct Hc as [Hc|[Hc|[]]]; [exact (Hx Hc)|]. subst. apply Hn. left. reflexivity.
    + apply IH; [exact Hl|]. intro Hc. apply Hn. right. exact Hc.
Qed.

(* no segment is picked twice and nothing is invented *)
Theorem sort_left_sound init (l : list (seg (T:=R))) : forall fuel sorted,
  NoDup sorted -> (forall i, In i sorted -> In i (map fst l)) ->
  NoDup (sort_left init fuel l sorted) /\ forall i, In i (sort_left init fuel l sorted) -> In i (map fst l).
Proof.
  intros fuel. induction fuel as [|f IH]; intros sorted Hnd Hsub; cbn [sort_left]; [split; assumption|].
  destruct (pass l sorted None init) as [[j m]|] eqn:E; [|split; assumption].
  destruct (pass_some l sorted None init j m E) as [Hb|[Hjin [Hjn Hjlt]]]; [discriminate|].
  apply IH.
  - apply NoDup_snoc; assumption.
  - intros i Hi. apply in_app_or in Hi. destruct Hi as [Hi|[Hi|[]]]; [apply Hsub; exact Hi|]. subst.
    apply in_map_iff. exists (i, m). split; [reflexivity | exact Hjin].
Qed.

Lemma todo_length init l sorted : (length (todo init l sorted) <= length l)%nat.
Proof. unfold todo. induction l as [|a l IH]; [cbn; lia|]. cbn [filter length]. destruct (_ && _); cbn [length]; lia. Qed.

(* with -1 to beat and as many passes as there are segments, the result holds every segment of the wing exactly once *)
Theorem sort_left_all (l : list (seg (T:=R))) : NoDup (map fst l) -> (forall i n, In (i, n) l -> 0 <= n) ->
  NoDup (sort_left (-1) (length l) l []) /\ forall i, In i (sort_left (-1) (length l) l []) <-> In i (map fst l).
Proof.
  intros Hnd Hpos.
  destruct (sort_left_sound (-1) l (length l) [] (NoDup_nil _) (fun i H => match H with end)) as [H1 H2].
  split; [exact H1|]. intros i. split; [apply H2|]. intros Hi. apply in_map_iff in Hi. destruct Hi as [[j n] [Hj Hin]]. cbn in Hj. subst j.
  apply (sort_left_complete (-1) l Hnd (length l) [] (todo_length _ _ _) i n Hin). specialize (Hpos i n Hin). lra.
Qed.

(* only segments that beat the initial distance are ever picked *)
Theorem sort_left_picks_beaters init (l : list (seg (T:=R))) : forall fuel sorted i,
  In i (sort_left init fuel l sorted) -> In i sorted \/ exists n, In (i, n) l /\ init < n.
Proof.
  intros fuel. induction fuel as [|f IH]; intros sorted i H; cbn [sort_left] in H; [left; exact H|].
  destruct (pass l sorted None init) as [[j m]|] eqn:E; [|left; exact H].
  destruct (pass_some l sorted None init j m E) as [Hb|[Hjin [Hjn Hjlt]]]; [discriminate|].
  destruct (IH _ _ H) as [Hs|Hex]; [|right; exact Hex].
  apply in_app_or in Hs. destruct Hs as [Hs|[Hs|[]]]; [left; exact Hs|]. subst. right. exists m. split; assumption.
Qed.
