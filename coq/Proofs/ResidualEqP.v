(* Equivariance of the lifting-line residual under similarity maps (rotation O with det +1, uniform scale k > 0):
   with circulations scaled by k, the residual scales by k^2.  k = 1 gives rigid-motion invariance (C03), O = id gives
   dynamic similarity in length (C05). *)
From Coq Require Import Reals Lra List Bool.
From MuxV Require Import Base.Num Base.Vec3 Base.RInst Model.Helpers Model.Kernel Model.Residual Proofs.HelpersP Proofs.KernelP.
Import ListNotations.
Local Open Scope R_scope.

Section Eq.
  Variable O : v3 R -> v3 R.
  Hypothesis O_add : forall a b, O (vadd a b) = vadd (O a) (O b).
  Hypothesis O_scale : forall k a, O (vscale k a) = vscale k (O a).
  Hypothesis O_dot : forall a b, vdot (O a) (O b) = vdot a b.
  (* sigma = +1: proper rotation; sigma = -1: reflection, in which case every horseshoe is re-oriented (inbound <-> outbound
     node), so that dl and the span vector u_s change sign relative to the mapped ones *)
  Variable sigma : R.
  Hypothesis sigma_sq : sigma * sigma = 1.
  Hypothesis O_cross : forall a b, vcross (O a) (O b) = vscale sigma (O (vcross a b)).
  Variable k : R.
  Hypothesis kpos : 0 < k.
  Variable fatan2 : R -> R -> R.
  Variable opt : opts.

  Lemma Osub a b : O (vsub a b) = vsub (O a) (O b).
  Proof.
    replace (vsub a b) with (vadd a (vscale (-1) b)) by (destruct a, b; rcompute; apply V3_eq; ring).
    rewrite O_add, O_scale. destruct (O a), (O b); rcompute; apply V3_eq; ring.
  Qed.
  Lemma Ozero : O vzero = vzero.
  Proof. replace (@vzero R _) with (vscale 0 (@vzero R _)) by (rcompute; apply V3_eq; ring). rewrite O_scale. destruct (O vzero); rcompute; apply V3_eq; ring. Qed.
  Lemma Onorm a : vnorm (O a) = vnorm a.
  Proof. unfold vnorm, vnorm2. rewrite O_dot. reflexivity. Qed.

  (* transformed control point: lengths x k, areas x k^2, directions and velocities rotated *)
  Definition Tc (c : cpt R) : cpt R :=
    mk_cpt (vscale (k * sigma) (O (cdl c))) (O (cua c)) (O (cun c)) (vscale sigma (O (cus c))) (k * k * cdS c) (k * ccbar c) (cnu c) (csos c) (ccsi c)
           (O (cvinf c)) (O (cvrot c)).
  Definition TV (V : v3 R) : v3 R := vscale (1 / k) (O V).

  Lemma induced_sim Vr g : induced (map TV Vr) (map (Rmult k) g) = O (induced Vr g).
  Proof.
    revert g; induction Vr as [|V Vr IH]; intros [|x g]; cbn [map induced]; try (symmetry; apply Ozero).
    rewrite IH, O_add. f_equal. unfold TV, vscaler. destruct V as [a b c].
    replace (V3 (vx (V3 a b c) * x) (vy (V3 a b c) * x) (vz (V3 a b c) * x))%num with (vscale x (V3 a b c)) by (rcompute; apply V3_eq; ring).
    rewrite O_scale. destruct (O (V3 a b c)) as [a' b' c']. rcompute. apply V3_eq; field; lra.
  Qed.
  Lemma v_local_sim c Vr g : v_local (Tc c) (map TV Vr) (map (Rmult k) g) = O (v_local c Vr g).
  Proof. unfold v_local, vinf_rot. cbn [Tc cvinf cvrot]. rewrite induced_sim, !O_add. reflexivity. Qed.
  Lemma in_plane_sim c v : in_plane (Tc c) (O v) = O (in_plane c v).
  Proof.
    unfold in_plane. cbn [Tc cus]. rewrite vdot_scale_l, O_dot, Osub, O_scale, vscale_vscale.
    replace (sigma * vdot (cus c) v * sigma) with (vdot (cus c) v) by (transitivity (sigma * sigma * vdot (cus c) v); [rewrite sigma_sq; ring|ring]).
    reflexivity.
  Qed.

  (* section data that do not depend on the Reynolds number (needed only when k <> 1) *)
  Definition re_independent (S : section R) : Prop :=
    forall a r r' m, sCL S a r m = sCL S a r' m /\ sCLa S a r m = sCLa S a r' m /\ saL0 S r m = saL0 S r' m.

  Lemma Vinf_raw_sim c : Vinf_raw (Tc c) = Vinf_raw c.
  Proof. unfold Vinf_raw, Vinf_of. cbn [Tc cvinf]. rewrite O_dot. reflexivity. Qed.
  Lemma Vinf_ip_sim c : Vinf_ip (Tc c) = Vinf_ip c.
  Proof. unfold Vinf_ip, Vinf_of. cbn [Tc cvinf]. rewrite in_plane_sim, O_dot. reflexivity. Qed.

  Definition cl_of (S : section R) (csi al Re M : R) : R :=
    if (use_swept opt && negb (match_pro opt))%bool
    then sCL S al Re M + sCLa S al Re M * (saL0 S Re M - saL0 S Re M * csi) else sCL S al Re M.
  Lemma cl_of_spec c S v :
    s_CL (sec_state fatan2 opt c S v) =
    cl_of S (ccsi c) (s_alpha (sec_state fatan2 opt c S v)) (s_Re (sec_state fatan2 opt c S v)) (s_M (sec_state fatan2 opt c S v)).
  Proof. reflexivity. Qed.

  Theorem residual_at_sim c S Vr g gi : k = 1 \/ re_independent S ->
    residual_at fatan2 opt (Tc c) S (map TV Vr) (map (Rmult k) g) (k * gi) = k * k * residual_at fatan2 opt c S Vr g gi.
  Proof.
    intros Hs. unfold residual_at. rewrite v_local_sim. set (v := v_local c Vr g). cbv zeta.
    (* vortex lift *)
    assert (Ew : vnorm (wvec (Tc c) (O v)) = k * vnorm (wvec c v)).
    { unfold wvec. cbn [Tc cdl]. rewrite vcross_scale_r, O_cross, vscale_vscale.
      replace (k * sigma * sigma) with k by (transitivity (k * (sigma * sigma)); [rewrite sigma_sq; ring|ring]).
      rewrite vnorm_scale by lra. rewrite Onorm. reflexivity. }
    rewrite Ew.
    (* section state *)
    set (s := sec_state fatan2 opt c S v). set (s' := sec_state fatan2 opt (Tc c) S (O v)).
    assert (EV2 : s_V2 s' = s_V2 s).
    { unfold s, s', sec_state. cbn [s_V2]. destruct (use_in_plane opt); [rewrite in_plane_sim|]; rewrite O_dot; reflexivity. }
    assert (Eal : s_alpha s' = s_alpha s).
    { unfold s, s', sec_state. cbn [s_alpha Tc cua cun]. rewrite !O_dot. reflexivity. }
    assert (EV : s_V s' = s_V s).
    { unfold s, s', sec_state. cbn [s_V]. destruct (use_in_plane opt); [rewrite in_plane_sim|]; rewrite O_dot; reflexivity. }
    assert (EM : s_M s' = s_M s).
    { unfold s, s', sec_state. cbn [s_M Tc csos]. destruct (use_in_plane opt); [rewrite in_plane_sim|]; rewrite O_dot; reflexivity. }
    assert (ERe : s_Re s' = k * s_Re s).
    { unfold s, s', sec_state. cbn [s_Re Tc ccbar cnu]. destruct (use_in_plane opt); [rewrite in_plane_sim|]; rewrite O_dot; rnum; unfold Rdiv; ring. }
    assert (ECL : s_CL s' = s_CL s).
    { unfold s' at 1, s at 1. rewrite (cl_of_spec (Tc c) S (O v)), (cl_of_spec c S v). fold s s'. rewrite Eal, ERe, EM. cbn [Tc ccsi].
      destruct Hs as [Hk|Hind]; [rewrite Hk, Rmult_1_l; reflexivity|].
      unfold cl_of. destruct (Hind (s_alpha s) (k * s_Re s) (s_Re s) (s_M s)) as [H1 [H2 H3]]. rewrite H1, H2, H3. reflexivity. }
    (* lift speed squared *)
    assert (EL : lift_V2 opt (Tc c) s' = lift_V2 opt c s).
    { unfold lift_V2, Vinf_sel. rewrite !Vinf_raw_sim, !Vinf_ip_sim, EV2. reflexivity. }
    rewrite EL, ECL. cbn [Tc cdS]. rnum. ring.
  Qed.
End Eq.

(* ---- speed scaling: all velocities x lam, circulation x lam => residual x lam^2 (Reynolds- and Mach-independent sections) ---- *)
Section Speed.
  Variable lam : R.
  Hypothesis lpos : 0 < lam.
  Variable fatan2 : R -> R -> R.
  Hypothesis atan2_hom : forall y x, fatan2 (lam * y) (lam * x) = fatan2 y x.     (* true of atan2 for lam > 0 *)
  Variable opt : opts.

  Definition Tl (c : cpt R) : cpt R :=
    mk_cpt (cdl c) (cua c) (cun c) (cus c) (cdS c) (ccbar c) (cnu c) (csos c) (ccsi c) (vscale lam (cvinf c)) (vscale lam (cvrot c)).
  Definition rm_independent (S : section R) : Prop :=
    forall a r r' m m', sCL S a r m = sCL S a r' m' /\ sCLa S a r m = sCLa S a r' m' /\ saL0 S r m = saL0 S r' m'.

  Lemma induced_speed Vr g : induced Vr (map (Rmult lam) g) = vscale lam (induced Vr g).
  Proof.
    revert g; induction Vr as [|V Vr IH]; intros [|x g]; cbn [map induced]; try (rcompute; apply V3_eq; ring).
    rewrite IH. destruct V, (induced Vr g). rcompute. apply V3_eq; ring.
  Qed.
  Lemma v_local_speed c Vr g : v_local (Tl c) Vr (map (Rmult lam) g) = vscale lam (v_local c Vr g).
  Proof. unfold v_local, vinf_rot. cbn [Tl cvinf cvrot]. rewrite induced_speed, <- !vscale_add. reflexivity. Qed.
  Lemma in_plane_speed c v : in_plane (Tl c) (vscale lam v) = vscale lam (in_plane c v).
  Proof. unfold in_plane. cbn [Tl cus]. destruct (cus c), v. rcompute. apply V3_eq; ring. Qed.
  Lemma sqrt_lam2 x : 0 <= x -> sqrt (lam * (lam * x)) = lam * sqrt x.
  Proof. intros Hx. replace (lam * (lam * x)) with (lam * lam * x) by ring. rewrite sqrt_mult_alt by nra. rewrite sqrt_square by lra. reflexivity. Qed.
  Lemma vdot_nonneg (a : v3 R) : 0 <= vdot a a.
  Proof. destruct a as [x y z]. rcompute. nra. Qed.

  Theorem residual_at_speed c S Vr g gi : rm_independent S ->
    residual_at fatan2 opt (Tl c) S Vr (map (Rmult lam) g) (lam * gi) = lam * lam * residual_at fatan2 opt c S Vr g gi.
  Proof.
    intros Hs. unfold residual_at. rewrite v_local_speed. set (v := v_local c Vr g). cbv zeta.
    assert (Ew : vnorm (wvec (Tl c) (vscale lam v)) = lam * vnorm (wvec c v)).
    { unfold wvec. cbn [Tl cdl]. rewrite vcross_scale_l, vnorm_scale by lra. reflexivity. }
    rewrite Ew.
    set (s := sec_state fatan2 opt c S v). set (s' := sec_state fatan2 opt (Tl c) S (vscale lam v)).
    assert (EV2 : s_V2 s' = lam * lam * s_V2 s).
    { unfold s, s', sec_state. cbn [s_V2]. destruct (use_in_plane opt); [rewrite in_plane_speed|]; rewrite vdot_scale_l, vdot_scale_r; ring. }
    assert (Eal : s_alpha s' = s_alpha s).
    { unfold s, s', sec_state. cbn [s_alpha Tl cua cun]. rewrite !vdot_scale_l. apply atan2_hom. }
    assert (ECL : s_CL s' = s_CL s).
    { unfold s' at 1, s at 1. rewrite (cl_of_spec fatan2 opt (Tl c) S (vscale lam v)), (cl_of_spec fatan2 opt c S v). fold s s'. rewrite Eal.
      cbn [Tl ccsi]. unfold cl_of.
      destruct (Hs (s_alpha s) (s_Re s') (s_Re s) (s_M s') (s_M s)) as [H1 [H2 H3]]. rewrite H1, H2, H3. reflexivity. }
    assert (EVr : Vinf_raw (Tl c) = lam * Vinf_raw c).
    { unfold Vinf_raw, Vinf_of. cbn [Tl cvinf]. rewrite vdot_scale_l, vdot_scale_r. apply sqrt_lam2, vdot_nonneg. }
    assert (EVi : Vinf_ip (Tl c) = lam * Vinf_ip c).
    { unfold Vinf_ip, Vinf_of. cbn [Tl cvinf]. rewrite in_plane_speed, vdot_scale_l, vdot_scale_r. apply sqrt_lam2, vdot_nonneg. }
    assert (EL : lift_V2 opt (Tl c) s' = lam * lam * lift_V2 opt c s).
    { unfold lift_V2, Vinf_sel. rewrite EVr, EVi, EV2. destruct (match_pro opt), (use_total opt), (use_in_plane opt); rnum; ring. }
    rewrite EL, ECL. cbn [Tl cdS]. rnum. ring.
  Qed.
End Speed.
