From Coq Require Import ZArith List Bool Lia.
From MuxV Require Import Model.Alias.
Import ListNotations.

Lemma arr_eqb_eq x y : arr_eqb x y = true -> x = y.
Proof.
  unfold arr_eqb. revert y; induction x as [|a x IH]; intros [|b y] H; try reflexivity; try discriminate.
  cbn in H. apply andb_true_iff in H. destruct H as [Hl H]. apply andb_true_iff in H. destruct H as [Hab H].
  apply Z.eqb_eq in Hab. subst b. f_equal. apply IH. apply andb_true_iff. split; assumption.
Qed.

(* coherent: the aircraft owns its position and the geometry in use was built for it *)
Definition coherent (s : st) : Prop := exists v, pos s = Own v /\ geom s = v.

Lemma step_copy_coherent s e : coherent s -> coherent (fst (step true s e)).
Proof.
  intros [v [Hp Hg]]. destruct e as [a|a w|]; cbn [step fst].
  - exists (nth a (hp s) []). split; [reflexivity|]. cbn [deref geom pos hp]. rewrite Hp. cbn [deref].
    destruct (arr_eqb v (nth a (hp s) [])) eqn:E; [|reflexivity]. apply arr_eqb_eq in E. rewrite Hg. exact E.
  - exists v. split; assumption.
  - exists v. split; assumption.
Qed.

(* with the copy, whatever the caller does to its arrays and however often it hands them over again, every query is answered with the
   geometry of the aircraft's own current position, which is the content the array had at the last hand-over *)
Theorem copy_queries_fresh es : forall s, coherent s -> Forall (fun o => fst o = snd o) (run true s es).
Proof.
  induction es as [|e r IH]; intros s Hs; [constructor|].
  cbn [run]. pose proof (step_copy_coherent s e Hs) as Hs'. destruct (step true s e) as [s' o] eqn:E. cbn [fst] in Hs'.
  apply Forall_app. split; [|apply IH; exact Hs'].
  destruct e as [a|a w|]; cbn [step] in E; inversion E; subst; try constructor; [|constructor].
  cbn [fst snd]. destruct Hs as [v [Hp Hg]]. rewrite Hp. cbn [deref]. symmetry. exact Hg.
Qed.

Lemma copy_position_independent_of_later_writes h p0 a a' w :
  deref (hp (fst (step true (fst (step true (init h p0) (SetState a))) (CallerWrites a' w))))
        (pos (fst (step true (fst (step true (init h p0) (SetState a))) (CallerWrites a' w)))) = nth a h [].
Proof. reflexivity. Qed.

(* by reference (the pinned snapshot) the statement fails: the caller updates its array in place and hands the same dictionary over
   again - the aircraft is at the new position, the geometry in use is the one of the old position; and an edit without any call moves
   the aircraft *)
Theorem alias_refuted :
  run false (init [[0; 0; -1000]%Z] [0; 0; 0]%Z) [SetState 0; CallerWrites 0 [0; 0; -30000]%Z; SetState 0; Query]
  = [([0; 0; -30000]%Z, [0; 0; -1000]%Z)].
Proof. reflexivity. Qed.
Theorem copy_same_history :
  run true (init [[0; 0; -1000]%Z] [0; 0; 0]%Z) [SetState 0; CallerWrites 0 [0; 0; -30000]%Z; SetState 0; Query]
  = [([0; 0; -30000]%Z, [0; 0; -30000]%Z)].
Proof. reflexivity. Qed.
Theorem alias_edit_without_call :
  run false (init [[0; 0; -1000]%Z] [0; 0; 0]%Z) [SetState 0; Query; CallerWrites 0 [5; 5; 5]%Z; Query]
  = [([0; 0; -1000]%Z, [0; 0; -1000]%Z); ([5; 5; 5]%Z, [0; 0; -1000]%Z)].
Proof. reflexivity. Qed.
