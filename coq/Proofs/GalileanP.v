(* Galilean invariance: a uniform wind W with Earth-fixed velocity v is the same as still air with velocity v - W. *)
From Coq Require Import Reals Lra List Bool.
From MuxV Require Import Base.Num Base.Vec3 Base.RInst Model.Helpers Model.AeroState Model.Analyses Model.Kernel Model.Residual
  Proofs.HelpersP.
Import ListNotations.
Local Open Scope R_scope.

Lemma vsub_zero (a : v3 R) : vsub a vzero = a.
Proof. destruct a; rcompute; f_equal; ring. Qed.
Lemma vadd_zero_l (a : v3 R) : vadd vzero a = a.
Proof. destruct a; rcompute; f_equal; ring. Qed.
Lemma vsub_add_cancel (w a : v3 R) : vsub (vadd w a) w = a.
Proof. destruct a, w; rcompute; f_equal; ring. Qed.

(* the freestream seen by a control point: wind - velocity (scene.py 565-571) *)
Definition freestream (W v : v3 R) : v3 R := vadd (vopp v) W.
Lemma freestream_galilean W v : freestream W v = freestream vzero (vsub v W).
Proof. destruct W, v; unfold freestream; rcompute; f_equal; ring. Qed.

Section G.
  Variables (fcos fsin ftan fatan fasin : R -> R) (fatan2 : R -> R -> R) (d2r r2d : R).
  Variable W : v3 R.
  (* solve functions of the windy scene and of the still-air scene *)
  Variables (FW F0 : ast R -> list R).
  Definition shift (s : ast R) : ast R := mk_ast (vsub (s_v s) W) (s_w s) (s_p s) (s_q s) (s_c s).
  Hypothesis HF : forall s, FW s = F0 (shift s).

  Notation getW := (get_ae fasin fatan2 r2d W).
  Notation get0 := (get_ae fasin fatan2 r2d vzero).
  Notation setW := (set_ae fcos fsin ftan fatan fasin fatan2 d2r r2d W).
  Notation set0 := (set_ae fcos fsin ftan fatan fasin fatan2 d2r r2d vzero).

  Lemma get_shift s : getW s = get0 (shift s).
  Proof. unfold Analyses.get_ae, get_aero_state, shift. cbn [s_q s_v]. rewrite vsub_zero. reflexivity. Qed.
  Lemma set_shift s a b V : shift (setW s a b V) = set0 (shift s) a b V.
  Proof.
    unfold Analyses.set_ae, set_aero_state, shift. cbn [s_q s_v s_w s_p s_c].
    pose proof (get_shift s) as G. unfold Analyses.get_ae, shift in G. cbn [s_q s_v] in G. rewrite <- G.
    destruct (get_aero_state fasin fatan2 r2d (s_q s) (s_v s) W) as [[a0 b0] V0].
    f_equal. rewrite vsub_add_cancel, vadd_zero_l. reflexivity.
  Qed.
  Lemma setw_shift s w : shift (set_w s w) = set_w (shift s) w. Proof. reflexivity. Qed.
  Lemma setc_shift s c : shift (set_c s c) = set_c (shift s) c. Proof. reflexivity. Qed.

  (* every analysis gives the same numbers, and leaves the corresponding state *)
  Theorem stability_galilean s dth :
    let '(A, B, sf) := stability fcos fsin ftan fatan fasin fatan2 d2r r2d W FW s dth in
    let '(A0, B0, sf0) := stability fcos fsin ftan fatan fasin fatan2 d2r r2d vzero F0 (shift s) dth in
    A = A0 /\ B = B0 /\ shift sf = sf0.
  Proof.
    unfold stability. rewrite get_shift. destruct (get0 (shift s)) as [[a0 b0] V0].
    rewrite !HF, !set_shift. repeat split; reflexivity.
  Qed.
  Theorem damping_galilean s dw pp qq rr lat lon :
    let '(A, B, C, sf) := damping fasin fatan2 r2d W FW s dw pp qq rr lat lon in
    let '(A0, B0, C0, sf0) := damping fasin fatan2 r2d vzero F0 (shift s) dw pp qq rr lat lon in
    A = A0 /\ B = B0 /\ C = C0 /\ shift sf = sf0.
  Proof.
    unfold damping. rewrite get_shift. destruct (get0 (shift s)) as [[a0 b0] V0].
    rewrite !HF, !setw_shift. repeat split; reflexivity.
  Qed.
  Theorem control_galilean s i dth :
    let '(A, sf) := control_deriv d2r FW s i dth in
    let '(A0, sf0) := control_deriv d2r F0 (shift s) i dth in A = A0 /\ shift sf = sf0.
  Proof. unfold control_deriv. rewrite !HF, !setc_shift. split; reflexivity. Qed.
  Theorem aero_center_galilean s delta :
    let '(x, z, cm, sf) := aero_center fcos fsin ftan fatan fasin fatan2 d2r r2d W FW s delta in
    let '(x0, z0, cm0, sf0) := aero_center fcos fsin ftan fatan fasin fatan2 d2r r2d vzero F0 (shift s) delta in
    x = x0 /\ z = z0 /\ cm = cm0 /\ shift sf = sf0.
  Proof.
    unfold aero_center. rewrite get_shift. destruct (get0 (shift s)) as [[a0 b0] V0].
    rewrite !HF, !set_shift. repeat split; reflexivity.
  Qed.
  Theorem target_CL_galilean fuel : forall s alpha CL target relax tol,
    match target_CL_loop fcos fsin ftan fatan fasin fatan2 d2r r2d W FW fuel s alpha CL target relax tol,
          target_CL_loop fcos fsin ftan fatan fasin fatan2 d2r r2d vzero F0 fuel (shift s) alpha CL target relax tol with
    | Some (a, sf), Some (a0, sf0) => a = a0 /\ shift sf = sf0
    | None, None => True
    | _, _ => False
    end.
  Proof.
    induction fuel as [|f IH]; intros s alpha CL target relax tol; cbn [target_CL_loop].
    - destruct (nltb tol (nabs (nsub CL target))); [exact I | split; reflexivity].
    - destruct (nltb tol (nabs (nsub CL target))); [|split; reflexivity].
      destruct f as [|f']; [exact I|].
      set (sf := setW s (Some (nadd alpha (ndiv (nofZ 5) (nofZ 1000)))) None None).
      set (sb := setW sf (Some (nsub alpha (ndiv (nofZ 5) (nofZ 1000)))) None None).
      set (sf0 := set0 (shift s) (Some (nadd alpha (ndiv (nofZ 5) (nofZ 1000)))) None None).
      set (sb0 := set0 sf0 (Some (nsub alpha (ndiv (nofZ 5) (nofZ 1000)))) None None).
      assert (Ef : shift sf = sf0) by apply set_shift.
      assert (Eb : shift sb = sb0) by (unfold sb, sb0; rewrite set_shift, Ef; reflexivity).
      assert (C1 : CL_of FW sf = CL_of F0 sf0) by (unfold CL_of; rewrite HF, Ef; reflexivity).
      assert (C2 : CL_of FW sb = CL_of F0 sb0) by (unfold CL_of; rewrite HF, Eb; reflexivity).
      rewrite C1, C2.
      set (al' := nadd alpha (nmul (ndiv (nsub target CL) (ndiv (nsub (CL_of F0 sf0) (CL_of F0 sb0)) (ndiv n1 (nofZ 100)))) relax)).
      set (s' := setW sb (Some al') None None).
      assert (E' : shift s' = set0 sb0 (Some al') None None) by (unfold s'; rewrite set_shift, Eb; reflexivity).
      assert (C3 : CL_of FW s' = CL_of F0 (set0 sb0 (Some al') None None)) by (unfold CL_of; rewrite HF, E'; reflexivity).
      rewrite C3, <- E'. apply IH.
  Qed.
End G.
