From Coq Require Import List String Bool Arith Lia.
From MuxV Require Import Model.Validate Model.Export Proofs.ValidateP.
Import ListNotations.
Open Scope string_scope.
Open Scope list_scope.

(* ---- default names ---- *)
Lemma substring_app b t : substring 0 (String.length b) (b ++ t)%string = b.
Proof. induction b as [|c b IH]; simpl; [destruct t; reflexivity | rewrite IH; reflexivity]. Qed.

Lemma last_occ_suffix b : last_occ ".json" (b ++ ".json")%string = Some (String.length b).
Proof.
  induction b as [|c b IH].
  - reflexivity.
  - change ((String c b ++ ".json")%string) with (String c (b ++ ".json")%string).
    cbn [last_occ]. rewrite IH. reflexivity.
Qed.

Theorem base_name_spec b : base_name (b ++ ".json")%string = b.
Proof. unfold base_name. rewrite last_occ_suffix. apply substring_app. Qed.

Theorem default_names b key :
  let input := (b ++ ".json")%string in
  default_filename input "export_stl" = Some (b ++ ".stl")%string /\
  default_filename input "export_vtk" = Some (b ++ ".vtk")%string /\
  default_filename input "distributions" = Some (b ++ "_distributions.csv")%string /\
  (key <> "export_stl" -> key <> "export_vtk" -> key <> "distributions" ->
   default_filename input key = if extension_ok "display" key then None else Some (b ++ "_" ++ key ++ ".json")%string).
Proof.
  intro input. unfold default_filename, input. rewrite base_name_spec. repeat split.
  intros H1 H2 H3. apply String.eqb_neq in H1, H2, H3. rewrite H1, H2, H3. reflexivity.
Qed.

(* ---- dispatch ---- *)
Theorem run_cli_calls methods input run :
  map fst (run_cli methods input run) = filter (fun k => mem k methods) (map fst run).
Proof.
  unfold run_cli. induction run as [|[key given] r IH]; simpl; [reflexivity|].
  destruct (mem key methods); simpl; rewrite IH; reflexivity.
Qed.
Theorem run_cli_filenames methods input run key f :
  In (key, f) (run_cli methods input run) ->
  mem key methods = true /\
  exists given, In (key, given) run /\ f = match given with Some g => Some g | None => default_filename input key end.
Proof.
  unfold run_cli. rewrite in_flat_map. intros [[k g] [Hin Hc]].
  destruct (mem k methods) eqn:E; simpl in Hc; [|contradiction].
  destruct Hc as [Hc|[]]. inversion Hc; subst. split; [exact E|]. exists g. split; [exact Hin | reflexivity].
Qed.
Theorem run_cli_unknown_skipped methods input key given r :
  mem key methods = false -> run_cli methods input ((key, given) :: r) = run_cli methods input r.
Proof. intro H. unfold run_cli. simpl. rewrite H. reflexivity. Qed.

(* ---- STL ---- *)
Theorem two_tris_cover {A} (b : bool) (v0 v1 v2 v3 x : A) : In x (two_tris b v0 v1 v2 v3) <-> In x [v0; v1; v2; v3].
Proof. destruct b; simpl; tauto. Qed.
Theorem two_tris_length {A} (b : bool) (v0 v1 v2 v3 : A) : List.length (two_tris b v0 v1 v2 v3) = 6.
Proof. destruct b; reflexivity. Qed.

Section Slots.
  Variables R N : nat.
  Hypothesis HR : 2 <= R.
  (* every panel (i, j) owns the six consecutive positions slot..slot+5; these blocks tile [0, 3 * num_facets) exactly *)
  Theorem slot_in_range i j k : i < N -> j < R - 1 -> k < 6 -> slot R i j + k < 3 * num_facets N R.
  Proof. unfold slot, num_facets. intros. nia. Qed.
  Theorem decode_slot i j k : j < R - 1 -> k < 6 -> decode R (slot R i j + k) = (i, j, k).
  Proof.
    intros Hj Hk. unfold decode, slot.
    assert (E : (2 * i * (R - 1) + 2 * j) * 3 + k = (i * (R - 1) + j) * 6 + k) by lia.
    rewrite E.
    assert (D : ((i * (R - 1) + j) * 6 + k) / 6 = i * (R - 1) + j).
    { symmetry. apply (Nat.div_unique _ 6 _ k); lia. }
    assert (M : ((i * (R - 1) + j) * 6 + k) mod 6 = k).
    { symmetry. apply (Nat.mod_unique _ 6 (i * (R - 1) + j) k); lia. }
    rewrite D, M.
    assert (D2 : (i * (R - 1) + j) / (R - 1) = i).
    { symmetry. apply (Nat.div_unique _ (R - 1) _ j); lia. }
    assert (M2 : (i * (R - 1) + j) mod (R - 1) = j).
    { symmetry. apply (Nat.mod_unique _ (R - 1) i j); lia. }
    rewrite D2, M2. reflexivity.
  Qed.
  Theorem slot_decode v : v < 3 * num_facets N R ->
    let '(i, j, k) := decode R v in i < N /\ j < R - 1 /\ k < 6 /\ slot R i j + k = v.
  Proof.
    unfold num_facets, decode, slot. intro Hv.
    assert (HM : R - 1 <> 0) by lia.
    pose proof (Nat.div_mod v 6 ltac:(lia)) as E1.
    pose proof (Nat.mod_upper_bound v 6 ltac:(lia)) as B1.
    pose proof (Nat.div_mod (v / 6) (R - 1) HM) as E2.
    pose proof (Nat.mod_upper_bound (v / 6) (R - 1) HM) as B2.
    assert (Hw : v / 6 < N * (R - 1)) by (apply Nat.div_lt_upper_bound; lia).
    assert (Hi : v / 6 / (R - 1) < N) by (apply Nat.div_lt_upper_bound; lia).
    repeat split; try assumption. lia.
  Qed.
End Slots.

Theorem quad_mirror {A} (M : A -> A) (rootR tipR rootL tipL : nat -> A) j :
  (forall n, rootL n = M (rootR n)) -> (forall n, tipL n = M (tipR n)) ->
  quad_left rootL tipL j = map M (rev (quad_right rootR tipR j)).
Proof. intros Hr Ht. unfold quad_left, quad_right. simpl. rewrite !Hr, !Ht. reflexivity. Qed.

Lemma chunk3_spec {A} n : forall l : list A, List.length l = 3 * n -> List.concat (chunk3 l) = l /\ List.length (chunk3 l) = n.
Proof.
  induction n as [|n IH]; intros l Hl.
  - destruct l; [split; reflexivity | simpl in Hl; lia].
  - destruct l as [|a [|b [|c r]]]; simpl in Hl; try lia.
    destruct (IH r ltac:(lia)) as [H1 H2]. simpl. rewrite H1, H2. split; reflexivity.
Qed.
Lemma chunk3_triples {A} (l : list A) : Forall (fun f => List.length f = 3) (chunk3 l).
Proof.
  assert (H : forall n (l : list A), List.length l <= n -> Forall (fun f => List.length f = 3) (chunk3 l)).
  { induction n as [|n IH]; intros l' Hl.
    - destruct l'; [constructor | simpl in Hl; lia].
    - destruct l' as [|a [|b [|c r]]]; simpl; try constructor; [reflexivity | apply IH; simpl in Hl; lia]. }
  apply (H (List.length l)). lia.
Qed.
Theorem airplane_facets_spec {A} (segs : list (list A)) (ns : list nat) :
  Forall2 (fun s n => List.length s = 3 * n) segs ns ->
  List.concat (airplane_facets segs) = List.concat segs /\ List.length (airplane_facets segs) = fold_right Nat.add 0 ns.
Proof.
  induction 1 as [|s n segs' ns' Hs _ IH]; [split; reflexivity|].
  destruct IH as [I1 I2]. destruct (chunk3_spec n s Hs) as [C1 C2].
  unfold airplane_facets in *. simpl. rewrite List.concat_app, app_length, I1, I2, C1, C2. split; reflexivity.
Qed.

(* ---- labels of the distributions file ---- *)
Lemma substring_all s n : String.length s <= n -> substring 0 n s = s.
Proof.
  revert n; induction s as [|c r IH]; intros n H.
  - destruct n; reflexivity.
  - destruct n as [|n]; [cbn in H; inversion H|]. cbn [substring]. f_equal. apply IH. cbn in H. apply le_S_n. exact H.
Qed.
Lemma name_width_ge names n : In n names -> String.length n <= name_width names.
Proof.
  unfold name_width. induction names as [|a r IH]; intros H; [destruct H|].
  cbn [map fold_right]. destruct H as [->|H].
  - apply Nat.le_max_l.
  - etransitivity; [apply IH; exact H | apply Nat.le_max_r].
Qed.
Theorem csv_labels_are_names names n : In n names -> csv_label (name_width names) n = n.
Proof. intros H. apply substring_all. apply name_width_ge. exact H. Qed.
Theorem csv_labels_injective names a b : In a names -> In b names ->
  csv_label (name_width names) a = csv_label (name_width names) b -> a = b.
Proof. intros Ha Hb. rewrite !csv_labels_are_names by assumption. exact (fun H => H). Qed.
