(* The quarter-chord curve generated for a wing segment is the documented one (C12). *)
From Coq Require Import Reals Lra List Psatz.
From Coquelicot Require Import Coquelicot.
From MuxV Require Import Base.Num Base.Vec3 Base.RInst Base.Interp Proofs.InterpP Model.QCurve.
Import ListNotations.
Local Open Scope R_scope.

Lemma V3_eq_Q (a b c a' b' c' : R) : a = a' -> b = b' -> c = c' -> V3 a b c = V3 a' b' c'.
Proof. intros; subst; reflexivity. Qed.

Fixpoint nondecr (x : R) (l : list R) : Prop := match l with [] => True | y :: r => x <= y /\ nondecr y r end.
Definition sortedR (l : list R) : Prop := match l with [] => True | x :: r => nondecr x r end.

Lemma last_cons {A} (y : A) r x : last (y :: r) x = last r y.
Proof.
  revert y x; induction r as [|a r IH]; intros y x; [reflexivity|].
  change (last (y :: a :: r) x) with (last (a :: r) x). rewrite (IH a x). symmetry. apply (IH a y).
Qed.
Lemma nondecr_last x l : nondecr x l -> x <= last l x.
Proof.
  revert x; induction l as [|y r IH]; intros x H; [simpl; lra|].
  destruct H as [H1 H2]. rewrite last_cons. specialize (IH _ H2). lra.
Qed.

(* ---- the discontinuity list is sorted ---- *)
Lemma insert_nondecr x l lo : lo <= x -> nondecr lo l -> nondecr lo (insert x l).
Proof.
  revert lo; induction l as [|y r IH]; intros lo Hx Hl.
  - simpl. split; [exact Hx | exact I].
  - destruct Hl as [H1 H2]. cbn [insert]. change (nleb x y) with (Rleb x y).
    destruct (Rleb x y) eqn:E.
    + apply Rleb_true in E. split; [exact Hx|]. split; [exact E | exact H2].
    + apply Rleb_false in E. split; [exact H1|]. apply IH; [lra | exact H2].
Qed.
Lemma insert_sorted x l : sortedR l -> sortedR (insert x l).
Proof.
  destruct l as [|y r]; intro H; [exact I|].
  cbn [insert]. change (nleb x y) with (Rleb x y). destruct (Rleb x y) eqn:E.
  - apply Rleb_true in E. split; [exact E | exact H].
  - apply Rleb_false in E. change (nondecr y (insert x r)). apply insert_nondecr; [lra | exact H].
Qed.
Lemma isort_sorted l : sortedR (isort l).
Proof. induction l as [|x r IH]; [exact I|]. apply insert_sorted; exact IH. Qed.
Theorem mk_discont_sorted (di sw : dist R) : sortedR (mk_discont di sw).
Proof. apply isort_sorted. Qed.

(* constant sweep and dihedral: the list is [0; 1] *)
Lemma mk_discont_const a c : mk_discont (DConst a) (DConst c) = [0; 1].
Proof.
  unfold mk_discont, xs_of, add_new, memb. cbn [fold_left existsb app]. rnum.
  assert (E1 : Reqb 0 1 = false) by (unfold Reqb; destruct (Req_EM_T 0 1); [lra | reflexivity]).
  rewrite E1. cbn [orb app isort fold_right insert]. change (nleb 0 1) with (Rleb 0 1).
  assert (E2 : Rleb 0 1 = true) by (apply Rleb_true; lra). rewrite E2. reflexivity.
Qed.

(* ---- piece-wise accumulation = one integral (Chasles) ---- *)
Section Accum.
  Variable f : R -> R.
  Hypothesis Hint : forall a b, ex_RInt f a b.

  Lemma accum_RInt b rest : forall prev s acc, prev <= s -> nondecr prev rest ->
    accum (RInt f) b prev rest s acc = acc + RInt f prev (Rmin s (last rest prev)) * b.
  Proof.
    induction rest as [|d r IH]; intros prev s acc Hs Hnd.
    - cbn [accum last]. rewrite Rmin_right by exact Hs. rewrite RInt_point. unfold zero; simpl. rnum. ring.
    - destruct Hnd as [H1 H2]. cbn [accum]. rnum. rewrite last_cons.
      destruct (Rltb d s) eqn:E.
      + apply Rltb_true in E. rewrite IH by (try lra; exact H2).
        rewrite <- (RInt_Chasles f prev d (Rmin s (last r d))) by apply Hint.
        unfold plus; simpl. ring.
      + apply Rltb_false in E. assert (E2 : Rleb s d = true) by (apply Rleb_true; exact E). rewrite E2.
        pose proof (nondecr_last _ _ H2) as HL. rewrite Rmin_left by lra. reflexivity.
  Qed.
End Accum.

Lemma der_affine2 (F : R -> R) s f c k : is_derive F s f -> is_derive (fun u => c + k * F u) s (k * f).
Proof.
  intro H. evar_last. apply (is_derive_plus (fun _ => c) (fun u => k * F u)). apply is_derive_const.
  apply (is_derive_scal F s k f H). unfold plus, zero, scal; simpl. unfold mult; simpl. ring.
Qed.
Lemma der_affine (F : R -> R) s f c k : is_derive F s f -> is_derive (fun u => c - k * F u) s (- k * f).
Proof.
  intro H. apply (is_derive_ext (fun u => c + (- k) * F u)). { intro t. change (@eq R (c + - k * F t) (c - k * F t)). ring. } apply der_affine2; exact H.
Qed.

(* ---- the documented curve ---- *)
Section Curve.
  Variable dr : R.                                   (* degrees to radians *)
  Variables (sw di : dist R).
  Let Lam (s : R) : R := angle_val dr sw s.          (* sweep and dihedral of the description, radians *)
  Let Gam (s : R) : R := angle_val dr di s.
  Hypothesis HiT : forall a b, ex_RInt (fun s => tan (Lam s)) a b.
  Hypothesis HiC : forall a b, ex_RInt (fun s => cos (Gam s)) a b.
  Hypothesis HiS : forall a b, ex_RInt (fun s => sin (Gam s)) a b.

  (* "advances with dx/ds = -tan(sweep) as a shear and with dihedral rotating the spanwise direction" *)
  Definition curve_spec (left_side : bool) (root : v3 R) (b s : R) : v3 R :=
    V3 (vx root - b * RInt (fun t => tan (Lam t)) 0 s)
       (if left_side then vy root - b * RInt (fun t => cos (Gam t)) 0 s else vy root + b * RInt (fun t => cos (Gam t)) 0 s)
       (vz root - b * RInt (fun t => sin (Gam t)) 0 s).

  (* what the code computes, with quad = the Riemann integral of the code's integrands *)
  Definition qc_code (left_side : bool) (root : v3 R) (b : R) (disc : list R) (s : R) : v3 R :=
    qc_standard left_side root (RInt (ig_x tan dr left_side sw)) (RInt (ig_y cos dr left_side di)) (RInt (ig_z sin dr left_side di)) b disc s.

  Lemma ex_x left_side a b : ex_RInt (ig_x tan dr left_side sw) a b.
  Proof.
    destruct left_side; unfold ig_x, get_sweep; rnum.
    - apply ex_RInt_ext with (f := fun s => - tan (Lam s)); [intros; unfold Lam; rewrite tan_neg; reflexivity|].
      apply (ex_RInt_opp (V := R_NormedModule) (fun s => tan (Lam s))). apply HiT.
    - apply HiT.
  Qed.
  Lemma ex_y left_side a b : ex_RInt (ig_y cos dr left_side di) a b.
  Proof.
    destruct left_side; unfold ig_y, get_dihedral; rnum.
    - apply (ex_RInt_opp (V := R_NormedModule) (fun s => cos (Gam s))). apply HiC.
    - apply ex_RInt_ext with (f := fun s => - cos (Gam s)); [intros; unfold Gam; rewrite cos_neg; reflexivity|].
      apply (ex_RInt_opp (V := R_NormedModule) (fun s => cos (Gam s))). apply HiC.
  Qed.
  Lemma ex_z left_side a b : ex_RInt (ig_z sin dr left_side di) a b.
  Proof.
    destruct left_side; unfold ig_z, get_dihedral; rnum.
    - apply (ex_RInt_opp (V := R_NormedModule) (fun s => sin (Gam s))). apply HiS.
    - apply ex_RInt_ext with (f := fun s => sin (Gam s)); [intros; unfold Gam; rewrite sin_neg, Ropp_involutive; reflexivity|]. apply HiS.
  Qed.

  Lemma RInt_x left_side a b : RInt (ig_x tan dr left_side sw) a b = (if left_side then - RInt (fun s => tan (Lam s)) a b else RInt (fun s => tan (Lam s)) a b).
  Proof.
    destruct left_side; unfold ig_x, get_sweep; rnum.
    - etransitivity; [| exact (RInt_opp (V := R_CompleteNormedModule) (fun s => tan (Lam s)) a b (HiT a b))].
      apply RInt_ext. intros; unfold Lam; rewrite tan_neg; reflexivity.
    - reflexivity.
  Qed.
  Lemma RInt_y left_side a b : RInt (ig_y cos dr left_side di) a b = - RInt (fun s => cos (Gam s)) a b.
  Proof.
    etransitivity; [| exact (RInt_opp (V := R_CompleteNormedModule) (fun s => cos (Gam s)) a b (HiC a b))].
    apply RInt_ext. intros. destruct left_side; unfold ig_y, get_dihedral; rnum; unfold Gam; [reflexivity | rewrite cos_neg; reflexivity].
  Qed.
  Lemma RInt_z left_side a b : RInt (ig_z sin dr left_side di) a b = (if left_side then - RInt (fun s => sin (Gam s)) a b else RInt (fun s => sin (Gam s)) a b).
  Proof.
    destruct left_side.
    - etransitivity; [| exact (RInt_opp (V := R_CompleteNormedModule) (fun s => sin (Gam s)) a b (HiS a b))].
      apply RInt_ext. intros; unfold ig_z, get_dihedral; rnum; reflexivity.
    - apply RInt_ext. intros; unfold ig_z, get_dihedral; rnum; unfold Gam; rewrite sin_neg, Ropp_involutive; reflexivity.
  Qed.

  (* the generated curve is the documented one, on both sides, for every list of discontinuities *)
  Theorem qc_standard_is_curve left_side root b rest s :
    nondecr 0 rest -> 0 <= s <= last rest 0 ->
    qc_code left_side root b (0 :: rest) s = curve_spec left_side root b s.
  Proof.
    intros Hnd [Hs0 Hs1]. unfold qc_code, qc_standard, ds_standard.
    rewrite (accum_RInt _ (ex_x left_side)), (accum_RInt _ (ex_y left_side)), (accum_RInt _ (ex_z left_side)) by assumption.
    rewrite Rmin_left by exact Hs1. rewrite RInt_x, RInt_y, RInt_z. rnum.
    unfold curve_spec. destruct left_side; destruct root as [x0 y0 z0]; cbn [vadd vsub vx vy vz]; rnum; apply V3_eq_Q; cbn [vx vy vz]; rnum; ring.
  Qed.

  Theorem curve_starts_at_root left_side root b : curve_spec left_side root b 0 = root.
  Proof.
    unfold curve_spec. rewrite !RInt_point. unfold zero; simpl.
    destruct root as [x0 y0 z0]; destruct left_side; cbn [vx vy vz]; apply V3_eq_Q; ring.
  Qed.

  (* left and right halves are mirror images *)
  Definition mirror_y (p : v3 R) : v3 R := V3 (vx p) (- vy p) (vz p).
  Theorem curve_mirror root b s : curve_spec true (mirror_y root) b s = mirror_y (curve_spec false root b s).
  Proof. unfold curve_spec, mirror_y; destruct root as [x0 y0 z0]; cbn [vx vy vz]. apply V3_eq_Q; ring. Qed.

  (* the tangent: d/ds (x, y, z) = b (-tan Lambda, +-cos Gamma, -sin Gamma) wherever the angles are continuous *)
  Lemma RInt_var_derive (g : R -> R) (Hg : forall a b, ex_RInt g a b) s : continuous g s -> is_derive (fun u => RInt g 0 u) s (g s).
  Proof.
    intro Hc. apply (is_derive_RInt g (fun u => RInt g 0 u) 0 s); [|exact Hc].
    exists (mkposreal 1 Rlt_0_1). intros u _. apply (RInt_correct (V := R_CompleteNormedModule)). apply Hg.
  Qed.
  Theorem curve_tangent left_side root b s :
    continuous (fun t => tan (Lam t)) s -> continuous (fun t => cos (Gam t)) s -> continuous (fun t => sin (Gam t)) s ->
    is_derive (fun u => vx (curve_spec left_side root b u)) s (- b * tan (Lam s)) /\
    is_derive (fun u => vy (curve_spec left_side root b u)) s (if left_side then - b * cos (Gam s) else b * cos (Gam s)) /\
    is_derive (fun u => vz (curve_spec left_side root b u)) s (- b * sin (Gam s)).
  Proof.
    intros CT CC CS.
    pose proof (RInt_var_derive _ HiT s CT) as DT. pose proof (RInt_var_derive _ HiC s CC) as DC. pose proof (RInt_var_derive _ HiS s CS) as DS.
    unfold curve_spec; cbn [vx vy vz]. split; [|split].
    - apply (der_affine _ _ _ (vx root) b DT).
    - destruct left_side; [apply (der_affine _ _ _ (vy root) b DC) | apply (der_affine2 _ _ _ (vy root) b DC)].
    - apply (der_affine _ _ _ (vz root) b DS).
  Qed.
End Curve.

(* ---- constant sweep and dihedral: a straight line, unconditionally ---- *)
Theorem qc_const_line dr left_side root b (lam gam s : R) : 0 <= s <= 1 ->
  qc_code dr (DConst lam) (DConst gam) left_side root b (mk_discont (DConst lam) (DConst gam)) s =
  V3 (vx root - s * b * tan (lam * dr))
     (if left_side then vy root - s * b * cos (gam * dr) else vy root + s * b * cos (gam * dr))
     (vz root - s * b * sin (gam * dr)).
Proof.
  intros Hs. rewrite mk_discont_const.
  assert (HT : forall a c, ex_RInt (fun t => tan (angle_val dr (DConst lam) t)) a c) by (intros a c; exact (ex_RInt_const (V := R_NormedModule) a c (tan (lam * dr)))).
  assert (HC : forall a c, ex_RInt (fun t => cos (angle_val dr (DConst gam) t)) a c) by (intros a c; exact (ex_RInt_const (V := R_NormedModule) a c (cos (gam * dr)))).
  assert (HS : forall a c, ex_RInt (fun t => sin (angle_val dr (DConst gam) t)) a c) by (intros a c; exact (ex_RInt_const (V := R_NormedModule) a c (sin (gam * dr)))).
  rewrite (qc_standard_is_curve dr (DConst lam) (DConst gam) HT HC HS left_side root b [1] s); [| cbn; lra | cbn [last]; lra].
  unfold curve_spec. cbn [angle_val]. rnum. rewrite !RInt_const. unfold scal; simpl; unfold mult; simpl.
  destruct left_side; apply V3_eq_Q; ring.
Qed.

(* ---- quarter-chord points: the curve passes through every given point, mirrored on the left ---- *)
Lemma incr_from_column (f : v3 R -> R) x tbl : incr_from x (column (fun _ => 0) tbl) -> incr_from x (column f tbl).
Proof.
  revert x; induction tbl as [|[t p] r IH]; intros x H; [exact I|].
  destruct H as [H1 H2]. split; [exact H1 | apply IH; exact H2].
Qed.
Definition incr_spans (tbl : list (R * v3 R)) : Prop := incr (column (fun _ => 0) tbl).
Lemma incr_column f tbl : incr_spans tbl -> incr (column f tbl).
Proof. destruct tbl as [|[t p] r]; [intros; exact I|]. intro H. apply incr_from_column; exact H. Qed.

Theorem qc_points_through left_side root tbl t p : incr_spans tbl -> In (t, p) tbl ->
  qc_points left_side root tbl t = V3 (vx root + vx p) (if left_side then vy root + - vy p else vy root + vy p) (vz root + vz p).
Proof.
  intros Hi Hin. unfold qc_points.
  assert (E : forall f, interp t (column f tbl) = f p).
  { intro f. apply interp_reproduces_nodes; [apply incr_column; exact Hi|].
    unfold column. change (t, f p) with ((fun r : R * v3 R => (fst r, f (snd r))) (t, p)). apply in_map; exact Hin. }
  rewrite !E. destruct root as [x0 y0 z0]; destruct left_side; cbn [vadd vx vy vz]; rnum; reflexivity.
Qed.
Theorem qc_points_mirror root tbl s : qc_points true (mirror_y root) tbl s = mirror_y (qc_points false root tbl s).
Proof. unfold qc_points, mirror_y; destruct root as [x0 y0 z0]; cbn [vadd vx vy vz]; rnum. apply V3_eq_Q; cbn [vadd vx vy vz]; rnum; ring. Qed.

(* the span fractions of the point table increase strictly when consecutive points differ in the y-z plane *)
Fixpoint distinct_yz (py pz : R) (pts : list (v3 R)) : Prop :=
  match pts with [] => True | p :: r => (vy p <> py \/ vz p <> pz) /\ distinct_yz (vy p) (vz p) r end.
Lemma yz_len_pos (a b : R) : a <> 0 \/ b <> 0 -> 0 < sqrt (a * a + b * b).
Proof. intro H. apply sqrt_lt_R0. destruct H; nra. Qed.
Lemma cum_len_incr bdiv (Hb : 0 < bdiv) pts : forall py pz acc, distinct_yz py pz pts ->
  incr_from (acc / bdiv) (column (fun _ => 0) (combine (map (fun c => c / bdiv) (cum_len py pz acc pts)) pts)).
Proof.
  induction pts as [|p r IH]; intros py pz acc H; [exact I|].
  destruct H as [H1 H2]. cbn [cum_len map combine column List.map fst]. rnum. split.
  - assert (0 < sqrt ((vy p - py) * (vy p - py) + (vz p - pz) * (vz p - pz))) by (apply yz_len_pos; destruct H1; [left | right]; lra).
    unfold Rdiv. apply Rmult_lt_compat_r; [apply Rinv_0_lt_compat; exact Hb | lra].
  - apply IH; exact H2.
Qed.
Lemma cum_len_last_pos pts : forall py pz acc, pts <> [] -> distinct_yz py pz pts -> acc < last (cum_len py pz acc pts) 0.
Proof.
  induction pts as [|p r IH]; intros py pz acc Hne H; [congruence|].
  destruct H as [H1 H2]. cbn [cum_len]. rnum. rewrite last_cons.
  assert (0 < sqrt ((vy p - py) * (vy p - py) + (vz p - pz) * (vz p - pz))) by (apply yz_len_pos; destruct H1; [left | right]; lra).
  destruct r as [|p2 r2]; [cbn [cum_len last]; lra|].
  specialize (IH (vy p) (vz p) (acc + sqrt ((vy p - py) * (vy p - py) + (vz p - pz) * (vz p - pz))) ltac:(congruence) H2).
  rnum. replace (last (cum_len (vy p) (vz p) (acc + sqrt ((vy p - py) * (vy p - py) + (vz p - pz) * (vz p - pz))) (p2 :: r2)) (acc + sqrt ((vy p - py) * (vy p - py) + (vz p - pz) * (vz p - pz))))
    with (last (cum_len (vy p) (vz p) (acc + sqrt ((vy p - py) * (vy p - py) + (vz p - pz) * (vz p - pz))) (p2 :: r2)) 0); [lra|].
  cbn [cum_len]. rewrite !last_cons. reflexivity.
Qed.
Theorem qc_table_incr pts : pts <> [] -> distinct_yz 0 0 pts -> incr_spans (qc_table pts).
Proof.
  intros Hne H. unfold incr_spans, qc_table, incr. cbn [column List.map fst]. rnum.
  apply cum_len_incr; [|exact H]. unfold qc_semispan. rnum. apply (cum_len_last_pos pts 0 0 0 Hne H).
Qed.

(* ---- section triad without sweep, and the lifting-line offset ---- *)
Lemma sc1 x : sin x * sin x + cos x * cos x = 1.
Proof. pose proof (sin2_cos2 x) as H. unfold Rsqr in H. exact H. Qed.
Theorem unswept_triad tw di :
  let a := unswept_axial cos sin tw di in let n := unswept_normal cos sin tw di in let s := unswept_span cos sin di in
  vdot a a = 1 /\ vdot n n = 1 /\ vdot s s = 1 /\ vdot a n = 0 /\ vdot a s = 0 /\ vdot n s = 0.
Proof.
  cbv zeta. unfold unswept_axial, unswept_normal, unswept_span, vdot; cbn [vx vy vz]; rnum.
  pose proof (sc1 tw) as Ht. pose proof (sc1 di) as Hd.
  set (c := cos tw) in *. set (s := sin tw) in *. set (cd := cos di) in *. set (sd := sin di) in *.
  split; [|split; [|split; [|split; [|split]]]].
  - transitivity (c * c + s * s * (sd * sd + cd * cd)); [ring | rewrite Hd; lra].
  - transitivity (s * s + c * c * (sd * sd + cd * cd)); [ring | rewrite Hd; lra].
  - lra.
  - transitivity (c * s - s * c * (sd * sd + cd * cd)); [ring | rewrite Hd; ring].
  - ring.
  - ring.
Qed.
(* the lifting line is displaced from the quarter chord by |offset| chords along the unswept chord line *)
Theorem ll_offset_distance qc off chord tw di :
  let d := vsub (ll_loc qc off chord (unswept_axial cos sin tw di)) qc in
  vdot d d = (off * chord) * (off * chord) /\ vdot d (unswept_span cos sin di) = 0 /\ vdot d (unswept_normal cos sin tw di) = 0.
Proof.
  cbv zeta. destruct qc as [x y z]. unfold ll_loc, unswept_axial, unswept_normal, unswept_span, vsub, vadd, vscale, vdot; cbn [vx vy vz]; rnum.
  pose proof (sc1 tw) as Ht. pose proof (sc1 di) as Hd. set (k := off * chord). repeat split.
  - replace (x + k * - cos tw - x) with (- k * cos tw) by ring.
    replace (y + k * (- sin tw * sin di) - y) with (- k * sin tw * sin di) by ring.
    replace (z + k * (sin tw * cos di) - z) with (k * sin tw * cos di) by ring.
    transitivity (k * k * (cos tw * cos tw + sin tw * sin tw * (sin di * sin di + cos di * cos di))); [ring|]. rewrite Hd.
    transitivity (k * k * (sin tw * sin tw + cos tw * cos tw)); [ring | rewrite Ht; ring].
  - ring.
  - transitivity (k * (cos tw * sin tw) * (1 - (sin di * sin di + cos di * cos di))); [ring | rewrite Hd; ring].
Qed.
Theorem ll_offset_zero qc chord ua : ll_loc qc 0 chord ua = qc.
Proof. destruct qc as [x y z]; unfold ll_loc, vadd, vscale; cbn [vx vy vz]; rnum. apply V3_eq_Q; ring. Qed.

(* ---- connection point ---- *)
Theorem delta_origin_mirror dx dy dz yoff : delta_origin true dx (- dy) dz yoff = mirror_y (delta_origin false dx dy dz yoff).
Proof. unfold delta_origin, mirror_y; cbn [vx vy vz]; rnum. apply V3_eq_Q; ring. Qed.
(* a child attached at the parent's root does not inherit the parent's y offset *)
Theorem attach_at_root_removes_offset left_side origin dx dy dz yoff :
  attach_at_root left_side (root_loc origin (delta_origin left_side dx dy dz yoff)) yoff = vadd origin (V3 dx dy dz).
Proof.
  destruct origin as [x y z]; destruct left_side; unfold attach_at_root, root_loc, delta_origin, vadd; cbn [vx vy vz]; rnum; apply V3_eq_Q; ring.
Qed.

(* the per-side sign conventions of the getters make the two halves of a wing mirror images section by section *)
Theorem getters_mirror dr d s :
  get_dihedral dr true d s = - get_dihedral dr false d s /\ get_sweep dr true d s = - get_sweep dr false d s.
Proof. unfold get_dihedral, get_sweep. rnum. split; ring. Qed.
Theorem unswept_vectors_mirror tw di :
  unswept_axial cos sin tw (- di) = mirror_y (unswept_axial cos sin tw di) /\
  unswept_normal cos sin tw (- di) = mirror_y (unswept_normal cos sin tw di) /\
  unswept_span cos sin (- di) = V3 0 (cos di) (- sin di).
Proof.
  unfold unswept_axial, unswept_normal, unswept_span, mirror_y; cbn [vx vy vz]; rnum. rewrite cos_neg, sin_neg.
  repeat split; apply V3_eq_Q; ring.
Qed.
Theorem ll_loc_mirror qc off chord ua : ll_loc (mirror_y qc) off chord (mirror_y ua) = mirror_y (ll_loc qc off chord ua).
Proof. destruct qc, ua. unfold ll_loc, mirror_y, vadd, vscale; cbn [vx vy vz]; rnum. apply V3_eq_Q; ring. Qed.
