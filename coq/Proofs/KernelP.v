(* Equivariance of the horseshoe influence under similarity maps x -> k O x + t (O orthogonal, sigma = det O = +-1, k > 0). *)
From Coq Require Import Reals Lra List Bool.
From MuxV Require Import Base.Num Base.Vec3 Base.RInst Model.Helpers Model.Kernel Proofs.HelpersP.
Import ListNotations.
Local Open Scope R_scope.

Lemma V3_eq (a b c a' b' c' : R) : a = a' -> b = b' -> c = c' -> V3 a b c = V3 a' b' c'.
Proof. intros; subst; reflexivity. Qed.

(* ---- small vector algebra over R ---- *)
Lemma vscale_vscale a b (v : v3 R) : vscale a (vscale b v) = vscale (a * b) v.
Proof. destruct v; rcompute; f_equal; ring. Qed.
Lemma vdot_scale_l k (a b : v3 R) : vdot (vscale k a) b = k * vdot a b.
Proof. destruct a, b; rcompute; ring. Qed.
Lemma vdot_scale_r k (a b : v3 R) : vdot a (vscale k b) = k * vdot a b.
Proof. destruct a, b; rcompute; ring. Qed.
Lemma vcross_scale_l k (a b : v3 R) : vcross (vscale k a) b = vscale k (vcross a b).
Proof. destruct a, b; rcompute; f_equal; ring. Qed.
Lemma vcross_scale_r k (a b : v3 R) : vcross a (vscale k b) = vscale k (vcross a b).
Proof. destruct a, b; rcompute; f_equal; ring. Qed.
Lemma vcross_anti (a b : v3 R) : vcross a b = vopp (vcross b a).
Proof. destruct a, b; rcompute; f_equal; ring. Qed.
Lemma vdot_comm (a b : v3 R) : vdot a b = vdot b a.
Proof. destruct a, b; rcompute; ring. Qed.
Lemma vnorm_scale k (a : v3 R) : 0 <= k -> vnorm (vscale k a) = k * vnorm a.
Proof.
  intros Hk. unfold vnorm, vnorm2. rewrite vdot_scale_l, vdot_scale_r.
  replace (k * (k * vdot a a)) with (k * k * vdot a a) by ring.
  rnum. rewrite sqrt_mult_alt by nra. rewrite sqrt_square by assumption. reflexivity.
Qed.
Lemma vdivs_scale (a : v3 R) k d : vdivs (vscale k a) d = vscale (k / d) a.
Proof. destruct a; rcompute; f_equal; unfold Rdiv; ring. Qed.
Lemma vscale_vdivs (a : v3 R) k d : vscale k (vdivs a d) = vscale (k / d) a.
Proof. destruct a; rcompute; f_equal; unfold Rdiv; ring. Qed.
Lemma vopp_scale (a : v3 R) : vopp a = vscale (-1) a.
Proof. destruct a; rcompute; f_equal; ring. Qed.
Lemma vscale_add k (a b : v3 R) : vscale k (vadd a b) = vadd (vscale k a) (vscale k b).
Proof. destruct a, b; rcompute; f_equal; ring. Qed.
Lemma vscale_zero k : vscale k (@vzero R _) = vzero.
Proof. rcompute; f_equal; ring. Qed.
Lemma vscale_sub k (a b : v3 R) : vscale k (vsub a b) = vsub (vscale k a) (vscale k b).
Proof. destruct a, b; rcompute; f_equal; ring. Qed.

Section Sim.
  Variable O : v3 R -> v3 R.
  Variable sigma : R.
  Hypothesis O_add : forall a b, O (vadd a b) = vadd (O a) (O b).
  Hypothesis O_scale : forall k a, O (vscale k a) = vscale k (O a).
  Hypothesis O_dot : forall a b, vdot (O a) (O b) = vdot a b.
  Hypothesis O_cross : forall a b, vcross (O a) (O b) = vscale sigma (O (vcross a b)).
  Hypothesis sigma_sq : sigma * sigma = 1.
  Variables (k : R) (t : v3 R).
  Hypothesis kpos : 0 < k.

  Lemma O_sub a b : O (vsub a b) = vsub (O a) (O b).
  Proof.
    replace (vsub a b) with (vadd a (vscale (-1) b)) by (destruct a, b; rcompute; f_equal; ring).
    rewrite O_add, O_scale. destruct (O a), (O b); rcompute; f_equal; ring.
  Qed.
  Lemma O_zero : O vzero = vzero.
  Proof. replace (@vzero R _) with (vscale 0 (@vzero R _)) by (rcompute; f_equal; ring). rewrite O_scale. destruct (O vzero); rcompute; f_equal; ring. Qed.
  Lemma O_norm a : vnorm (O a) = vnorm a.
  Proof. unfold vnorm, vnorm2. rewrite O_dot. reflexivity. Qed.
  Lemma O_opp a : O (vopp a) = vopp (O a).
  Proof. rewrite !vopp_scale. apply O_scale. Qed.

  (* the similarity acting on points and on difference vectors *)
  Definition Sp (x : v3 R) : v3 R := vadd (vscale k (O x)) t.
  Definition Sv (x : v3 R) : v3 R := vscale k (O x).
  Lemma Sp_sub a b : vsub (Sp a) (Sp b) = Sv (vsub a b).
  Proof. unfold Sp, Sv. rewrite O_sub. destruct (O a), (O b), t; rcompute; f_equal; ring. Qed.

  (* total division: (k^3 A)/(k^4 B) = (1/k) (A/B) also when B = 0 (Coq's /0 = 0) *)
  Lemma scal_sim A B : (k * k * k * A) / (k * k * k * k * B) = (1 / k) * (A / B).
  Proof. unfold Rdiv. rewrite Rinv_mult. set (iB := / B). field. lra. Qed.
  Lemma scal_sim2 A B : (k * A) / (k * k * B) = (1 / k) * (A / B).
  Proof. unfold Rdiv. rewrite Rinv_mult. set (iB := / B). field. lra. Qed.

  (* straight segment: homogeneous of degree -1, equivariant up to sigma *)
  Lemma seg_kernel_sim ra rb : seg_kernel (Sv ra) (Sv rb) = vscale (sigma / k) (O (seg_kernel ra rb)).
  Proof.
    unfold seg_kernel, Sv. cbv zeta.
    rewrite !vnorm_scale by lra. rewrite !O_norm.
    rewrite vcross_scale_l, vcross_scale_r, O_cross, vdot_scale_l, vdot_scale_r, O_dot.
    set (ma := vnorm ra). set (mb := vnorm rb). set (d := vdot ra rb).
    rewrite !vscale_vscale, vdivs_scale. rewrite vdivs_scale, O_scale, vscale_vscale.
    f_equal. rnum.
    replace (k * ma * (k * mb) * (k * ma * (k * mb) + k * (k * d))) with (k * k * k * k * (ma * mb * (ma * mb + d))) by ring.
    replace ((k * ma + k * mb) * k * k * sigma) with (k * k * k * ((ma + mb) * sigma)) by ring.
    rewrite scal_sim. unfold Rdiv. ring.
  Qed.

  (* semi-infinite filament: the denominator scales with k^2, so the absolute cut-off of the scaled scene corresponds to
     the cut-off divided by k^2 in the original scene (for k = 1 - rigid motions and reflections - it is unchanged) *)
  Lemma trail_denom_sim u r : trail_denom (O u) (Sv r) = k * k * trail_denom u r.
  Proof.
    unfold trail_denom, Sv. cbv zeta. rewrite vnorm_scale by lra. rewrite O_norm, vdot_scale_r, O_dot. rnum. ring.
  Qed.
  Lemma trail_kernel_sim c u r :
    trail_kernel (fun x => x) (k * k * c) (O u) (Sv r) = vscale (sigma / k) (O (trail_kernel (fun x => x) c u r)).
  Proof.
    unfold trail_kernel. cbv zeta. rewrite trail_denom_sim. set (d := trail_denom u r).
    change (nltb (k * k * c) (k * k * d)) with (Rltb (k * k * c) (k * k * d)). change (nltb c d) with (Rltb c d).
    assert (E : Rltb (k * k * c) (k * k * d) = Rltb c d).
    { assert (Hk2 : 0 < k * k) by nra. unfold Rltb.
      destruct (Rlt_dec (k * k * c) (k * k * d)) as [H1|H1], (Rlt_dec c d) as [H2|H2]; try reflexivity; exfalso.
      - apply H2. apply Rmult_lt_reg_l with (k * k); assumption.
      - apply H1. apply Rmult_lt_compat_l; assumption. }
    rewrite E. destruct (Rltb c d).
    - unfold Sv. rewrite vcross_scale_r, O_cross, vscale_vscale.
      set (cr := vcross u r).
      transitivity (vdivs (vscale (k * sigma) (O cr)) (k * k * d)); [destruct (O cr); reflexivity|].
      transitivity (vscale (sigma / k) (O (vdivs cr d))); [|destruct cr; reflexivity].
      rewrite vdivs_scale. replace (vdivs cr d) with (vscale (1 / d) cr) by (destruct cr; rcompute; f_equal; unfold Rdiv; ring).
      rewrite O_scale, vscale_vscale. f_equal.
      replace (k * sigma / (k * k * d)) with ((k * sigma) / (k * k * d)) by reflexivity. rewrite scal_sim2. unfold Rdiv. ring.
    - rewrite O_zero, vscale_zero. reflexivity.
  Qed.

  (* the whole jointed horseshoe *)
  Definition Sh (h : hshoe R) : hshoe R :=
    mk_hs (Sp (hP0 h)) (Sp (hP1 h)) (Sp (hJ0 h)) (Sp (hJ1 h)) (O (hu0 h)) (O (hu1 h)).
  Lemma vscale_opp a (v : v3 R) : vscale a (vopp v) = vopp (vscale a v).
  Proof. destruct v; rcompute; f_equal; ring. Qed.

  Theorem vji_sim c i4p diag pc h :
    vji (fun x => x) (k * k * c) i4p diag (Sp pc) (Sh h) = vscale (sigma / k) (O (vji (fun x => x) c i4p diag pc h)).
  Proof.
    unfold vji, Sh. cbn [hP0 hP1 hJ0 hJ1 hu0 hu1]. cbv zeta. rewrite !Sp_sub.
    rewrite !seg_kernel_sim, !trail_kernel_sim.
    set (B := seg_kernel (vsub pc (hP0 h)) (vsub pc (hP1 h))).
    set (J0 := seg_kernel (vsub pc (hJ0 h)) (vsub pc (hP0 h))).
    set (J1 := seg_kernel (vsub pc (hP1 h)) (vsub pc (hJ1 h))).
    set (T0 := trail_kernel (fun x => x) c (hu0 h) (vsub pc (hJ0 h))).
    set (T1 := trail_kernel (fun x => x) c (hu1 h) (vsub pc (hJ1 h))).
    rewrite O_scale, !O_add, O_opp.
    destruct diag.
    - rewrite O_zero. destruct (O J0), (O J1), (O T0), (O T1). rcompute. apply V3_eq; unfold Rdiv; ring.
    - destruct (O B), (O J0), (O J1), (O T0), (O T1). rcompute. apply V3_eq; unfold Rdiv; ring.
  Qed.
End Sim.

(* reversing the orientation of a horseshoe (inbound <-> outbound node) reverses its influence *)
Definition swap_hs (h : hshoe R) : hshoe R := mk_hs (hP1 h) (hP0 h) (hJ1 h) (hJ0 h) (hu1 h) (hu0 h).
Lemma seg_kernel_anti (ra rb : v3 R) : seg_kernel rb ra = vopp (seg_kernel ra rb).
Proof.
  unfold seg_kernel. cbv zeta. rewrite (vcross_anti rb ra), (vdot_comm rb ra).
  set (ma := vnorm ra). set (mb := vnorm rb). set (d := vdot ra rb). destruct (vcross ra rb) as [x y z]. rnum.
  replace (mb * ma * (mb * ma + d)) with (ma * mb * (ma * mb + d)) by ring.
  set (D := ma * mb * (ma * mb + d)). unfold vdivs, vscale, vopp. cbn [vx vy vz]. rnum. apply V3_eq; unfold Rdiv; ring.
Qed.
Theorem vji_swap nn c i4p diag pc h : vji nn c i4p diag pc (swap_hs h) = vopp (vji nn c i4p diag pc h).
Proof.
  unfold vji, swap_hs. cbn [hP0 hP1 hJ0 hJ1 hu0 hu1]. cbv zeta.
  rewrite (seg_kernel_anti (vsub pc (hP0 h)) (vsub pc (hP1 h))).
  rewrite (seg_kernel_anti (vsub pc (hP1 h)) (vsub pc (hJ1 h))).
  rewrite (seg_kernel_anti (vsub pc (hJ0 h)) (vsub pc (hP0 h))).
  set (B := seg_kernel (vsub pc (hP0 h)) (vsub pc (hP1 h))).
  set (J0 := seg_kernel (vsub pc (hJ0 h)) (vsub pc (hP0 h))).
  set (J1 := seg_kernel (vsub pc (hP1 h)) (vsub pc (hJ1 h))).
  set (T0 := trail_kernel nn c (hu0 h) (vsub pc (hJ0 h))).
  set (T1 := trail_kernel nn c (hu1 h) (vsub pc (hJ1 h))).
  destruct diag.
  - destruct J0, J1, T0, T1. rcompute. apply V3_eq; ring.
  - destruct B, J0, J1, T0, T1. rcompute. apply V3_eq; ring.
Qed.
