(* Standard-atmosphere model over the reals: hydrostatic equation, temperature profile, continuity. *)
From Coq Require Import Reals Lra List Psatz.
From Coquelicot Require Import Coquelicot.
From MuxV Require Import Base.Num Base.RInst Base.Interp Model.Atmos Proofs.InterpP.
Import ListNotations.
Local Open Scope R_scope.

Section AtmosR.
  Variable A : @atm R.
  Notation g := (ag_0 A). Notation M := (aM_0 A). Notation Rs := (aR_star A).
  Notation T0 := (aT_0 A). Notation K := (aK A).

  Definition Tb (Tm : R) : R := T0 + Tm + K.
  Definition lfac := layer_factor exp Rpower A.
  Definition pressR := press exp Rpower A.

  (* well-formed layer table *)
  Definition wf_layer (l : R * R * R * R) : Prop :=
    let '(Hb, Hb1, L, Tm) := l in
    Hb < Hb1 /\ (Rabs L < aLtol A -> L = 0) /\ 0 < Tb Tm /\ 0 < Tb Tm + L * (Hb1 - Hb).
  Fixpoint wf_layers (ls : list (R * R * R * R)) : Prop :=
    match ls with
    | [] => True
    | l :: rest => wf_layer l /\
                   match rest with [] => True | (Hb', _, _, _) :: _ => Hb' = snd (fst (fst l)) end /\
                   wf_layers rest
    end.

  (* spec: molecular-scale temperature in the layer containing H *)
  Fixpoint Tmol (ls : list (R * R * R * R)) (H : R) : R :=
    match ls with
    | [] => 0
    | (Hb, Hb1, L, Tm) :: rest => if Rlt_dec H Hb1 then Tb Tm + L * (H - Hb) else Tmol rest H
    end.
  Fixpoint inside (ls : list (R * R * R * R)) (H : R) : Prop :=
    match ls with
    | [] => False
    | (Hb, Hb1, _, _) :: rest => (Hb < H < Hb1) \/ (Hb1 < H /\ inside rest H)
    end.

  Lemma press_cons Hb Hb1 L Tm rest H P :
    pressR ((Hb, Hb1, L, Tm) :: rest) H P =
    if Rltb Hb H then pressR rest H (P * lfac Hb Hb1 L Tm H) else P.
  Proof. reflexivity. Qed.

  Lemma press_below ls H P :
    match ls with [] => True | (Hb, _, _, _) :: _ => H <= Hb end -> pressR ls H P = P.
  Proof.
    destruct ls as [|[[[Hb Hb1] L] Tm] rest]; [reflexivity|]. intros Hle. rewrite press_cons.
    destruct (Rltb Hb H) eqn:E; [apply Rltb_true in E; lra | reflexivity].
  Qed.

  (* the factor of one layer, with the height clamp resolved *)
  Definition fac_at (Hb L Tm x : R) : R :=
    if Rltb (Rabs L) (aLtol A) then exp ((- g) * M * (x - Hb) / (Rs * Tb Tm))
    else Rpower (Tb Tm / (Tb Tm + L * (x - Hb))) (g * M / (Rs * L)).
  Lemma lfac_in Hb Hb1 L Tm H : H <= Hb1 -> lfac Hb Hb1 L Tm H = fac_at Hb L Tm H.
  Proof.
    intros Hle. unfold lfac, layer_factor, fac_at, Tb. change (nltb Hb1 H) with (Rltb Hb1 H).
    destruct (Rltb Hb1 H) eqn:E; [apply Rltb_true in E; lra|]. reflexivity.
  Qed.
  Lemma lfac_above Hb Hb1 L Tm H : Hb1 < H -> lfac Hb Hb1 L Tm H = fac_at Hb L Tm Hb1.
  Proof.
    intros Hlt. unfold lfac, layer_factor, fac_at, Tb. change (nltb Hb1 H) with (Rltb Hb1 H).
    destruct (Rltb Hb1 H) eqn:E; [reflexivity|]. apply Rltb_false in E; lra.
  Qed.

  (* at the base of a layer the factor is 1: pressure is continuous across layer boundaries *)
  Lemma fac_at_base Hb L Tm : 0 < Tb Tm -> fac_at Hb L Tm Hb = 1.
  Proof.
    intros HT. unfold fac_at. destruct (Rltb (Rabs L) (aLtol A)).
    - replace (- g * M * (Hb - Hb) / (Rs * Tb Tm)) with 0 by (unfold Rdiv; ring). apply exp_0.
    - replace (Tb Tm / (Tb Tm + L * (Hb - Hb))) with 1 by (field; lra).
      unfold Rpower. rewrite ln_1, Rmult_0_r. apply exp_0.
  Qed.

  Hypothesis Hltol : 0 < aLtol A.
  Hypothesis HRs : Rs <> 0.

  (* derivative of one layer's factor: the hydrostatic law with T = Tb + L (x - Hb) *)
  Lemma fac_at_derive Hb L Tm x :
    (Rabs L < aLtol A -> L = 0) -> 0 < Tb Tm -> 0 < Tb Tm + L * (x - Hb) ->
    is_derive (fun h => fac_at Hb L Tm h) x (- (g * M) / (Rs * (Tb Tm + L * (x - Hb))) * fac_at Hb L Tm x).
  Proof.
    intros HL HT HTx. unfold fac_at.
    destruct (Rltb (Rabs L) (aLtol A)) eqn:E.
    - apply Rltb_true in E. specialize (HL E). subst L.
      auto_derive; [exact I|]. unfold Rminus, Rdiv in *.
      match goal with |- context [exp ?a] => set (E0 := exp a) end.
      field. split; lra.
    - apply Rltb_false in E.
      assert (HL0 : L <> 0). { intro; subst L. rewrite Rabs_R0 in E. lra. }
      unfold Rpower. auto_derive.
      + split; [lra|]. split; [|exact I]. apply Rdiv_lt_0_compat; lra.
      + unfold Rminus, Rdiv in *.
        match goal with |- context [exp ?a] => set (E0 := exp a) end.
        field. repeat split; lra.
  Qed.

  Lemma lin_pos a L d x : 0 < a -> 0 < a + L * d -> 0 <= x <= d -> 0 < a + L * x.
  Proof. intros Ha Hd Hx. destruct (Rle_dec 0 L); nra. Qed.

  (* dP/dH = - g0 M0 P / (R* T_M(H)) strictly inside every layer, for every starting pressure *)
  Theorem hydrostatic_layers ls : wf_layers ls -> forall P H, inside ls H ->
    is_derive (fun h => pressR ls h P) H (- (g * M) / (Rs * Tmol ls H) * pressR ls H P).
  Proof.
    induction ls as [|[[[Hb Hb1] L] Tm] rest IH]; intros Hwf P H Hin; [destruct Hin|].
    destruct Hwf as [[Hlt [HL [HT HT1]]] [Hnext Hwf]]. cbn [fst snd] in Hnext.
    destruct Hin as [[H1 H2]|[H1 Hin]].
    - (* H inside the first layer *)
      assert (HTx : 0 < Tb Tm + L * (H - Hb)) by (apply (lin_pos _ _ (Hb1 - Hb)); lra).
      cbn [Tmol]. destruct (Rlt_dec H Hb1) as [_|n]; [|lra].
      assert (Hloc : forall h, Hb < h /\ h < Hb1 -> P * fac_at Hb L Tm h = pressR ((Hb, Hb1, L, Tm) :: rest) h P).
      { intros h [Ha Hc]. rewrite press_cons.
        destruct (Rltb Hb h) eqn:E; [|apply Rltb_false in E; lra].
        rewrite press_below; [rewrite lfac_in by lra; reflexivity|].
        destruct rest as [|[[[Hb' ?] ?] ?] ?]; [exact I|]. subst Hb'; lra. }
      apply (is_derive_ext_loc (fun h => P * fac_at Hb L Tm h)).
      + apply (locally_open (fun h => Hb < h /\ h < Hb1)); [apply open_and; [apply open_gt | apply open_lt] | exact Hloc | split; assumption].
      + rewrite <- (Hloc H) by (split; assumption).
        replace (- (g * M) / (Rs * (Tb Tm + L * (H - Hb))) * (P * fac_at Hb L Tm H))
          with (scal P (- (g * M) / (Rs * (Tb Tm + L * (H - Hb))) * fac_at Hb L Tm H))
          by (unfold scal; cbn; unfold mult; cbn; ring).
        apply (is_derive_scal (fun h => fac_at Hb L Tm h)). apply fac_at_derive; assumption.
    - (* H in a later layer *)
      cbn [Tmol]. destruct (Rlt_dec H Hb1) as [y|_]; [lra|].
      assert (Hloc : forall h, Hb1 < h -> pressR rest h (P * fac_at Hb L Tm Hb1) = pressR ((Hb, Hb1, L, Tm) :: rest) h P).
      { intros h Ha. rewrite press_cons. destruct (Rltb Hb h) eqn:E; [|apply Rltb_false in E; lra].
        rewrite lfac_above by lra. reflexivity. }
      apply (is_derive_ext_loc (fun h => pressR rest h (P * fac_at Hb L Tm Hb1))).
      + apply (locally_open (fun h => Hb1 < h)); [apply open_gt | exact Hloc | assumption].
      + rewrite <- (Hloc H) by assumption. apply IH; assumption.
  Qed.

  (* closed form of the pressure inside the first layer (used for the sea-level anchor) *)
  Lemma press_first_layer Hb Hb1 L Tm rest H P :
    wf_layers ((Hb, Hb1, L, Tm) :: rest) -> Hb < H <= Hb1 ->
    pressR ((Hb, Hb1, L, Tm) :: rest) H P = P * fac_at Hb L Tm H.
  Proof.
    intros [_ [Hnext _]] [H1 H2]. cbn [fst snd] in Hnext. rewrite press_cons.
    destruct (Rltb Hb H) eqn:E; [|apply Rltb_false in E; lra].
    rewrite press_below; [rewrite lfac_in by lra; reflexivity|].
    destruct rest as [|[[[Hb' ?] ?] ?] ?]; [exact I|]. subst Hb'; lra.
  Qed.

  (* continuity across a boundary: just above Hb1 the value is (value at Hb1) * (factor of next layer), and that factor is 1 at Hb1 *)
  Lemma press_above_boundary Hb Hb1 L Tm Hb2 L' Tm' rest H P :
    wf_layers ((Hb, Hb1, L, Tm) :: (Hb1, Hb2, L', Tm') :: rest) -> Hb1 < H <= Hb2 ->
    pressR ((Hb, Hb1, L, Tm) :: (Hb1, Hb2, L', Tm') :: rest) H P =
    pressR ((Hb, Hb1, L, Tm) :: (Hb1, Hb2, L', Tm') :: rest) Hb1 P * fac_at Hb1 L' Tm' H.
  Proof.
    intros Hwf [H1 H2]. pose proof Hwf as [[Hlt _] [_ Hwf2]].
    rewrite (press_first_layer Hb Hb1 L Tm _ Hb1 P Hwf) by lra.
    rewrite press_cons. destruct (Rltb Hb H) eqn:E; [|apply Rltb_false in E; lra].
    rewrite lfac_above by lra. apply press_first_layer; [exact Hwf2 | lra].
  Qed.

  (* temperature: between two consecutive nodes of the (H_b, T_M_b) table whose ordinates are
     consistent with the lapse rate, T = Tb + L (H - Hb) *)
  Lemma T_in_layer pre Hb Tm Hb1 Tm1 post L H :
    incr (pre ++ (Hb, Tm) :: (Hb1, Tm1) :: post) -> Tm1 = Tm + L * (Hb1 - Hb) -> Hb <= H < Hb1 ->
    interp H (pre ++ (Hb, Tm) :: (Hb1, Tm1) :: post) + T0 + K = Tb Tm + L * (H - Hb).
  Proof.
    intros Hi HTm [H1 H2].
    assert (E : interp H (pre ++ (Hb, Tm) :: (Hb1, Tm1) :: post) = Tm + (Tm1 - Tm) / (Hb1 - Hb) * (H - Hb)).
    { destruct pre as [|[x0 y0] pre].
      - cbn [app]. unfold interp. change (nltb H Hb) with (Rltb H Hb).
        destruct (Rltb H Hb) eqn:E; [apply Rltb_true in E; lra|]. apply interp_go_first; lra.
      - cbn [app] in *. unfold interp. change (nltb H x0) with (Rltb H x0).
        assert (x0 < Hb) by (eapply incr_from_In_lt; [exact Hi | apply in_or_app; right; left; reflexivity]).
        destruct (Rltb H x0) eqn:E; [apply Rltb_true in E; lra|]. clear E.
        cbn [incr] in Hi. revert x0 y0 Hi H0. induction pre as [|[x1 y1] pre IHp]; intros x0 y0 Hi Hx0.
        + cbn [app] in *. destruct Hi as [_ Hi]. rewrite interp_go_skip by lra. apply interp_go_first; lra.
        + cbn [app] in *. destruct Hi as [Hx Hi].
          assert (x1 < Hb) by (eapply incr_from_In_lt; [exact Hi | apply in_or_app; right; left; reflexivity]).
          rewrite interp_go_skip by lra. apply IHp; assumption. }
    rewrite E, HTm. unfold Tb. field. lra.
  Qed.
End AtmosR.
