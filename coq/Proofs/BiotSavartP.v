(* The closed form the code uses for a straight vortex segment is the Biot-Savart line integral over the segment. *)
From Coq Require Import Reals Lra Psatz.
From Coquelicot Require Import Coquelicot.
From MuxV Require Import Base.Num Base.Vec3 Base.RInst Model.Kernel Proofs.KernelP.
Local Open Scope R_scope.

(* ---- the scalar integral  int_0^1 dt / |ra - t (ra - rb)|^3  in terms of c = ra.ra, e = rb.rb, d = ra.rb ---- *)
Section Scalar.
  Variables c e d : R.
  Hypothesis Hnc : 0 < c * e - d * d.          (* ra and rb not collinear (Lagrange: |ra x rb|^2) *)
  Hypothesis Hc : 0 <= c.
  Hypothesis He : 0 <= e.

  Let a := c + e - 2 * d.                       (* |L|^2, L = ra - rb *)
  Let b := c - d.                               (* ra . L *)
  Definition qd (t : R) : R := a * t * t - 2 * b * t + c.     (* |ra - t L|^2 *)

  Lemma acb : a * c - b * b = c * e - d * d.
  Proof. unfold a, b. ring. Qed.
  Lemma c_pos : 0 < c.
  Proof. destruct (Rle_lt_or_eq_dec 0 c Hc) as [H|H]; [exact H|]. exfalso. rewrite <- H in Hnc. nra. Qed.
  Lemma e_pos : 0 < e.
  Proof. destruct (Rle_lt_or_eq_dec 0 e He) as [H|H]; [exact H|]. exfalso. rewrite <- H in Hnc. nra. Qed.
  Lemma a_pos : 0 < a.
  Proof.
    pose proof acb as E. pose proof c_pos as Hcp. assert (Hb : 0 <= b * b) by apply Rle_0_sqr.
    assert (Hac : 0 < a * c) by lra.
    destruct (Rle_or_lt a 0) as [Hle|Hlt]; [|exact Hlt]. exfalso.
    assert (a * c <= 0) by (rewrite <- (Rmult_0_l c); apply Rmult_le_compat_r; lra). lra.
  Qed.
  Lemma qd_pos t : 0 < qd t.
  Proof.
    pose proof a_pos as Ha. pose proof acb as E.
    assert (Hq : a * qd t = (a * t - b) * (a * t - b) + (c * e - d * d)) by (unfold qd; rewrite <- E; ring).
    assert (Hsq : 0 <= (a * t - b) * (a * t - b)) by apply Rle_0_sqr.
    assert (Haq : 0 < a * qd t) by lra.
    destruct (Rle_or_lt (qd t) 0) as [Hle|Hlt]; [|exact Hlt]. exfalso.
    assert (a * qd t <= 0) by (rewrite <- (Rmult_0_r a); apply Rmult_le_compat_l; lra). lra.
  Qed.

  Definition Fd (t : R) : R := (a * t - b) / ((c * e - d * d) * sqrt (qd t)).

  Lemma Fd_derive t : is_derive Fd t (/ (qd t * sqrt (qd t))).
  Proof.
    pose proof (qd_pos t) as Hq. pose proof acb as E.
    assert (Hs : 0 < sqrt (qd t)) by (apply sqrt_lt_R0; exact Hq).
    assert (Hss : sqrt (qd t) * sqrt (qd t) = qd t) by (apply sqrt_sqrt; lra).
    unfold Fd, qd. auto_derive.
    - replace (a * t * t + - (2 * b * t) + c) with (qd t) by (unfold qd; ring).
      split; [exact Hq|]. split; [|exact I]. apply Rgt_not_eq. apply Rmult_gt_0_compat; lra.
    - replace (a * t * t + - (2 * b * t) + c) with (qd t) by (unfold qd; ring).
      replace (a * t * t - 2 * b * t + c) with (qd t) by (unfold qd; ring).
      set (s := sqrt (qd t)) in *.
      assert (Hq2 : a * qd t - (a * t - b) * (a * t - b) = c * e - d * d) by (unfold qd; rewrite <- E; ring).
      assert (Hk : c * e - d * d <> 0) by lra.
      assert (Hs0 : s <> 0) by lra. assert (Hq0 : qd t <> 0) by lra.
      (* bring everything over the common denominator (ce - d^2) q s, using s^2 = q *)
      transitivity ((a * qd t - (a * t - b) * (a * t - b)) / ((c * e - d * d) * qd t * s)).
      + rewrite <- Hss. field. repeat split; assumption.
      + rewrite Hq2. field. repeat split; assumption.
  Qed.
End Scalar.

Section ScalarInt.
  Variables c e d : R.
  Hypothesis Hnc : 0 < c * e - d * d.
  Hypothesis Hc : 0 <= c.
  Hypothesis He : 0 <= e.

  Lemma qd_0 : qd c e d 0 = c.
  Proof. unfold qd. ring. Qed.
  Lemma qd_1 : qd c e d 1 = e.
  Proof. unfold qd. ring. Qed.

  (* int_0^1 dt / (q sqrt q) = (R0 + R1) / (R0 R1 (R0 R1 + d)),  R0 = sqrt c, R1 = sqrt e *)
  Theorem segment_integral :
    is_RInt (fun t => / (qd c e d t * sqrt (qd c e d t))) 0 1
            ((sqrt c + sqrt e) / (sqrt c * sqrt e * (sqrt c * sqrt e + d))).
  Proof.
    pose proof (c_pos c e d Hnc Hc) as Hcp. pose proof (e_pos c e d Hnc He) as Hep.
    set (R0 := sqrt c). set (R1 := sqrt e).
    assert (H0 : 0 < R0) by (apply sqrt_lt_R0; exact Hcp).
    assert (H1 : 0 < R1) by (apply sqrt_lt_R0; exact Hep).
    assert (S0 : R0 * R0 = c) by (apply sqrt_sqrt; lra).
    assert (S1 : R1 * R1 = e) by (apply sqrt_sqrt; lra).
    assert (Hprod : (R0 * R1 - d) * (R0 * R1 + d) = c * e - d * d) by (rewrite <- S0, <- S1; ring).
    assert (Hp : 0 < R0 * R1 + d).
    { destruct (Rle_or_lt (R0 * R1 + d) 0) as [Hle|Hlt]; [|exact Hlt]. exfalso.
      (* then d <= -R0 R1 < 0, so R0 R1 - d > 0 and the product would be <= 0 *)
      assert (0 < R0 * R1) by (apply Rmult_lt_0_compat; assumption).
      assert (0 < R0 * R1 - d) by lra.
      assert ((R0 * R1 - d) * (R0 * R1 + d) <= 0) by (rewrite <- (Rmult_0_r (R0 * R1 - d)); apply Rmult_le_compat_l; lra). lra. }
    replace ((R0 + R1) / (R0 * R1 * (R0 * R1 + d))) with (Fd c e d 1 - Fd c e d 0).
    - apply (is_RInt_derive (Fd c e d) (fun t => / (qd c e d t * sqrt (qd c e d t)))).
      + intros t _. apply Fd_derive; assumption.
      + intros t _. pose proof (qd_pos c e d Hnc Hc t) as Hq.
        apply (ex_derive_continuous (fun t => / (qd c e d t * sqrt (qd c e d t)))). unfold qd. auto_derive.
        replace ((c + e - 2 * d) * t * t + - (2 * (c - d) * t) + c) with (qd c e d t) by (unfold qd; ring).
        assert (0 < sqrt (qd c e d t)) by (apply sqrt_lt_R0; exact Hq).
        repeat split; try exact I; try lra. apply Rgt_not_eq. apply Rmult_gt_0_compat; lra.
    - unfold Fd. rewrite qd_0, qd_1. fold R0 R1.
      replace (c * e - d * d) with ((R0 * R1 - d) * (R0 * R1 + d)) by exact Hprod.
      assert (Hm : R0 * R1 - d <> 0).
      { intro E. rewrite E, Rmult_0_l in Hprod. lra. }
      rewrite <- S0, <- S1. field. repeat split; lra.
  Qed.
End ScalarInt.

(* ---- vectors: the segment A -> B seen from the control point, ra = PC - A, rb = PC - B ---- *)
Section Segment.
  Variables ra rb : v3 R.
  Hypothesis Hnc : vnorm2 (vcross ra rb) <> 0.          (* the control point is not on the line through A and B *)
  Let L := vsub ra rb.                                    (* = B - A : the direction of integration *)
  Definition rho (t : R) : v3 R := vsub ra (vscale t L).  (* from the point A + t (B - A) of the segment to the control point *)

  Lemma lagrange : vnorm2 (vcross ra rb) = vnorm2 ra * vnorm2 rb - vdot ra rb * vdot ra rb.
  Proof. destruct ra, rb. unfold vnorm2, vdot, vcross. rcompute. ring. Qed.
  Lemma nc_pos : 0 < vnorm2 ra * vnorm2 rb - vdot ra rb * vdot ra rb.
  Proof.
    rewrite <- lagrange. assert (0 <= vnorm2 (vcross ra rb)) by (destruct (vcross ra rb); unfold vnorm2, vdot; rcompute; nra).
    destruct (Rle_lt_or_eq_dec _ _ H) as [Hl|He]; [exact Hl | exfalso; apply Hnc; symmetry; exact He].
  Qed.
  Lemma norm2_nonneg (v : v3 R) : 0 <= vnorm2 v.
  Proof. destruct v; unfold vnorm2, vdot; rcompute; nra. Qed.

  (* the integrand's numerator dl x rho is constant along the segment *)
  Lemma cross_const t : vcross L (rho t) = vcross ra rb.
  Proof. unfold rho, L. destruct ra, rb. apply V3_eq; rcompute; ring. Qed.
  Lemma rho_norm2 t : vnorm2 (rho t) = qd (vnorm2 ra) (vnorm2 rb) (vdot ra rb) t.
  Proof. unfold rho, L, qd. destruct ra, rb. unfold vnorm2, vdot. rcompute. ring. Qed.

  (* Biot-Savart: V = (1 / 4 pi) int_0^1 (dl x rho) / |rho|^3 dt, component by component, equals the code's closed form *)
  Theorem seg_kernel_is_biot_savart (proj : v3 R -> R) (Hproj : forall k v, proj (vscale k v) = k * proj v) :
    is_RInt (fun t => proj (vscale (/ (vnorm2 (rho t) * sqrt (vnorm2 (rho t)))) (vcross L (rho t)))) 0 1
            (proj (seg_kernel ra rb)).
  Proof.
    pose proof nc_pos as Hpos.
    pose proof (segment_integral (vnorm2 ra) (vnorm2 rb) (vdot ra rb) Hpos (norm2_nonneg ra) (norm2_nonneg rb)) as HI.
    set (K := proj (vcross ra rb)).
    set (f := fun t => / (qd (vnorm2 ra) (vnorm2 rb) (vdot ra rb) t * sqrt (qd (vnorm2 ra) (vnorm2 rb) (vdot ra rb) t))) in *.
    set (l := (sqrt (vnorm2 ra) + sqrt (vnorm2 rb)) / (sqrt (vnorm2 ra) * sqrt (vnorm2 rb) * (sqrt (vnorm2 ra) * sqrt (vnorm2 rb) + vdot ra rb))) in *.
    apply (is_RInt_ext (fun t => K * f t)).
    - intros t _.
      assert (E : (K * f t)%R = proj (vscale (/ (vnorm2 (rho t) * sqrt (vnorm2 (rho t)))) (vcross L (rho t)))).
      { rewrite cross_const, rho_norm2, Hproj. unfold f, K. ring. }
      exact E.
    - replace (proj (seg_kernel ra rb)) with (K * l).
      + exact (is_RInt_scal f 0 1 K l HI).
      + unfold seg_kernel, vnorm. rnum.
        replace (vdivs (vscale (sqrt (vnorm2 ra) + sqrt (vnorm2 rb)) (vcross ra rb))
                       (sqrt (vnorm2 ra) * sqrt (vnorm2 rb) * (sqrt (vnorm2 ra) * sqrt (vnorm2 rb) + vdot ra rb)))
          with (vscale l (vcross ra rb)) by (unfold l; destruct (vcross ra rb); apply V3_eq; rcompute; unfold Rdiv; ring).
        rewrite Hproj. unfold K. apply Rmult_comm.
  Qed.
End Segment.

(* ---- semi-infinite filament leaving the joint along the unit vector u, seen at r = PC - joint ---- *)
Section Trailing.
  (* x / sqrt(x^2 + K) -> 1 as x -> +infinity, with the explicit bound 1 - x/sqrt(x^2+K) <= K / (2 x) for x >= 1 *)
  Lemma ratio_bound K x : 0 < K -> 1 <= x -> 0 <= 1 - x / sqrt (x * x + K) <= K / (2 * x).
  Proof.
    intros HK Hx. set (s := sqrt (x * x + K)).
    assert (Hs2 : s * s = x * x + K) by (unfold s; apply sqrt_sqrt; nra).
    assert (Hs : 0 < s) by (unfold s; apply sqrt_lt_R0; nra).
    assert (Hsx : x < s) by nra.
    assert (E : 1 - x / s = (s - x) / s) by (field; lra).
    rewrite E. split.
    - apply Rlt_le, Rdiv_lt_0_compat; lra.
    - (* (s - x)/s = K / (s (s + x)) <= K / (2 x) since s (s+x) >= 2 x^2 >= 2 x *)
      assert (E2 : (s - x) / s = K / (s * (s + x))).
      { apply (Rmult_eq_reg_r (s * (s + x))); [|apply Rgt_not_eq; nra]. field_simplify_eq; [|split; lra]. nra. }
      rewrite E2. unfold Rdiv. apply Rmult_le_compat_l; [lra|].
      apply Rinv_le_contravar; [lra | nra].
  Qed.

  Variables b0 c : R.                         (* b0 = u . r,  c = r . r,  |u| = 1 *)
  Hypothesis HK : 0 < c - b0 * b0.            (* the control point is not on the line of the filament *)
  Hypothesis Hc : 0 <= c.
  Let e := 1 + c - 2 * b0.                     (* |r - u|^2 *)
  Let d := c - b0.                             (* r . (r - u) *)

  Lemma trail_nc : 0 < c * e - d * d.
  Proof. unfold e, d. nra. Qed.
  Lemma qd_trail t : qd c e d t = t * t - 2 * b0 * t + c.
  Proof. unfold qd, e, d. ring. Qed.
  Lemma Fd_trail t : Fd c e d t = (t - b0) / ((c - b0 * b0) * sqrt (t * t - 2 * b0 * t + c)).
  Proof. unfold Fd. rewrite qd_trail. unfold e, d. f_equal; [ring | f_equal; ring]. Qed.

  (* the truncated integral, for every length T *)
  Lemma trail_truncated T : is_RInt (fun t => / (qd c e d t * sqrt (qd c e d t))) 0 T (Fd c e d T - Fd c e d 0).
  Proof.
    apply (is_RInt_derive (Fd c e d) (fun t => / (qd c e d t * sqrt (qd c e d t)))).
    - intros t _. apply Fd_derive; [exact trail_nc | exact Hc].
    - intros t _. pose proof (qd_pos c e d trail_nc Hc t) as Hq.
      apply (ex_derive_continuous (fun t => / (qd c e d t * sqrt (qd c e d t)))). unfold qd. auto_derive.
      replace ((c + e - 2 * d) * t * t + - (2 * (c - d) * t) + c) with (qd c e d t) by (unfold qd; ring).
      assert (0 < sqrt (qd c e d t)) by (apply sqrt_lt_R0; exact Hq).
      repeat split; try exact I; try lra. apply Rgt_not_eq. apply Rmult_gt_0_compat; lra.
  Qed.

  (* F(T) -> 1 / (c - b0^2) as the filament is followed to infinity *)
  Lemma Fd_limit : is_lim (Fd c e d) p_infty (/ (c - b0 * b0)).
  Proof.
    apply is_lim_spec. intros eps. set (K := c - b0 * b0) in *.
    (* for T - b0 >= 1 and T - b0 > 1/(2 eps):  |F(T) - 1/K| = (1 - x/sqrt(x^2+K))/K <= 1/(2x) < eps *)
    exists (b0 + 1 + / (2 * eps)). intros T HT.
    assert (He : 0 < eps) by apply cond_pos.
    assert (Hie : 0 < / (2 * eps)) by (apply Rinv_0_lt_compat; lra).
    set (x := T - b0). assert (Hx : 1 <= x) by (unfold x; lra).
    rewrite Fd_trail. fold K.
    replace (T * T - 2 * b0 * T + c) with (x * x + K) by (unfold x, K; ring).
    fold x. destruct (ratio_bound K x HK Hx) as [B0 B1].
    assert (Hs : 0 < sqrt (x * x + K)) by (apply sqrt_lt_R0; nra).
    replace (x / (K * sqrt (x * x + K)) - / K) with (- ((1 - x / sqrt (x * x + K)) / K)) by (field; split; lra).
    rewrite Rabs_Ropp, Rabs_pos_eq by (apply Rmult_le_pos; [lra | apply Rlt_le, Rinv_0_lt_compat; lra]).
    apply Rle_lt_trans with (K / (2 * x) / K).
    - unfold Rdiv at 1 3. apply Rmult_le_compat_r; [apply Rlt_le, Rinv_0_lt_compat; lra | exact B1].
    - replace (K / (2 * x) / K) with (/ (2 * x)) by (field; split; lra).
      assert (Hx2 : / (2 * eps) < x) by (unfold x; lra).
      (* 1/(2x) < eps  <=>  1/(2 eps) < x *)
      apply (Rmult_lt_reg_r (2 * x)); [lra|]. rewrite Rinv_l by lra.
      apply (Rmult_lt_compat_l (2 * eps)) in Hx2; [|lra]. rewrite Rinv_r in Hx2 by lra. lra.
  Qed.

  (* value of the improper integral: (|r| + u.r) / (|r| (c - (u.r)^2)) = 1 / (|r| (|r| - u.r)) *)
  Theorem trail_integral_limit :
    is_lim (fun T => Fd c e d T - Fd c e d 0) p_infty (/ (sqrt c * (sqrt c - b0))).
  Proof.
    assert (Hcp : 0 < c) by (pose proof (c_pos c e d trail_nc Hc); assumption).
    set (R0 := sqrt c). assert (H0 : 0 < R0) by (apply sqrt_lt_R0; exact Hcp).
    assert (S0 : R0 * R0 = c) by (apply sqrt_sqrt; lra).
    assert (Hf : (R0 - b0) * (R0 + b0) = c - b0 * b0) by (rewrite <- S0; ring).
    assert (Hm : 0 < R0 - b0).
    { destruct (Rle_or_lt (R0 - b0) 0) as [Hle|Hlt]; [|exact Hlt]. exfalso.
      assert (0 < R0 + b0) by lra.
      assert ((R0 - b0) * (R0 + b0) <= 0) by (rewrite <- (Rmult_0_l (R0 + b0)); apply Rmult_le_compat_r; lra). lra. }
    assert (Hp : 0 < R0 + b0).
    { destruct (Rle_or_lt (R0 + b0) 0) as [Hle|Hlt]; [|exact Hlt]. exfalso.
      assert ((R0 - b0) * (R0 + b0) <= 0) by (rewrite <- (Rmult_0_r (R0 - b0)); apply Rmult_le_compat_l; lra). lra. }
    replace (/ (R0 * (R0 - b0))) with (/ (c - b0 * b0) - Fd c e d 0).
    - apply (is_lim_minus (Fd c e d) (fun _ => Fd c e d 0) p_infty (/ (c - b0 * b0)) (Fd c e d 0)).
      + exact Fd_limit.
      + apply is_lim_const.
      + reflexivity.
    - rewrite Fd_trail. replace (0 * 0 - 2 * b0 * 0 + c) with c by ring. fold R0.
      rewrite <- Hf. field. repeat split; lra.
  Qed.
End Trailing.

Section TrailingVec.
  Variables u r : v3 R.
  Hypothesis Hu : vnorm2 u = 1.
  Hypothesis Hnc : 0 < vnorm2 r - vdot u r * vdot u r.     (* the control point is not on the line of the filament *)
  Definition rho_t (t : R) : v3 R := vsub r (vscale t u).   (* from the point joint + t u of the filament to the control point *)

  Lemma cross_const_t t : vcross u (rho_t t) = vcross u r.
  Proof. unfold rho_t. destruct u, r. apply V3_eq; rcompute; ring. Qed.
  Lemma rho_t_norm2 t : vnorm2 (rho_t t) = qd (vnorm2 r) (1 + vnorm2 r - 2 * vdot u r) (vnorm2 r - vdot u r) t.
  Proof.
    rewrite qd_trail. unfold rho_t. destruct u as [a b c], r as [x y z]. unfold vnorm2, vdot in *. rcompute. rcompute_in Hu.
    replace ((x - t * a) * (x - t * a) + (y - t * b) * (y - t * b) + (z - t * c) * (z - t * c))
      with (t * t * (a * a + b * b + c * c) - 2 * (a * x + b * y + c * z) * t + (x * x + y * y + z * z)) by ring.
    rewrite Hu. ring.
  Qed.
  Lemma norm2_nonneg_t (v : v3 R) : 0 <= vnorm2 v.
  Proof. destruct v; unfold vnorm2, vdot; rcompute; nra. Qed.

  (* the filament followed to the length T, and its limit: the code's closed form for the semi-infinite filament *)
  Theorem trail_kernel_is_biot_savart (proj : v3 R -> R) (Hproj : forall k v, proj (vscale k v) = k * proj v) :
    let c := vnorm2 r in let b0 := vdot u r in
    let F := Fd c (1 + c - 2 * b0) (c - b0) in
    (forall T, is_RInt (fun t => proj (vscale (/ (vnorm2 (rho_t t) * sqrt (vnorm2 (rho_t t)))) (vcross u (rho_t t)))) 0 T
                       (proj (vcross u r) * (F T - F 0))) /\
    is_lim (fun T => proj (vcross u r) * (F T - F 0)) p_infty
           (proj (vdivs (vcross u r) (vnorm r * (vnorm r - vdot u r)))).
  Proof.
    intros c b0 F. split.
    - intro T.
      pose proof (trail_truncated b0 c Hnc (norm2_nonneg_t r) T) as HI.
      set (K := proj (vcross u r)).
      set (f := fun t => / (qd c (1 + c - 2 * b0) (c - b0) t * sqrt (qd c (1 + c - 2 * b0) (c - b0) t))) in *.
      apply (is_RInt_ext (fun t => K * f t)).
      + intros t _.
        assert (E : (K * f t)%R = proj (vscale (/ (vnorm2 (rho_t t) * sqrt (vnorm2 (rho_t t)))) (vcross u (rho_t t)))).
        { rewrite cross_const_t, rho_t_norm2, Hproj. unfold f, K, c, b0. ring. }
        exact E.
      + exact (is_RInt_scal f 0 T K (F T - F 0) HI).
    - pose proof (trail_integral_limit b0 c Hnc (norm2_nonneg_t r)) as HL.
      replace (proj (vdivs (vcross u r) (vnorm r * (vnorm r - vdot u r)))) with (proj (vcross u r) * / (sqrt c * (sqrt c - b0))).
      + apply (is_lim_scal_l (fun T => F T - F 0) (proj (vcross u r)) p_infty (/ (sqrt c * (sqrt c - b0))) HL).
      + unfold vnorm. rnum. fold c b0.
        replace (vdivs (vcross u r) (sqrt c * (sqrt c - b0))) with (vscale (/ (sqrt c * (sqrt c - b0))) (vcross u r))
          by (destruct (vcross u r); apply V3_eq; rcompute; unfold Rdiv; ring).
        rewrite Hproj. apply Rmult_comm.
  Qed.
End TrailingVec.
