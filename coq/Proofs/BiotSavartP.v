(* The closed form the code uses for a straight vortex segment is the Biot-Savart line integral over the segment. *)
From Coq Require Import Reals Lra Psatz.
From Coquelicot Require Import Coquelicot.
From MuxV Require Import Base.Num Base.Vec3 Base.RInst Model.Kernel Proofs.KernelP.
Local Open Scope R_scope.

(* ---- the scalar integral  int_0^1 dt / |ra - t (ra - rb)|^3  in terms of c = ra.ra, e = rb.rb, d = ra.rb ---- *)
Section Scalar.
  Variables c e d : R.
  Hypothesis Hnc : 0 < c * e - d * d.          (* ra and rb not collinear (Lagrange: |ra x rb|^2) *)
  Hypothesis Hc : 0 <= c.
  Hypothesis He : 0 <= e.

  Let a := c + e - 2 * d.                       (* |L|^2, L = ra - rb *)
  Let b := c - d.                               (* ra . L *)
  Definition qd (t : R) : R := a * t * t - 2 * b * t + c.     (* |ra - t L|^2 *)

  Lemma acb : a * c - b * b = c * e - d * d.
  Proof. unfold a, b. ring. Qed.
  Lemma c_pos : 0 < c.
  Proof. destruct (Rle_lt_or_eq_dec 0 c Hc) as [H|H]; [exact H|]. exfalso. rewrite <- H in Hnc. nra. Qed.
  Lemma e_pos : 0 < e.
  Proof. destruct (Rle_lt_or_eq_dec 0 e He) as [H|H]; [exact H|]. exfalso. rewrite <- H in Hnc. nra. Qed.
  Lemma a_pos : 0 < a.
  Proof.
    pose proof acb as E. pose proof c_pos as Hcp. assert (Hb : 0 <= b * b) by apply Rle_0_sqr.
    assert (Hac : 0 < a * c) by lra.
    destruct (Rle_or_lt a 0) as [Hle|Hlt]; [|exact Hlt]. exfalso.
    assert (a * c <= 0) by (rewrite <- (Rmult_0_l c); apply Rmult_le_compat_r; lra). lra.
  Qed.
  Lemma qd_pos t : 0 < qd t.
  Proof.
    pose proof a_pos as Ha. pose proof acb as E.
    assert (Hq : a * qd t = (a * t - b) * (a * t - b) + (c * e - d * d)) by (unfold qd; rewrite <- E; ring).
    assert (Hsq : 0 <= (a * t - b) * (a * t - b)) by apply Rle_0_sqr.
    assert (Haq : 0 < a * qd t) by lra.
    destruct (Rle_or_lt (qd t) 0) as [Hle|Hlt]; [|exact Hlt]. exfalso.
    assert (a * qd t <= 0) by (rewrite <- (Rmult_0_r a); apply Rmult_le_compat_l; lra). lra.
  Qed.

  Definition Fd (t : R) : R := (a * t - b) / ((c * e - d * d) * sqrt (qd t)).

  Lemma Fd_derive t : is_derive Fd t (/ (qd t * sqrt (qd t))).
  Proof.
    pose proof (qd_pos t) as Hq. pose proof acb as E.
    assert (Hs : 0 < sqrt (qd t)) by (apply sqrt_lt_R0; exact Hq).
    assert (Hss : sqrt (qd t) * sqrt (qd t) = qd t) by (apply sqrt_sqrt; lra).
    unfold Fd, qd. auto_derive.
    - replace (a * t * t + - (2 * b * t) + c) with (qd t) by (unfold qd; ring).
      split; [exact Hq|]. split; [|exact I]. apply Rgt_not_eq. apply Rmult_gt_0_compat; lra.
    - replace (a * t * t + - (2 * b * t) + c) with (qd t) by (unfold qd; ring).
      replace (a * t * t - 2 * b * t + c) with (qd t) by (unfold qd; ring).
      set (s := sqrt (qd t)) in *.
      assert (Hq2 : a * qd t - (a * t - b) * (a * t - b) = c * e - d * d) by (unfold qd; rewrite <- E; ring).
      assert (Hk : c * e - d * d <> 0) by lra.
      assert (Hs0 : s <> 0) by lra. assert (Hq0 : qd t <> 0) by lra.
      (* bring everything over the common denominator (ce - d^2) q s, using s^2 = q *)
      transitivity ((a * qd t - (a * t - b) * (a * t - b)) / ((c * e - d * d) * qd t * s)).
      + rewrite <- Hss. field. repeat split; assumption.
      + rewrite Hq2. field. repeat split; assumption.
  Qed.
End Scalar.

Section ScalarInt.
  Variables c e d : R.
  Hypothesis Hnc : 0 < c * e - d * d.
  Hypothesis Hc : 0 <= c.
  Hypothesis He : 0 <= e.

  Lemma qd_0 : qd c e d 0 = c.
  Proof. unfold qd. ring. Qed.
  Lemma qd_1 : qd c e d 1 = e.
  Proof. unfold qd. ring. Qed.

  (* int_0^1 dt / (q sqrt q) = (R0 + R1) / (R0 R1 (R0 R1 + d)),  R0 = sqrt c, R1 = sqrt e *)
  Theorem segment_integral :
    is_RInt (fun t => / (qd c e d t * sqrt (qd c e d t))) 0 1
            ((sqrt c + sqrt e) / (sqrt c * sqrt e * (sqrt c * sqrt e + d))).
  Proof.
    pose proof (c_pos c e d Hnc Hc) as Hcp. pose proof (e_pos c e d Hnc He) as Hep.
    set (R0 := sqrt c). set (R1 := sqrt e).
    assert (H0 : 0 < R0) by (apply sqrt_lt_R0; exact Hcp).
    assert (H1 : 0 < R1) by (apply sqrt_lt_R0; exact Hep).
    assert (S0 : R0 * R0 = c) by (apply sqrt_sqrt; lra).
    assert (S1 : R1 * R1 = e) by (apply sqrt_sqrt; lra).
    assert (Hprod : (R0 * R1 - d) * (R0 * R1 + d) = c * e - d * d) by (rewrite <- S0, <- S1; ring).
    assert (Hp : 0 < R0 * R1 + d).
    { destruct (Rle_or_lt (R0 * R1 + d) 0) as [Hle|Hlt]; [|exact Hlt]. exfalso.
      (* then d <= -R0 R1 < 0, so R0 R1 - d > 0 and the product would be <= 0 *)
      assert (0 < R0 * R1) by (apply Rmult_lt_0_compat; assumption).
      assert (0 < R0 * R1 - d) by lra.
      assert ((R0 * R1 - d) * (R0 * R1 + d) <= 0) by (rewrite <- (Rmult_0_r (R0 * R1 - d)); apply Rmult_le_compat_l; lra). lra. }
    replace ((R0 + R1) / (R0 * R1 * (R0 * R1 + d))) with (Fd c e d 1 - Fd c e d 0).
    - apply (is_RInt_derive (Fd c e d) (fun t => / (qd c e d t * sqrt (qd c e d t)))).
      + intros t _. apply Fd_derive; assumption.
      + intros t _. pose proof (qd_pos c e d Hnc Hc t) as Hq.
        apply (ex_derive_continuous (fun t => / (qd c e d t * sqrt (qd c e d t)))). unfold qd. auto_derive.
        replace ((c + e - 2 * d) * t * t + - (2 * (c - d) * t) + c) with (qd c e d t) by (unfold qd; ring).
        assert (0 < sqrt (qd c e d t)) by (apply sqrt_lt_R0; exact Hq).
        repeat split; try exact I; try lra. apply Rgt_not_eq. apply Rmult_gt_0_compat; lra.
    - unfold Fd. rewrite qd_0, qd_1. fold R0 R1.
      replace (c * e - d * d) with ((R0 * R1 - d) * (R0 * R1 + d)) by exact Hprod.
      assert (Hm : R0 * R1 - d <> 0).
      { intro E. rewrite E, Rmult_0_l in Hprod. lra. }
      rewrite <- S0, <- S1. field. repeat split; lra.
  Qed.
End ScalarInt.

(* ---- vectors: the segment A -> B seen from the control point, ra = PC - A, rb = PC - B ---- *)
Section Segment.
  Variables ra rb : v3 R.
  Hypothesis Hnc : vnorm2 (vcross ra rb) <> 0.          (* the control point is not on the line through A and B *)
  Let L := vsub ra rb.                                    (* = B - A : the direction of integration *)
  Definition rho (t : R) : v3 R := vsub ra (vscale t L).  (* from the point A + t (B - A) of the segment to the control point *)

  Lemma lagrange : vnorm2 (vcross ra rb) = vnorm2 ra * vnorm2 rb - vdot ra rb * vdot ra rb.
  Proof. destruct ra, rb. unfold vnorm2, vdot, vcross. rcompute. ring. Qed.
  Lemma nc_pos : 0 < vnorm2 ra * vnorm2 rb - vdot ra rb * vdot ra rb.
  Proof.
    rewrite <- lagrange. assert (0 <= vnorm2 (vcross ra rb)) by (destruct (vcross ra rb); unfold vnorm2, vdot; rcompute; nra).
    destruct (Rle_lt_or_eq_dec _ _ H) as [Hl|He]; [exact Hl | exfalso; apply Hnc; symmetry; exact He].
  Qed.
  Lemma norm2_nonneg (v : v3 R) : 0 <= vnorm2 v.
  Proof. destruct v; unfold vnorm2, vdot; rcompute; nra. Qed.

  (* the integrand's numerator dl x rho is constant along the segment *)
  Lemma cross_const t : vcross L (rho t) = vcross ra rb.
  Proof. unfold rho, L. destruct ra, rb. apply V3_eq; rcompute; ring. Qed.
  Lemma rho_norm2 t : vnorm2 (rho t) = qd (vnorm2 ra) (vnorm2 rb) (vdot ra rb) t.
  Proof. unfold rho, L, qd. destruct ra, rb. unfold vnorm2, vdot. rcompute. ring. Qed.

  (* Biot-Savart: V = (1 / 4 pi) int_0^1 (dl x rho) / |rho|^3 dt, component by component, equals the code's closed form *)
  Theorem seg_kernel_is_biot_savart (proj : v3 R -> R) (Hproj : forall k v, proj (vscale k v) = k * proj v) :
    is_RInt (fun t => proj (vscale (/ (vnorm2 (rho t) * sqrt (vnorm2 (rho t)))) (vcross L (rho t)))) 0 1
            (proj (seg_kernel ra rb)).
  Proof.
    pose proof nc_pos as Hpos.
    pose proof (segment_integral (vnorm2 ra) (vnorm2 rb) (vdot ra rb) Hpos (norm2_nonneg ra) (norm2_nonneg rb)) as HI.
    set (K := proj (vcross ra rb)).
    set (f := fun t => / (qd (vnorm2 ra) (vnorm2 rb) (vdot ra rb) t * sqrt (qd (vnorm2 ra) (vnorm2 rb) (vdot ra rb) t))) in *.
    set (l := (sqrt (vnorm2 ra) + sqrt (vnorm2 rb)) / (sqrt (vnorm2 ra) * sqrt (vnorm2 rb) * (sqrt (vnorm2 ra) * sqrt (vnorm2 rb) + vdot ra rb))) in *.
    apply (is_RInt_ext (fun t => K * f t)).
    - intros t _.
      assert (E : (K * f t)%R = proj (vscale (/ (vnorm2 (rho t) * sqrt (vnorm2 (rho t)))) (vcross L (rho t)))).
      { rewrite cross_const, rho_norm2, Hproj. unfold f, K. ring. }
      exact E.
    - replace (proj (seg_kernel ra rb)) with (K * l).
      + exact (is_RInt_scal f 0 1 K l HI).
      + unfold seg_kernel, vnorm. rnum.
        replace (vdivs (vscale (sqrt (vnorm2 ra) + sqrt (vnorm2 rb)) (vcross ra rb))
                       (sqrt (vnorm2 ra) * sqrt (vnorm2 rb) * (sqrt (vnorm2 ra) * sqrt (vnorm2 rb) + vdot ra rb)))
          with (vscale l (vcross ra rb)) by (unfold l; destruct (vcross ra rb); apply V3_eq; rcompute; unfold Rdiv; ring).
        rewrite Hproj. unfold K. apply Rmult_comm.
  Qed.
End Segment.
