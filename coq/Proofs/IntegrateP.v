(* Result table over the reals: linearity of the frame transformations, orthonormal freestream triad,
   stability axes = rotation by alpha about y, nondimensionalisation. *)
From Coq Require Import Reals Lra List Bool String.
From MuxV Require Import Base.Num Base.Vec3 Base.RInst Model.Helpers Model.Kernel Model.Residual Model.Integrate Proofs.HelpersP.
Import ListNotations.
Local Open Scope R_scope.

Ltac vr := rcompute; first [ring | f_equal; ring].

Lemma mat3_add r0 r1 r2 a b : mat3 r0 r1 r2 (vadd a b) = vadd (mat3 r0 r1 r2 a) (mat3 r0 r1 r2 b).
Proof. destruct r0, r1, r2, a, b; vr. Qed.
Lemma to_wind_add u a b : to_wind u (vadd a b) = vadd (to_wind u a) (to_wind u b).
Proof. apply mat3_add. Qed.
Lemma to_stab_add u a b : to_stab u (vadd a b) = vadd (to_stab u a) (to_stab u b).
Proof. apply mat3_add. Qed.

Lemma in_frame_add f u x y : in_frame f u (fm_add x y) = fm_add (in_frame f u x) (in_frame f u y).
Proof.
  destruct f, x as [xf xm], y as [yf ym]; unfold in_frame, fm_add; cbn [fst snd]; try reflexivity;
    rewrite ?to_wind_add, ?to_stab_add; reflexivity.
Qed.
Lemma comp_add x y k : comp (fm_add x y) k = comp x k + comp y k.
Proof.
  destruct x as [[a b c] [d e f]], y as [[a' b' c'] [d' e' f']].
  do 6 (destruct k as [|k]; [reflexivity|]). reflexivity.
Qed.

(* total = inviscid + viscous, for every key (frame x component x dimensional kind) *)
Lemma value_add r d f u x y k :
  value r d (in_frame f u (fm_add x y)) k = value r d (in_frame f u x) k + value r d (in_frame f u y) k.
Proof. unfold value. rewrite in_frame_add, comp_add. destruct d; [reflexivity|]. rcompute. ring. Qed.

(* per-segment entries sum to the aircraft total, for every key *)
Lemma fm_sum_from l acc : fold_left fm_add l acc = fm_add acc (fm_sum l).
Proof.
  unfold fm_sum. revert acc. induction l as [|x l IH]; intros acc.
  - cbn. destruct acc as [[a b c] [d e f]]. rcompute. apply f_equal2; f_equal; ring.
  - cbn [fold_left]. rewrite IH. rewrite (IH (fm_add fm_zero x)).
    destruct acc as [[a b c] [d e f]], x as [[a' b' c'] [d' e' f']], (fold_left fm_add l fm_zero) as [[a2 b2 c2] [d2 e2 f2]].
    rcompute. apply f_equal2; f_equal; ring.
Qed.
Lemma value_zero r d f u k : value r d (in_frame f u (@fm_zero R _)) k = 0.
Proof.
  unfold value, fm_zero. destruct f; cbn [in_frame fst snd]; unfold to_wind, to_stab, mat3, vzero;
  do 6 (destruct k as [|k]; [destruct d; rcompute; ring|]); destruct d; rcompute; ring.
Qed.
Lemma value_sum r d f u l k :
  value r d (in_frame f u (fm_sum l)) k = fold_right Rplus 0 (map (fun x => value r d (in_frame f u x) k) l).
Proof.
  induction l as [|x l IH]; [apply value_zero|].
  unfold fm_sum. cbn [fold_left]. rewrite fm_sum_from. cbn [map fold_right].
  rewrite value_add, <- IH, value_add, value_zero. ring.
Qed.

(* coefficient = dimensional value / (1/2 rho V^2 S [* l]) *)
Definition ref_len (r : refs R) (k : nat) : R :=
  match k with 0%nat | 1%nat | 2%nat => 1 | 4%nat => rlon r | _ => rlat r end.
Lemma coeff_is_dim_over_qSl r x k : rrho r * rVinf r * rVinf r * rS r <> 0 -> rlon r <> 0 -> rlat r <> 0 ->
  value r false x k * ((1/2) * rrho r * rVinf r * rVinf r * rS r * ref_len r k) = value r true x k.
Proof.
  intros H1 H2 H3. unfold value, nondim, ref_len.
  destruct r as [S lon lat rho V]. cbn [rS rlon rlat rrho rVinf] in *.
  assert (rho <> 0) by (intro E; apply H1; rewrite E; ring).
  assert (V <> 0) by (intro E; apply H1; rewrite E; ring).
  assert (S <> 0) by (intro E; apply H1; rewrite E; ring).
  destruct k as [|[|[|[|[|[|k]]]]]]; rcompute; field; repeat split; assumption.
Qed.

(* ---- the freestream triad ---- *)
Lemma norm_scaled a b c k : 0 < k -> sqrt (a / k * (a / k) + b / k * (b / k) + c / k * (c / k)) = sqrt (a * a + b * b + c * c) / k.
Proof.
  intros Hk. replace (a / k * (a / k) + b / k * (b / k) + c / k * (c / k)) with ((a * a + b * b + c * c) / (k * k)) by (field; lra).
  rewrite sqrt_div_alt by nra. rewrite sqrt_square by lra. reflexivity.
Qed.

Section Triad.
  (* body-frame velocity of the aircraft relative to the air (u,v,w), its magnitude V and m = sqrt(u^2+w^2) *)
  Variables (u v w V m : R).
  Hypotheses (HV : 0 < V) (HV2 : V * V = u * u + v * v + w * w) (Hm : 0 < m) (Hm2 : m * m = u * u + w * w).
  (* unit freestream vector in body axes: the relative wind comes from ahead, uinf = -(u,v,w)/V *)
  Definition uinf : v3 R := V3 (- u / V) (- v / V) (- w / V).

  (* lift direction: normal to the freestream and to body-y *)
  Lemma u_lift_eq : u_lift uinf = V3 (w / m) 0 (- u / m).
  Proof.
    unfold u_lift, vunit, uinf, ey, vcross, vdivs, vnorm, vnorm2, vdot. rcompute.
    replace (- v / V * 0 - - w / V * 1) with (w / V) by (field; lra).
    replace (- w / V * 0 - - u / V * 0) with (0 / V) by (field; lra).
    replace (- u / V * 1 - - v / V * 0) with (- u / V) by (field; lra).
    rewrite norm_scaled by lra.
    replace (w * w + 0 * 0 + - u * - u) with (m * m) by lra. rewrite sqrt_square by lra.
    f_equal; field; lra.
  Qed.

  (* stability axes: body axes rotated by alpha = atan2(w,u) about y, i.e. rows (cos a,0,sin a),(0,1,0),(-sin a,0,cos a) *)
  Lemma to_stab_eq a : to_stab uinf a = V3 ((u * vx a + w * vz a) / m) (vy a) ((- w * vx a + u * vz a) / m).
  Proof.
    unfold to_stab, u_xstab. rewrite u_lift_eq. unfold vunit, ey, vcross, vdivs, vnorm, vnorm2, vdot, mat3, vopp. rcompute.
    replace (0 * 0 - - u / m * 1) with (u / m) by (field; lra).
    replace (- u / m * 0 - w / m * 0) with (0 / m) by (field; lra).
    replace (w / m * 1 - 0 * 0) with (w / m) by (field; lra).
    rewrite norm_scaled by lra. replace (u * u + 0 * 0 + w * w) with (m * m) by lra. rewrite sqrt_square by lra.
    destruct a as [ax ay az]. rcompute. f_equal; field; lra.
  Qed.

  (* wind axes: drag along the freestream, lift normal to freestream and body-y, side force completing the triad *)
  Lemma u_side_eq : u_side uinf = V3 (- u * v / (m * V)) (m / V) (- v * w / (m * V)).
  Proof.
    unfold u_side. rewrite u_lift_eq. unfold vunit, uinf, vcross, vdivs, vnorm, vnorm2, vdot. rcompute.
    replace (0 * (- w / V) - - u / m * (- v / V)) with (- u * v / (m * V)) by (field; lra).
    replace (- u / m * (- u / V) - w / m * (- w / V)) with (m / V)
      by (field_simplify_eq; [replace (m ^ 2) with (m * m) by ring; lra | lra]).
    replace (w / m * (- v / V) - 0 * (- u / V)) with (- v * w / (m * V)) by (field; lra).
    assert (Hn : sqrt (- u * v / (m * V) * (- u * v / (m * V)) + m / V * (m / V) + - v * w / (m * V) * (- v * w / (m * V))) = 1).
    { replace (- u * v / (m * V) * (- u * v / (m * V)) + m / V * (m / V) + - v * w / (m * V) * (- v * w / (m * V))) with 1;
        [apply sqrt_1|].
      field_simplify_eq; [|lra].
      replace (m ^ 4) with ((m * m) * (m * m)) by ring. replace (m ^ 2) with (m * m) by ring. replace (V ^ 2) with (V * V) by ring.
      rewrite Hm2, HV2. ring. }
    rewrite Hn. f_equal; field; lra.
  Qed.

  Lemma triad_orthonormal :
    vdot uinf uinf = 1 /\ vdot (u_lift uinf) (u_lift uinf) = 1 /\ vdot (u_side uinf) (u_side uinf) = 1 /\
    vdot uinf (u_lift uinf) = 0 /\ vdot uinf (u_side uinf) = 0 /\ vdot (u_lift uinf) (u_side uinf) = 0 /\
    vdot (u_lift uinf) ey = 0.
  Proof.
    rewrite u_side_eq, u_lift_eq. unfold uinf, ey, vdot. rcompute.
    repeat split; field_simplify_eq; try lra;
      repeat (replace (m ^ 4) with ((m * m) * (m * m)) by ring); repeat (replace (m ^ 2) with (m * m) by ring);
      repeat (replace (V ^ 2) with (V * V) by ring); rewrite ?Hm2, ?HV2; ring.
  Qed.
End Triad.

(* section sums commute with the rotation into the body frame *)
Lemma quat_trans_vsum q (l : list (v3 R)) acc :
  quat_trans q (fold_left vadd l acc) = fold_left vadd (map (quat_trans q) l) (quat_trans q acc).
Proof.
  revert acc; induction l as [|x l IH]; intros acc; [reflexivity|]. cbn [fold_left map]. rewrite IH, trans_add. reflexivity.
Qed.
Lemma quat_trans_zero q : quat_trans q (@vzero R _) = vzero.
Proof. destruct q; unfold vzero; vr. Qed.
Lemma section_sum_rotates q (l : list (v3 R)) : quat_trans q (vsum l) = vsum (map (quat_trans q) l).
Proof. unfold vsum. rewrite quat_trans_vsum, quat_trans_zero. reflexivity. Qed.
