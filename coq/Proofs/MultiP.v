(* Multi-aircraft scenes: order independence of the induced velocity, add/remove identity of the scene state machine,
   aircraft selection. *)
From Coq Require Import Reals Lra List Bool Arith Lia Permutation.
From MuxV Require Import Base.Num Base.Vec3 Base.RInst Model.Kernel Model.Residual Model.SceneFSM Proofs.HelpersP Proofs.KernelP Proofs.SceneFSMP.
Import ListNotations.
Local Open Scope R_scope.

(* the induced velocity as a sum over (influence, strength) pairs *)
Definition ind_pairs (l : list (v3 R * R)) : v3 R := fold_right (fun p acc => vadd (vscaler (fst p) (snd p)) acc) vzero l.
Lemma induced_pairs Vr g : length Vr = length g -> induced Vr g = ind_pairs (combine Vr g).
Proof.
  revert g; induction Vr as [|V Vr IH]; intros [|x g] Hl; try discriminate; [reflexivity|].
  cbn [induced combine ind_pairs fold_right fst snd]. rewrite IH by (cbn in Hl; lia). reflexivity.
Qed.
Lemma vadd_comm3 (a b c : v3 R) : vadd a (vadd b c) = vadd b (vadd a c).
Proof. destruct a, b, c; rcompute; apply V3_eq; ring. Qed.
(* any re-ordering of the horseshoes (e.g. a different insertion order of the aircraft) gives the same induced velocity *)
Theorem ind_pairs_perm l l' : Permutation l l' -> ind_pairs l = ind_pairs l'.
Proof.
  induction 1 as [|p l l' Hp IH|p q l|l l' l'' H1 IH1 H2 IH2]; cbn [ind_pairs fold_right].
  - reflexivity.
  - unfold ind_pairs in IH. rewrite IH. reflexivity.
  - apply vadd_comm3.
  - congruence.
Qed.

(* adding an aircraft under a fresh name and removing it again restores the aircraft list; the scene stays coherent, so every
   later query is computed from exactly the original aircraft *)
Lemma del_app_fresh n l a : has_name n l = false -> a_name a = n -> del n (l ++ [a]) = l.
Proof.
  intros Hf Ha. induction l as [|b r IH]; cbn [app del].
  - rewrite Ha, Nat.eqb_refl. reflexivity.
  - cbn [has_name] in Hf. apply orb_false_iff in Hf. destruct Hf as [H1 H2]. rewrite H1. rewrite IH by assumption. reflexivity.
Qed.
Lemma del_fresh n l : has_name n l = false -> del n l = l.
Proof.
  induction l as [|b r IH]; intros Hf; [reflexivity|]. cbn [has_name] in Hf. apply orb_false_iff in Hf. destruct Hf as [H1 H2].
  cbn [del]. rewrite H1, IH by assumption. reflexivity.
Qed.
Theorem add_remove_identity s a : Inv s -> has_name (a_name a) (acs s) = false -> acs s <> [] ->
  let s' := fst (run s [AddAircraft a; RemoveAircraft (a_name a)]) in
  acs s' = acs s /\ Inv s'.
Proof.
  intros Hinv Hf Hne. cbv zeta. split; [|apply run_inv; assumption].
  cbn [run step]. rewrite (del_fresh _ _ Hf).
  cbn [prun pstep fst snd acs geo solved snap app].
  assert (Hh : has_name (a_name a) (acs s ++ [a]) = true).
  { clear. induction (acs s) as [|b r IH]; cbn; [rewrite Nat.eqb_refl; reflexivity|rewrite IH; apply orb_true_r]. }
  rewrite Hh. cbn [acs]. rewrite (del_app_fresh (a_name a) (acs s) a Hf eq_refl).
  destruct (acs s) eqn:E; [congruence|]. cbn [prun pstep fst snd acs]. reflexivity.
Qed.
