(* Analyses leave the aircraft state unchanged (over the reals), given that the aerodynamic-angle encoding
   round-trips on the states visited. *)
From Coq Require Import Reals Lra List Bool.
From MuxV Require Import Base.Num Base.Vec3 Base.RInst Model.Helpers Model.AeroState Model.Analyses Proofs.HelpersP.
Import ListNotations.
Local Open Scope R_scope.

Section P.
  Variables (fcos fsin ftan fatan fasin : R -> R) (fatan2 : R -> R -> R) (d2r r2d : R).
  Variable W : v3 R.
  Variable F : ast R -> list R.

  (* the (alpha, beta, V) encoding of a body-frame velocity and its inverse, as the code computes them *)
  Definition enc (vb : v3 R) : R * R * R :=
    (degrees r2d (fatan2 (vz vb) (vx vb)), degrees r2d (fasin (vy vb / sqrt (vx vb * vx vb + vy vb * vy vb + vz vb * vz vb))),
     sqrt (vx vb * vx vb + vy vb * vy vb + vz vb * vz vb)).
  Definition dec (a b V : R) : v3 R := body_velocity fcos fsin ftan fatan d2r a b V.

  Variable okA : R -> R -> R -> Prop.       (* angles/speed on which decoding then encoding is the identity *)
  Variable okB : v3 R -> Prop.              (* body velocities on which encoding then decoding is the identity *)
  Hypothesis HA : forall a b V, okA a b V -> enc (dec a b V) = (a, b, V).
  Hypothesis HB : forall vb, okB vb -> let '(a, b, V) := enc vb in dec a b V = vb.

  Notation get_ae := (get_ae fasin fatan2 r2d W).
  Notation set_ae := (set_ae fcos fsin ftan fatan fasin fatan2 d2r r2d W).

  Definition vbody (s : ast R) : v3 R := quat_trans (s_q s) (vsub (s_v s) W).

  Lemma get_ae_enc s : get_ae s = enc (vbody s).
  Proof. reflexivity. Qed.

  Lemma vadd_sub (a b : v3 R) : vsub (vadd a b) a = b.
  Proof. destruct a, b; rcompute; f_equal; ring. Qed.
  Lemma vadd_sub' (a b : v3 R) : vadd a (vsub b a) = b.
  Proof. destruct a, b; rcompute; f_equal; ring. Qed.

  (* after setting (a,b,V) explicitly the body-frame relative velocity is dec a b V *)
  Lemma vbody_set s a b V : qn2 (s_q s) = 1 -> vbody (set_ae s (Some a) (Some b) (Some V)) = dec a b V.
  Proof.
    intros Hq. unfold vbody, Analyses.set_ae, set_aero_state. cbn [s_q s_v].
    destruct (get_aero_state _ _ _ _ _ _) as [[a0 b0] V0]. rewrite vadd_sub. apply trans_inv_trans_unit; assumption.
  Qed.
  (* setting the encoding of the current velocity leaves the velocity unchanged *)
  Lemma set_enc_id s : qn2 (s_q s) = 1 -> okB (vbody s) ->
    let '(a, b, V) := enc (vbody s) in s_v (set_ae s (Some a) (Some b) (Some V)) = s_v s.
  Proof.
    intros Hq Hok. pose proof (HB (vbody s) Hok) as H. destruct (enc (vbody s)) as [[a b] V].
    unfold Analyses.set_ae, set_aero_state. cbn [s_v s_q]. destruct (get_aero_state _ _ _ _ _ _) as [[a0 b0] V0].
    change (body_velocity fcos fsin ftan fatan d2r a b V) with (dec a b V). rewrite H.
    unfold vbody. rewrite inv_trans_trans_unit by assumption. apply vadd_sub'.
  Qed.

  (* omitted arguments default to the current values *)
  Lemma set_ae_defaults s a b V :
    let '(a0, b0, V0) := get_ae s in
    set_ae s a b V = set_ae s (Some (match a with Some x => x | None => a0 end))
                            (Some (match b with Some x => x | None => b0 end))
                            (Some (match V with Some x => x | None => V0 end)).
  Proof.
    unfold Analyses.get_ae, Analyses.set_ae, set_aero_state.
    destruct (get_aero_state fasin fatan2 r2d (s_q s) (s_v s) W) as [[a0 b0] V0]. destruct a, b, V; reflexivity.
  Qed.
  Lemma set_ae_q s a b V : s_q (set_ae s a b V) = s_q s. Proof. reflexivity. Qed.

  (* ---- stability_derivatives restores the velocity (everything else is never touched) ---- *)
  Theorem stability_restores s dth : qn2 (s_q s) = 1 -> okB (vbody s) ->
    let '(a0, b0, V0) := enc (vbody s) in
    okA (a0 + dth) b0 V0 -> okA (a0 - dth) b0 V0 -> okA a0 (b0 + dth) V0 -> okA a0 (b0 - dth) V0 ->
    snd (stability fcos fsin ftan fatan fasin fatan2 d2r r2d W F s dth) = s.
  Proof.
    intros Hq Hok. pose proof (set_enc_id s Hq Hok) as Hid.
    unfold stability. rewrite get_ae_enc. destruct (enc (vbody s)) as [[a0 b0] V0] eqn:E.
    intros H1 H2 H3 H4. cbv zeta. cbn [snd]. change (@nadd R RNum) with Rplus. change (@nsub R RNum) with Rminus.
    (* walk through the four perturbed states, tracking their (alpha, beta, V) *)
    set (s1 := set_ae s (Some (a0 + dth)) None None).
    assert (E1 : get_ae s1 = (a0 + dth, b0, V0)).
    { unfold s1. pose proof (set_ae_defaults s (Some (a0 + dth)) None None) as D. rewrite get_ae_enc, E in D. rewrite D.
      rewrite get_ae_enc, vbody_set by assumption. apply HA; assumption. }
    set (s2 := set_ae s1 (Some (a0 - dth)) None None).
    assert (E2 : get_ae s2 = (a0 - dth, b0, V0)).
    { unfold s2. pose proof (set_ae_defaults s1 (Some (a0 - dth)) None None) as D. rewrite E1 in D. rewrite D.
      rewrite get_ae_enc, vbody_set by assumption. apply HA; assumption. }
    set (s3 := set_ae s2 (Some a0) (Some (b0 + dth)) None).
    assert (E3 : get_ae s3 = (a0, b0 + dth, V0)).
    { unfold s3. pose proof (set_ae_defaults s2 (Some a0) (Some (b0 + dth)) None) as D. rewrite E2 in D. rewrite D.
      rewrite get_ae_enc, vbody_set by assumption. apply HA; assumption. }
    set (s4 := set_ae s3 None (Some (b0 - dth)) None).
    assert (E4 : get_ae s4 = (a0, b0 - dth, V0)).
    { unfold s4. pose proof (set_ae_defaults s3 None (Some (b0 - dth)) None) as D. rewrite E3 in D. rewrite D.
      rewrite get_ae_enc, vbody_set by assumption. apply HA; assumption. }
    pose proof (set_ae_defaults s4 (Some a0) (Some b0) None) as D. rewrite E4 in D. rewrite D.
    (* the final state only depends on s through q, W and the target (a0,b0,V0): same as resetting s itself *)
    assert (Hfin : set_ae s4 (Some a0) (Some b0) (Some V0) = set_ae s (Some a0) (Some b0) (Some V0)).
    { unfold Analyses.set_ae, set_aero_state. cbn [s_q s_w s_p s_c].
      destruct (get_aero_state fasin fatan2 r2d (s_q s4) (s_v s4) W) as [[x y] z].
      destruct (get_aero_state fasin fatan2 r2d (s_q s) (s_v s) W) as [[x' y'] z']. reflexivity. }
    rewrite Hfin. destruct s as [v w p q c]. unfold Analyses.set_ae in *. cbn [s_v s_w s_p s_q s_c] in *. f_equal. exact Hid.
  Qed.

  (* ---- what stability_derivatives differences: four states that differ from the base state in exactly one of alpha, beta ---- *)
  Definition same_rest (s s' : ast R) : Prop := s_w s' = s_w s /\ s_p s' = s_p s /\ s_q s' = s_q s /\ s_c s' = s_c s.
  Theorem stability_table s dth : qn2 (s_q s) = 1 ->
    let '(a0, b0, V0) := enc (vbody s) in
    okA (a0 + dth) b0 V0 -> okA (a0 - dth) b0 V0 -> okA a0 (b0 + dth) V0 -> okA a0 (b0 - dth) V0 ->
    exists s1 s2 s3 s4,
      get_ae s1 = (a0 + dth, b0, V0) /\ get_ae s2 = (a0 - dth, b0, V0) /\
      get_ae s3 = (a0, b0 + dth, V0) /\ get_ae s4 = (a0, b0 - dth, V0) /\
      same_rest s s1 /\ same_rest s s2 /\ same_rest s s3 /\ same_rest s s4 /\
      fst (stability fcos fsin ftan fatan fasin fatan2 d2r r2d W F s dth) =
        (cdiff (1 / (2 * (dth * d2r))) (F s1) (F s2), cdiff (1 / (2 * (dth * d2r))) (F s3) (F s4)).
  Proof.
    intros Hq. unfold stability. rewrite get_ae_enc. destruct (enc (vbody s)) as [[a0 b0] V0] eqn:E.
    intros H1 H2 H3 H4. cbv zeta. cbn [fst]. change (@nadd R RNum) with Rplus. change (@nsub R RNum) with Rminus.
    set (s1 := set_ae s (Some (a0 + dth)) None None).
    assert (E1 : get_ae s1 = (a0 + dth, b0, V0)).
    { unfold s1. pose proof (set_ae_defaults s (Some (a0 + dth)) None None) as D. rewrite get_ae_enc, E in D. rewrite D.
      rewrite get_ae_enc, vbody_set by assumption. apply HA; assumption. }
    set (s2 := set_ae s1 (Some (a0 - dth)) None None).
    assert (E2 : get_ae s2 = (a0 - dth, b0, V0)).
    { unfold s2. pose proof (set_ae_defaults s1 (Some (a0 - dth)) None None) as D. rewrite E1 in D. rewrite D.
      rewrite get_ae_enc, vbody_set by assumption. apply HA; assumption. }
    set (s3 := set_ae s2 (Some a0) (Some (b0 + dth)) None).
    assert (E3 : get_ae s3 = (a0, b0 + dth, V0)).
    { unfold s3. pose proof (set_ae_defaults s2 (Some a0) (Some (b0 + dth)) None) as D. rewrite E2 in D. rewrite D.
      rewrite get_ae_enc, vbody_set by assumption. apply HA; assumption. }
    set (s4 := set_ae s3 None (Some (b0 - dth)) None).
    assert (E4 : get_ae s4 = (a0, b0 - dth, V0)).
    { unfold s4. pose proof (set_ae_defaults s3 None (Some (b0 - dth)) None) as D. rewrite E3 in D. rewrite D.
      rewrite get_ae_enc, vbody_set by assumption. apply HA; assumption. }
    exists s1, s2, s3, s4. repeat split; try assumption; reflexivity.
  Qed.

  (* ---- damping and control derivatives restore exactly what they changed ---- *)
  Theorem damping_restores s dw pp qq rr lat lon :
    snd (damping fasin fatan2 r2d W F s dw pp qq rr lat lon) = s.
  Proof. unfold damping. destruct (Analyses.get_ae _ _ _ _ _) as [[a b] V]. cbn. destruct s; reflexivity. Qed.

  Lemma set_nth_nth (l : list R) i : (i < length l)%nat -> set_nth l i (nth i l 0) = l.
  Proof.
    revert i; induction l as [|x r IH]; intros i Hi; [reflexivity|]. destruct i; cbn; [reflexivity|].
    f_equal. apply IH. cbn in Hi. apply PeanoNat.Nat.succ_lt_mono; assumption.
  Qed.
  Theorem control_deriv_restores s i dth : (i < length (s_c s))%nat -> snd (control_deriv d2r F s i dth) = s.
  Proof. intros Hi. unfold control_deriv. cbv zeta. cbn [snd]. unfold set_c. change (@n0 R RNum) with 0. rewrite (set_nth_nth (s_c s) i Hi). destruct s; reflexivity. Qed.

  (* ---- aero_center restores the velocity ---- *)
  Theorem aero_center_restores s delta : qn2 (s_q s) = 1 -> okB (vbody s) ->
    snd (aero_center fcos fsin ftan fatan fasin fatan2 d2r r2d W F s delta) = s.
  Proof.
    intros Hq Hok. pose proof (set_enc_id s Hq Hok) as Hid.
    unfold aero_center. rewrite get_ae_enc. destruct (enc (vbody s)) as [[a0 b0] V0]. cbn [snd].
    match goal with |- set_ae (set_ae ?s0 _ _ _) (Some a0) (Some b0) (Some V0) = _ =>
      assert (Hfin : forall s', s_q s' = s_q s -> s_w s' = s_w s -> s_p s' = s_p s -> s_c s' = s_c s ->
                set_ae s' (Some a0) (Some b0) (Some V0) = set_ae s (Some a0) (Some b0) (Some V0)) end.
    { intros s' E1 E2 E3 E4. unfold Analyses.set_ae, set_aero_state. rewrite E1, E2, E3, E4.
      destruct (get_aero_state fasin fatan2 r2d (s_q s) (s_v s') W) as [[x y] z].
      destruct (get_aero_state fasin fatan2 r2d (s_q s) (s_v s) W) as [[x' y'] z']. reflexivity. }
    rewrite Hfin by reflexivity. destruct s as [v w p q c]. unfold Analyses.set_ae in *. cbn [s_v s_w s_p s_q s_c] in *. f_equal. exact Hid.
  Qed.
End P.
