(* Facts about the general (Reid-Hunsaker) corrections of airplane.py: the blend is a convex combination, the joints are unit
   vectors orthogonal to the effective line, and the whole construction commutes with a uniform scaling of the aircraft. *)
From Coq Require Import Reals Lra Psatz List Arith Lia.
From MuxV Require Import Base.Num Base.Vec3 Base.RInst Model.Reid Proofs.KernelP.
Import ListNotations.
Local Open Scope R_scope.

(* ---- no corrections: nodes unchanged, no joints ---- *)
Theorem reid_off fexp (w : list (sec R)) i : sreid i = false ->
  reid_row fexp w i = (map sP0 w, map sP1 w, map sP0 w, map sP1 w).
Proof. intro H. unfold reid_row. rewrite H. reflexivity. Qed.

(* ---- the blend ---- *)
Lemma blend_weight_range sigma ds : 0 <= sigma -> 0 < blend_weight exp sigma ds <= 1.
Proof.
  intro Hs. unfold blend_weight. rnum. split; [apply exp_pos|].
  rewrite <- exp_0. destruct (Req_dec (- sigma * ds * ds) 0) as [E|E]; [rewrite E; lra|].
  left. apply exp_increasing. assert (0 <= ds * ds) by nra. nra.
Qed.
(* an effective node is a convex combination of the point of the straight line at the node's span coordinate and the actual node *)
Theorem blend_node_convex sigma PCi dPC PCsi P Ps : 0 <= sigma ->
  exists lam, 0 < lam <= 1 /\
    blend_node exp sigma PCi dPC PCsi P Ps = vadd (vscale lam (vadd PCi (vscale (Ps - PCsi) dPC))) (vscale (1 - lam) P).
Proof.
  intro Hs. exists (blend_weight exp sigma (Ps - PCsi)). split; [apply blend_weight_range; exact Hs|].
  unfold blend_node. rnum. destruct PCi, dPC, P. unfold vadd, vscale, vscaler; cbn [vx vy vz]; rnum. apply V3_eq; ring.
Qed.
(* at the control point's own span coordinate the effective line passes through the straight line exactly *)
Theorem blend_node_at_cp sigma PCi dPC PCsi P : blend_node exp sigma PCi dPC PCsi P PCsi = PCi.
Proof.
  unfold blend_node, blend_weight. rnum. replace (- sigma * (PCsi - PCsi) * (PCsi - PCsi)) with 0 by ring. rewrite exp_0.
  destruct PCi, dPC, P. unfold vadd, vscale, vscaler; cbn [vx vy vz]; rnum. apply V3_eq; ring.
Qed.

(* ---- the joint direction (the claim in the comment at airplane.py 607-622) ---- *)
Theorem joint_dir_spec (Tn ua : v3 R) : vdot Tn Tn = 1 -> vdot ua ua = 1 -> Rabs (vdot Tn ua) < 1 ->
  let u := joint_dir Tn ua in
  vdot u u = 1 /\ vdot u Tn = 0 /\ 0 < vdot u ua /\
  exists c1 c2, u = vadd (vscale c1 ua) (vscale c2 Tn).
Proof.
  intros HT Hu Hk. cbv zeta. unfold joint_dir. rnum.
  set (k := vdot Tn ua) in *.
  assert (Hk2 : 0 < 1 - k * k) by (apply Rabs_def2 in Hk; nra).
  set (c1 := sqrt (1 / (1 - k * k))).
  assert (Hc1 : 0 < c1) by (apply sqrt_lt_R0; apply Rdiv_lt_0_compat; lra).
  assert (Hc1sq : c1 * c1 = 1 / (1 - k * k)) by (apply sqrt_sqrt; left; apply Rdiv_lt_0_compat; lra).
  assert (Hc1k : c1 * c1 * (1 - k * k) = 1) by (rewrite Hc1sq; field; lra).
  set (u := vadd (vscale c1 ua) (vscale (- c1 * k) Tn)).
  assert (HuT : vdot Tn ua = vdot ua Tn) by apply vdot_comm.
  assert (Huu : vdot u u = 1).
  { unfold u. destruct Tn as [t1 t2 t3], ua as [a1 a2 a3]. unfold vdot, vadd, vscale in *; cbn [vx vy vz] in *; rnum.
    transitivity (c1 * c1 * ((a1 * a1 + a2 * a2 + a3 * a3) - 2 * k * (t1 * a1 + t2 * a2 + t3 * a3) + k * k * (t1 * t1 + t2 * t2 + t3 * t3))); [ring|].
    fold k. rewrite Hu, HT. transitivity (c1 * c1 * (1 - k * k)); [ring | exact Hc1k]. }
  assert (Hn : vnorm u = 1) by (unfold vnorm, vnorm2; rnum; rewrite Huu; apply sqrt_1).
  rewrite Hn. replace (vdivs u 1) with u by (destruct u; unfold vdivs; cbn [vx vy vz]; rnum; apply V3_eq; field).
  split; [exact Huu|]. split; [|split].
  - unfold u. destruct Tn as [t1 t2 t3], ua as [a1 a2 a3]. unfold vdot, vadd, vscale in *; cbn [vx vy vz] in *; rnum.
    transitivity (c1 * (a1 * t1 + a2 * t2 + a3 * t3) - c1 * k * (t1 * t1 + t2 * t2 + t3 * t3)); [ring|].
    rewrite HT. replace (a1 * t1 + a2 * t2 + a3 * t3) with k by (unfold k; ring). ring.
  - unfold u. destruct Tn as [t1 t2 t3], ua as [a1 a2 a3]. unfold vdot, vadd, vscale in *; cbn [vx vy vz] in *; rnum.
    replace (((c1 * a1 + - c1 * k * t1) * a1 + (c1 * a2 + - c1 * k * t2) * a2 + (c1 * a3 + - c1 * k * t3) * a3))
      with (c1 * (a1 * a1 + a2 * a2 + a3 * a3) - c1 * k * (t1 * a1 + t2 * a2 + t3 * a3)) by ring.
    fold k. rewrite Hu. nra.
  - exists c1, (- c1 * k). reflexivity.
Qed.
(* the joint is chord x delta_joint long *)
Theorem joint_node_length P chord dj uj : vdot uj uj = 1 ->
  vdot (vsub (joint_node P chord dj uj) P) (vsub (joint_node P chord dj uj) P) = (chord * dj) * (chord * dj).
Proof.
  intro H. destruct P as [x y z], uj as [a b c]. unfold joint_node, vdot, vsub, vadd, vscale in *; cbn [vx vy vz] in *; rnum.
  transitivity ((chord * dj) * (chord * dj) * (a * a + b * b + c * c)); [ring | rewrite H; ring].
Qed.

(* ---- uniform scaling (dynamic similarity, C05): every length x k, the blending parameter / k^2, directions unchanged ---- *)
Section Scale.
  Variable k : R.
  Hypothesis kpos : 0 < k.

  Definition sec_scale (s : sec R) : sec R :=
    mk_sec (vscale k (sPC s)) (k * sPCs s) (vscale k (sP0 s)) (k * sP0s s) (vscale k (sP1 s)) (k * sP1s s) (sus s) (sua s)
           (k * sc0 s) (k * sc1 s) (sdj s) (ssig s / (k * k)) (sreid s).

  Lemma sigma_blend_scale b bd cs : sigma_blend (k * b) bd cs = sigma_blend b bd cs / (k * k).
  Proof.
    unfold sigma_blend. rnum. cbv zeta. unfold Rdiv. rewrite !Rinv_mult.
    set (ik := / k). assert (H : k * ik = 1) by (unfold ik; field; lra).
    ring.
  Qed.

  Lemma blend_weight_scale sigma ds : blend_weight exp (sigma / (k * k)) (k * ds) = blend_weight exp sigma ds.
  Proof. unfold blend_weight. rnum. f_equal. field. lra. Qed.

  Lemma blend_node_scale sigma PCi dPC PCsi P Ps :
    blend_node exp (sigma / (k * k)) (vscale k PCi) dPC (k * PCsi) (vscale k P) (k * Ps) = vscale k (blend_node exp sigma PCi dPC PCsi P Ps).
  Proof.
    unfold blend_node. rnum. replace (k * Ps - k * PCsi) with (k * (Ps - PCsi)) by ring. rewrite blend_weight_scale.
    set (bl := blend_weight exp sigma (Ps - PCsi)). destruct PCi, dPC, P. unfold vadd, vscale, vscaler; cbn [vx vy vz]; rnum. apply V3_eq; ring.
  Qed.
  Lemma blend_ua_scale sigma uai PCsi uaj PCsj :
    blend_ua exp (sigma / (k * k)) uai (k * PCsi) uaj (k * PCsj) = blend_ua exp sigma uai PCsi uaj PCsj.
  Proof. unfold blend_ua. rnum. replace (k * PCsj - k * PCsi) with (k * (PCsj - PCsi)) by ring. rewrite blend_weight_scale. reflexivity. Qed.

  Lemma diffs_scale l : diffs (map (vscale k) l) = map (vscale k) (diffs l).
  Proof.
    induction l as [|a r IH]; [reflexivity|]. destruct r as [|b r']; [reflexivity|].
    change (diffs (map (vscale k) (a :: b :: r'))) with (vsub (vscale k b) (vscale k a) :: diffs (map (vscale k) (b :: r'))).
    rewrite IH. rewrite <- vscale_sub. reflexivity.
  Qed.
  Lemma cumsum_scale l : forall acc, cumsum_from (k * acc) (map (Rmult k) l) = map (Rmult k) (cumsum_from acc l).
  Proof.
    induction l as [|x r IH]; intro acc; [reflexivity|]. cbn [cumsum_from map]. rnum.
    replace (k * acc + k * x) with (k * (acc + x)) by ring. rewrite IH. reflexivity.
  Qed.
  Lemma arclen_scale pts : arclen (map (vscale k) pts) = map (Rmult k) (arclen pts).
  Proof.
    unfold arclen. rewrite diffs_scale, map_map. cbn [map]. rnum. f_equal; [ring|].
    replace 0 with (k * 0) at 1 by ring.
    rewrite <- cumsum_scale. f_equal. rewrite map_map. apply map_ext. intro a. apply vnorm_scale. lra.
  Qed.

  Lemma comb3_scale a b c f0 f1 f2 : comb3 (a / k) (b / k) (c / k) (vscale k f0) (vscale k f1) (vscale k f2) = comb3 a b c f0 f1 f2.
  Proof. destruct f0, f1, f2. unfold comb3, vadd, vscale; cbn [vx vy vz]; rnum. apply V3_eq; field; lra. Qed.

  Ltac coef :=
    unfold Rdiv; rewrite ?Rinv_mult;
    let ik := fresh "ik" in set (ik := / k);
    let H := fresh "H" in assert (H : k * ik = 1) by (unfold ik; field; lra);
    match goal with |- ?L = ?R => transitivity (R * (k * ik)); [ring | rewrite H; ring] end.
  Lemma cf1 d1 d2 : - (2 * (k * d1) + k * d2) / (k * d1 * (k * d1 + k * d2)) = (- (2 * d1 + d2) / (d1 * (d1 + d2))) / k.
  Proof. replace (k * d1 + k * d2) with (k * (d1 + d2)) by ring. coef. Qed.
  Lemma cf2 d1 d2 : (k * d1 + k * d2) / (k * d1 * (k * d2)) = ((d1 + d2) / (d1 * d2)) / k.
  Proof. coef. Qed.
  Lemma cf3 d1 d2 : - (k * d1) / (k * d2 * (k * d1 + k * d2)) = (- d1 / (d2 * (d1 + d2))) / k.
  Proof. replace (k * d1 + k * d2) with (k * (d1 + d2)) by ring. coef. Qed.
  Lemma cf4 d1 d2 : (k * d2) / (k * d1 * (k * d1 + k * d2)) = (d2 / (d1 * (d1 + d2))) / k.
  Proof. replace (k * d1 + k * d2) with (k * (d1 + d2)) by ring. coef. Qed.
  Lemma cf5 d1 d2 : - (k * d2 + k * d1) / (k * d1 * (k * d2)) = (- (d2 + d1) / (d1 * d2)) / k.
  Proof. coef. Qed.
  Lemma cf6 d1 d2 : (2 * (k * d2) + k * d1) / (k * d2 * (k * d1 + k * d2)) = ((2 * d2 + d1) / (d2 * (d1 + d2))) / k.
  Proof. replace (k * d1 + k * d2) with (k * (d1 + d2)) by ring. coef. Qed.
  Lemma cf7 d1 d2 : - (k * d2) / (k * d1 * (k * d1 + k * d2)) = (- d2 / (d1 * (d1 + d2))) / k.
  Proof. replace (k * d1 + k * d2) with (k * (d1 + d2)) by ring. coef. Qed.
  Lemma cf8 d1 d2 : (k * d2 - k * d1) / (k * d1 * (k * d2)) = ((d2 - d1) / (d1 * d2)) / k.
  Proof. coef. Qed.
  Lemma cf9 d1 d2 : (k * d1) / (k * d2 * (k * d1 + k * d2)) = (d1 / (d2 * (d1 + d2))) / k.
  Proof. replace (k * d1 + k * d2) with (k * (d1 + d2)) by ring. coef. Qed.

  Lemma nth_scale_v j (f : list (v3 R)) : nth j (map (vscale k) f) vzero = vscale k (nth j f vzero).
  Proof. rewrite <- (vscale_zero k) at 1. apply map_nth. Qed.
  Lemma nth_scale_r j (x : list R) : nth j (map (Rmult k) x) 0 = k * nth j x 0.
  Proof. replace 0 with (k * 0) at 1 by ring. apply map_nth. Qed.

  Lemma gradient_scale f x j : gradient_at (map (vscale k) f) (map (Rmult k) x) j = gradient_at f x j.
  Proof.
    unfold gradient_at. rewrite map_length. cbv zeta. rnum. rewrite !nth_scale_v, !nth_scale_r.
    destruct (Nat.eqb j 0).
    - replace (k * nth 1 x 0 - k * nth 0 x 0) with (k * (nth 1 x 0 - nth 0 x 0)) by ring.
      replace (k * nth 2 x 0 - k * nth 1 x 0) with (k * (nth 2 x 0 - nth 1 x 0)) by ring.
      rewrite cf1, cf2, cf3. apply comb3_scale.
    - destruct (Nat.eqb j (length f - 1)).
      + set (n := length f).
        replace (k * nth (n - 2) x 0 - k * nth (n - 3) x 0) with (k * (nth (n - 2) x 0 - nth (n - 3) x 0)) by ring.
        replace (k * nth (n - 1) x 0 - k * nth (n - 2) x 0) with (k * (nth (n - 1) x 0 - nth (n - 2) x 0)) by ring.
        rewrite cf4, cf5, cf6. apply comb3_scale.
      + replace (k * nth j x 0 - k * nth (j - 1) x 0) with (k * (nth j x 0 - nth (j - 1) x 0)) by ring.
        replace (k * nth (j + 1) x 0 - k * nth j x 0) with (k * (nth (j + 1) x 0 - nth j x 0)) by ring.
        rewrite cf7, cf8, cf9. apply comb3_scale.
  Qed.
  Lemma unit_tangents_scale pts : unit_tangents (map (vscale k) pts) = unit_tangents pts.
  Proof.
    unfold unit_tangents. rewrite arclen_scale, map_length. apply map_ext. intro j. cbv zeta. rewrite gradient_scale. reflexivity.
  Qed.

  Lemma joint_node_scale P c dj u : joint_node (vscale k P) (k * c) dj u = vscale k (joint_node P c dj u).
  Proof. destruct P, u. unfold joint_node, vadd, vscale; cbn [vx vy vz]; rnum. apply V3_eq; ring. Qed.
  Lemma joints_scale e : forall tg uas ch dj,
    joints (map (vscale k) e) tg uas (map (Rmult k) ch) dj = map (vscale k) (joints e tg uas ch dj).
  Proof.
    induction e as [|P e IH]; intros tg uas ch dj; [reflexivity|].
    destruct tg as [|t tg]; [reflexivity|]. destruct uas as [|u uas]; [reflexivity|]. destruct ch as [|c ch]; [reflexivity|].
    destruct dj as [|d dj]; [reflexivity|]. cbn [joints map]. rewrite IH, joint_node_scale. reflexivity.
  Qed.

  Definition scale4 (r : list (v3 R) * list (v3 R) * list (v3 R) * list (v3 R)) :=
    let '(a, b, c, d) := r in (map (vscale k) a, map (vscale k) b, map (vscale k) c, map (vscale k) d).

  (* the effective lines and joints of the scaled aircraft are the scaled ones *)
  Theorem reid_row_scale w i : reid_row exp (map sec_scale w) (sec_scale i) = scale4 (reid_row exp w i).
  Proof.
    unfold reid_row, scale4. cbn [sreid sec_scale]. destruct (sreid i).
    - cbn [sus ssig sPC sPCs sua sec_scale].
      assert (E0 : map (fun j => blend_node exp (ssig i / (k * k)) (vscale k (sPC i)) (pc_deriv (sus i)) (k * sPCs i) (sP0 j) (sP0s j)) (map sec_scale w)
                   = map (vscale k) (map (fun j => blend_node exp (ssig i) (sPC i) (pc_deriv (sus i)) (sPCs i) (sP0 j) (sP0s j)) w)).
      { rewrite !map_map. apply map_ext. intro j. cbn [sP0 sP0s sec_scale]. apply blend_node_scale. }
      assert (E1 : map (fun j => blend_node exp (ssig i / (k * k)) (vscale k (sPC i)) (pc_deriv (sus i)) (k * sPCs i) (sP1 j) (sP1s j)) (map sec_scale w)
                   = map (vscale k) (map (fun j => blend_node exp (ssig i) (sPC i) (pc_deriv (sus i)) (sPCs i) (sP1 j) (sP1s j)) w)).
      { rewrite !map_map. apply map_ext. intro j. cbn [sP1 sP1s sec_scale]. apply blend_node_scale. }
      assert (EU : map (fun j => blend_ua exp (ssig i / (k * k)) (sua i) (k * sPCs i) (sua j) (sPCs j)) (map sec_scale w)
                   = map (fun j => blend_ua exp (ssig i) (sua i) (sPCs i) (sua j) (sPCs j)) w).
      { rewrite map_map. apply map_ext. intro j. cbn [sua sPCs sec_scale]. apply blend_ua_scale. }
      rewrite E0, E1, EU. rewrite !unit_tangents_scale.
      assert (C0 : map sc0 (map sec_scale w) = map (Rmult k) (map sc0 w)) by (rewrite !map_map; reflexivity).
      assert (C1 : map sc1 (map sec_scale w) = map (Rmult k) (map sc1 w)) by (rewrite !map_map; reflexivity).
      assert (DJ : map sdj (map sec_scale w) = map sdj w) by (rewrite map_map; reflexivity).
      rewrite C0, C1, DJ, !joints_scale. reflexivity.
    - rewrite !map_map. reflexivity.
  Qed.
End Scale.

(* ======================================================================================================================
   Mirror image (C04): the wing reflected through the x-z plane, sections in reverse order, nodes swapped, span coordinate
   measured from the other tip, span directions still pointing left to right. *)
Definition Mv (p : v3 R) : v3 R := V3 (vx p) (- vy p) (vz p).
Definition nMv (p : v3 R) : v3 R := V3 (- vx p) (vy p) (- vz p).      (* - M p *)

Lemma Mv_norm p : vnorm (Mv p) = vnorm p.
Proof. destruct p. unfold vnorm, vnorm2, vdot, Mv; cbn [vx vy vz]; rnum. f_equal. ring. Qed.
Lemma nMv_norm p : vnorm (nMv p) = vnorm p.
Proof. destruct p. unfold vnorm, vnorm2, vdot, nMv; cbn [vx vy vz]; rnum. f_equal. ring. Qed.

(* arc length differences are the segment lengths *)
Lemma cumsum_head l acc d : nth 0 (cumsum_from acc l) d = match l with [] => d | x :: _ => acc + x end.
Proof. destruct l; reflexivity. Qed.
Lemma cumsum_step l : forall acc j, (S j < length l)%nat ->
  nth (S j) (cumsum_from acc l) 0 - nth j (cumsum_from acc l) 0 = nth (S j) l 0.
Proof.
  induction l as [|x r IH]; intros acc j Hj; [simpl in Hj; lia|].
  cbn [cumsum_from]. rnum. destruct j as [|j].
  - cbn [nth]. destruct r as [|y r']; [simpl in Hj; lia|]. cbn [cumsum_from nth]. rnum. ring.
  - change (nth (S (S j)) ((acc + x) :: cumsum_from (acc + x) r) 0) with (nth (S j) (cumsum_from (acc + x) r) 0).
    change (nth (S j) ((acc + x) :: cumsum_from (acc + x) r) 0) with (nth j (cumsum_from (acc + x) r) 0).
    change (nth (S (S j)) (x :: r) 0) with (nth (S j) r 0). apply IH. simpl in Hj; lia.
Qed.
Lemma diffs_length (l : list (v3 R)) : length (diffs l) = (length l - 1)%nat.
Proof.
  induction l as [|a r IH]; [reflexivity|]. destruct r as [|b r']; [reflexivity|].
  change (diffs (a :: b :: r')) with (vsub b a :: diffs (b :: r')). cbn [length] in *. rewrite IH. lia.
Qed.
Lemma diffs_nth (l : list (v3 R)) : forall j, (S j < length l)%nat -> nth j (diffs l) vzero = vsub (nth (S j) l vzero) (nth j l vzero).
Proof.
  induction l as [|a r IH]; intros j Hj; [simpl in Hj; lia|]. destruct r as [|b r']; [simpl in Hj; lia|].
  change (diffs (a :: b :: r')) with (vsub b a :: diffs (b :: r')). destruct j as [|j]; [reflexivity|].
  change (nth (S j) (vsub b a :: diffs (b :: r')) vzero) with (nth j (diffs (b :: r')) vzero).
  rewrite IH by (simpl in Hj |- *; lia). reflexivity.
Qed.
Definition seglen (f : list (v3 R)) (j : nat) : R := vnorm (vsub (nth (S j) f vzero) (nth j f vzero)).
Lemma arclen_step f j : (S j < length f)%nat -> nth (S j) (arclen f) 0 - nth j (arclen f) 0 = seglen f j.
Proof.
  intro Hj. unfold arclen, seglen. rnum.
  assert (HL : length (map vnorm (diffs f)) = (length f - 1)%nat) by (rewrite map_length; apply diffs_length).
  assert (Hn : nth j (map vnorm (diffs f)) 0 = vnorm (vsub (nth (S j) f vzero) (nth j f vzero))).
  { rewrite <- diffs_nth by exact Hj. replace 0 with (@vnorm R _ vzero) at 1.
    - apply map_nth.
    - unfold vnorm, vnorm2, vdot, vzero; cbn [vx vy vz]; rnum. replace (0 * 0 + 0 * 0 + 0 * 0) with 0 by ring. apply sqrt_0. }
  destruct j as [|j].
  - cbn [nth]. rewrite cumsum_head. destruct (map vnorm (diffs f)) as [|x r] eqn:E; [simpl in HL; lia|].
    cbn [nth] in Hn. rewrite <- Hn. ring.
  - change (nth (S (S j)) (0 :: cumsum_from 0 (map vnorm (diffs f))) 0) with (nth (S j) (cumsum_from 0 (map vnorm (diffs f))) 0).
    change (nth (S j) (0 :: cumsum_from 0 (map vnorm (diffs f))) 0) with (nth j (cumsum_from 0 (map vnorm (diffs f))) 0).
    rewrite cumsum_step by lia. exact Hn.
Qed.

(* the gradient with respect to arc length only sees the segment lengths *)
Definition grad2 (f : list (v3 R)) (j : nat) : v3 R :=
  let n := length f in
  let F k := nth k f vzero in
  if Nat.eqb j 0 then
    let dx1 := seglen f 0 in let dx2 := seglen f 1 in
    comb3 (- (2 * dx1 + dx2) / (dx1 * (dx1 + dx2))) ((dx1 + dx2) / (dx1 * dx2)) (- dx1 / (dx2 * (dx1 + dx2))) (F 0%nat) (F 1%nat) (F 2%nat)
  else if Nat.eqb j (n - 1) then
    let dx1 := seglen f (n - 3) in let dx2 := seglen f (n - 2) in
    comb3 (dx2 / (dx1 * (dx1 + dx2))) (- (dx2 + dx1) / (dx1 * dx2)) ((2 * dx2 + dx1) / (dx2 * (dx1 + dx2))) (F (n - 3)%nat) (F (n - 2)%nat) (F (n - 1)%nat)
  else
    let dx1 := seglen f (j - 1) in let dx2 := seglen f j in
    comb3 (- dx2 / (dx1 * (dx1 + dx2))) ((dx2 - dx1) / (dx1 * dx2)) (dx1 / (dx2 * (dx1 + dx2))) (F (j - 1)%nat) (F j) (F (j + 1)%nat).

Lemma gradient_arclen f j : (3 <= length f)%nat -> (j < length f)%nat -> gradient_at f (arclen f) j = grad2 f j.
Proof.
  intros Hn Hj. unfold gradient_at, grad2. cbv zeta. rnum. set (n := length f) in *.
  destruct (Nat.eqb j 0) eqn:E0.
  - rewrite (arclen_step f 0) by (fold n; lia). rewrite (arclen_step f 1) by (fold n; lia). reflexivity.
  - apply Nat.eqb_neq in E0. destruct (Nat.eqb j (n - 1)) eqn:E1.
    + replace (nth (n - 2) (arclen f) 0 - nth (n - 3) (arclen f) 0) with (seglen f (n - 3)).
      2:{ rewrite <- (arclen_step f (n - 3)) by (fold n; lia). replace (S (n - 3)) with (n - 2)%nat by lia. reflexivity. }
      replace (nth (n - 1) (arclen f) 0 - nth (n - 2) (arclen f) 0) with (seglen f (n - 2)).
      2:{ rewrite <- (arclen_step f (n - 2)) by (fold n; lia). replace (S (n - 2)) with (n - 1)%nat by lia. reflexivity. }
      reflexivity.
    + apply Nat.eqb_neq in E1.
      replace (nth j (arclen f) 0 - nth (j - 1) (arclen f) 0) with (seglen f (j - 1)).
      2:{ rewrite <- (arclen_step f (j - 1)) by (fold n; lia). replace (S (j - 1)) with j by lia. reflexivity. }
      replace (nth (j + 1) (arclen f) 0 - nth j (arclen f) 0) with (seglen f j).
      2:{ rewrite <- (arclen_step f j) by (fold n; lia). replace (S j) with (j + 1)%nat by lia. reflexivity. }
      reflexivity.
Qed.

(* ---- mirror image with reversed order ---- *)
Lemma Mv_sub a b : vsub (Mv a) (Mv b) = Mv (vsub a b).
Proof. destruct a, b. unfold vsub, Mv; cbn [vx vy vz]; rnum. apply V3_eq; ring. Qed.
Lemma vnorm_sub_comm (a b : v3 R) : vnorm (vsub a b) = vnorm (vsub b a).
Proof. destruct a, b. unfold vnorm, vnorm2, vdot, vsub; cbn [vx vy vz]; rnum. f_equal. ring. Qed.
Lemma Mv_zero : Mv vzero = vzero.
Proof. unfold Mv, vzero; cbn [vx vy vz]; rnum. apply V3_eq; ring. Qed.

Section Rev.
  Variable f : list (v3 R).
  Let n := length f.
  Let f' := rev (map Mv f).
  Lemma f'_len : length f' = n.
  Proof. unfold f'. rewrite rev_length, map_length. reflexivity. Qed.
  Lemma f'_nth k : (k < n)%nat -> nth k f' vzero = Mv (nth (n - 1 - k) f vzero).
  Proof.
    intro Hk. unfold f'. rewrite rev_nth by (rewrite map_length; exact Hk). rewrite map_length. fold n.
    rewrite <- Mv_zero at 1. rewrite map_nth. f_equal. f_equal. lia.
  Qed.
  Lemma seglen_rev k : (S k < n)%nat -> seglen f' k = seglen f (n - 2 - k).
  Proof.
    intro Hk. unfold seglen. rewrite !f'_nth by lia. rewrite Mv_sub, Mv_norm, vnorm_sub_comm.
    replace (S (n - 2 - k)) with (n - 1 - k)%nat by lia. replace (n - 1 - S k)%nat with (n - 2 - k)%nat by lia. reflexivity.
  Qed.

  Lemma comb3_rev a b c f0 f1 f2 : comb3 (- c) (- b) (- a) (Mv f2) (Mv f1) (Mv f0) = nMv (comb3 a b c f0 f1 f2).
  Proof. destruct f0, f1, f2. unfold comb3, vadd, vscale, Mv, nMv; cbn [vx vy vz]; rnum. apply V3_eq; ring. Qed.

  Lemma grad2_rev j : (3 <= n)%nat -> (j < n)%nat -> grad2 f' j = nMv (grad2 f (n - 1 - j)).
  Proof.
    intros Hn Hj. unfold grad2. cbv zeta. rewrite f'_len. fold n.
    destruct (Nat.eqb j 0) eqn:E0.
    - apply Nat.eqb_eq in E0. subst j.
      assert (E : Nat.eqb (n - 1 - 0) 0 = false) by (apply Nat.eqb_neq; lia). rewrite E.
      assert (E' : Nat.eqb (n - 1 - 0) (n - 1) = true) by (apply Nat.eqb_eq; lia). rewrite E'.
      rewrite (seglen_rev 0), (seglen_rev 1) by lia. rewrite !f'_nth by lia.
      replace (n - 2 - 0)%nat with (n - 2)%nat by lia. replace (n - 2 - 1)%nat with (n - 3)%nat by lia.
      replace (n - 1 - 0)%nat with (n - 1)%nat by lia. replace (n - 1 - 1)%nat with (n - 2)%nat by lia. replace (n - 1 - 2)%nat with (n - 3)%nat by lia.
      set (d1 := seglen f (n - 3)). set (d2 := seglen f (n - 2)).
      rewrite <- comb3_rev. f_equal.
      + replace (d2 + d1) with (d1 + d2) by ring. unfold Rdiv. ring.
      + rewrite (Rmult_comm d2 d1). unfold Rdiv. ring.
      + replace (d2 + d1) with (d1 + d2) by ring. unfold Rdiv. ring.
    - apply Nat.eqb_neq in E0. destruct (Nat.eqb j (n - 1)) eqn:E1.
      + apply Nat.eqb_eq in E1. subst j.
        assert (E : Nat.eqb (n - 1 - (n - 1)) 0 = true) by (apply Nat.eqb_eq; lia). rewrite E.
        rewrite (seglen_rev (n - 3)), (seglen_rev (n - 2)) by lia. rewrite !f'_nth by lia.
        replace (n - 2 - (n - 3))%nat with 1%nat by lia. replace (n - 2 - (n - 2))%nat with 0%nat by lia.
        replace (n - 1 - (n - 3))%nat with 2%nat by lia. replace (n - 1 - (n - 2))%nat with 1%nat by lia. replace (n - 1 - (n - 1))%nat with 0%nat by lia.
        set (d1 := seglen f 0). set (d2 := seglen f 1).
        rewrite <- comb3_rev. f_equal.
        * replace (d2 + d1) with (d1 + d2) by ring. unfold Rdiv. ring.
        * rewrite (Rmult_comm d2 d1). replace (d2 + d1) with (d1 + d2) by ring. unfold Rdiv. ring.
        * replace (d2 + d1) with (d1 + d2) by ring. unfold Rdiv. ring.
      + apply Nat.eqb_neq in E1.
        assert (E : Nat.eqb (n - 1 - j) 0 = false) by (apply Nat.eqb_neq; lia). rewrite E.
        assert (E' : Nat.eqb (n - 1 - j) (n - 1) = false) by (apply Nat.eqb_neq; lia). rewrite E'.
        rewrite (seglen_rev (j - 1)), (seglen_rev j) by lia. rewrite !f'_nth by lia.
        replace (n - 2 - (j - 1))%nat with (n - 1 - j)%nat by lia. replace (n - 2 - j)%nat with (n - 1 - j - 1)%nat by lia.
        replace (n - 1 - (j - 1))%nat with (n - 1 - j + 1)%nat by lia. replace (n - 1 - (j + 1))%nat with (n - 1 - j - 1)%nat by lia.
        set (m := (n - 1 - j)%nat). set (d1 := seglen f (m - 1)). set (d2 := seglen f m).
        rewrite <- comb3_rev. f_equal.
        * replace (d2 + d1) with (d1 + d2) by ring. unfold Rdiv. ring.
        * rewrite (Rmult_comm d2 d1). unfold Rdiv. ring.
        * replace (d2 + d1) with (d1 + d2) by ring. unfold Rdiv. ring.
  Qed.
End Rev.

Lemma nMv_zero : nMv vzero = vzero.
Proof. unfold nMv, vzero; cbn [vx vy vz]; rnum. apply V3_eq; ring. Qed.
Lemma nMv_vdivs g d : vdivs (nMv g) d = nMv (vdivs g d).
Proof. destruct g. unfold vdivs, nMv; cbn [vx vy vz]; rnum. apply V3_eq; unfold Rdiv; ring. Qed.
Lemma Mv_vdivs g d : vdivs (Mv g) d = Mv (vdivs g d).
Proof. destruct g. unfold vdivs, Mv; cbn [vx vy vz]; rnum. apply V3_eq; unfold Rdiv; ring. Qed.

Lemma unit_tangents_length pts : length (unit_tangents pts) = length pts.
Proof. unfold unit_tangents. rewrite map_length, seq_length. reflexivity. Qed.
Lemma unit_tangents_nth pts j : (j < length pts)%nat ->
  nth j (unit_tangents pts) vzero = (let g := gradient_at pts (arclen pts) j in vdivs g (vnorm g)).
Proof.
  intro Hj. unfold unit_tangents.
  set (F := fun j0 : nat => let g := gradient_at pts (arclen pts) j0 in vdivs g (vnorm g)).
  rewrite (nth_indep _ vzero (F 0%nat)) by (rewrite map_length, seq_length; exact Hj).
  rewrite map_nth. rewrite seq_nth by exact Hj. reflexivity.
Qed.

Theorem unit_tangents_rev f : (3 <= length f)%nat -> unit_tangents (rev (map Mv f)) = rev (map nMv (unit_tangents f)).
Proof.
  intro Hn. set (n := length f) in *.
  assert (L1 : length (rev (map Mv f)) = n) by (rewrite rev_length, map_length; reflexivity).
  apply (nth_ext _ _ vzero vzero).
  - rewrite unit_tangents_length, L1, rev_length, map_length, unit_tangents_length. reflexivity.
  - intros j Hj. rewrite unit_tangents_length, L1 in Hj.
    rewrite unit_tangents_nth by (rewrite L1; exact Hj). cbv zeta.
    rewrite gradient_arclen by (rewrite L1; assumption). rewrite (grad2_rev f j Hn Hj). fold n.
    rewrite nMv_norm, nMv_vdivs.
    rewrite rev_nth by (rewrite map_length, unit_tangents_length; exact Hj). rewrite map_length, unit_tangents_length. fold n.
    rewrite <- nMv_zero at 1. rewrite map_nth. f_equal.
    replace (n - S j)%nat with (n - 1 - j)%nat by lia.
    rewrite unit_tangents_nth by (fold n; lia). cbv zeta. rewrite gradient_arclen by (fold n; lia). reflexivity.
Qed.

(* ---- pieces under the mirror map ---- *)
Lemma pc_deriv_mirror us : pc_deriv (nMv us) = nMv (pc_deriv us).
Proof.
  destruct us as [x y z]. unfold pc_deriv, nMv; cbn [vx vy vz]; rnum.
  replace (y * y + - z * - z) with (y * y + z * z) by ring.
  unfold vdivs; cbn [vx vy vz]; rnum. apply V3_eq; unfold Rdiv; ring.
Qed.
Lemma blend_weight_neg sigma ds : blend_weight exp sigma (- ds) = blend_weight exp sigma ds.
Proof. unfold blend_weight. rnum. f_equal. ring. Qed.
Lemma blend_node_mirror L sigma PCi dPC PCsi P Ps :
  blend_node exp sigma (Mv PCi) (nMv dPC) (L - PCsi) (Mv P) (L - Ps) = Mv (blend_node exp sigma PCi dPC PCsi P Ps).
Proof.
  unfold blend_node. rnum. replace (L - Ps - (L - PCsi)) with (- (Ps - PCsi)) by ring. rewrite blend_weight_neg.
  set (bl := blend_weight exp sigma (Ps - PCsi)). destruct PCi, dPC, P. unfold vadd, vscaler, Mv, nMv; cbn [vx vy vz]; rnum. apply V3_eq; ring.
Qed.
Lemma Mv_add_scaler a b p q : vadd (vscaler (Mv a) p) (vscaler (Mv b) q) = Mv (vadd (vscaler a p) (vscaler b q)).
Proof. destruct a, b. unfold vadd, vscaler, Mv; cbn [vx vy vz]; rnum. apply V3_eq; ring. Qed.
Lemma blend_ua_mirror L sigma uai PCsi uaj PCsj :
  blend_ua exp sigma (Mv uai) (L - PCsi) (Mv uaj) (L - PCsj) = Mv (blend_ua exp sigma uai PCsi uaj PCsj).
Proof.
  unfold blend_ua. rnum. replace (L - PCsj - (L - PCsi)) with (- (PCsj - PCsi)) by ring. rewrite blend_weight_neg.
  cbv zeta. rewrite Mv_add_scaler, Mv_norm, Mv_vdivs. reflexivity.
Qed.
Lemma joint_dir_mirror Tn ua : joint_dir (nMv Tn) (Mv ua) = Mv (joint_dir Tn ua).
Proof.
  unfold joint_dir. rnum. cbv zeta.
  assert (Ek : vdot (nMv Tn) (Mv ua) = - vdot Tn ua) by (destruct Tn, ua; unfold vdot, nMv, Mv; cbn [vx vy vz]; rnum; ring).
  rewrite Ek. replace (- vdot Tn ua * - vdot Tn ua) with (vdot Tn ua * vdot Tn ua) by ring.
  set (k := vdot Tn ua). set (c1 := sqrt (1 / (1 - k * k))).
  assert (E : vadd (vscale c1 (Mv ua)) (vscale (- c1 * - k) (nMv Tn)) = Mv (vadd (vscale c1 ua) (vscale (- c1 * k) Tn))).
  { destruct Tn, ua. unfold vadd, vscale, Mv, nMv; cbn [vx vy vz]; rnum. apply V3_eq; ring. }
  rewrite E, Mv_norm, Mv_vdivs. reflexivity.
Qed.
Lemma joint_node_mirror P c d u : joint_node (Mv P) c d (Mv u) = Mv (joint_node P c d u).
Proof. destruct P, u. unfold joint_node, vadd, vscale, Mv; cbn [vx vy vz]; rnum. apply V3_eq; ring. Qed.

Lemma joints_mirror e : forall tg uas ch dj,
  joints (map Mv e) (map nMv tg) (map Mv uas) ch dj = map Mv (joints e tg uas ch dj).
Proof.
  induction e as [|P e IH]; intros tg uas ch dj; [reflexivity|].
  destruct tg as [|t tg]; [reflexivity|]. destruct uas as [|u uas]; [reflexivity|]. destruct ch as [|c ch]; [reflexivity|].
  destruct dj as [|d dj]; [reflexivity|]. cbn [joints map]. rewrite IH, joint_dir_mirror, joint_node_mirror. reflexivity.
Qed.
Lemma joints_app e1 : forall tg1 uas1 ch1 dj1 e2 tg2 uas2 ch2 dj2,
  length tg1 = length e1 -> length uas1 = length e1 -> length ch1 = length e1 -> length dj1 = length e1 ->
  joints (e1 ++ e2) (tg1 ++ tg2) (uas1 ++ uas2) (ch1 ++ ch2) (dj1 ++ dj2) = joints e1 tg1 uas1 ch1 dj1 ++ joints e2 tg2 uas2 ch2 dj2.
Proof.
  induction e1 as [|P e1 IH]; intros tg1 uas1 ch1 dj1 e2 tg2 uas2 ch2 dj2 H1 H2 H3 H4.
  - destruct tg1; [|discriminate]. destruct uas1; [|discriminate]. destruct ch1; [|discriminate]. destruct dj1; [|discriminate]. reflexivity.
  - destruct tg1 as [|t tg1]; [discriminate|]. destruct uas1 as [|u uas1]; [discriminate|]. destruct ch1 as [|c ch1]; [discriminate|].
    destruct dj1 as [|d dj1]; [discriminate|]. cbn [app joints]. f_equal. apply IH; simpl in *; congruence.
Qed.
Lemma joints_rev e : forall tg uas ch dj,
  length tg = length e -> length uas = length e -> length ch = length e -> length dj = length e ->
  joints (rev e) (rev tg) (rev uas) (rev ch) (rev dj) = rev (joints e tg uas ch dj).
Proof.
  induction e as [|P e IH]; intros tg uas ch dj H1 H2 H3 H4.
  - destruct tg; [|discriminate]. destruct uas; [|discriminate]. destruct ch; [|discriminate]. destruct dj; [|discriminate]. reflexivity.
  - destruct tg as [|t tg]; [discriminate|]. destruct uas as [|u uas]; [discriminate|]. destruct ch as [|c ch]; [discriminate|].
    destruct dj as [|d dj]; [discriminate|]. cbn [rev joints].
    rewrite joints_app by (rewrite !rev_length; simpl in *; congruence).
    rewrite IH by (simpl in *; congruence). reflexivity.
Qed.

(* ---- the mirrored wing: sections in reverse order, nodes swapped, span coordinate measured from the other tip ---- *)
Definition sec_mirror (L : R) (s : sec R) : sec R :=
  mk_sec (Mv (sPC s)) (L - sPCs s) (Mv (sP1 s)) (L - sP1s s) (Mv (sP0 s)) (L - sP0s s) (nMv (sus s)) (Mv (sua s))
         (sc1 s) (sc0 s) (sdj s) (ssig s) (sreid s).
Definition mirror4 (r : list (v3 R) * list (v3 R) * list (v3 R) * list (v3 R)) :=
  let '(e0, e1, j0, j1) := r in (rev (map Mv e1), rev (map Mv e0), rev (map Mv j1), rev (map Mv j0)).

Lemma joints_length e : forall tg uas ch dj,
  length tg = length e -> length uas = length e -> length ch = length e -> length dj = length e -> length (joints e tg uas ch dj) = length e.
Proof.
  induction e as [|P e IH]; intros tg uas ch dj H1 H2 H3 H4; [reflexivity|].
  destruct tg as [|t tg]; [discriminate|]. destruct uas as [|u uas]; [discriminate|]. destruct ch as [|c ch]; [discriminate|].
  destruct dj as [|d dj]; [discriminate|]. cbn [joints length]. f_equal. apply IH; simpl in *; congruence.
Qed.

Theorem reid_row_mirror L w i : (3 <= length w)%nat ->
  reid_row exp (rev (map (sec_mirror L) w)) (sec_mirror L i) = mirror4 (reid_row exp w i).
Proof.
  intro Hn. unfold reid_row, mirror4. cbn [sreid sec_mirror]. destruct (sreid i).
  - cbn [sus ssig sPC sPCs sua sec_mirror]. rewrite pc_deriv_mirror.
    set (dPC := pc_deriv (sus i)).
    set (e0 := map (fun j => blend_node exp (ssig i) (sPC i) dPC (sPCs i) (sP0 j) (sP0s j)) w).
    set (e1 := map (fun j => blend_node exp (ssig i) (sPC i) dPC (sPCs i) (sP1 j) (sP1s j)) w).
    set (uas := map (fun j => blend_ua exp (ssig i) (sua i) (sPCs i) (sua j) (sPCs j)) w).
    assert (E0 : map (fun j => blend_node exp (ssig i) (Mv (sPC i)) (nMv dPC) (L - sPCs i) (sP0 j) (sP0s j)) (rev (map (sec_mirror L) w)) = rev (map Mv e1)).
    { rewrite map_rev. f_equal. unfold e1. rewrite !map_map. apply map_ext. intro j. cbn [sP0 sP0s sec_mirror]. apply blend_node_mirror. }
    assert (E1 : map (fun j => blend_node exp (ssig i) (Mv (sPC i)) (nMv dPC) (L - sPCs i) (sP1 j) (sP1s j)) (rev (map (sec_mirror L) w)) = rev (map Mv e0)).
    { rewrite map_rev. f_equal. unfold e0. rewrite !map_map. apply map_ext. intro j. cbn [sP1 sP1s sec_mirror]. apply blend_node_mirror. }
    assert (EU : map (fun j => blend_ua exp (ssig i) (Mv (sua i)) (L - sPCs i) (sua j) (sPCs j)) (rev (map (sec_mirror L) w)) = rev (map Mv uas)).
    { rewrite map_rev. f_equal. unfold uas. rewrite !map_map. apply map_ext. intro j. cbn [sua sPCs sec_mirror]. apply blend_ua_mirror. }
    rewrite E0, E1, EU.
    assert (L0 : length e0 = length w) by (unfold e0; apply map_length).
    assert (L1 : length e1 = length w) by (unfold e1; apply map_length).
    assert (LU : length uas = length w) by (unfold uas; apply map_length).
    rewrite (unit_tangents_rev e1) by lia. rewrite (unit_tangents_rev e0) by lia.
    assert (C0 : map sc0 (rev (map (sec_mirror L) w)) = rev (map sc1 w)) by (rewrite map_rev, map_map; reflexivity).
    assert (C1 : map sc1 (rev (map (sec_mirror L) w)) = rev (map sc0 w)) by (rewrite map_rev, map_map; reflexivity).
    assert (DJ : map sdj (rev (map (sec_mirror L) w)) = rev (map sdj w)) by (rewrite map_rev, map_map; reflexivity).
    rewrite C0, C1, DJ.
    rewrite !joints_rev by (rewrite ?map_length, ?unit_tangents_length; congruence).
    rewrite !joints_mirror. reflexivity.
  - rewrite !map_rev, !map_map. reflexivity.
Qed.
