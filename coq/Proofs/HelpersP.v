(* Quaternion algebra over the reals (C03). *)
From Coq Require Import Reals Lra List.
From MuxV Require Import Base.Num Base.Vec3 Base.RInst Model.Helpers.
Local Open Scope R_scope.

Ltac v3_ring := rcompute; first [ring | f_equal; ring].

Definition qn2 (q : quat R) : R := quat_norm2 q.

(* transforming into a frame and back is the identity, up to |q|^4 (=1 for unit q) *)
Lemma inv_trans_trans (q : quat R) (v : v3 R) :
  quat_inv_trans q (quat_trans q v) = vscale (qn2 q * qn2 q) v.
Proof. destruct q, v; v3_ring. Qed.
Lemma trans_inv_trans (q : quat R) (v : v3 R) :
  quat_trans q (quat_inv_trans q v) = vscale (qn2 q * qn2 q) v.
Proof. destruct q, v; v3_ring. Qed.

Lemma vscale_1 (v : v3 R) : vscale 1 v = v.
Proof. destruct v; v3_ring. Qed.

Lemma inv_trans_trans_unit q v : qn2 q = 1 -> quat_inv_trans q (quat_trans q v) = v.
Proof. intros H; rewrite inv_trans_trans, H, Rmult_1_l; apply vscale_1. Qed.
Lemma trans_inv_trans_unit q v : qn2 q = 1 -> quat_trans q (quat_inv_trans q v) = v.
Proof. intros H; rewrite trans_inv_trans, H, Rmult_1_l; apply vscale_1. Qed.

(* lengths and angles *)
Lemma trans_dot q a b :
  vdot (quat_trans q a) (quat_trans q b) = qn2 q * qn2 q * vdot a b.
Proof. destruct q, a, b; v3_ring. Qed.
Lemma inv_trans_dot q a b :
  vdot (quat_inv_trans q a) (quat_inv_trans q b) = qn2 q * qn2 q * vdot a b.
Proof. destruct q, a, b; v3_ring. Qed.
Lemma trans_norm2 q v : vnorm2 (quat_trans q v) = qn2 q * qn2 q * vnorm2 v.
Proof. apply trans_dot. Qed.
Lemma inv_trans_norm2 q v : vnorm2 (quat_inv_trans q v) = qn2 q * qn2 q * vnorm2 v.
Proof. apply inv_trans_dot. Qed.
Lemma trans_norm_unit q v : qn2 q = 1 -> vnorm (quat_trans q v) = vnorm v.
Proof. intros H; unfold vnorm; rewrite trans_norm2, H; cbn; f_equal; ring. Qed.
Lemma inv_trans_norm_unit q v : qn2 q = 1 -> vnorm (quat_inv_trans q v) = vnorm v.
Proof. intros H; unfold vnorm; rewrite inv_trans_norm2, H; cbn; f_equal; ring. Qed.

(* orientation is preserved: cross products commute with the transform *)
Lemma trans_cross q a b :
  vcross (quat_trans q a) (quat_trans q b) = vscale (qn2 q) (quat_trans q (vcross a b)).
Proof. destruct q, a, b; v3_ring. Qed.
Lemma inv_trans_cross q a b :
  vcross (quat_inv_trans q a) (quat_inv_trans q b) = vscale (qn2 q) (quat_inv_trans q (vcross a b)).
Proof. destruct q, a, b; v3_ring. Qed.

(* linearity *)
Lemma trans_add q a b : quat_trans q (vadd a b) = vadd (quat_trans q a) (quat_trans q b).
Proof. destruct q, a, b; v3_ring. Qed.
Lemma inv_trans_add q a b : quat_inv_trans q (vadd a b) = vadd (quat_inv_trans q a) (quat_inv_trans q b).
Proof. destruct q, a, b; v3_ring. Qed.
Lemma trans_sub q a b : quat_trans q (vsub a b) = vsub (quat_trans q a) (quat_trans q b).
Proof. destruct q, a, b; v3_ring. Qed.
Lemma inv_trans_sub q a b : quat_inv_trans q (vsub a b) = vsub (quat_inv_trans q a) (quat_inv_trans q b).
Proof. destruct q, a, b; v3_ring. Qed.
Lemma trans_scale q k a : quat_trans q (vscale k a) = vscale k (quat_trans q a).
Proof. destruct q, a; v3_ring. Qed.
Lemma inv_trans_scale q k a : quat_inv_trans q (vscale k a) = vscale k (quat_inv_trans q a).
Proof. destruct q, a; v3_ring. Qed.

(* composition of transformations = quaternion product (order as the code has it) *)
Lemma trans_mult p q v : quat_trans (quat_mult p q) v = quat_trans q (quat_trans p v).
Proof. destruct p, q, v; v3_ring. Qed.
Lemma inv_trans_mult p q v : quat_inv_trans (quat_mult p q) v = quat_inv_trans p (quat_inv_trans q v).
Proof. destruct p, q, v; v3_ring. Qed.
Lemma mult_norm2 p q : qn2 (quat_mult p q) = qn2 p * qn2 q.
Proof. destruct p, q; v3_ring. Qed.
Lemma mult_assoc p q r : quat_mult (quat_mult p q) r = quat_mult p (quat_mult q r).
Proof. destruct p, q, r; v3_ring. Qed.

(* conjugate is the inverse transformation *)
Lemma conj_trans q v : quat_trans (quat_conj q) v = quat_inv_trans q v.
Proof. destruct q, v; v3_ring. Qed.
Lemma conj_inv_trans q v : quat_inv_trans (quat_conj q) v = quat_trans q v.
Proof. destruct q, v; v3_ring. Qed.
Lemma conj_norm2 q : qn2 (quat_conj q) = qn2 q.
Proof. destruct q; v3_ring. Qed.
Lemma mult_conj q : quat_mult q (quat_conj q) = Q4 (qn2 q) 0 0 0.
Proof. destruct q; v3_ring. Qed.

(* identity quaternion *)
Lemma trans_id v : quat_trans (Q4 1 0 0 0) v = v.
Proof. destruct v; v3_ring. Qed.
Lemma inv_trans_id v : quat_inv_trans (Q4 1 0 0 0) v = v.
Proof. destruct v; v3_ring. Qed.

(* the transformation only depends on the ray of q: scaling q by s scales by s^2 *)
Definition qscale (s : R) (q : quat R) := Q4 (s * qw q) (s * qx q) (s * qy q) (s * qz q).
Lemma trans_qscale s q v : quat_trans (qscale s q) v = vscale (s * s) (quat_trans q v).
Proof. destruct q, v; v3_ring. Qed.

(* set_state normalises quaternion input: the stored q is a unit quaternion *)
Lemma sumsq_pos a b c d : a*a+b*b+c*c+d*d <> 0 -> 0 < a*a+b*b+c*c+d*d.
Proof.
  intros H. pose proof (Rle_0_sqr a); pose proof (Rle_0_sqr b); pose proof (Rle_0_sqr c); pose proof (Rle_0_sqr d).
  unfold Rsqr in *. destruct (Rtotal_order 0 (a*a+b*b+c*c+d*d)) as [Hlt|[Heq|Hgt]]; [exact Hlt | exfalso; apply H; symmetry; exact Heq | lra].
Qed.

Lemma normalize_unit q : qn2 q <> 0 -> qn2 (quat_normalize q) = 1.
Proof.
  intros H. destruct q as [a b c d]. rcompute; rcompute_in H.
  assert (Hp : 0 < a*a+b*b+c*c+d*d) by (apply sumsq_pos; exact H).
  set (S := a*a+b*b+c*c+d*d) in *. set (n := sqrt S).
  assert (Hn : n * n = S) by (apply sqrt_sqrt; lra).
  assert (Hn0 : n <> 0) by (intro E; rewrite E in Hn; lra).
  transitivity (S / (n * n)); [unfold S; field; auto | rewrite Hn; field; lra].
Qed.
(* ... and represents the same rotation as the unnormalised input *)
Lemma normalize_same_rotation q v : qn2 q <> 0 ->
  quat_trans (quat_normalize q) v = vscale (/ qn2 q) (quat_trans q v).
Proof.
  intros H. destruct q as [a b c d], v as [x y z]. rcompute; rcompute_in H.
  assert (Hp : 0 < a*a+b*b+c*c+d*d) by (apply sumsq_pos; exact H).
  set (S := a*a+b*b+c*c+d*d) in *. set (n := sqrt S).
  assert (Hn : n * n = S) by (apply sqrt_sqrt; lra).
  assert (Hn0 : n <> 0) by (intro E; rewrite E in Hn; lra).
  assert (HS0 : S <> 0) by lra.
  rewrite <- Hn. f_equal; field; auto.
Qed.
