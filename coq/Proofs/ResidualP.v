(* Newton loop: exit condition and iteration cap (generic in the section model and the linear solver). *)
From Coq Require Import Reals Lra List Lia Bool.
From MuxV Require Import Base.Num Base.Vec3 Base.RInst Model.Kernel Model.Residual.
Import ListNotations.
Local Open Scope R_scope.

Section NewtonP.
  Variables (fatan2 : R -> R -> R) (O : opts) (solve : list (list R) -> list R -> list R).
  Variables (conv relax : R) (max_iter : nat).
  Variables (cs : list (cpt R)) (Ss : list (section R)) (Vm : list (list (v3 R))).
  Notation res := (residual fatan2 O cs Ss Vm).
  Notation upd := (newton_update fatan2 O solve relax cs Ss Vm).
  Notation newt := (fun fuel iter err g => newton fatan2 O solve conv relax max_iter fuel iter err cs Ss Vm g).

  Lemma newton_unfold fuel iter err g :
    newt fuel iter err g =
    if Rltb conv err then
      match fuel with
      | 0%nat => NotConverged g iter
      | S f => if Nat.leb max_iter (S iter) then NotConverged (upd g) (S iter)
               else newt f (S iter) (norm2 (res g)) (upd g)
      end
    else Converged g iter.
  Proof. destruct fuel; reflexivity. Qed.

  (* a normal exit: the residual measured just before the last update was within the tolerance *)
  Theorem newton_exit fuel : forall iter err g g' k,
    newt fuel iter err g = Converged g' k ->
    (err <= conv /\ g' = g /\ k = iter) \/
    (exists g0, norm2 (res g0) <= conv /\ g' = upd g0 /\ (iter < k)%nat /\ (k < max_iter)%nat).
  Proof.
    induction fuel as [|f IH]; intros iter err g g' k H; rewrite newton_unfold in H.
    - destruct (Rltb conv err) eqn:E; [discriminate|]. apply Rltb_false in E. inversion H; subst. left; auto.
    - destruct (Rltb conv err) eqn:E.
      + destruct (Nat.leb max_iter (S iter)) eqn:Em; [discriminate|]. apply Nat.leb_gt in Em.
        apply IH in H. destruct H as [[H1 [H2 H3]]|[g0 [H1 [H2 [H3 H4]]]]].
        * right. exists g. subst. repeat split; auto; lia.
        * right. exists g0. repeat split; auto; lia.
      + apply Rltb_false in E. inversion H; subst. left; auto.
  Qed.

  (* the cap: with fuel = max_iter the loop never runs out of fuel early, a non-converged exit happens exactly
     at iteration max_iter, and it is NotConverged - never Converged - whenever max_iter updates did not suffice *)
  Theorem newton_cap fuel : forall iter err g g' k,
    (iter + fuel >= max_iter)%nat -> (iter < max_iter)%nat ->
    newt fuel iter err g = NotConverged g' k -> k = max_iter.
  Proof.
    induction fuel as [|f IH]; intros iter err g g' k Hf Hi H; rewrite newton_unfold in H.
    - lia.
    - destruct (Rltb conv err) eqn:E; [|discriminate].
      destruct (Nat.leb max_iter (S iter)) eqn:Em.
      + apply Nat.leb_le in Em. inversion H; subst. lia.
      + apply Nat.leb_gt in Em. eapply IH; [| |exact H]; lia.
  Qed.
  Theorem newton_iterations_bounded fuel : forall iter err g g' k,
    (iter <= max_iter)%nat -> newt fuel iter err g = Converged g' k -> (k <= max_iter)%nat.
  Proof.
    induction fuel as [|f IH]; intros iter err g g' k Hi H; rewrite newton_unfold in H.
    - destruct (Rltb conv err); [discriminate|]. inversion H; subst; lia.
    - destruct (Rltb conv err).
      + destruct (Nat.leb max_iter (S iter)) eqn:Em; [discriminate|]. apply Nat.leb_gt in Em.
        eapply IH; [|exact H]; lia.
      + inversion H; subst; lia.
  Qed.
End NewtonP.
