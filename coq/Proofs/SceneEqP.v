(* Scene-level consequences of the similarity equivariance: whole residual vector, and the three concrete maps
   (rotation by a unit quaternion, reflection through the x-z plane, uniform scaling). *)
From Coq Require Import Reals Lra List Bool Lia.
From MuxV Require Import Base.Num Base.Vec3 Base.RInst Model.Helpers Model.Kernel Model.Residual
  Proofs.HelpersP Proofs.KernelP Proofs.ResidualEqP.
Import ListNotations.
Local Open Scope R_scope.

Section Whole.
  Variable O : v3 R -> v3 R.
  Hypothesis O_add : forall a b, O (vadd a b) = vadd (O a) (O b).
  Hypothesis O_scale : forall k a, O (vscale k a) = vscale k (O a).
  Hypothesis O_dot : forall a b, vdot (O a) (O b) = vdot a b.
  Variable sigma : R.
  Hypothesis sigma_sq : sigma * sigma = 1.
  Hypothesis O_cross : forall a b, vcross (O a) (O b) = vscale sigma (O (vcross a b)).
  Variable k : R.
  Hypothesis kpos : 0 < k.
  Variable fatan2 : R -> R -> R.
  Variable opt : opts.
  Notation Tc := (Tc O sigma k).
  Notation TV := (TV O k).

  Lemma residual_from_sim cs : forall Ss Vm g gs, (k = 1 \/ Forall (re_independent) Ss) ->
    residual_from fatan2 opt (map Tc cs) Ss (map (map TV) Vm) (map (Rmult k) g) (map (Rmult k) gs) =
    map (Rmult (k * k)) (residual_from fatan2 opt cs Ss Vm g gs).
  Proof.
    induction cs as [|c cs IH]; intros [|S Ss] [|Vr Vm] g [|gi gs] Hs; try reflexivity.
    cbn [map residual_from]. rewrite IH.
    - f_equal. apply (residual_at_sim O O_add O_scale O_dot sigma sigma_sq O_cross k kpos fatan2 opt).
      destruct Hs as [Hk|Hf]; [left; assumption|right; inversion Hf; assumption].
    - destruct Hs as [Hk|Hf]; [left; assumption|right; inversion Hf; assumption].
  Qed.

  (* with all lengths scaled by k (areas by k^2), directions and velocities mapped by O, influence vectors mapped by (1/k) O and the
     circulation scaled by k, the residual vector scales by k^2 *)
  Theorem residual_sim cs Ss Vm g : (k = 1 \/ Forall (re_independent) Ss) ->
    residual fatan2 opt (map Tc cs) Ss (map (map TV) Vm) (map (Rmult k) g) = map (Rmult (k * k)) (residual fatan2 opt cs Ss Vm g).
  Proof. intros. unfold residual. apply residual_from_sim; assumption. Qed.

  (* in particular the solutions correspond *)
  Corollary roots_correspond cs Ss Vm g : (k = 1 \/ Forall (re_independent) Ss) ->
    Forall (fun r => r = 0) (residual fatan2 opt cs Ss Vm g) ->
    Forall (fun r => r = 0) (residual fatan2 opt (map Tc cs) Ss (map (map TV) Vm) (map (Rmult k) g)).
  Proof.
    intros Hs H. rewrite residual_sim by assumption. induction H as [|r l Hr Hl IH]; constructor; [subst; ring|assumption].
  Qed.
End Whole.

(* ---- the three concrete maps ---- *)
Definition rotO (q : quat R) : v3 R -> v3 R := quat_inv_trans q.     (* body -> Earth for an aircraft with attitude q *)
Definition mirO (v : v3 R) : v3 R := V3 (vx v) (- vy v) (vz v).       (* reflection through the x-z plane *)
Definition idO (v : v3 R) : v3 R := v.

Section Rot.
  Variable q : quat R.
  Hypothesis Hq : qn2 q = 1.
  Lemma rot_add a b : rotO q (vadd a b) = vadd (rotO q a) (rotO q b). Proof. apply inv_trans_add. Qed.
  Lemma rot_scale k a : rotO q (vscale k a) = vscale k (rotO q a). Proof. apply inv_trans_scale. Qed.
  Lemma rot_dot a b : vdot (rotO q a) (rotO q b) = vdot a b.
  Proof. unfold rotO. rewrite inv_trans_dot, Hq. ring. Qed.
  Lemma rot_cross a b : vcross (rotO q a) (rotO q b) = vscale 1 (rotO q (vcross a b)).
  Proof. unfold rotO. rewrite inv_trans_cross, Hq. reflexivity. Qed.
End Rot.
Lemma mir_add a b : mirO (vadd a b) = vadd (mirO a) (mirO b).
Proof. destruct a, b; rcompute; apply V3_eq; ring. Qed.
Lemma mir_scale k a : mirO (vscale k a) = vscale k (mirO a).
Proof. destruct a; rcompute; apply V3_eq; ring. Qed.
Lemma mir_dot a b : vdot (mirO a) (mirO b) = vdot a b.
Proof. destruct a, b; rcompute; ring. Qed.
Lemma mir_cross a b : vcross (mirO a) (mirO b) = vscale (-1) (mirO (vcross a b)).
Proof. destruct a, b; rcompute; apply V3_eq; ring. Qed.
Lemma id_cross a b : vcross (idO a) (idO b) = vscale 1 (idO (vcross a b)).
Proof. unfold idO. destruct (vcross a b); rcompute; apply V3_eq; ring. Qed.

(* list reversal: re-ordering control points and horseshoes consistently re-orders the residual *)
Lemma induced_app (Vr1 Vr2 : list (v3 R)) g1 g2 : length Vr1 = length g1 ->
  induced (Vr1 ++ Vr2) (g1 ++ g2) = vadd (induced Vr1 g1) (induced Vr2 g2).
Proof.
  revert g1; induction Vr1 as [|V Vr IH]; intros [|x g1] Hl; try discriminate.
  - cbn. destruct (induced Vr2 g2); rcompute; apply V3_eq; ring.
  - cbn [app induced]. rewrite IH by (cbn in Hl; lia). destruct (vscaler V x), (induced Vr g1), (induced Vr2 g2); rcompute; apply V3_eq; ring.
Qed.
Lemma induced_rev (Vr : list (v3 R)) g : length Vr = length g -> induced (rev Vr) (rev g) = induced Vr g.
Proof.
  revert g; induction Vr as [|V Vr IH]; intros [|x g] Hl; try discriminate; [reflexivity|].
  cbn [rev]. rewrite induced_app by (rewrite !rev_length; cbn in Hl; lia). rewrite IH by (cbn in Hl; lia).
  cbn [induced]. destruct (vscaler V x), (induced Vr g); rcompute; apply V3_eq; ring.
Qed.
