(* State parsing over the reals: Euler angles give a unit quaternion; stability/wind rate frames are the
   rotations by alpha about y (and beta about z). *)
From Coq Require Import Reals Lra List.
From MuxV Require Import Base.Num Base.Vec3 Base.RInst Model.Helpers Model.AeroState Proofs.HelpersP.
Local Open Scope R_scope.

Lemma sc2 x : sin x * sin x + cos x * cos x = 1.
Proof. pose proof (sin2_cos2 x) as H. unfold Rsqr in H. exact H. Qed.

(* euler_to_quat always returns a unit quaternion *)
Lemma euler_to_quat_unit phi theta psi : qn2 (euler_to_quat cos sin phi theta psi) = 1.
Proof.
  unfold qn2, quat_norm2, euler_to_quat. rcompute.
  set (cp := cos (phi / 2)). set (sp := sin (phi / 2)).
  set (ct := cos (theta / 2)). set (st := sin (theta / 2)).
  set (cs := cos (psi / 2)). set (ss := sin (psi / 2)).
  assert (Hp : sp * sp + cp * cp = 1) by apply sc2.
  assert (Ht : st * st + ct * ct = 1) by apply sc2.
  assert (Hs : ss * ss + cs * cs = 1) by apply sc2.
  transitivity ((sp * sp + cp * cp) * (st * st + ct * ct) * (ss * ss + cs * cs)); [ring | rewrite Hp, Ht, Hs; ring].
Qed.

(* the rate frames: with c = cos(a/2), s = sin(a/2), the stability-frame rates (p,q,r) become body rates
   (cos a * p - sin a * r, q, sin a * p + cos a * r): a rotation by alpha about the y axis *)
Lemma stab_rates_rotation a p q r :
  quat_inv_trans (quat_conj (euler_to_quat cos sin 0 a 0)) (V3 p q r) =
  V3 (cos a * p - sin a * r) q (sin a * p + cos a * r).
Proof.
  unfold euler_to_quat, quat_conj, quat_inv_trans. rcompute.
  replace (0 / 2) with 0 by lra. rewrite cos_0, sin_0.
  assert (Hc : cos a = cos (a / 2) * cos (a / 2) - sin (a / 2) * sin (a / 2)).
  { replace a with (2 * (a / 2)) at 1 by lra. rewrite cos_2a. reflexivity. }
  assert (Hs : sin a = 2 * sin (a / 2) * cos (a / 2)).
  { replace a with (2 * (a / 2)) at 1 by lra. rewrite sin_2a. reflexivity. }
  rewrite Hc, Hs. set (c := cos (a / 2)). set (s := sin (a / 2)).
  assert (H1 : s * s + c * c = 1) by apply sc2.
  f_equal; try ring.
  transitivity (q * (s * s + c * c)); [ring | rewrite H1; ring].
Qed.
