(* Order of attachment (C12): both loops only permute the segments; when the second loop stops because nothing moves, no segment stands in
   front of the segment it connects to (so every segment finds its parent already attached); an order that is settled is left as it is
   (descriptions that loaded before the fix keep their order). *)
From Coq Require Import List Bool Arith Permutation.
From MuxV Require Import Model.LoadOrder.
Import ListNotations.

Lemma insert_before_perm k : forall l l', insert_before_dependent k l = Some l' -> Permutation (k :: l) l'.
Proof.
  induction l as [|x r IH]; intros l'; cbn [insert_before_dependent]; [discriminate|].
  destruct (Nat.eqb (spar x) (sID k)).
  - intros E. injection E as <-. apply Permutation_refl.
  - destruct (insert_before_dependent k r) as [r'|]; [|discriminate]. cbn [option_map]. intros E. injection E as <-.
    eapply Permutation_trans; [apply perm_swap|]. apply perm_skip. apply IH. reflexivity.
Qed.

Lemma place_perm l k : Permutation (k :: l) (place l k).
Proof.
  unfold place. destruct (insert_before_dependent k l) as [l'|] eqn:E.
  - apply insert_before_perm. exact E.
  - apply Permutation_cons_append.
Qed.

Lemma first_order_perm_gen input : forall acc, Permutation (rev input ++ acc) (fold_left place input acc).
Proof.
  induction input as [|k r IH]; intros acc; cbn [fold_left rev app]; [apply Permutation_refl|].
  eapply Permutation_trans; [|apply IH]. rewrite <- app_assoc. cbn [app].
  apply Permutation_app_head. apply place_perm.
Qed.

Theorem first_order_perm input : Permutation input (first_order input).
Proof.
  unfold first_order. eapply Permutation_trans; [apply Permutation_rev|].
  pose proof (first_order_perm_gen input []) as H. rewrite app_nil_r in H. exact H.
Qed.

Lemma insert_after_perm x : forall r r', insert_after_parent x r = Some r' -> Permutation (x :: r) r'.
Proof.
  induction r as [|y r IH]; intros r'; cbn [insert_after_parent]; [discriminate|].
  destruct (Nat.eqb (sID y) (spar x)).
  - intros E. injection E as <-. apply perm_swap.
  - destruct (insert_after_parent x r) as [r1|]; [|discriminate]. cbn [option_map]. intros E. injection E as <-.
    eapply Permutation_trans; [apply perm_swap|]. apply perm_skip. apply IH. reflexivity.
Qed.

Lemma fix_step_perm : forall l l', fix_step l = Some l' -> Permutation l l'.
Proof.
  induction l as [|x r IH]; intros l'; cbn [fix_step]; [discriminate|].
  destruct (insert_after_parent x r) as [r'|] eqn:E.
  - intros E'. injection E' as <-. apply insert_after_perm. exact E.
  - destruct (fix_step r) as [r1|]; [|discriminate]. cbn [option_map]. intros E'. injection E' as <-. apply perm_skip. apply IH. reflexivity.
Qed.

Lemma fixup_perm fuel : forall l, Permutation l (fixup fuel l).
Proof.
  induction fuel as [|f IH]; intros l; cbn [fixup]; [apply Permutation_refl|].
  destruct (fix_step l) as [l'|] eqn:E; [|apply Permutation_refl].
  eapply Permutation_trans; [apply fix_step_perm; exact E|apply IH].
Qed.

Theorem load_order_perm input : Permutation input (load_order input).
Proof. unfold load_order. eapply Permutation_trans; [apply first_order_perm|apply fixup_perm]. Qed.

Lemma insert_after_none x : forall r, insert_after_parent x r = None -> forall y, In y r -> sID y <> spar x.
Proof.
  induction r as [|z r IH]; cbn [insert_after_parent]; intros E y Hy; [destruct Hy|].
  destruct (Nat.eqb (sID z) (spar x)) eqn:Ez; [discriminate|].
  destruct (insert_after_parent x r) as [r1|] eqn:E1; [discriminate|].
  destruct Hy as [<-|Hy]; [apply Nat.eqb_neq; exact Ez|apply IH; auto].
Qed.

(* settled: no segment stands in front of the segment it connects to *)
Theorem settled_spec : forall l, settled l = true ->
  forall pre x post, l = pre ++ x :: post -> forall y, In y post -> sID y <> spar x.
Proof.
  unfold settled. induction l as [|z r IH]; intros Hs pre x post E y Hy.
  - destruct pre; discriminate.
  - cbn [fix_step] in Hs. destruct (insert_after_parent z r) as [r'|] eqn:Ei; [discriminate|].
    destruct pre as [|p pre'].
    + cbn [app] in E. injection E as -> ->. eapply insert_after_none; eauto.
    + cbn [app] in E. injection E as -> ->. apply (IH) with (pre := pre') (x := x) (post := post); auto.
      destruct (fix_step (pre' ++ x :: post)); [discriminate|reflexivity].
Qed.

(* an order that is settled is not touched *)
Theorem fixup_settled fuel l : settled l = true -> fixup fuel l = l.
Proof. unfold settled. destruct fuel; cbn [fixup]; [reflexivity|]. destruct (fix_step l); [discriminate|reflexivity]. Qed.

(* the example of the defect: grandchild, parent, child *)
Example load_order_example :
  map skey (first_order [(0, 3, 2); (1, 1, 0); (2, 2, 1)]) = [2; 0; 1] /\
  map skey (load_order [(0, 3, 2); (1, 1, 0); (2, 2, 1)]) = [1; 2; 0] /\ settled (load_order [(0, 3, 2); (1, 1, 0); (2, 2, 1)]) = true.
Proof. vm_compute. repeat split. Qed.
