(* The validation procedure accepts exactly the descriptions that satisfy the documented constraints. *)
From Coq Require Import ZArith List Bool String Arith Lia.
From MuxV Require Import Model.Validate.
Import ListNotations.
Open Scope string_scope.
Open Scope list_scope.

Section P.
  Variable unit_known : string -> bool.

  (* ---- declarative statement of the documented constraints ---- *)
  Definition GridDoc (g : gridspec) (n : nat) : Prop :=
    match g with
    | GCosine | GLinear => True
    | GOther => False
    | GList l => List.length l = 2 * n + 1 /\ nth 0 l 1%Z = 0%Z /\ last l 0%Z = 1000%Z
                 /\ (forall i j, (i < j < List.length l)%nat -> (nth i l 0 < nth j l 0)%Z)
    end.
  Definition FlapDoc (c : option csurf) : Prop :=
    match c with
    | Some c' => match cs_chord_ends c' with Some (a, b) => a = cs_root c' /\ b = cs_tip c' | None => True end
    | None => True
    end.
  Definition SegDoc (defined : list string) (ids : list Z) (sg : segment) : Prop :=
    s_id sg <> 0%Z
    /\ (s_side sg = "left" \/ s_side sg = "right" \/ s_side sg = "both")
    /\ (s_semispan sg = negb (s_qc sg))                                   (* exactly one span definition *)
    /\ (s_qc sg = true -> s_dihedral sg = false /\ s_sweep sg = false)
    /\ (forall a, In a (s_airfoils sg) -> In a defined)
    /\ GridDoc (s_grid sg) (s_N sg)
    /\ (s_parent sg = 0%Z \/ In (s_parent sg) ids)
    /\ FlapDoc (s_cs sg)
    /\ (forall u, In u (s_units sg) -> unit_known u = true).
  Definition StateDoc (st : state) : Prop :=
    st_velocity st <> VMissing
    /\ (st_velocity st = VVector -> st_alpha st = false /\ st_beta st = false)
    /\ (st_rate_frame st = "body" \/ st_rate_frame st = "stab" \/ st_rate_frame st = "wind")
    /\ (forall u, In u (st_units st) -> unit_known u = true).
  Definition AircraftDoc (a : aircraft) : Prop :=
    a_weight a = true
    /\ List.Forall (SegDoc (a_airfoils a) (map s_id (a_segments a))) (a_segments a)
    /\ ((exists sg, In sg (a_segments a) /\ s_main sg = true) \/ (a_ref_area a = true /\ a_ref_lat a = true))
    /\ StateDoc (a_state a).
  Definition SceneDoc (sc : scene) : Prop :=
    (sc_units sc = "English" \/ sc_units sc = "SI")
    /\ (sc_solver sc = "linear" \/ sc_solver sc = "nonlinear" \/ sc_solver sc = "scipy_fsolve")
    /\ (forall p, In p (sc_profiles sc) -> p = "standard")
    /\ List.Forall AircraftDoc (sc_aircraft sc).

  (* ---- small reflection lemmas ---- *)
  Lemma when_nil b e : when b e = [] <-> b = false.
  Proof. destruct b; simpl; split; intro H; try reflexivity; discriminate. Qed.
  Lemma app_nil a b : (a ++ b : list err) = [] <-> a = [] /\ b = [].
  Proof. split; [apply app_eq_nil | intros [-> ->]; reflexivity]. Qed.
  Lemma flat_map_nil {A} (f : A -> list err) l : flat_map f l = [] <-> List.Forall (fun x => f x = []) l.
  Proof.
    induction l as [|x l IH]; simpl.
    - split; intro; [constructor | reflexivity].
    - rewrite app_nil, IH. split.
      + intros [H1 H2]; constructor; assumption.
      + intro H; inversion H; subst; split; assumption.
  Qed.
  Lemma mem_In s l : mem s l = true <-> In s l.
  Proof.
    unfold mem. rewrite existsb_exists. split.
    - intros [x [Hx He]]. apply String.eqb_eq in He. subst. exact Hx.
    - intro H. exists s. split; [exact H | apply String.eqb_refl].
  Qed.
  Lemma forallb_In {A} (f : A -> bool) l : forallb f l = true <-> (forall x, In x l -> f x = true).
  Proof. apply forallb_forall. Qed.
  Lemma or3_str s a b c : (String.eqb s a || String.eqb s b || String.eqb s c) = true <-> s = a \/ s = b \/ s = c.
  Proof. rewrite !orb_true_iff, !String.eqb_eq. tauto. Qed.
  Lemma or2_str s a b : (String.eqb s a || String.eqb s b) = true <-> s = a \/ s = b.
  Proof. rewrite !orb_true_iff, !String.eqb_eq. tauto. Qed.
  Lemma negb_false b : negb b = false <-> b = true.
  Proof. destruct b; simpl; split; intro; try reflexivity; discriminate. Qed.

  (* adjacent ordering = ordering of every pair *)
  Lemma increasing_adj l : increasing l = true <-> (forall i, (S i < List.length l)%nat -> (nth i l 0 < nth (S i) l 0)%Z).
  Proof.
    induction l as [|a [|b r] IH].
    - simpl; split; [intros _ i Hi; lia | reflexivity].
    - simpl; split; [intros _ i Hi; lia | reflexivity].
    - change (increasing (a :: b :: r)) with ((a <? b)%Z && increasing (b :: r)).
      rewrite andb_true_iff, IH, Z.ltb_lt. split.
      + intros [Hab Hr] [|i] Hi; [exact Hab | apply (Hr i); simpl in *; lia].
      + intro H. split; [apply (H 0%nat); simpl; lia | intros i Hi; apply (H (S i)); simpl in *; lia].
  Qed.
  Lemma adj_all (l : list Z) :
    (forall i, (S i < List.length l)%nat -> (nth i l 0 < nth (S i) l 0)%Z) <->
    (forall i j, (i < j < List.length l)%nat -> (nth i l 0 < nth j l 0)%Z).
  Proof.
    split.
    - intros H i j [Hij Hj]. induction j as [|j IHj]; [lia|].
      destruct (Nat.eq_dec i j) as [->|Hne]; [apply H; exact Hj|].
      apply Z.lt_trans with (nth j l 0%Z); [apply IHj; lia | apply H; exact Hj].
    - intros H i Hi. apply H. lia.
  Qed.

  Lemma grid_ok g n : grid_errs g n = [] <-> GridDoc g n.
  Proof.
    destruct g as [| |l|]; simpl; try (split; [intros _; exact I | reflexivity]); try (split; [discriminate | intros []]).
    destruct (Nat.eqb (List.length l) (n + (n + 0) + 1)) eqn:El; simpl.
    - apply Nat.eqb_eq in El.
      destruct ((hd 1%Z l =? 0)%Z && (last l 0%Z =? 1000)%Z) eqn:Ee; simpl.
      + apply andb_true_iff in Ee. destruct Ee as [E0 E1]. apply Z.eqb_eq in E0, E1.
        destruct (increasing l) eqn:Ei; simpl.
        * split; [intros _ | reflexivity]. repeat split; try assumption; try lia.
          { destruct l; simpl in *; assumption. }
          { apply (proj1 (adj_all l)), (proj1 (increasing_adj l)). exact Ei. }
        * split; [discriminate|]. intros [_ [_ [_ H]]]. pose proof (proj2 (increasing_adj l) (proj2 (adj_all l) H)). congruence.
      + split; [discriminate|]. intros [_ [H0 [H1 _]]]. apply andb_false_iff in Ee.
        destruct Ee as [E|E]; apply Z.eqb_neq in E; [destruct l; simpl in *; congruence | congruence].
    - apply Nat.eqb_neq in El. split; [discriminate|]. intros [H _]. lia.
  Qed.

  Lemma cs_ok c : cs_errs c = [] <-> FlapDoc c.
  Proof.
    destruct c as [[r t [[a b]|]]|]; simpl; try (split; [intros _; exact I | reflexivity]).
    rewrite when_nil, negb_false, andb_true_iff, !Z.eqb_eq. tauto.
  Qed.

  Lemma segment_ok defined ids sg : segment_errs unit_known defined ids sg = [] <-> SegDoc defined ids sg.
  Proof.
    unfold segment_errs, SegDoc. rewrite !app_nil, !when_nil, grid_ok, cs_ok.
    rewrite !negb_false. unfold side_ok. rewrite or3_str.
    rewrite !forallb_In.
    assert (Hm : (forall a, In a (s_airfoils sg) -> mem a defined = true) <-> (forall a, In a (s_airfoils sg) -> In a defined)).
    { split; intros H a Ha; apply mem_In, H, Ha. }
    rewrite Hm.
    assert (Hp : ((s_parent sg =? 0)%Z || existsb (Z.eqb (s_parent sg)) ids) = true <-> s_parent sg = 0%Z \/ In (s_parent sg) ids).
    { rewrite orb_true_iff, Z.eqb_eq, existsb_exists. split.
      - intros [H|[x [Hx He]]]; [left; exact H | right; apply Z.eqb_eq in He; subst; exact Hx].
      - intros [H|H]; [left; exact H | right; exists (s_parent sg); split; [exact H | apply Z.eqb_refl]]. }
    rewrite Hp. rewrite Z.eqb_neq.
    destruct (s_semispan sg), (s_qc sg), (s_dihedral sg), (s_sweep sg); simpl; intuition (try discriminate; try congruence).
  Qed.

  Lemma state_ok st : state_errs unit_known st = [] <-> StateDoc st.
  Proof.
    unfold state_errs, StateDoc. rewrite !app_nil, !when_nil, !negb_false. unfold frame_ok. rewrite or3_str, forallb_In.
    destruct (st_velocity st), (st_alpha st), (st_beta st); simpl; intuition (try discriminate; try congruence).
  Qed.

  Lemma existsb_main l : existsb s_main l = true <-> exists sg, In sg l /\ s_main sg = true.
  Proof. apply existsb_exists. Qed.

  Lemma aircraft_ok a : aircraft_errs unit_known a = [] <-> AircraftDoc a.
  Proof.
    unfold aircraft_errs, AircraftDoc. rewrite !app_nil, !when_nil, negb_false, flat_map_nil, state_ok.
    assert (Hs : List.Forall (fun x => segment_errs unit_known (a_airfoils a) (map s_id (a_segments a)) x = []) (a_segments a)
                 <-> List.Forall (SegDoc (a_airfoils a) (map s_id (a_segments a))) (a_segments a)).
    { rewrite !Forall_forall. split; intros H x Hx; apply segment_ok, H, Hx. }
    rewrite Hs.
    assert (Hm : (negb (existsb s_main (a_segments a)) && negb (a_ref_area a && a_ref_lat a)) = false <->
                 ((exists sg, In sg (a_segments a) /\ s_main sg = true) \/ (a_ref_area a = true /\ a_ref_lat a = true))).
    { rewrite <- existsb_main. destruct (existsb s_main (a_segments a)), (a_ref_area a), (a_ref_lat a); simpl;
        intuition (try discriminate; try congruence). }
    rewrite Hm. tauto.
  Qed.

  Theorem scene_ok sc : scene_errs unit_known sc = [] <-> SceneDoc sc.
  Proof.
    unfold scene_errs, SceneDoc. rewrite !app_nil, !when_nil, !negb_false, flat_map_nil.
    unfold unit_sys_ok, solver_ok. rewrite or2_str, or3_str, forallb_In.
    assert (Hp : (forall x, In x (sc_profiles sc) -> profile_ok x = true) <-> (forall p, In p (sc_profiles sc) -> p = "standard")).
    { unfold profile_ok. split; intros H p Hp; [apply String.eqb_eq, H, Hp | apply String.eqb_eq, H, Hp]. }
    rewrite Hp.
    assert (Ha : List.Forall (fun x => aircraft_errs unit_known x = []) (sc_aircraft sc) <-> List.Forall AircraftDoc (sc_aircraft sc)).
    { rewrite !Forall_forall. split; intros H x Hx; apply aircraft_ok, H, Hx. }
    rewrite Ha. tauto.
  Qed.

  (* loads are produced only for a non-empty scene satisfying every documented constraint *)
  Theorem loads_only_if_documented sc : load_and_solve unit_known sc = Loads <-> (SceneDoc sc /\ sc_aircraft sc <> []).
  Proof.
    unfold load_and_solve. rewrite <- scene_ok.
    destruct (scene_errs unit_known sc) as [|e r]; destruct (sc_aircraft sc) as [|a l]; split; intro H;
      try discriminate; try reflexivity; try (split; [reflexivity | discriminate]);
      try (destruct H as [H1 H2]; congruence).
  Qed.
  Corollary violating_input_raises sc : ~ SceneDoc sc -> load_and_solve unit_known sc = Raises.
  Proof.
    intro H. destruct (load_and_solve unit_known sc) eqn:E; [|reflexivity].
    apply loads_only_if_documented in E. tauto.
  Qed.
  Corollary empty_scene_raises sc : sc_aircraft sc = [] -> load_and_solve unit_known sc = Raises.
  Proof.
    intro H. destruct (load_and_solve unit_known sc) eqn:E; [|reflexivity].
    apply loads_only_if_documented in E. tauto.
  Qed.
End P.

(* every reported error is a violated constraint of that class: membership is what the correspondence compares *)
Lemma resolve_acts names g n : resolve_name names g = Acts n -> In n names.
Proof.
  unfold resolve_name. destruct g as [m|].
  - destruct (existsb (String.eqb m) names) eqn:E; [|discriminate]. intro H; inversion H; subst.
    apply existsb_exists in E. destruct E as [x [Hx He]]. apply String.eqb_eq in He. subst. exact Hx.
  - destruct names as [|a [|b r]]; try discriminate. intro H; inversion H; subst. left; reflexivity.
Qed.
Lemma resolve_unknown names m : ~ In m names -> resolve_name names (Some m) = CallRaises.
Proof.
  intro H. unfold resolve_name. destruct (existsb (String.eqb m) names) eqn:E; [|reflexivity].
  apply existsb_exists in E. destruct E as [x [Hx He]]. apply String.eqb_eq in He. subst. contradiction.
Qed.
Lemma resolve_unnamed_several a b r : resolve_name (a :: b :: r) None = CallRaises.
Proof. reflexivity. Qed.
Lemma resolve_unnamed_empty : resolve_name [] None = CallRaises.
Proof. reflexivity. Qed.
Lemma trim_control_spec controls p : trim_control_ok controls p = true <-> In p controls.
Proof.
  unfold trim_control_ok. rewrite existsb_exists. split.
  - intros [x [Hx He]]. apply String.eqb_eq in He. subst. exact Hx.
  - intro H. exists p. split; [exact H | apply String.eqb_refl].
Qed.

Lemma prefix_app ext s : String.prefix ext s = true <-> exists b, s = (ext ++ b)%string.
Proof.
  revert s. induction ext as [|c ext IH]; intro s; simpl.
  - split; [intros _; exists s; reflexivity | intros _; destruct s; reflexivity].
  - destruct s as [|d s]; simpl.
    + split; [discriminate | intros [b Hb]; discriminate].
    + destruct (Ascii.ascii_dec c d) as [->|Hne].
      * rewrite IH. split; intros [b Hb]; exists b; [rewrite Hb; reflexivity | inversion Hb; reflexivity].
      * split; [discriminate | intros [b Hb]; inversion Hb; congruence].
Qed.
Lemma ends_with_spec ext f : ends_with ext f = true <-> exists a, f = (a ++ ext)%string.
Proof.
  induction f as [|c f IH].
  - cbn [ends_with]. rewrite orb_false_r, String.eqb_eq. split.
    + intros ->. exists EmptyString. reflexivity.
    + intros [a Ha]. destruct a; [exact (eq_sym Ha) | discriminate].
  - change (ends_with ext (String c f)) with (String.eqb ext (String c f) || ends_with ext f).
    rewrite orb_true_iff, IH, String.eqb_eq. split.
    + intros [->|[a ->]]; [exists EmptyString; reflexivity | exists (String c a); reflexivity].
    + intros [a Ha]. destruct a as [|d a]; cbn in Ha.
      * left. exact (eq_sym Ha).
      * right. inversion Ha. exists a. reflexivity.
Qed.
Lemma extension_spec ext f : extension_ok ext f = true <-> exists a b, f = (a ++ ext ++ b)%string.
Proof.
  induction f as [|c f IH].
  - unfold extension_ok. rewrite orb_false_r, prefix_app. split.
    + intros [b Hb]. exists EmptyString, b. exact Hb.
    + intros [a [b Hb]]. destruct a; simpl in Hb; [exists b; exact Hb | discriminate].
  - change (extension_ok ext (String c f)) with (String.prefix ext (String c f) || extension_ok ext f).
    rewrite orb_true_iff, IH, prefix_app. split.
    + intros [[b Hb]|[a [b Hb]]]; [exists EmptyString, b; exact Hb | exists (String c a), b; simpl; rewrite Hb; reflexivity].
    + intros [a [b Hb]]. destruct a as [|d a]; simpl in Hb.
      * left. exists b. exact Hb.
      * right. inversion Hb. exists a, b. reflexivity.
Qed.
