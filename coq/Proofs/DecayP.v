(* How fast the influence of a vortex element falls off with distance (the "isolation limit" of C13):
   a straight segment of length L seen from a point at distances ma, mb of its ends (ends within 90 degrees of each other):
       |K|^2 <= (ma + mb)^2 L^2 / (2 (ma mb)^3)            -- O(L / D^2)
   a semi-infinite trailing filament seen from a point at perpendicular distance h of its line:
       |K| h <= 2                                           -- O(1 / h): no decay along the wake, only away from it. *)
From Coq Require Import Reals Lra Psatz.
From MuxV Require Import Base.Num Base.Vec3 Base.RInst Model.Kernel Proofs.KernelP.
Local Open Scope R_scope.

Lemma lagrange (a b : v3 R) : vdot (vcross a b) (vcross a b) = vdot a a * vdot b b - vdot a b * vdot a b.
Proof. destruct a, b. unfold vdot, vcross; cbn [vx vy vz]; rnum. ring. Qed.
Lemma vnorm_sq (a : v3 R) : vnorm a * vnorm a = vdot a a.
Proof. unfold vnorm, vnorm2. rnum. apply sqrt_sqrt. destruct a. unfold vdot; cbn [vx vy vz]; rnum. nra. Qed.
Lemma vnorm_nonneg (a : v3 R) : 0 <= vnorm a.
Proof. unfold vnorm. rnum. apply sqrt_pos. Qed.
Lemma vnorm2_vdivs (a : v3 R) d : vnorm2 (vdivs a d) = vnorm2 a / (d * d).
Proof.
  destruct a. unfold vnorm2, vdot, vdivs; cbn [vx vy vz]; rnum. unfold Rdiv. rewrite Rinv_mult. ring.
Qed.
Lemma vnorm2_vscale k (a : v3 R) : vnorm2 (vscale k a) = k * k * vnorm2 a.
Proof. destruct a. unfold vnorm2, vdot, vscale; cbn [vx vy vz]; rnum. ring. Qed.

(* ---- trailing filament ---- *)
Theorem trail_kernel_decay cutoff (u r : v3 R) : vdot u u = 1 -> 0 <= cutoff -> cutoff < trail_denom u r ->
  vnorm2 (trail_kernel (fun x => x) cutoff u r) * vnorm2 (vcross u r) <= 4.
Proof.
  intros Hu Hc Hd. unfold trail_kernel. rnum. unfold Rltb. destruct (Rlt_dec cutoff (trail_denom u r)) as [_|n]; [|contradiction].
  set (d := trail_denom u r) in *. set (c := vcross u r).
  replace (V3 (vx c / d) (vy c / d) (vz c / d)) with (vdivs c d) by (destruct c; reflexivity).
  rewrite vnorm2_vdivs. unfold vnorm2. fold c.
  pose proof (lagrange u r) as HL. fold c in HL. rewrite Hu in HL.
  pose proof (vnorm_sq r) as Hm. pose proof (vnorm_nonneg r) as Hm0.
  set (m := vnorm r) in *. set (s := vdot u r) in *. set (cc := vdot c c) in *.
  assert (Hcc : cc = (m - s) * (m + s)) by (rewrite HL, <- Hm; ring).
  assert (Hdd : d = m * (m - s)) by (unfold d, trail_denom; rnum; reflexivity).
  assert (Hdpos : 0 < d) by lra.
  assert (Hs : s * s <= m * m).
  { assert (0 <= cc) by (unfold cc, vdot; destruct c; cbn [vx vy vz]; rnum; nra). nra. }
  assert (Hms : 0 < m - s) by nra. assert (Hm1 : 0 < m) by nra.
  assert (Hps : 0 <= m + s) by nra.
  (* cc^2 <= 4 d^2 *)
  assert (H4 : cc * cc <= 4 * (d * d)).
  { rewrite Hcc, Hdd. assert ((m + s) * (m + s) <= 4 * (m * m)) by nra.
    replace ((m - s) * (m + s) * ((m - s) * (m + s))) with ((m - s) * (m - s) * ((m + s) * (m + s))) by ring.
    replace (4 * (m * (m - s) * (m * (m - s)))) with ((m - s) * (m - s) * (4 * (m * m))) by ring.
    apply Rmult_le_compat_l; [nra | assumption]. }
  unfold Rdiv. rewrite Rmult_assoc, (Rmult_comm (/ (d * d))), <- Rmult_assoc.
  apply (Rmult_le_reg_r (d * d)); [nra|]. rewrite Rmult_assoc, Rinv_l by nra. lra.
Qed.

(* ---- straight segment ---- *)
Theorem seg_kernel_decay (ra rb : v3 R) : 0 < vnorm ra -> 0 < vnorm rb -> 0 <= vdot ra rb ->
  let ma := vnorm ra in let mb := vnorm rb in let L2 := vdot (vsub rb ra) (vsub rb ra) in
  vnorm2 (seg_kernel ra rb) <= (ma + mb) * (ma + mb) * L2 / (2 * (ma * mb) * (ma * mb) * (ma * mb)).
Proof.
  intros Ha Hb Hp. cbv zeta. unfold seg_kernel. cbv zeta. rnum.
  set (ma := vnorm ra) in *. set (mb := vnorm rb) in *. set (p := vdot ra rb) in *. set (mm := ma * mb).
  rewrite vnorm2_vdivs, vnorm2_vscale. unfold vnorm2. rewrite lagrange. fold p.
  pose proof (vnorm_sq ra) as Hma. pose proof (vnorm_sq rb) as Hmb. fold ma in Hma. fold mb in Hmb.
  rewrite <- Hma, <- Hmb.
  assert (HL2 : vdot (vsub rb ra) (vsub rb ra) = ma * ma + mb * mb - 2 * p).
  { rewrite Hma, Hmb. unfold p. destruct ra, rb. unfold vdot, vsub; cbn [vx vy vz]; rnum. ring. }
  rewrite HL2.
  assert (Hmm : 0 < mm) by (unfold mm; nra).
  assert (Hpm : p <= mm).
  { assert (0 <= vdot (vcross ra rb) (vcross ra rb)) by (destruct (vcross ra rb); unfold vdot; cbn [vx vy vz]; rnum; nra).
    rewrite lagrange in H. fold p in H. rewrite <- Hma, <- Hmb in H.
    assert (H2 : 0 <= (mm - p) * (mm + p)) by (unfold mm; lra).
    destruct (Rle_dec p mm) as [Hle|Hn]; [exact Hle|]. exfalso. assert (mm < p) by lra.
    assert (0 < (p - mm) * (mm + p)) by (apply Rmult_lt_0_compat; lra).
    replace ((mm - p) * (mm + p)) with (- ((p - mm) * (mm + p))) in H2 by ring. lra. }
  replace (ma * ma * (mb * mb) - p * p) with ((mm - p) * (mm + p)) by (unfold mm; ring).
  assert (Hsq : 0 <= (ma - mb) * (ma - mb)) by apply Rle_0_sqr.
  assert (Hgap : mm - p <= (ma * ma + mb * mb - 2 * p) / 2) by (unfold mm; nra).
  (* LHS = (ma+mb)^2 (mm-p)(mm+p) / (mm^2 (mm+p)^2) = (ma+mb)^2 (mm-p) / (mm^2 (mm+p)) <= (ma+mb)^2 (mm-p) / mm^3 *)
  assert (Hq : 0 < mm + p) by lra.
  assert (Hden : 0 < mm * (mm + p)) by (apply Rmult_lt_0_compat; lra).
  assert (Hden2 : 0 < mm * (mm + p) * (mm * (mm + p))) by (apply Rmult_lt_0_compat; exact Hden).
  apply (Rmult_le_reg_r (mm * (mm + p) * (mm * (mm + p)))); [exact Hden2|].
  unfold Rdiv at 1. rewrite Rmult_assoc, Rinv_l by lra. rewrite Rmult_1_r.
  apply Rle_trans with ((ma + mb) * (ma + mb) * ((ma * ma + mb * mb - 2 * p) / 2) * (mm + p)).
  - set (A := (ma + mb) * (ma + mb)). assert (HA : 0 <= A) by (unfold A; apply Rle_0_sqr).
    set (G := (ma * ma + mb * mb - 2 * p) / 2) in *.
    replace (A * ((mm - p) * (mm + p))) with (A * (mm + p) * (mm - p)) by ring.
    replace (A * G * (mm + p)) with (A * (mm + p) * G) by ring.
    apply Rmult_le_compat_l; [apply Rmult_le_pos; lra | exact Hgap].
  - set (A := (ma + mb) * (ma + mb)). assert (HA : 0 <= A) by (unfold A; apply Rle_0_sqr).
    set (G := (ma * ma + mb * mb - 2 * p) / 2) in *.
    assert (HG : 0 <= G) by lra.
    replace (A * (ma * ma + mb * mb - 2 * p) / (2 * mm * mm * mm) * (mm * (mm + p) * (mm * (mm + p))))
      with (A * G * (mm + p) * ((mm + p) / mm)) by (unfold G; field; repeat split; lra).
    rewrite <- (Rmult_1_r (A * G * (mm + p))) at 1.
    apply Rmult_le_compat_l; [apply Rmult_le_pos; [apply Rmult_le_pos; [exact HA | exact HG] | lra] |].
    apply (Rmult_le_reg_r mm); [exact Hmm|]. unfold Rdiv. rewrite Rmult_assoc, Rinv_l by lra. lra.
Qed.
