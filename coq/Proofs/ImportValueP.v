(* import_value: annotated values import as their pre-converted counterparts (generic in the carrier). *)
From Coq Require Import ZArith List Bool String Lia.
From MuxV Require Import Base.Num Model.ImportValue.
Import ListNotations.
Open Scope string_scope.
Open Scope list_scope.

Section P.
  Context {T : Type} {N : Num T}.
  Local Open Scope num_scope.
  Variable factor : string -> option T.
  Notation imp := (import_value factor).
  Notation conv := (convert_units factor).

  (* the effective multiplier of a unit string: 1 for "-", the table entry otherwise *)
  Definition known (u : string) (f : T -> T) : Prop :=
    (u = "-" /\ f = (fun x => x)) \/ (u <> "-" /\ exists k, factor (strip u) = Some k /\ f = (fun x => x * k)).

  Lemma conv_known u f x : known u f -> conv x u = Some (f x).
  Proof.
    unfold convert_units. intros [[-> ->]|[Hn [k [Hk ->]]]]; [reflexivity|].
    destruct (String.eqb_spec u "-"); [contradiction|]. rewrite Hk; reflexivity.
  Qed.
  Lemma conv_unknown u x : u <> "-" -> factor (strip u) = None -> conv x u = None.
  Proof. intros Hn Hk. unfold convert_units. destruct (String.eqb_spec u "-"); [contradiction|]. rewrite Hk; reflexivity. Qed.

  Lemma int_eq_float z : imp (PInt z) = imp (PFloat (nofZ z)).
  Proof. reflexivity. Qed.

  Lemma scalar_units x u f : known u f -> imp (PList [PFloat x; PStr u]) = imp (PFloat (f x)).
  Proof. intros Hk. cbn. rewrite (conv_known u f x Hk). reflexivity. Qed.
  Lemma scalar_int_units z u f : known u f -> imp (PList [PInt z; PStr u]) = imp (PFloat (f (nofZ z))).
  Proof. intros Hk. cbn. rewrite (conv_known u f _ Hk). reflexivity. Qed.
  Lemma scalar_unknown_unit x u : u <> "-" -> factor (strip u) = None -> imp (PList [PFloat x; PStr u]) = IRaise EIOError.
  Proof. intros Hn Hk. cbn. rewrite (conv_unknown u x Hn Hk). reflexivity. Qed.

  Lemma vector3_units a b c u f : known u f ->
    imp (PList [PFloat a; PFloat b; PFloat c; PStr u]) = imp (PList [PFloat (f a); PFloat (f b); PFloat (f c)]).
  Proof. intros Hk. cbn. rewrite !(conv_known u f _ Hk). reflexivity. Qed.
  Lemma vector4_units a b c d u f : known u f ->
    imp (PList [PFloat a; PFloat b; PFloat c; PFloat d; PStr u]) =
    imp (PList [PFloat (f a); PFloat (f b); PFloat (f c); PFloat (f d)]).
  Proof. intros Hk. cbn. rewrite !(conv_known u f _ Hk). reflexivity. Qed.

  Lemma elliptic_units c u f : known u f ->
    imp (PList [PStr "elliptic"; PFloat c; PStr u]) = imp (PList [PStr "elliptic"; PFloat (f c)]).
  Proof. intros Hk. cbn. rewrite (conv_known u f c Hk). reflexivity. Qed.

  (* ---- arrays with a unit row, any number of rows, two columns (every MachUpX distribution) ---- *)
  Definition row2 (r : T * T) : pyval T := PList [PFloat (fst r); PFloat (snd r)].
  Notation arr2 rows := (map row2 rows).

  Lemma existsb_arr2 rows x : existsb is_list (arr2 rows ++ [PList x]) = true.
  Proof. induction rows as [|r rows IH]; cbn; [reflexivity|reflexivity]. Qed.
  Lemma last_app {A} (l : list A) x d : List.last (l ++ [x]) d = x.
  Proof. induction l as [|a l IH]; [reflexivity|]. cbn. destruct (l ++ [x]) eqn:E; [destruct l; discriminate|]. exact IH. Qed.
  Lemma rows_of_arr2 rows : rows_of (arr2 rows) = Some (map (fun r => [fst r; snd r]) rows).
  Proof. induction rows as [|r rows IH]; [reflexivity|]. cbn. rewrite IH. reflexivity. Qed.
  Lemma conv_rows_arr2 rows u1 u2 f1 f2 : known u1 f1 -> known u2 f2 ->
    conv_rows factor (map (fun r => [fst r; snd r]) rows) [u1; u2] =
    Some (map (fun r => [f1 (fst r); f2 (snd r)]) rows).
  Proof.
    intros H1 H2. induction rows as [|r rows IH]; [reflexivity|]. cbn [map conv_rows conv_row].
    rewrite (conv_known u1 f1 _ H1), (conv_known u2 f2 _ H2), IH. reflexivity.
  Qed.

  Lemma last_arr2 rows : rows <> [] -> exists r', List.last (arr2 rows) PNone = row2 r'.
  Proof.
    induction rows as [|r rows IH]; [congruence|]. intros _. destruct rows as [|r2 rows]; [exists r; reflexivity|].
    destruct IH as [r' E]; [discriminate|]. exists r'. exact E.
  Qed.

  Lemma array2_units rows u1 u2 f1 f2 : rows <> [] -> known u1 f1 -> known u2 f2 ->
    imp (PList (arr2 rows ++ [PList [PStr u1; PStr u2]])) =
    imp (PList (arr2 (map (fun r => (f1 (fst r), f2 (snd r))) rows))).
  Proof.
    intros Hne H1 H2. unfold import_value at 1. rewrite existsb_arr2.
    unfold last_py. rewrite last_app. cbn [first_of_row is_str strs_of].
    rewrite removelast_last, rows_of_arr2, (conv_rows_arr2 rows u1 u2 f1 f2 H1 H2).
    destruct rows as [|r rows]; [congruence|]. unfold import_value.
    cbn [map existsb row2 is_list orb]. unfold last_py.
    destruct (last_arr2 (map (fun r0 => (f1 (fst r0), f2 (snd r0))) (r :: rows))) as [r' El]; [discriminate|].
    cbn [map] in El. rewrite El. cbn [first_of_row row2 is_str].
    change (row2 (f1 (fst r), f2 (snd r)) :: arr2 (map (fun r0 => (f1 (fst r0), f2 (snd r0))) rows))
      with (arr2 (map (fun r0 => (f1 (fst r0), f2 (snd r0))) (r :: rows))).
    rewrite rows_of_arr2. rewrite map_map. reflexivity.
  Qed.

  Lemma array2_unknown_unit rows u1 u2 f1 : rows <> [] -> known u1 f1 -> u2 <> "-" -> factor (strip u2) = None ->
    imp (PList (arr2 rows ++ [PList [PStr u1; PStr u2]])) = IRaise EIOError.
  Proof.
    intros Hne H1 Hn Hk. unfold import_value. rewrite existsb_arr2.
    unfold last_py. rewrite last_app. cbn [first_of_row is_str strs_of].
    rewrite removelast_last, rows_of_arr2.
    destruct rows as [|r rows]; [congruence|]. cbn [map conv_rows conv_row].
    rewrite (conv_known u1 f1 _ H1), (conv_unknown u2 _ Hn Hk). reflexivity.
  Qed.

  (* a missing mandatory key (default None) is an input error *)
  Lemma missing_key : imp PNone = IRaise EIOError.
  Proof. reflexivity. Qed.
End P.
