(* The swept section vectors form a right-handed orthonormal triad (C12): for a unit span vector and a unit unswept chord direction that
   are not parallel, the axial vector is a unit vector orthogonal to the span vector, in the plane of the two and on the chord
   direction's side, and the normal vector completes the triad. *)
From Coq Require Import Reals Lra List Psatz.
From MuxV Require Import Base.Num Base.Vec3 Base.RInst Model.Reid Model.Swept Proofs.ReidP.
Import ListNotations.
Local Open Scope R_scope.

Lemma cross_dot_left (a b : v3 R) : vdot (vcross a b) a = 0.
Proof. destruct a, b. unfold vdot, vcross; cbn [vx vy vz]; rnum. ring. Qed.
Lemma cross_dot_right (a b : v3 R) : vdot (vcross a b) b = 0.
Proof. destruct a, b. unfold vdot, vcross; cbn [vx vy vz]; rnum. ring. Qed.
Lemma cross_norm2 (a b : v3 R) : vdot (vcross a b) (vcross a b) = vdot a a * vdot b b - vdot a b * vdot a b.
Proof. destruct a, b. unfold vdot, vcross; cbn [vx vy vz]; rnum. ring. Qed.

Theorem swept_triad (us ua0 : v3 R) : vdot us us = 1 -> vdot ua0 ua0 = 1 -> Rabs (vdot us ua0) < 1 ->
  let ua := swept_axial us ua0 in
  let un := swept_normal ua us in
  vdot ua ua = 1 /\ vdot un un = 1 /\ vdot us us = 1 /\
  vdot ua us = 0 /\ vdot un ua = 0 /\ vdot un us = 0 /\
  0 < vdot ua ua0 /\ (exists c1 c2, ua = vadd (vscale c1 ua0) (vscale c2 us)).
Proof.
  intros Hs Ha Hk. cbv zeta. unfold swept_axial, swept_normal.
  destruct (joint_dir_spec us ua0 Hs Ha Hk) as [H1 [H2 [H3 H4]]].
  repeat split; try assumption.
  - rewrite cross_norm2, H1, Hs, H2. ring.
  - apply cross_dot_left.
  - apply cross_dot_right.
Qed.

(* a normalised non-zero vector is a unit vector: the span vectors are unit wherever the gradient of the line does not vanish *)
Lemma vdivs_unit (g : v3 R) : vdot g g <> 0 -> vdot (vdivs g (vnorm g)) (vdivs g (vnorm g)) = 1.
Proof.
  intros Hg. destruct g as [x y z]. unfold vdivs, vnorm, vnorm2, vdot in *; cbn [vx vy vz] in *; rnum.
  set (S := x * x + y * y + z * z) in *.
  assert (Hp : 0 < S) by (assert (0 <= S) by (unfold S; nra); lra).
  assert (Hs : sqrt S * sqrt S = S) by (apply sqrt_sqrt; lra).
  assert (Hn : sqrt S <> 0) by (intro E; rewrite E in Hs; lra).
  replace (x / sqrt S * (x / sqrt S) + y / sqrt S * (y / sqrt S) + z / sqrt S * (z / sqrt S)) with (S / (sqrt S * sqrt S))
    by (unfold S; field; exact Hn).
  rewrite Hs. field. lra.
Qed.

Lemma gs_orth (a u : v3 R) : vdot u u = 1 -> vdot (vsub a (vscale (vdot a u) u)) u = 0.
Proof.
  destruct a as [a b c], u as [p q r]. unfold vdot, vsub, vscale; cbn [vx vy vz]; rnum. intros H.
  replace ((a - (a * p + b * q + c * r) * p) * p + (b - (a * p + b * q + c * r) * q) * q + (c - (a * p + b * q + c * r) * r) * r)
    with ((a * p + b * q + c * r) * (1 - (p * p + q * q + r * r))) by ring.
  rewrite H. ring.
Qed.
Lemma vdivs_dot (g u : v3 R) n : vdot (vdivs g n) u = vdot g u / n.
Proof. destruct g, u. unfold vdot, vdivs; cbn [vx vy vz]; rnum. unfold Rdiv. ring. Qed.

(* at the control points: whatever the interpolated vectors are, as long as the interpolated span vector does not vanish and the
   interpolated axial vector is not parallel to it, the result is an orthonormal triad again *)
Theorem cp_triad_orthonormal xs uas uss s :
  let us0 := interp_vec xs uss s in
  let ua0 := interp_vec xs uas s in
  vdot us0 us0 <> 0 ->
  (let us := vdivs us0 (vnorm us0) in let ua1 := vsub ua0 (vscale (vdot ua0 us) us) in vdot ua1 ua1 <> 0) ->
  let '(ua, un, us) := cp_triad xs uas uss s in
  vdot ua ua = 1 /\ vdot un un = 1 /\ vdot us us = 1 /\ vdot ua us = 0 /\ vdot un ua = 0 /\ vdot un us = 0.
Proof.
  intros us0 ua0 Hs Ha. unfold cp_triad. fold us0 ua0. cbv zeta in Ha.
  assert (Hus : vdot (vdivs us0 (vnorm us0)) (vdivs us0 (vnorm us0)) = 1) by (apply vdivs_unit; exact Hs).
  pose proof (gs_orth ua0 _ Hus) as H1.
  pose proof (vdivs_unit _ Ha) as Hua.
  assert (Horth : vdot (vdivs (vsub ua0 (vscale (vdot ua0 (vdivs us0 (vnorm us0))) (vdivs us0 (vnorm us0))))
                              (vnorm (vsub ua0 (vscale (vdot ua0 (vdivs us0 (vnorm us0))) (vdivs us0 (vnorm us0))))))
                       (vdivs us0 (vnorm us0)) = 0).
  { rewrite vdivs_dot, H1. unfold Rdiv. ring. }
  repeat split; try assumption.
  - rewrite cross_norm2, Hua, Hus, Horth. ring.
  - apply cross_dot_left.
  - apply cross_dot_right.
Qed.
