(* The swept section vectors form a right-handed orthonormal triad (C12): for a unit span vector and a unit unswept chord direction that
   are not parallel, the axial vector is a unit vector orthogonal to the span vector, in the plane of the two and on the chord
   direction's side, and the normal vector completes the triad. *)
From Coq Require Import Reals Lra List Psatz.
From MuxV Require Import Base.Num Base.Vec3 Base.RInst Model.Reid Model.Swept Proofs.ReidP.
Import ListNotations.
Local Open Scope R_scope.

Lemma cross_dot_left (a b : v3 R) : vdot (vcross a b) a = 0.
Proof. destruct a, b. unfold vdot, vcross; cbn [vx vy vz]; rnum. ring. Qed.
Lemma cross_dot_right (a b : v3 R) : vdot (vcross a b) b = 0.
Proof. destruct a, b. unfold vdot, vcross; cbn [vx vy vz]; rnum. ring. Qed.
Lemma cross_norm2 (a b : v3 R) : vdot (vcross a b) (vcross a b) = vdot a a * vdot b b - vdot a b * vdot a b.
Proof. destruct a, b. unfold vdot, vcross; cbn [vx vy vz]; rnum. ring. Qed.

Theorem swept_triad (us ua0 : v3 R) : vdot us us = 1 -> vdot ua0 ua0 = 1 -> Rabs (vdot us ua0) < 1 ->
  let ua := swept_axial us ua0 in
  let un := swept_normal ua us in
  vdot ua ua = 1 /\ vdot un un = 1 /\ vdot us us = 1 /\
  vdot ua us = 0 /\ vdot un ua = 0 /\ vdot un us = 0 /\
  0 < vdot ua ua0 /\ (exists c1 c2, ua = vadd (vscale c1 ua0) (vscale c2 us)).
Proof.
  intros Hs Ha Hk. cbv zeta. unfold swept_axial, swept_normal.
  destruct (joint_dir_spec us ua0 Hs Ha Hk) as [H1 [H2 [H3 H4]]].
  repeat split; try assumption.
  - rewrite cross_norm2, H1, Hs, H2. ring.
  - apply cross_dot_left.
  - apply cross_dot_right.
Qed.

(* a normalised non-zero vector is a unit vector: the span vectors are unit wherever the gradient of the line does not vanish *)
Lemma vdivs_unit (g : v3 R) : vdot g g <> 0 -> vdot (vdivs g (vnorm g)) (vdivs g (vnorm g)) = 1.
Proof.
  intros Hg. destruct g as [x y z]. unfold vdivs, vnorm, vnorm2, vdot in *; cbn [vx vy vz] in *; rnum.
  set (S := x * x + y * y + z * z) in *.
  assert (Hp : 0 < S) by (assert (0 <= S) by (unfold S; nra); lra).
  assert (Hs : sqrt S * sqrt S = S) by (apply sqrt_sqrt; lra).
  assert (Hn : sqrt S <> 0) by (intro E; rewrite E in Hs; lra).
  replace (x / sqrt S * (x / sqrt S) + y / sqrt S * (y / sqrt S) + z / sqrt S * (z / sqrt S)) with (S / (sqrt S * sqrt S))
    by (unfold S; field; exact Hn).
  rewrite Hs. field. lra.
Qed.
