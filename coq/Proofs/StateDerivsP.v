(* The perturbed states of state_derivatives (C09, C08): which state each entry of the table is a difference between. *)
From Coq Require Import Reals Lra List Bool.
From MuxV Require Import Base.Num Base.Vec3 Base.RInst Model.Helpers Model.AeroState Model.Analyses Proofs.HelpersP.
Import ListNotations.
Local Open Scope R_scope.

Lemma vbump_twice (v : v3 R) i d : vbump (vbump v i d) i (- (2 * d)) = vbump v i (- d).
Proof.
  destruct v as [x y z]. destruct i as [|[|i]]; unfold vbump; cbn [vx vy vz]; rnum; f_equal; ring.
Qed.
Lemma vbump_add (v : v3 R) i d : vbump v i d = vadd v (vbump (V3 0 0 0) i d).
Proof.
  destruct v as [x y z]. destruct i as [|[|i]]; unfold vbump, vadd; cbn [vx vy vz]; rnum; f_equal; ring.
Qed.

Section S.
  Variable s : ast R.
  Hypothesis Hq : qn2 (s_q s) = 1.

  (* a position or rate step leaves everything else, the Earth-fixed velocity included, as it was *)
  Lemma sd_pos i d : sd_state s SPos i d = mk_ast (s_v s) (s_w s) (vbump (s_p s) i d) (s_q s) (s_c s).
  Proof. unfold sd_state, sd_args, of_args, from_body. rewrite inv_trans_trans_unit by exact Hq. reflexivity. Qed.
  Lemma sd_rate i d : sd_state s SRate i d = mk_ast (s_v s) (vbump (s_w s) i d) (s_p s) (s_q s) (s_c s).
  Proof. unfold sd_state, sd_args, of_args, from_body. rewrite inv_trans_trans_unit by exact Hq. reflexivity. Qed.
  (* a velocity step is a step along a body axis: the Earth-fixed velocity moves by that axis' step turned to the Earth frame *)
  Lemma sd_vel i d :
    sd_state s SVel i d = mk_ast (vadd (s_v s) (quat_inv_trans (s_q s) (vbump (V3 0 0 0) i d))) (s_w s) (s_p s) (s_q s) (s_c s).
  Proof.
    unfold sd_state, sd_args, of_args, from_body. rewrite (vbump_add (quat_trans (s_q s) (s_v s))), inv_trans_add, inv_trans_trans_unit by exact Hq.
    reflexivity.
  Qed.

  (* the small rotation about body axis i is a unit quaternion *)
  Lemma dq_unit i e : qn2 (dq_of i e) = 1.
  Proof.
    unfold dq_of. apply normalize_unit. destruct i as [|[|i]]; unfold qn2, quat_norm2; cbn; rnum;
      match goal with |- ?x <> 0 => assert (0 < x) by nra; lra end.
  Qed.
  (* an attitude step turns the aircraft by that rotation (forward) or its inverse (backward) and leaves the Earth-fixed velocity,
     the position and the rates as they were *)
  Lemma sd_quat_fwd i e :
    sd_state_q s i e true = mk_ast (s_v s) (s_w s) (s_p s) (quat_mult (s_q s) (dq_of i e)) (s_c s).
  Proof.
    unfold sd_state_q, sd_args_q, of_args, from_body. rewrite inv_trans_mult, (inv_trans_trans_unit (dq_of i e)) by apply dq_unit.
    rewrite inv_trans_trans_unit by exact Hq. reflexivity.
  Qed.
  Lemma sd_quat_bwd i e :
    sd_state_q s i e false = mk_ast (s_v s) (s_w s) (s_p s) (quat_mult (s_q s) (quat_conj (dq_of i e))) (s_c s).
  Proof.
    unfold sd_state_q, sd_args_q, of_args, from_body. rewrite inv_trans_mult, conj_inv_trans, (trans_inv_trans_unit (dq_of i e)) by apply dq_unit.
    rewrite inv_trans_trans_unit by exact Hq. reflexivity.
  Qed.
  Lemma sd_quat_unit i e b : qn2 (s_q (sd_state_q s i e b)) = 1.
  Proof. destruct b; unfold sd_state_q, sd_args_q, of_args, from_body; cbn [s_q]; rewrite mult_norm2, ?conj_norm2, dq_unit, Hq; ring. Qed.
End S.
