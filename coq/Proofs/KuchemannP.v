(* Kuchemann's lifting-line offset (C12): it depends on the sweep only through its magnitude, so the two halves of a wing - whose internal
   sweep angles are opposite - carry the same offset station by station; the interpolation weight lies in (0, 1]; at a station as far
   from the centre as from the tip, in local chords, the offset is the mid value -(1 - 1/K)/4, and stations mirrored about it deviate
   from that value by opposite amounts. *)
From Coq Require Import Reals Lra List Psatz.
From MuxV Require Import Base.Num Base.RInst Model.Kuchemann.
Import ListNotations.
Local Open Scope R_scope.

Section P.
  Variables (fcos ftan : R -> R) (fpow : R -> R -> R) (pi : R).
  Notation off := (offset_at fcos ftan fpow pi).

  Theorem offset_sweep_sign CLa RA sw b loc c : off CLa RA (- sw) b loc c = off CLa RA sw b loc c.
  Proof. unfold offset_at, sweep_eff. rnum. rewrite Rabs_Ropp. reflexivity. Qed.

  Theorem offsets_sweep_sign CLa RA sw b nodes :
    offsets fcos ftan fpow pi CLa RA (- sw) b nodes = offsets fcos ftan fpow pi CLa RA sw b nodes.
  Proof. unfold offsets. apply map_ext. intros p. apply offset_sweep_sign. Qed.

  Definition mid_value CLa RA sw : R :=
    let se := sweep_eff fcos fpow pi CLa RA sw in - (1 / 4 * (1 - 1 / kfac fcos fpow pi CLa RA se)).

  Lemma offset_form CLa RA sw b loc c :
    off CLa RA sw b loc c =
    let se := sweep_eff fcos fpow pi CLa RA sw in
    let sd := sweep_div ftan se in
    let cen := if Reqb c 0 then 0 else loc * b / c in
    let tip := if Reqb c 0 then 0 else (b - loc * b) / c in
    mid_value CLa RA sw + (1 / 4) * (1 / kfac fcos fpow pi CLa RA se) * (2 * (lam pi sd cen - lam pi sd tip) * se / pi).
  Proof. unfold offset_at, mid_value, quarter. rnum. cbv zeta. unfold Rdiv. ring. Qed.

  (* a station whose distances from the centre and from the tip are equal in local chords *)
  Theorem offset_mid CLa RA sw b loc c : c <> 0 -> loc * b = b - loc * b -> off CLa RA sw b loc c = mid_value CLa RA sw.
  Proof.
    intros Hc H. rewrite offset_form. cbv zeta. destruct (Reqb c 0); [unfold Rdiv; ring|].
    rewrite <- H. unfold Rdiv. ring.
  Qed.

  (* stations mirrored about the middle of the semispan (same chord) deviate from the mid value by opposite amounts *)
  Theorem offset_antisymmetric CLa RA sw b loc c :
    off CLa RA sw b loc c + off CLa RA sw b (1 - loc) c = 2 * mid_value CLa RA sw.
  Proof.
    rewrite !offset_form. cbv zeta. destruct (Reqb c 0); [unfold Rdiv; ring|].
    replace ((1 - loc) * b) with (b - loc * b) by ring.
    replace (b - (b - loc * b)) with (loc * b) by ring. unfold Rdiv. ring.
  Qed.

  (* uniform scaling of the segment (semispan and chords by k; "area" in the code is the integral of the chord over the span fraction, i.e. the mean chord): same aspect ratio, same offsets as fractions of the chord *)
  Theorem aspect_scale k b area : k <> 0 -> area <> 0 -> aspect (k * b) (k * area) = aspect b area.
  Proof. intros Hk Ha. unfold aspect. rnum. field. split; assumption. Qed.
  Theorem offset_scale k CLa RA sw b loc c : k <> 0 -> off CLa RA sw (k * b) loc (k * c) = off CLa RA sw b loc c.
  Proof.
    intros Hk. unfold offset_at. rnum.
    destruct (Reqb c 0) eqn:E.
    - apply Reqb_true in E. subst c. replace (k * 0) with 0 by ring. destruct (Reqb 0 0) eqn:E0; [reflexivity|].
      exfalso. assert (H : Reqb 0 0 = true) by (apply Reqb_true; reflexivity). congruence.
    - assert (Hc : c <> 0) by (intros ->; assert (H : Reqb 0 0 = true) by (apply Reqb_true; reflexivity); congruence).
      destruct (Reqb (k * c) 0) eqn:E1.
      + apply Reqb_true in E1. exfalso. apply Rmult_integral in E1. tauto.
      + replace (loc * (k * b) / (k * c)) with (loc * b / c) by (field; split; assumption).
        replace ((k * b - loc * (k * b)) / (k * c)) with ((b - loc * b) / c) by (field; split; assumption).
        reflexivity.
  Qed.
End P.

(* the interpolation weight sqrt(1 + t^2) - t with t = 2 pi sd x >= 0 *)
Theorem lam_bounds pi sd x : 0 <= 2 * pi * sd * x -> 0 < lam pi sd x <= 1.
Proof.
  intros Ht. unfold lam. rnum. set (t := 2 * pi * sd * x) in *.
  assert (H1 : t < sqrt (1 + t * t)).
  { rewrite <- (sqrt_square t) at 1 by exact Ht. apply sqrt_lt_1_alt. nra. }
  assert (H2 : sqrt (1 + t * t) <= 1 + t).
  { rewrite <- (sqrt_square (1 + t)) by lra. apply sqrt_le_1_alt. nra. }
  lra.
Qed.
