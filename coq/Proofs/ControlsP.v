From Coq Require Import Reals Lra List Bool.
From MuxV Require Import Base.Num Base.RInst Base.Interp Model.Controls.
Import ListNotations.
Local Open Scope R_scope.

Section P.
  Variable d2r : R.

  (* signed contribution of one mixing entry: negated on the left side for antisymmetric controls *)
  Definition sgn (left_side sym : bool) : R := if (negb left_side || sym)%bool then 1 else -1.
  Fixpoint spec_sum (left_side : bool) (mx : list (mixing (T:=R))) (s : R) : R :=
    match mx with
    | [] => 0
    | (sym, k, c) :: r => sgn left_side sym * k * input_at c true s + spec_sum left_side r s
    end.

  Lemma mix_sum_inside left_side mx s acc : mix_sum left_side mx true s acc = acc + spec_sum left_side mx s.
  Proof.
    revert acc; induction mx as [|[[sym k] c] r IH]; intros acc; cbn [mix_sum spec_sum]; [ring|].
    rewrite IH. unfold sgn, mask01. destruct (negb left_side || sym)%bool; rcompute; ring.
  Qed.
  Lemma mix_sum_outside left_side mx s acc : mix_sum left_side mx false s acc = acc.
  Proof.
    revert acc; induction mx as [|[[sym k] c] r IH]; intros acc; cbn [mix_sum]; [reflexivity|].
    rewrite IH. unfold mask01. destruct (negb left_side || sym)%bool; rcompute; ring.
  Qed.

  Definition clip (sat x : R) : R := if Rlt_dec sat x then sat else if Rlt_dec x (- sat) then - sat else x.
  Lemma saturate_clip sat x : 0 <= sat -> saturate sat x = clip sat x.
  Proof.
    intros Hs. unfold saturate, clip. cbv zeta. change (@nltb R RNum) with Rltb. change (@nopp R RNum) with Ropp. unfold Rltb.
    destruct (Rlt_dec sat x) as [H|H].
    - destruct (Rlt_dec sat (- sat)); [lra|reflexivity].
    - destruct (Rlt_dec x (- sat)); reflexivity.
  Qed.

  (* the documented mapping *)
  Theorem delta_flap_spec left_side root tip sat mx s : 0 <= sat ->
    delta_flap d2r left_side root tip sat mx s =
      if in_surface root tip s then clip sat (spec_sum left_side mx s * d2r) else 0.
  Proof.
    intros Hs. unfold delta_flap. destruct (in_surface root tip s).
    - rewrite mix_sum_inside, saturate_clip by assumption. f_equal. rcompute. ring.
    - rewrite mix_sum_outside, saturate_clip by assumption. unfold clip.
      replace (n0 * d2r)%num with 0 by (rcompute; ring).
      destruct (Rlt_dec sat 0); [lra|]. destruct (Rlt_dec 0 (- sat)); [lra|reflexivity].
  Qed.

  (* the flap deflection is bounded by the saturation angle *)
  Theorem delta_flap_bounded left_side root tip sat mx s : 0 <= sat ->
    - sat <= delta_flap d2r left_side root tip sat mx s <= sat.
  Proof.
    intros Hs. rewrite delta_flap_spec by assumption. destruct (in_surface root tip s); [|lra].
    unfold clip. destruct (Rlt_dec sat _); [lra|]. destruct (Rlt_dec _ (- sat)); lra.
  Qed.

  (* span window *)
  Lemma in_surface_iff root tip s : in_surface root tip s = true <-> root <= s <= tip.
  Proof.
    unfold in_surface. change (nleb root s) with (Rleb root s). change (nleb s tip) with (Rleb s tip).
    rewrite andb_true_iff, !Rleb_true. tauto.
  Qed.
End P.
