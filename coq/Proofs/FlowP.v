From Coq Require Import Reals Lra Psatz List.
From MuxV Require Import Base.Num Base.Vec3 Base.RInst Model.Helpers Model.Flow Proofs.HelpersP Proofs.KernelP.
Local Open Scope R_scope.

(* the direction of a non-zero vector is a unit vector *)
Lemma unitv_unit (v : v3 R) : vnorm2 v <> 0 -> vnorm2 (unitv v) = 1.
Proof.
  destruct v as [x y z]. unfold unitv, vdivs, vnorm, vnorm2, vdot. simpl. rnum. intro H.
  set (s := x * x + y * y + z * z) in *.
  assert (Hs0 : 0 <= s) by (unfold s; nra).
  assert (Hs : sqrt s * sqrt s = s) by (apply sqrt_sqrt; exact Hs0).
  assert (Hn : sqrt s <> 0) by (intro E; rewrite E in Hs; lra).
  unfold Rdiv.
  replace (x * / sqrt s * (x * / sqrt s) + y * / sqrt s * (y * / sqrt s) + z * / sqrt s * (z * / sqrt s))
    with (s * (/ sqrt s * / sqrt s)) by (unfold s; ring).
  rewrite <- Hs at 1. field. exact Hn.
Qed.

(* projecting out a unit direction leaves nothing along it *)
Lemma project_out_orth (z u : v3 R) : vnorm2 z = 1 -> vdot z (project_out z u) = 0.
Proof.
  destruct z as [a b c], u as [ux uy uz]. unfold project_out, vsub, vscale, vnorm2, vdot. simpl. rnum. intro Hz.
  replace (a * (ux - (a * ux + b * uy + c * uz) * a) + b * (uy - (a * ux + b * uy + c * uz) * b) + c * (uz - (a * ux + b * uy + c * uz) * c))
    with ((a * ux + b * uy + c * uz) * (1 - (a * a + b * b + c * c))) by ring.
  rewrite Hz. ring.
Qed.

(* the constrained trailing direction has no component along the body z-axis *)
Theorem constrained_in_body_plane (q : quat R) (vj : v3 R) :
  vnorm2 (body_z q) = 1 -> vdot (body_z q) (trailing_dir true q vj) = 0.
Proof.
  intro Hz. unfold trailing_dir.
  pose proof (project_out_orth (body_z q) (unitv vj) Hz) as Hp.
  set (p := project_out (body_z q) (unitv vj)) in *. set (zb := body_z q) in *.
  unfold unitv. set (n := vnorm p).
  destruct zb as [a b c], p as [px py pz]. unfold vdivs, vdot in *. simpl in *. rnum.
  unfold Rdiv. replace (a * (px * / n) + b * (py * / n) + c * (pz * / n)) with ((a * px + b * py + c * pz) * / n) by ring.
  rewrite Hp. ring.
Qed.

(* the unconstrained direction is the unit vector of the joint velocity *)
Theorem trailing_is_unit (q : quat R) (vj : v3 R) : vnorm2 vj <> 0 -> vnorm2 (trailing_dir false q vj) = 1.
Proof. intro H. unfold trailing_dir. apply unitv_unit. exact H. Qed.

(* rigid-body part: the air velocity seen at body offset r is wind - v + R^T (r x w) *)
Theorem v_inf_and_rot_spec (q : quat R) (v wind w r : v3 R) :
  v_inf_and_rot q v wind w r = vadd (vsub wind v) (quat_inv_trans q (vcross r w)).
Proof.
  unfold v_inf_and_rot, v_rot. destruct q as [q0 q1 q2 q3], v as [a b c], wind as [d e f], w as [p s t], r as [x y z].
  apply V3_eq; rcompute; ring.
Qed.

(* ---- rigid motion of the scene: the aircraft turned by the unit quaternion Q (new orientation quat_mult Q q, Earth velocity and wind
   turned with it) sees the turned air velocities and leaves turned trailing vortices ---- *)
Section Rigid.
  Variable Q : quat R.
  Hypothesis HQ : qn2 Q = 1.
  Notation O := (quat_inv_trans Q).

  Lemma O_opp a : O (vopp a) = vopp (O a).
  Proof. destruct Q as [q0 q1 q2 q3], a as [x y z]. apply V3_eq; rcompute; ring. Qed.
  Lemma O_divs a k : O (vdivs a k) = vdivs (O a) k.
  Proof. destruct Q as [q0 q1 q2 q3], a as [x y z]. apply V3_eq; rcompute; unfold Rdiv; ring. Qed.
  Lemma O_dot a b : vdot (O a) (O b) = vdot a b.
  Proof. rewrite inv_trans_dot, HQ. ring. Qed.

  Theorem v_inf_and_rot_rigid q v wind w r :
    v_inf_and_rot (quat_mult Q q) (O v) (O wind) w r = O (v_inf_and_rot q v wind w r).
  Proof.
    unfold v_inf_and_rot, v_rot. rewrite inv_trans_mult, !inv_trans_add, O_opp. reflexivity.
  Qed.
  Theorem joint_v_inf_rigid mp q v wind w r :
    joint_v_inf mp (quat_mult Q q) (O v) (O wind) w r = O (joint_v_inf mp q v wind w r).
  Proof.
    unfold joint_v_inf, v_rot. destruct mp; rewrite ?inv_trans_mult, !inv_trans_add, O_opp; reflexivity.
  Qed.
  Lemma unitv_rigid a : unitv (O a) = O (unitv a).
  Proof. unfold unitv. rewrite (inv_trans_norm_unit Q a HQ), O_divs. reflexivity. Qed.
  Lemma body_z_rigid q : body_z (quat_mult Q q) = O (body_z q).
  Proof. unfold body_z. apply inv_trans_mult. Qed.
  Lemma project_out_rigid z u : project_out (O z) (O u) = O (project_out z u).
  Proof. unfold project_out. rewrite O_dot, inv_trans_sub, inv_trans_scale. reflexivity. Qed.
  Theorem trailing_dir_rigid c q vj : trailing_dir c (quat_mult Q q) (O vj) = O (trailing_dir c q vj).
  Proof.
    unfold trailing_dir. destruct c.
    - rewrite unitv_rigid, body_z_rigid, project_out_rigid, unitv_rigid. reflexivity.
    - apply unitv_rigid.
  Qed.
End Rigid.
