(* binary64 instance used only by the correspondence runs (vm_compute). *)
From Coq Require Import PrimFloat Uint63 ZArith List Bool.
From MuxV Require Import Base.Num.
Import ListNotations.

Definition float_of_Z (z : Z) : float :=
  match z with
  | Z0 => 0%float
  | Zpos _ => PrimFloat.of_uint63 (Uint63.of_Z z)
  | Zneg p => PrimFloat.opp (PrimFloat.of_uint63 (Uint63.of_Z (Zpos p)))
  end.

#[export] Instance FNum : Num float := {|
  n0 := 0%float; n1 := 1%float;
  nadd := PrimFloat.add; nsub := PrimFloat.sub; nmul := PrimFloat.mul; ndiv := PrimFloat.div;
  nopp := PrimFloat.opp; nsqrt := PrimFloat.sqrt; nabs := PrimFloat.abs;
  nltb := PrimFloat.ltb; nleb := PrimFloat.leb; neqb := PrimFloat.eqb;
  nofZ := float_of_Z |}.

(* --- comparison helpers for case files --- *)
Definition is_nan (x : float) : bool := negb (PrimFloat.eqb x x).
(* bit equality: distinguishes +0/-0, identifies NaNs *)
Definition fbits_eq (a b : float) : bool :=
  if is_nan a then is_nan b
  else PrimFloat.eqb a b && PrimFloat.eqb (1 / a) (1 / b).
(* |a-b| <= atol + rtol*|b| ; NaN only matches NaN; equal infinities match *)
Definition fclose (rtol atol a b : float) : bool :=
  if is_nan a then is_nan b
  else if is_nan b then false
  else if PrimFloat.eqb a b then true
  else PrimFloat.leb (PrimFloat.abs (a - b)) (atol + rtol * PrimFloat.abs b).

Fixpoint all2 {A} (f : A -> A -> bool) (l1 l2 : list A) : bool :=
  match l1, l2 with
  | [], [] => true
  | a :: t1, b :: t2 => f a b && all2 f t1 t2
  | _, _ => false
  end.

(* oracle table for libm / external functions: exact-argument lookup, NaN if missing *)
Fixpoint olookup (tbl : list (float * float)) (x : float) : float :=
  match tbl with
  | [] => nan
  | (a, r) :: t => if fbits_eq a x then r else olookup t x
  end.
Fixpoint olookup2 (tbl : list (float * float * float)) (x y : float) : float :=
  match tbl with
  | [] => nan
  | (a, b, r) :: t => if fbits_eq a x && fbits_eq b y then r else olookup2 t x y
  end.

(* indices of failing cases *)
Fixpoint failing_from (n : nat) (l : list bool) : list nat :=
  match l with
  | [] => []
  | b :: t => if b then failing_from (S n) t else n :: failing_from (S n) t
  end.
Definition failing (l : list bool) : list nat := failing_from 0 l.
