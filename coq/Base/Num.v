(* Abstract number carrier: every numeric model function is written once over
   [Num T] and instantiated at R (theorems) and PrimFloat.float (correspondence). *)
From Coq Require Import ZArith List Bool.
Import ListNotations.

Class Num (T : Type) := {
  n0 : T; n1 : T;
  nadd : T -> T -> T; nsub : T -> T -> T; nmul : T -> T -> T; ndiv : T -> T -> T;
  nopp : T -> T; nsqrt : T -> T; nabs : T -> T;
  nltb : T -> T -> bool; nleb : T -> T -> bool; neqb : T -> T -> bool;
  nofZ : Z -> T }.

Declare Scope num_scope.
Delimit Scope num_scope with num.
Infix "+" := nadd : num_scope.
Infix "-" := nsub : num_scope.
Infix "*" := nmul : num_scope.
Infix "/" := ndiv : num_scope.
Notation "- x" := (nopp x) : num_scope.
Infix "<?" := nltb : num_scope.
Infix "<=?" := nleb : num_scope.
Infix "=?" := neqb : num_scope.

Section Generic.
  Context {T : Type} {N : Num T}.
  Local Open Scope num_scope.

  Definition n2 : T := nofZ 2.
  Definition nsq (x : T) : T := x * x.
  Definition nmin (x y : T) : T := if x <=? y then x else y.
  Definition nmax (x y : T) : T := if x <=? y then y else x.

  (* left fold sum, as a Python loop / small-array np.sum does it *)
  Definition nsum (l : list T) : T := fold_left nadd l n0.

  Fixpoint map2 {A B C} (f : A -> B -> C) (l1 : list A) (l2 : list B) : list C :=
    match l1, l2 with
    | a :: t1, b :: t2 => f a b :: map2 f t1 t2
    | _, _ => []
    end.
End Generic.
