From Coq Require Import Reals ZArith Bool.
From MuxV Require Import Base.Num.

Definition Rltb (x y : R) : bool := if Rlt_dec x y then true else false.
Definition Rleb (x y : R) : bool := if Rle_dec x y then true else false.
Definition Reqb (x y : R) : bool := if Req_EM_T x y then true else false.

#[export] Instance RNum : Num R := {|
  n0 := 0%R; n1 := 1%R;
  nadd := Rplus; nsub := Rminus; nmul := Rmult; ndiv := Rdiv;
  nopp := Ropp; nsqrt := sqrt; nabs := Rabs;
  nltb := Rltb; nleb := Rleb; neqb := Reqb;
  nofZ := IZR |}.

Lemma Rltb_true x y : Rltb x y = true <-> (x < y)%R.
Proof. unfold Rltb; destruct (Rlt_dec x y); split; intros; auto; discriminate. Qed.
Lemma Rltb_false x y : Rltb x y = false <-> (y <= x)%R.
Proof. unfold Rltb; destruct (Rlt_dec x y); split; intros; auto; try discriminate.
  - exfalso; apply (Rlt_irrefl x); eapply Rlt_le_trans; eauto.
  - apply Rnot_lt_le; auto. Qed.
Lemma Rleb_true x y : Rleb x y = true <-> (x <= y)%R.
Proof. unfold Rleb; destruct (Rle_dec x y); split; intros; auto; discriminate. Qed.
Lemma Rleb_false x y : Rleb x y = false <-> (y < x)%R.
Proof. unfold Rleb; destruct (Rle_dec x y); split; intros; auto; try discriminate.
  - exfalso; apply (Rlt_irrefl x); eapply Rle_lt_trans; eauto.
  - apply Rnot_le_lt; auto. Qed.
Lemma Reqb_true x y : Reqb x y = true <-> x = y.
Proof. unfold Reqb; destruct (Req_EM_T x y); split; intros; auto; discriminate. Qed.

(* reduce a generic model term instantiated at R down to an expression over the real operations *)
Ltac rcompute :=
  cbv - [Rplus Rminus Rmult Rdiv Ropp Rinv sqrt Rabs IZR Rlt_dec Rle_dec Req_EM_T Rltb Rleb Reqb
         cos sin tan atan asin acos exp ln PI Rpower INR Rsqr Rmax Rmin].
Ltac rcompute_in H :=
  cbv - [Rplus Rminus Rmult Rdiv Ropp Rinv sqrt Rabs IZR Rlt_dec Rle_dec Req_EM_T Rltb Rleb Reqb
         cos sin tan atan asin acos exp ln PI Rpower INR Rsqr Rmax Rmin] in H.

(* lighter: only replace the class operations by the real ones (no unfolding of anything else) *)
Ltac rnum :=
  change (@nadd R RNum) with Rplus in *; change (@nsub R RNum) with Rminus in *; change (@nmul R RNum) with Rmult in *;
  change (@ndiv R RNum) with Rdiv in *; change (@nopp R RNum) with Ropp in *; change (@nsqrt R RNum) with sqrt in *;
  change (@nabs R RNum) with Rabs in *; change (@n0 R RNum) with 0%R in *; change (@n1 R RNum) with 1%R in *;
  change (@nltb R RNum) with Rltb in *; change (@nleb R RNum) with Rleb in *; change (@neqb R RNum) with Reqb in *;
  change (@nofZ R RNum) with IZR in *.
