(* np.interp (1-D piecewise-linear interpolation, sorted abscissae, clamped outside) as NumPy's
   compiled_base.c implements it: locate the largest j with xp[j] <= x; exact node hits return fp[j]. *)
From Coq Require Import ZArith List Bool.
From MuxV Require Import Base.Num.
Import ListNotations.

Section Interp.
  Context {T : Type} {N : Num T}.
  Local Open Scope num_scope.

  Fixpoint interp_go (x xj yj : T) (rest : list (T * T)) : T :=
    match rest with
    | [] => yj
    | (x1, y1) :: r =>
        if x1 <=? x then interp_go x x1 y1 r
        else if xj =? x then yj
        else (y1 - yj) / (x1 - xj) * (x - xj) + yj
    end.

  Definition interp (x : T) (tbl : list (T * T)) : T :=
    match tbl with
    | [] => n0
    | (x0, y0) :: rest => if x <? x0 then y0 else interp_go x x0 y0 rest
    end.

  Definition zip {A B} (a : list A) (b : list B) : list (A * B) := combine a b.
End Interp.
