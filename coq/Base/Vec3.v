From Coq Require Import ZArith List Bool.
From MuxV Require Import Base.Num.
Import ListNotations.

Section Vec3.
  Context {T : Type} {N : Num T}.
  Local Open Scope num_scope.

  Inductive v3 := V3 (x y z : T).
  Definition vx v := match v with V3 x _ _ => x end.
  Definition vy v := match v with V3 _ y _ => y end.
  Definition vz v := match v with V3 _ _ z => z end.

  Definition vzero := V3 n0 n0 n0.
  Definition vadd a b := V3 (vx a + vx b) (vy a + vy b) (vz a + vz b).
  Definition vsub a b := V3 (vx a - vx b) (vy a - vy b) (vz a - vz b).
  Definition vscale (k : T) a := V3 (k * vx a) (k * vy a) (k * vz a).
  Definition vscaler a (k : T) := V3 (vx a * k) (vy a * k) (vz a * k).
  Definition vdivs a (k : T) := V3 (vx a / k) (vy a / k) (vz a / k).
  Definition vopp a := V3 (- vx a) (- vy a) (- vz a).
  (* np.einsum('k,k->', a, b) / Python a0*b0+a1*b1+a2*b2 *)
  Definition vdot a b : T := vx a * vx b + vy a * vy b + vz a * vz b.
  (* np.cross *)
  Definition vcross a b :=
    V3 (vy a * vz b - vz a * vy b) (vz a * vx b - vx a * vz b) (vx a * vy b - vy a * vx b).
  Definition vnorm2 a : T := vdot a a.
  Definition vnorm a : T := nsqrt (vnorm2 a).
  Definition vsum (l : list v3) := fold_left vadd l vzero.

  Inductive quat := Q4 (q0 q1 q2 q3 : T).
  Definition qw q := match q with Q4 a _ _ _ => a end.
  Definition qx q := match q with Q4 _ a _ _ => a end.
  Definition qy q := match q with Q4 _ _ a _ => a end.
  Definition qz q := match q with Q4 _ _ _ a => a end.
End Vec3.
Arguments v3 T : clear implicits.
Arguments quat T : clear implicits.
