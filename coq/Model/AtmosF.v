(* binary64 instance of Model/Atmos.v over the live constants, and the case-file predicates *)
From Coq Require Import PrimFloat List Bool ZArith.
From MuxV Require Import Base.Num Base.FInst Base.Interp Model.Atmos Live.LiveTables.
Import ListNotations.
Local Open Scope float_scope.

Definition atmF : atm := {|
  aH_b := live_H_b_F; aL_M_b := live_L_M_b_F; aT_M_b := live_T_M_b_F;
  ar_0 := live_r_0_F; ag_0 := live_g_0_F; aM_0 := live_M_0_F; aR_star := live_R_star_F; aP_0 := live_P_0_F;
  aS := live_S_F; abeta := live_beta_F; agamma := live_gamma_F; aT_0 := live_T_0_F;
  aK := 273.15; aLtol := 1e-6; aZmax := 86000.0; a_one_p_five := 1.5;
  c_ft := 0.3048; c_P := 0.02088543815038; c_rho := 0.0019403203; c_mu := 0.020885434273039;
  c_nine := 9.0; c_five := 5.0 |}.

Section WithOracles.
  Variables (et : list (float * float)) (pt : list (float * float * float)).
  Let fe := olookup et.
  Let fp := olookup2 pt.
  (* which: 0 T, 1 P, 2 rho, 3 mu, 4 a, 5 nu ; en: English *)
  Definition atm_eval (en : bool) (which : nat) (h : float) : float :=
    match en, which with
    | false, 0%nat => T_SI atmF h        | true, 0%nat => T_EN atmF h
    | false, 1%nat => P_SI fe fp atmF h  | true, 1%nat => P_EN fe fp atmF h
    | false, 2%nat => rho_SI fe fp atmF h | true, 2%nat => rho_EN fe fp atmF h
    | false, 3%nat => mu_SI fp atmF h     | true, 3%nat => mu_EN fp atmF h
    | false, 4%nat => a_SI atmF h         | true, 4%nat => a_EN atmF h
    | false, _ => nu_SI fe fp atmF h      | true, _ => nu_EN fe fp atmF h
    end.
  Definition chk_atm (en : bool) (which : nat) (h e : float) : bool :=
    fclose 0x1p-50 0 (atm_eval en which h) e.
  Definition chk_atm_bits (en : bool) (which : nat) (h e : float) : bool :=
    fbits_eq (atm_eval en which h) e.
End WithOracles.

Definition chk_range (en : bool) (h : float) (raises : bool) : bool :=
  Bool.eqb (negb (in_range atmF (if en then h * 0.3048 else h))) raises.
Definition chk_interp (x : float) (xs ys : list float) (e : float) : bool :=
  fbits_eq (interp x (combine xs ys)) e.
