(* machupX/wing_segment.py 598-619 (per-pair control-point slices), 1062-1072 (_airfoil_interpolator),
   1106-1123 (coefficient matrix): the section coefficient used at control point i of a segment with a
   spanwise airfoil distribution.  [fv i k] = coefficient of airfoil k evaluated at control point i's own
   alpha, Re, Mach, flap deflection and flap fraction (airfoil_db: oracle). *)
From Coq Require Import ZArith List Bool Arith.
From MuxV Require Import Base.Num.
Import ListNotations.

Section Blend.
  Context {T : Type} {N : Num T}.
  Local Open Scope num_scope.

  Definition count (p : T -> bool) (l : list T) : nat := List.length (filter p l).

  (* lines 600-619: slices for pairs 0..m-1, as (start, stop) index pairs; a control point on a station belongs to the pair that ends
     there, on both sides (fix: the right side counted cp < s, which left such a point to the next pair while the interpolator below
     reads the columns of the pair that ends there) *)
  Fixpoint slices_right (cps : list T) (stations : list T) (prev : nat) : list (nat * nat) :=
    match stations with
    | [] => []
    | s :: r => let nl := count (fun c => c <=? s) cps in (prev, nl) :: slices_right cps r nl
    end.
  Fixpoint slices_left (cps : list T) (stations : list T) (prev : nat) : list (nat * nat) :=
    match stations with
    | [] => []
    | s :: r => let ng := count (fun c => s <? c) cps in (ng, prev) :: slices_left cps r ng
    end.
  Definition slices (left_side : bool) (cps spans : list T) : list (nat * nat) :=
    if left_side then slices_left cps (tl spans) (List.length cps) else slices_right cps (tl spans) 0.

  Definition in_slice (sl : nat * nat) (i : nat) : bool := Nat.leb (fst sl) i && Nat.ltb i (snd sl).

  (* coefs[i,k] after the loop of lines 1110-1120: row i is written by pair j in columns j and j+1 *)
  Definition coef (sls : list (nat * nat)) (fv : nat -> nat -> T) (i k : nat) : T :=
    let in_pair j := in_slice (nth j sls (0%nat, 0%nat)) i in
    if (Nat.ltb k (List.length sls) && in_pair k)%bool then fv i k
    else if (Nat.ltb 0 k && in_pair (k - 1)%nat)%bool then fv i k
    else n0.

  (* np.searchsorted(spans, x) (side='left'): number of stations strictly below x *)
  Definition searchsorted (spans : list T) (x : T) : nat := count (fun s => s <? x) spans.

  (* lines 1067-1071 *)
  Definition blend_at (left_side : bool) (cps spans : list T) (fv : nat -> nat -> T) (i : nat) : T :=
    let x := nth i cps n0 in
    let j := (searchsorted spans x - 1)%nat in            (* j = where(j<0, 0, j) is the truncated subtraction *)
    let sj := nth j spans n0 in let sj1 := nth (Datatypes.S j) spans n0 in
    let d := (x - sj) / (sj1 - sj) in
    let sls := slices left_side cps spans in
    (n1 - d) * coef sls fv i j + d * coef sls fv i (Datatypes.S j).
End Blend.
