(* machupX/scene.py 927-1406: section forces and moments, per-segment sums, body/stability/wind frames,
   nondimensionalisation and the result table. *)
From Coq Require Import ZArith List Bool String.
From MuxV Require Import Base.Num Base.Vec3 Model.Helpers Model.Kernel Model.Residual.
Import ListNotations.

Section Integrate.
  Context {T : Type} {N : Num T}.
  Local Open Scope num_scope.
  Variable fatan2 : T -> T -> T.
  Variable O : opts.
  Variable half : T.               (* 0.5 *)

  (* additional per-control-point data used only by the integration *)
  Record ipt := mk_ipt { irCG : v3 T; irho : T; iua_un : v3 T; iun_un : v3 T;     (* unswept axial / normal vectors *)
                         iCD : T -> T -> T -> T; iCm : T -> T -> T -> T }.

  Record secload := mk_sl { dFi : v3 T; dFv : v3 T; dMi : v3 T; dMv : v3 T;
                            o_alpha : T; o_Re : T; o_M : T; o_CD : T; o_Cm : T; o_q : T }.

  (* lines 941-1046 at one control point; v = local velocity, g = circulation *)
  Definition section_load (c : cpt T) (p : ipt) (v : v3 T) (g : T) : secload :=
    let V2 := vdot v v in
    let V := nsqrt V2 in
    let ui := vdivs v V in
    let vip := in_plane c v in
    let Vip2 := vdot vip vip in
    let dF := vscale (irho p * g) (vcross v (cdl c)) in                                  (* line 952 *)
    let al := fatan2 (vdot v (cun c)) (vdot v (cua c)) in
    let Re_un := if use_swept O then V * ccbar c * ccsi c / cnu c else V * ccbar c / cnu c in
    let al_un := if use_swept O then fatan2 (vdot v (iun_un p)) (vdot v (iua_un p)) else al in
    let Vsel := if use_in_plane O then nsqrt Vip2 else V in
    let Re := Vsel * ccbar c / cnu c in
    let M := Vsel / csos c in
    let Vinf := Vinf_raw c in
    let redim_full := if use_total O then half * irho p * V2 * cdS c else half * irho p * Vinf * Vinf * cdS c in
    let redim_ip := if use_total O then half * irho p * Vip2 * cdS c
                    else half * irho p * Vinf_ip c * Vinf_ip c * cdS c in
    let CD := iCD p al_un Re_un M in
    let Cm0 := iCm p al Re M in
    let Cm := if use_swept O then Cm0 * ccsi c else Cm0 in
    let redim_sel := if use_in_plane O then redim_ip else redim_full in
    let dM_sec := vscale (redim_sel * ccbar c * Cm) (cus c) in                            (* lines 1029-1032 *)
    let dMi_ := vadd (vcross (irCG p) dF) dM_sec in
    let dD := redim_full * CD in
    let dFv_ := if (use_total O || match_pro O)%bool then vscale dD ui
                else vscale dD (vdivs (cvinf c) Vinf) in                                   (* lines 1039-1043 *)
    mk_sl dF dFv_ dMi_ (vcross (irCG p) dFv_) al Re M CD Cm (redim_sel / cdS c).

  (* ---- per-aircraft bookkeeping ---- *)
  Definition fm := (v3 T * v3 T)%type.            (* (force, moment) *)
  Definition fm_add (a b : fm) : fm := (vadd (fst a) (fst b), vadd (snd a) (snd b)).
  Definition fm_zero : fm := (vzero, vzero).

  (* lines 1108-1117: Earth-frame sums of one segment rotated into the body frame *)
  Definition seg_body (q : quat T) (ls : list secload) : fm * fm :=
    ((quat_trans q (vsum (map dFi ls)), quat_trans q (vsum (map dMi ls))),
     (quat_trans q (vsum (map dFv ls)), quat_trans q (vsum (map dMv ls)))).

  (* freestream triad in the body frame, lines 1078-1093; uinf = body-frame unit freestream vector *)
  Definition ey : v3 T := V3 n0 n1 n0.
  Definition vunit (a : v3 T) : v3 T := vdivs a (vnorm a).
  Definition u_lift (uinf : v3 T) : v3 T := vunit (vcross uinf ey).
  Definition u_xstab (uinf : v3 T) : v3 T := vunit (vcross (u_lift uinf) ey).
  Definition u_side (uinf : v3 T) : v3 T := vunit (vcross (u_lift uinf) uinf).
  Definition mat3 (r0 r1 r2 a : v3 T) : v3 T := V3 (vdot r0 a) (vdot r1 a) (vdot r2 a).   (* np.matmul(rows, a) *)
  Definition to_wind (uinf a : v3 T) : v3 T := mat3 uinf (u_side uinf) (u_lift uinf) a.
  Definition to_stab (uinf a : v3 T) : v3 T := mat3 (u_xstab uinf) ey (vopp (u_lift uinf)) a.

  Inductive frame := Body | Stab | Wind.
  Definition in_frame (f : frame) (uinf : v3 T) (x : fm) : fm :=
    match f with
    | Body => x
    | Stab => (to_stab uinf (fst x), to_stab uinf (snd x))
    | Wind => (to_wind uinf (fst x), to_wind uinf (snd x))
    end.

  (* component 0..5 of a (force, moment) pair *)
  Definition comp (x : fm) (k : nat) : T :=
    match k with
    | 0 => vx (fst x) | 1 => vy (fst x) | 2 => vz (fst x)
    | 3 => vx (snd x) | 4 => vy (snd x) | _ => vz (snd x)
    end.

  (* reference quantities, lines 1096-1099 *)
  Record refs := mk_refs { rS : T; rlon : T; rlat : T; rrho : T; rVinf : T }.
  Definition nondim (r : refs) (k : nat) : T :=
    let nd := nofZ 2 / (rrho r * rVinf r * rVinf r * rS r) in
    match k with
    | 0 | 1 | 2 => nd
    | 4 => nd / rlon r
    | _ => nd / rlat r
    end.

  (* the key table: lines 996-1004 and the ~450 assignments of lines 1133-1406 *)
  Open Scope string_scope.
  Definition key_name (dimensional : bool) (f : frame) (k : nat) : string :=
    match dimensional, f, k with
    | false, Body, 0 => "Cx" | false, Body, 1 => "Cy" | false, Body, 2 => "Cz"
    | false, Body, 3 => "Cl" | false, Body, 4 => "Cm" | false, Body, _ => "Cn"
    | false, Stab, 0 => "Cx_s" | false, Stab, 1 => "Cy_s" | false, Stab, 2 => "Cz_s"
    | false, Stab, 3 => "Cl_s" | false, Stab, 4 => "Cm_s" | false, Stab, _ => "Cn_s"
    | false, Wind, 0 => "CD" | false, Wind, 1 => "CS" | false, Wind, 2 => "CL"
    | false, Wind, 3 => "Cl_w" | false, Wind, 4 => "Cm_w" | false, Wind, _ => "Cn_w"
    | true, Body, 0 => "Fx" | true, Body, 1 => "Fy" | true, Body, 2 => "Fz"
    | true, Body, 3 => "Mx" | true, Body, 4 => "My" | true, Body, _ => "Mz"
    | true, Stab, 0 => "Fx_s" | true, Stab, 1 => "Fy_s" | true, Stab, 2 => "Fz_s"
    | true, Stab, 3 => "Mx_s" | true, Stab, 4 => "My_s" | true, Stab, _ => "Mz_s"
    | true, Wind, 0 => "FD" | true, Wind, 1 => "FS" | true, Wind, 2 => "FL"
    | true, Wind, 3 => "Mx_w" | true, Wind, 4 => "My_w" | true, Wind, _ => "Mz_w"
    end.
  Close Scope string_scope.

  Record ropts := mk_ropts { o_body : bool; o_stab : bool; o_wind : bool; o_dim : bool; o_nondim : bool; o_byseg : bool }.
  Inductive part := Inviscid | Viscous | Total.

  (* value reported under a key: (force, moment) already expressed in the key's frame *)
  Definition value (r : refs) (dimensional : bool) (x : fm) (k : nat) : T :=
    if dimensional then comp x k else comp x k * nondim r k.

  Definition frames_of (ro : ropts) : list frame :=
    (if o_body ro then [Body] else []) ++ (if o_stab ro then [Stab] else []) ++ (if o_wind ro then [Wind] else []).
  Definition dims_of (ro : ropts) : list bool :=
    (if o_nondim ro then [false] else []) ++ (if o_dim ro then [true] else []).
  Definition six : list nat := [0; 1; 2; 3; 4; 5]%nat.

  (* one result-table entry: part, key, segment name ("total" for the aircraft total; Total entries carry
     no segment level) and value *)
  Definition entry := (part * string * option string * T)%type.

  Definition entries_for (ro : ropts) (r : refs) (uinf : v3 T) (p : part) (seg : option string) (x : fm) : list entry :=
    flat_map (fun d => flat_map (fun f => map (fun k => (p, key_name d f k, seg, value r d (in_frame f uinf x) k)) six)
                                (frames_of ro)) (dims_of ro).

  (* lines 1101-1406 for one aircraft; segs = [(segment name, inviscid, viscous)] in body frame *)
  Definition fm_sum (l : list fm) : fm := fold_left fm_add l fm_zero.
  Definition report (ro : ropts) (r : refs) (uinf : v3 T) (segs : list (string * fm * fm)) : list entry :=
    let inv_tot := fm_sum (map (fun s => snd (fst s)) segs) in
    let vis_tot := fm_sum (map (fun s => snd s) segs) in
    (if o_byseg ro then
       flat_map (fun s => entries_for ro r uinf Viscous (Some (fst (fst s))) (snd s)
                          ++ entries_for ro r uinf Inviscid (Some (fst (fst s))) (snd (fst s))) segs
     else [])
    ++ entries_for ro r uinf Inviscid (Some "total"%string) inv_tot
    ++ entries_for ro r uinf Viscous (Some "total"%string) vis_tot
    ++ entries_for ro r uinf Total None (fm_add vis_tot inv_tot).
End Integrate.
Arguments ipt T : clear implicits.
Arguments secload T : clear implicits.
Arguments refs T : clear implicits.
