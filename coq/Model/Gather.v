(* machupX/airplane.py 485-551: span coordinate of control points and nodes along a wing (a chain of segments ordered from the left
   tip to the right tip), measured from the left tip.  Left segments store their span fractions from tip to root (wing_segment.py
   227-229), hence the (1 - s). *)
From Coq Require Import ZArith List Bool.
From MuxV Require Import Base.Num.
Import ListNotations.

Section Gather.
  Context {T : Type} {N : Num T}.
  Local Open Scope num_scope.

  Record segsp := mk_segsp { g_left : bool; g_b : T; g_nodes : list T; g_cps : list T }.

  (* 520-525 *)
  Definition span_of (left_side : bool) (cur b s : T) : T := if left_side then cur + (n1 - s) * b else cur + s * b.
  Definition seg_PC (cur : T) (g : segsp) : list T := map (span_of (g_left g) cur (g_b g)) (g_cps g).
  Definition seg_nodes (cur : T) (g : segsp) : list T := map (span_of (g_left g) cur (g_b g)) (g_nodes g).
  (* 526-527: node_spans[:-1], node_spans[1:] *)
  Definition seg_P0 (cur : T) (g : segsp) : list T := removelast (seg_nodes cur g).
  Definition seg_P1 (cur : T) (g : segsp) : list T := tl (seg_nodes cur g).

  (* 492-547: cur_span_from_left_tip runs through the segments of the wing *)
  Fixpoint wing_map (f : T -> segsp -> list T) (cur : T) (segs : list segsp) : list T :=
    match segs with [] => [] | g :: r => f cur g ++ wing_map f (cur + g_b g) r end.
  Definition wing_PC := wing_map seg_PC.
  Definition wing_P0 := wing_map seg_P0.
  Definition wing_P1 := wing_map seg_P1.
  Definition wing_length (segs : list segsp) : T := fold_left (fun a g => a + g_b g) segs n0.
End Gather.
Arguments segsp T : clear implicits.
