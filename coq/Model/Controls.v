(* machupX/wing_segment.py 627-660 (_setup_control_surface) and 1327-1374 (apply_control);
   airplane.py 925-944 (set_control_state).  One control point at a time: NumPy does the same arithmetic element-wise. *)
From Coq Require Import ZArith List Bool.
From MuxV Require Import Base.Num Base.Interp.
Import ListNotations.

Section Controls.
  Context {T : Type} {N : Num T}.
  Local Open Scope num_scope.
  Variable deg2rad : T.          (* np.radians(x) = x * (pi/180) *)

  (* control point inside the flap span: (cp >= root) & (cp <= tip), line 644 *)
  Definition in_surface (root tip s : T) : bool := (root <=? s) && (s <=? tip).
  Definition mask01 (m : bool) : T := if m then n1 else n0.

  (* what the user supplied for one control: a number of degrees (already unit-converted) or a spanwise table *)
  Inductive cinput := CConst (deg : T) | CTable (tbl : list (T * T)) | CFun (f : T -> T).
  (* lines 1351-1361: value of the input at one control point *)
  Definition input_at (c : cinput) (m : bool) (s : T) : T :=
    match c with
    | CConst d => d
    | CTable tbl => if m then interp s tbl else n0
    | CFun f => f s                 (* 1380-1381: a function of span is evaluated at the control point; the span mask follows in mix_sum *)
    end.

  (* one entry of control_mixing, in dictionary order: (is the control symmetric, mixing factor, input) *)
  Definition mixing := (bool * T * cinput)%type.

  (* lines 1347-1367: the running sum starts at 0.0; += on the right side or for symmetric controls, -= otherwise *)
  Fixpoint mix_sum (left_side : bool) (mx : list mixing) (m : bool) (s acc : T) : T :=
    match mx with
    | [] => acc
    | (sym, k, c) :: r =>
        let term := input_at c m s * k * mask01 m in
        mix_sum left_side r m s (if (negb left_side || sym)%bool then acc + term else acc - term)
    end.

  (* lines 1370-1374 *)
  Definition saturate (sat x : T) : T :=
    let y := if sat <? x then sat else x in
    if y <? - sat then - sat else y.

  Definition delta_flap (left_side : bool) (root tip sat : T) (mx : list mixing) (s : T) : T :=
    let m := in_surface root tip s in
    saturate sat (mix_sum left_side mx m s n0 * deg2rad).

  (* flap chord fraction at one control point, lines 654-656: zero outside the surface *)
  Definition flap_fraction (root tip : T) (cf : cinput) (s : T) : T :=
    if in_surface root tip s then (match cf with CConst c => c | CTable tbl => interp s tbl | CFun f => f s end) else n0.

  (* airplane.py 939-940: the stored control state is replaced, missing controls become 0 *)
  Fixpoint replace_state {K} (eqb : K -> K -> bool) (names : list K) (given : list (K * T)) : list (K * T) :=
    match names with
    | [] => []
    | n :: r =>
        (n, match find (fun p => eqb (fst p) n) given with Some p => snd p | None => n0 end) :: replace_state eqb r given
    end.

  (* scene.py 2270-2290 (control_derivatives): the finite-difference step added to the recorded input of one control.  A number moves by the
     step; a span-wise table moves as a whole, its span column untouched (0.0 is added to it) *)
  Definition shift_input (c : cinput) (d : T) : cinput :=
    match c with
    | CConst v => CConst (v + d)
    | CTable tbl => CTable (map (fun p => (fst p + n0, snd p + d)) tbl)
    | CFun f => CFun f              (* (function + float raises in the code: not a case of the analysis) *)
    end.
  (* wing_segment.py 1375: a table is accepted when its first and last span fractions are the root and tip of the control surface *)
  Definition table_ends_ok (root tip : T) (c : cinput) : bool :=
    match c with
    | CConst _ => true
    | CTable tbl => match tbl with [] => false | p :: _ => (fst p =? root) && (fst (last tbl p) =? tip) end
    | CFun _ => true
    end.
End Controls.
Arguments cinput T : clear implicits.
