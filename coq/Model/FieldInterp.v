(* Density / wind FIELD tables (scene.py 150-160, 186-200): scipy's LinearNDInterpolator evaluates, in the simplex of the
   Delaunay triangulation that contains the query point, the barycentric combination of the four node values.  The model is that
   evaluation; which simplex contains the point (triangulation + point location, Qhull) enters as data. *)
From Coq Require Import ZArith List Bool.
From MuxV Require Import Base.Num Base.Vec3.
Import ListNotations.

Section Generic.
  Context {T : Type} {N : Num T}.
  Local Open Scope num_scope.

  Definition det3 (a b c : v3 T) : T := vdot a (vcross b c).

  (* barycentric coordinates of p in the tetrahedron (a, b, c, d), by Cramer's rule on p - a = l1 (b-a) + l2 (c-a) + l3 (d-a) *)
  Definition bary (a b c d p : v3 T) : T * T * T * T :=
    let e1 := vsub b a in let e2 := vsub c a in let e3 := vsub d a in let q := vsub p a in
    let D := det3 e1 e2 e3 in
    let l1 := det3 q e2 e3 / D in
    let l2 := det3 e1 q e3 / D in
    let l3 := det3 e1 e2 q / D in
    (n1 - l1 - l2 - l3, l1, l2, l3).

  Definition tet_volume6 (a b c d : v3 T) : T := det3 (vsub b a) (vsub c a) (vsub d a).

  Definition field_interp (a b c d : v3 T) (fa fb fc fd : T) (p : v3 T) : T :=
    let '(l0, l1, l2, l3) := bary a b c d p in l0 * fa + l1 * fb + l2 * fc + l3 * fd.

  (* the three wind columns are interpolated separately on the same triangulation *)
  Definition wind_interp (a b c d : v3 T) (wa wb wc wd : v3 T) (p : v3 T) : v3 T :=
    V3 (field_interp a b c d (vx wa) (vx wb) (vx wc) (vx wd) p)
       (field_interp a b c d (vy wa) (vy wb) (vy wc) (vy wd) p)
       (field_interp a b c d (vz wa) (vz wb) (vz wc) (vz wd) p).

  (* p lies in the closed simplex, up to eps on every coordinate *)
  Definition in_simplex (eps : T) (a b c d p : v3 T) : bool :=
    let '(l0, l1, l2, l3) := bary a b c d p in
    (- eps <=? l0) && (- eps <=? l1) && (- eps <=? l2) && (- eps <=? l3).
End Generic.
