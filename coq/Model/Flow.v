(* machupX/scene.py _calc_invariant_flow_properties: freestream + rigid-body rotation at control points and joints, and the direction
   of the trailing vortices (optionally constrained to the body x-y plane). *)
From Coq Require Import ZArith List Bool.
From MuxV Require Import Base.Num Base.Vec3 Model.Helpers.
Import ListNotations.

Section Flow.
  Context {T : Type} {N : Num T}.
  Local Open Scope num_scope.

  (* velocity of the air relative to a point of the aircraft at body offset r from the CG, in Earth axes:
     -v_aircraft + wind - (w x r) rotated to Earth axes *)
  Definition v_rot (q : quat T) (w r : v3 T) : v3 T := quat_inv_trans q (vopp (vcross w r)).
  Definition v_inf_and_rot (q : quat T) (v_earth wind w r : v3 T) : v3 T := vadd (vadd (vopp v_earth) wind) (v_rot q w r).
  Definition joint_v_inf (match_pro : bool) (q : quat T) (v_earth wind w r : v3 T) : v3 T :=
    if match_pro then vadd (vopp v_earth) wind else vadd (vadd (vopp v_earth) wind) (v_rot q w r).

  Definition unitv (v : v3 T) : v3 T := vdivs v (vnorm v).
  (* body z-axis expressed in Earth axes *)
  Definition body_z (q : quat T) : v3 T := quat_inv_trans q (V3 n0 n0 n1).
  (* P u with P = I - z z^T *)
  Definition project_out (z u : v3 T) : v3 T := vsub u (vscale (vdot z u) z).
  Definition trailing_dir (constrain : bool) (q : quat T) (vj : v3 T) : v3 T :=
    let u := unitv vj in
    if constrain then unitv (project_out (body_z q) u) else u.
End Flow.
