(* machupX/__main__.py 21-62 (run-command dispatch and default file names), airplane.py 991-1040 and wing_segment.py 1383-1515
   (assembly of the STL facets from the section outlines). *)
From Coq Require Import List String Bool Arith.
From MuxV Require Import Model.Validate.
Import ListNotations.
Open Scope string_scope.

(* ---- default output names ---- *)
(* index of the last occurrence of [pat] in [s]  (str.rfind) *)
Fixpoint last_occ (pat s : string) : option nat :=
  match s with
  | EmptyString => if String.prefix pat s then Some 0 else None
  | String c r => match last_occ pat r with
                  | Some i => Some (S i)
                  | None => if String.prefix pat s then Some 0 else None
                  end
  end.
(* input_filename[:input_filename.rfind(".json")]  (rfind = -1 drops the last character) *)
Definition base_name (input : string) : string :=
  match last_occ ".json" input with
  | Some i => substring 0 i input
  | None => substring 0 (String.length input - 1) input
  end.
Definition default_filename (input key : string) : option string :=
  if String.eqb key "export_stl" then Some (base_name input ++ ".stl")
  else if String.eqb key "export_vtk" then Some (base_name input ++ ".vtk")
  else if String.eqb key "distributions" then Some (base_name input ++ "_distributions.csv")
  else if extension_ok "display" key then None                       (* "display" in key *)
  else Some (base_name input ++ "_" ++ key ++ ".json").

(* one entry of "run": the command and the "filename" parameter if given; a call: method and filename argument *)
Definition run_cli (methods : list string) (input : string) (run : list (string * option string)) : list (string * option string) :=
  flat_map (fun e : string * option string =>
              let (key, given) := e in
              if mem key methods
              then [(key, match given with Some f => Some f | None => default_filename input key end)]
              else [])                                                (* AttributeError: skipped *)
           run.

(* ---- labels of the distributions file (scene.py 3148-3153, 3289-3291) ---- *)
(* the name columns are NumPy fixed-width strings: a value longer than the width is cut; the width is the longest name, at least 18 *)
Definition csv_label (width : nat) (name : string) : string := substring 0 width name.
Definition name_width (names : list string) : nat := fold_right Nat.max 18 (map String.length names).

(* ---- STL assembly ---- *)
Section Stl.
  Context {A : Type}.
  (* _get_two_tris_from_quad *)
  Definition two_tris (split02 : bool) (v0 v1 v2 v3 : A) : list A :=
    if split02 then [v0; v1; v2; v0; v2; v3] else [v0; v1; v3; v1; v2; v3].
  (* index of the first vertex of panel (i, j): section i of the segment, outline interval j; R = section_resolution, no end caps *)
  Definition slot (R i j : nat) : nat := (2 * i * (R - 1) + 2 * j) * 3.
  Definition decode (R v : nat) : nat * nat * nat := ((v / 6) / (R - 1), (v / 6) mod (R - 1), v mod 6).
  Definition num_facets (N R : nat) : nat := N * (R - 1) * 2.
  (* the quadrilateral of panel j between the root-ward and the tip-ward outline (upper side of the loop) *)
  Definition quad_right (root tip : nat -> A) (j : nat) : list A := [tip j; tip (S j); root (S j); root j].
  Definition quad_left (root tip : nat -> A) (j : nat) : list A := [root j; root (S j); tip (S j); tip j].
  (* airplane.py: the facets of the aircraft are the segments' vertex arrays cut into triples, one segment after the other *)
  Fixpoint chunk3 (l : list A) : list (list A) :=
    match l with a :: b :: c :: r => [a; b; c] :: chunk3 r | _ => [] end.
  Definition airplane_facets (segments : list (list A)) : list (list A) := flat_map chunk3 segments.
End Stl.
