(* machupX/wing_segment.py 123-229 (span-wise grid), 679-691 and 1056-1059 (mean chords, section areas),
   airplane.py 872-894 (reference defaults). *)
From Coq Require Import ZArith List Bool Arith.
From MuxV Require Import Base.Num.
Import ListNotations.

Section Grid.
  Context {T : Type} {N : Num T}.
  Local Open Scope num_scope.
  Variable fcos : T -> T.
  Variables (pi half : T).

  Definition ofnat (k : nat) : T := nofZ (Z.of_nat k).

  (* np.linspace(start, stop, num)[k] *)
  Definition linspace (start stop : T) (num k : nat) : T :=
    if Nat.leb num 1 then ofnat k * (stop - start) + start          (* div = 0: y = arange * delta + start *)
    else if Nat.eqb k (num - 1) then stop                            (* endpoint: y[-1] = stop *)
    else ofnat k * ((stop - start) / ofnat (num - 1)) + start.

  (* lines 183-192: node k (1..n) and control point k (0..n-1) of a cosine-clustered section, as a fraction of the section *)
  Definition node_frac (n k : nat) : T := half * (n1 - fcos (linspace n0 pi (n + 1) k)).
  Definition cp_frac (n k : nat) : T :=
    half * (n1 - fcos (linspace (pi / ofnat n) pi n k - pi / (nofZ 2 * ofnat n))).

  (* one section between two cluster points with n control points *)
  Definition sec_nodes (d0 d1 : T) (n : nat) : list T := map (fun k => d0 + node_frac n k * (d1 - d0)) (seq 1 n).
  Definition sec_cps (d0 d1 : T) (n : nat) : list T := map (fun k => d0 + cp_frac n k * (d1 - d0)) (seq 0 n).

  (* lines 171-192: sections = [(d_i, d_{i+1}, sec_N_i)]; sections without control points are skipped *)
  Fixpoint cos_nodes (secs : list (T * T * nat)) : list T :=
    match secs with [] => [] | (d0, d1, n) :: r => sec_nodes d0 d1 n ++ cos_nodes r end.
  Fixpoint cos_cps (secs : list (T * T * nat)) : list T :=
    match secs with [] => [] | (d0, d1, n) :: r => sec_cps d0 d1 n ++ cos_cps r end.
  Definition cosine_grid (secs : list (T * T * nat)) : list T * list T := (n0 :: cos_nodes secs, cos_cps secs).

  (* lines 199-201 *)
  Definition linear_grid (n : nat) : list T * list T :=
    (map (linspace n0 n1 (n + 1)) (seq 0 (n + 1)),
     map (linspace (n1 / (nofZ 2 * ofnat n)) (n1 - n1 / (nofZ 2 * ofnat n)) n) (seq 0 n)).

  (* lines 219-220: even entries are nodes, odd entries control points *)
  Fixpoint evens (l : list T) : list T := match l with [] => [] | x :: r => x :: odds r end
  with odds (l : list T) : list T := match l with [] => [] | _ :: r => evens r end.
  Definition explicit_grid (l : list T) : list T * list T := (evens l, odds l).

  (* lines 227-229: both lists always run left to right along the lifting line *)
  Definition for_side (left_side : bool) (g : list T * list T) : list T * list T :=
    if left_side then (rev (fst g), rev (snd g)) else g.

  (* lines 162-171: allocation of the N control points to the sections, from Python's round() of N*(d_{i+1}-d_i); the excess is taken
     from the root section when it has that many, otherwise one at a time from the (first) longest section *)
  Fixpoint dec_first (m : Z) (l : list Z) : list Z :=
    match l with
    | [] => []
    | x :: r => if (x =? m)%Z then (x - 1)%Z :: r else x :: dec_first m r
    end.
  Definition zmax_list (l : list Z) : Z := fold_right Z.max (hd 0%Z l) l.
  Fixpoint take_from_largest (k : nat) (l : list Z) : list Z :=
    match k with O => l | S k' => take_from_largest k' (dec_first (zmax_list l) l) end.
  Definition alloc (Ncp : Z) (rounded : list Z) : list Z :=
    match rounded with
    | [] => []
    | r0 :: rest =>
        let diff := (fold_left Z.add rounded 0%Z - Ncp)%Z in
        if (0 <=? r0 - diff)%Z then (r0 - diff)%Z :: rest else take_from_largest (Z.to_nat diff) rounded
    end.

  (* lines 1056-1059, 691: mean chord of each section and its planform area *)
  Fixpoint pairwise {A} (f : T -> T -> A) (l : list T) : list A :=
    match l with
    | a :: ((b :: _) as r) => f a b :: pairwise f r
    | _ => []
    end.
  Definition mean_chords (node_chords : list T) : list T := pairwise (fun a b : T => (b + a) / nofZ 2) node_chords.
  Definition areas (b : T) (node_spans : list T) (cbar : list T) : list T :=
    map2 (fun ds c : T => ds * b * c) (pairwise (fun s0 s1 : T => nabs (s1 - s0)) node_spans) cbar.

  (* airplane.py 872-894; per segment: (is_main, counts towards the span (right side or one-sided), semispan, area) *)
  Definition ref_defaults (given_S given_lat given_lon : option T) (segs : list (bool * bool * T * T)) : T * T * T :=
    let S := match given_S with Some s => s | None =>
               fold_left (fun (acc : T) (sg : bool * bool * T * T) => let '(m, _, _, a) := sg in if m then acc + a else acc) segs n0 end in
    let lat := match given_lat with Some l => l | None =>
               fold_left (fun (acc : T) (sg : bool * bool * T * T) => let '(m, c, b, _) := sg in if (m && c)%bool then acc + b * nofZ 2 else acc) segs n0 end in
    let lon := match given_lon with Some l => l | None => S / lat end in
    (S, lon, lat).
End Grid.
