(* binary64 instance of Kernel/Residual/Integrate and tolerance predicates for the case files *)
From Coq Require Import PrimFloat List Bool ZArith String.
From MuxV Require Import Base.Num Base.Vec3 Base.FInst Model.Helpers Model.HelpersF Model.Kernel Model.Residual Model.Integrate.
Import ListNotations.
Local Open Scope float_scope.

Definition fmax (a b : float) : float := if PrimFloat.ltb a b then b else a.
Definition vmaxabs (a : v3 float) : float := fmax (abs (vx a)) (fmax (abs (vy a)) (abs (vz a))).
(* |a-b|_inf <= tol * (|b|_inf + scale) ; NaN never passes *)
Definition v3_near (tol scale : float) (a b : v3 float) : bool :=
  PrimFloat.leb (vmaxabs (vsub a b)) (tol * (vmaxabs b + scale)).
Definition f_near (tol scale a b : float) : bool := PrimFloat.leb (abs (a - b)) (tol * (abs b + scale)).

(* np.nan_to_num on binary64 *)
Definition nan_to_num (x : float) : float :=
  if is_nan x then 0
  else if PrimFloat.eqb x infinity then 0x1.fffffffffffffp+1023
  else if PrimFloat.eqb x neg_infinity then (-0x1.fffffffffffffp+1023) else x.

(* oracle lookup tolerant to rounding differences of the arguments (the model's sums are ordered differently from BLAS / einsum, and the
   comparisons here are to a tolerance anyway): the NEAREST table entry is taken, and it must lie within 2^-30 of the arguments
   (nearest, not first: tables may hold entries for almost equal arguments, e.g. swept and unswept section angles) *)
Definition odist (a b x y : float) : float := abs (a - x) + abs (b - y).
Fixpoint onearest (tbl : list (float * float * float)) (x y : float) (best : float * float) : float * float :=
  match tbl with
  | [] => best
  | (a, b, r) :: t =>
      let d := odist a b x y in
      if PrimFloat.ltb d (fst best) then onearest t x y (d, r) else onearest t x y best
  end.
Definition olookup2_near (tbl : list (float * float * float)) (x y : float) : float :=
  let '(d, r) := onearest tbl x y (infinity, nan) in
  if PrimFloat.leb d (0x1p-30 * (abs x + abs y)) then r else nan.

Definition inv4piF (pi : float) : float := 1 / (4 * pi).
Definition kernelF (pi : float) (diag : bool) (h : hshoe float) : v3 float :=
  vji nan_to_num 1e-13 (inv4piF pi) diag vzero h.
Definition vrowF (pi : float) (i : nat) (row : list (hshoe float)) : list (v3 float) :=
  vji_row nan_to_num 1e-13 (inv4piF pi) i vzero row.
Fixpoint vmatF_from (pi : float) (i : nat) (hs : list (list (hshoe float))) : list (list (v3 float)) :=
  match hs with [] => [] | r :: t => vrowF pi i r :: vmatF_from pi (S i) t end.
Definition vmatF pi hs := vmatF_from pi 0 hs.

Fixpoint all2s {A} (f : float -> A -> A -> bool) (sc : list float) (l1 l2 : list A) : bool :=
  match sc, l1, l2 with
  | [], [], [] => true
  | s :: sc', a :: t1, b :: t2 => f s a b && all2s f sc' t1 t2
  | _, _, _ => false
  end.

(* V_ji: every influence vector within tol relative to the largest entry of its row *)
Definition chk_vmat (tol pi : float) (hs : list (list (hshoe float))) (rowscale : list float) (expect : list (list (v3 float))) : bool :=
  all2s (fun s r e => all2 (v3_near tol s) r e) rowscale (vmatF pi hs) expect.

Section WithScene.
  Variables (at2 : list (float * float * float)) (o : opts) (cs : list (cpt float)) (Ss : list (section float))
            (Vm : list (list (v3 float))).
  Let A2 := olookup2_near at2.
  Definition residualF (g : list float) : list float := residual A2 o cs Ss Vm g.
  Definition jacobianF (g : list float) : list (list float) := jacobian A2 o cs Ss Vm g.
  Definition chk_residual (tol : float) (g scale expect : list float) : bool :=
    all2s (fun s a b => f_near tol s a b) scale (residualF g) expect.
  Definition chk_jacobian (tol : float) (g scale : list float) (expect : list (list float)) : bool :=
    all2s (fun s r e => all2 (f_near tol s) r e) scale (jacobianF g) expect.
  Definition chk_linear (tol : float) (scale : list float) (eA : list (list float)) (eb : list float) : bool :=
    let '(A, b) := lin_system A2 o cs Ss Vm in
    all2s (fun s r e => all2 (f_near tol s) r e) scale A eA && all2s (fun s a e => f_near tol s a e) scale b eb.
End WithScene.

(* affine section model of a (blend of) linear airfoil(s): CL = A*alpha + B *)
Definition lin_section (A B CLa aL0 : float) : section float :=
  mk_section (fun al _ _ => A * al + B) (fun _ _ _ => CLa) (fun _ _ _ => 0) (fun _ _ _ => 0) (fun _ _ => aL0).

(* _calc_invariant_flow_properties for one aircraft: per control point the body offsets from the CG of the control point and of the
   two joints; expected: v_inf_and_rot and the two trailing directions of the live scene *)
From MuxV Require Import Model.Flow.
Definition chk_flow (tol : float) (constrain match_pro : bool) (q : quat float) (v wind w : v3 float)
           (pts : list (v3 float * v3 float * v3 float)) (expect : list (v3 float * v3 float * v3 float)) : bool :=
  Nat.eqb (List.length pts) (List.length expect) &&
  forallb (fun pe : (v3 float * v3 float * v3 float) * (v3 float * v3 float * v3 float) =>
             let '((rc, r0, r1), (ev, e0, e1)) := pe in
             v3_near tol 0 (v_inf_and_rot q v wind w rc) ev &&
             v3_near tol 1 (trailing_dir constrain q (joint_v_inf match_pro q v wind w r0)) e0 &&
             v3_near tol 1 (trailing_dir constrain q (joint_v_inf match_pro q v wind w r1)) e1)
          (combine pts expect).
