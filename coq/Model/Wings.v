(* machupX/airplane.py 711-816 (_sort_segments_into_wings): the grouping of the half-segments of an aircraft into wings (lifting lines).
   A half-segment is described by what the procedure reads: its ID (shared by the two halves of a "both" segment), its side, whether it
   has a mirror image, whether its lateral offset vanishes, whether it continues the tip of another segment (is_continuation), the ID it
   is connected to, and whether its parent has a mirror image.  [segs] is the dictionary of half-segments in insertion order.
   Deviation, stated: a segment connected to its own ID would make the Python loop over the growing list visit the segment it has just
   appended; the model visits the members present when the segment is tried.  The input validation of IDs excludes that case. *)
From Coq Require Import List Bool Arith.
Import ListNotations.

Record hs := mk_hs { sid : nat; rgt : bool; mir : bool; y0 : bool; cont : bool; conn : nat; pmir : bool }.

Definition keyeq (a b : hs) : bool := Nat.eqb (sid a) (sid b) && Bool.eqb (rgt a) (rgt b).
Definition isin (s : hs) (l : list hs) : bool := existsb (keyeq s) l.

(* a left half whose right half sits against it: belongs to the wing of the right half *)
Definition skipped (s : hs) : bool := negb (rgt s) && mir s && y0 s.
(* first loop: the half-segments that start a lifting line *)
Definition is_orig (s : hs) : bool := negb (skipped s) && (negb (cont s) || (mir s && negb (pmir s))).
Definition originals (segs : list hs) : list hs := filter is_orig segs.

(* the left half of the original (looked up by name in the code: same input, same ID) *)
Definition twin (segs : list hs) (o : hs) : option hs := find (fun t => Nat.eqb (sid t) (sid o) && negb (rgt t)) segs.

(* how many times the body of the innermost loops appends s to the wing of o *)
Definition tries (o : hs) (jm : bool) (wing : list hs) (s : hs) : nat :=
  if Nat.eqb (conn s) (sid o) then
    (if negb (mir o) && mir s then 0 else if jm || Bool.eqb (rgt s) (rgt o) then 1 else 0)
  else length (filter (fun c => Nat.eqb (conn s) (sid c) && negb (negb (mir c) && mir s) && Bool.eqb (rgt s) (rgt c)) wing).

(* one pass of the for loop over all half-segments: wing, assigned (wing_ID <> -1), added *)
Fixpoint pass (origs : list hs) (o : hs) (jm : bool) (l : list hs) (wing assigned : list hs) (added : bool) : list hs * list hs * bool :=
  match l with
  | [] => (wing, assigned, added)
  | s :: r =>
      if isin s origs || isin s assigned || negb (cont s) then pass origs o jm r wing assigned added
      else match tries o jm wing s with
           | 0 => pass origs o jm r wing assigned added
           | k => pass origs o jm r (wing ++ repeat s k) (s :: assigned) true
           end
  end.

(* the while loop; every pass but the last assigns at least one more half-segment, so [length segs + 1] passes are enough; running out of
   fuel is reported as None (the case files require Some) *)
Fixpoint grow (fuel : nat) (origs : list hs) (o : hs) (jm : bool) (segs wing assigned : list hs) : option (list hs * list hs) :=
  match fuel with
  | 0 => None
  | S f => let '(w, a, added) := pass origs o jm segs wing assigned false in
           if added then grow f origs o jm segs w a else Some (w, a)
  end.

Definition start_wing (segs : list hs) (o : hs) (assigned : list hs) : list hs * list hs :=
  if mir o && y0 o then
    match twin segs o with
    | Some t => ([o; t], t :: o :: assigned)
    | None => ([o], o :: assigned)
    end
  else ([o], o :: assigned).

Fixpoint build (segs origs todo : list hs) (wings : list (list hs)) (assigned : list hs) : option (list (list hs) * list hs) :=
  match todo with
  | [] => Some (wings, assigned)
  | o :: r => let '(w0, a0) := start_wing segs o assigned in
              match grow (S (length segs)) origs o (y0 o) segs w0 a0 with
              | Some (w, a) => build segs origs r (wings ++ [w]) a
              | None => None
              end
  end.

Definition wings_of (segs : list hs) : option (list (list hs)) := option_map fst (build segs (originals segs) (originals segs) [] []).

(* ---- comparison with the live grouping (which is re-ordered afterwards by _sort_segments_left_to_right): wing by wing, as multisets ---- *)
Definition cnt (s : hs) (l : list hs) : nat := length (filter (keyeq s) l).
Definition same_members (a b : list hs) : bool :=
  Nat.eqb (length a) (length b) && forallb (fun s => Nat.eqb (cnt s a) (cnt s b)) (a ++ b).
Fixpoint same_wings (a b : list (list hs)) : bool :=
  match a, b with
  | [], [] => true
  | x :: r, y :: q => same_members x y && same_wings r q
  | _, _ => false
  end.
(* live: the wings as lists of (ID, right side), and the number of wings the aircraft reports *)
Definition key_hs (k : nat * bool) : hs := mk_hs (fst k) (snd k) false false false 0 false.
Definition chk_wings (segs : list hs) (live : list (list (nat * bool))) (num_wings : nat) : bool :=
  match wings_of segs with
  | Some ws => same_wings ws (map (map key_hs) live) && Nat.eqb (length ws) num_wings
  | None => false
  end.
