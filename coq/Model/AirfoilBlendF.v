From Coq Require Import PrimFloat List Bool ZArith Arith.
From MuxV Require Import Base.Num Base.FInst Model.AirfoilBlend.
Import ListNotations.
Local Open Scope float_scope.

(* fvals: per control point, the coefficient of every airfoil at that control point *)
Definition fv_of (fvals : list (list float)) (i k : nat) : float := nth k (nth i fvals []) nan.
Definition chk_blend (left_side : bool) (cps spans : list float) (fvals : list (list float)) (expect : list float) : bool :=
  all2 fbits_eq (map (blend_at left_side cps spans (fv_of fvals)) (seq 0 (List.length cps))) expect.
Definition chk_slices (left_side : bool) (cps spans : list float) (expect : list (nat * nat)) : bool :=
  let s := slices left_side cps spans in
  Nat.eqb (List.length s) (List.length expect) &&
  forallb (fun p => Nat.eqb (fst (fst p)) (fst (snd p)) && Nat.eqb (snd (fst p)) (snd (snd p))) (combine s expect).
