(* machupX/wing_segment.py: the quarter-chord curve of a wing segment.
     87-121   connection offsets (dx, dy, dz, mirrored y_offset)
     243-426  span-wise getters for twist / dihedral / sweep with their per-side signs, list of discontinuities
     263-287  quarter-chord points: table of (span fraction, x, y, z)
     848-870  attachment point on the parent (root with the parent's y offset removed, or tip)
     914-996  get_root_loc, _get_quarter_chord_loc (piece-wise integration between discontinuities; interpolation of points)
     999-1063 unswept section vectors, lifting-line location (ll_offset along the unswept chord line)
   scipy.integrate.quad is an oracle [q a b]: over R it is the Riemann integral of the documented integrand. *)
From Coq Require Import ZArith List Bool.
From MuxV Require Import Base.Num Base.Vec3 Base.Interp.
Import ListNotations.

Section QCurve.
  Context {T : Type} {N : Num T}.
  Local Open Scope num_scope.
  Variables (fcos fsin ftan : T -> T) (d2r : T).

  (* a span-wise distribution given as a number or as a table (angles in degrees) *)
  Inductive dist := DConst (c : T) | DTab (tbl : list (T * T)).

  Definition rad_tbl (tbl : list (T * T)) : list (T * T) := map (fun p => (fst p, snd p * d2r)) tbl.
  Definition angle_val (d : dist) (s : T) : T :=
    match d with DConst c => c * d2r | DTab tbl => interp s (rad_tbl tbl) end.
  Definition plain_val (d : dist) (s : T) : T :=
    match d with DConst c => c | DTab tbl => interp s tbl end.

  (* 308, 362, 417: twist has the same sign on both sides; dihedral is flipped on the right, sweep on the left *)
  Definition get_twist (d : dist) (s : T) : T := angle_val d s.
  Definition get_dihedral (left_side : bool) (d : dist) (s : T) : T := if left_side then angle_val d s else - angle_val d s.
  Definition get_sweep (left_side : bool) (d : dist) (s : T) : T := if left_side then - angle_val d s else angle_val d s.

  (* the three integrands of lines 963-969 *)
  Definition ig_x (left_side : bool) (sw : dist) (s : T) : T := ftan (get_sweep left_side sw s).
  Definition ig_y (left_side : bool) (di : dist) (s : T) : T := - fcos (get_dihedral left_side di s).
  Definition ig_z (left_side : bool) (di : dist) (s : T) : T := - fsin (get_dihedral left_side di s).

  (* 363, 418-426: abscissae of the dihedral and sweep tables, then 0 and 1, without repetition, sorted *)
  Definition xs_of (d : dist) : list T := match d with DConst _ => [] | DTab tbl => map fst tbl end.
  Definition memb (x : T) (l : list T) : bool := existsb (fun y => y =? x) l.
  Definition add_new (acc l : list T) : list T := fold_left (fun a x => if memb x a then a else a ++ [x]) l acc.
  Fixpoint insert (x : T) (l : list T) : list T :=
    match l with [] => [x] | y :: r => if x <=? y then x :: l else y :: insert x r end.
  Definition isort (l : list T) : list T := fold_right insert [] l.
  Definition mk_discont (di sw : dist) : list T := isort (add_new (add_new (add_new [] (xs_of di)) (xs_of sw)) [n0; n1]).

  (* 954-970 for one component: q a b stands for quad(integrand, a, b)[0] *)
  Fixpoint accum (q : T -> T -> T) (b : T) (prev : T) (rest : list T) (s : T) (acc : T) : T :=
    match rest with
    | [] => acc
    | d :: r => if d <? s then accum q b d r s (acc + q prev d * b)
                else if s <=? d then acc + q prev s * b
                else accum q b d r s acc
    end.
  Definition ds_standard (qx qy qz : T -> T -> T) (b : T) (disc : list T) (s : T) : v3 T :=
    match disc with
    | [] => vzero
    | d0 :: r => V3 (accum qx b d0 r s n0) (accum qy b d0 r s n0) (accum qz b d0 r s n0)
    end.
  (* 973-976 *)
  Definition qc_standard (left_side : bool) (root : v3 T) (qx qy qz : T -> T -> T) (b : T) (disc : list T) (s : T) : v3 T :=
    let ds := ds_standard qx qy qz b disc s in if left_side then vadd root ds else vsub root ds.

  (* 269-287: cumulative length in the y-z plane; the table starts with a zero row *)
  Fixpoint cum_len (py pz acc : T) (pts : list (v3 T)) : list T :=
    match pts with
    | [] => []
    | p :: r => let acc' := acc + nsqrt ((vy p - py) * (vy p - py) + (vz p - pz) * (vz p - pz)) in acc' :: cum_len (vy p) (vz p) acc' r
    end.
  Definition qc_semispan (pts : list (v3 T)) : T := last (cum_len n0 n0 n0 pts) n0.
  Definition qc_table (pts : list (v3 T)) : list (T * v3 T) :=
    let b := qc_semispan pts in (n0 / b, vzero) :: combine (map (fun c => c / b) (cum_len n0 n0 n0 pts)) pts.
  Definition column (f : v3 T -> T) (tbl : list (T * v3 T)) : list (T * T) := map (fun r => (fst r, f (snd r))) tbl.
  (* 981-990 *)
  Definition qc_points (left_side : bool) (root : v3 T) (tbl : list (T * v3 T)) (s : T) : v3 T :=
    let y := interp s (column vy tbl) in
    vadd root (V3 (interp s (column vx tbl)) (if left_side then - y else y) (interp s (column vz tbl))).

  (* 111-121 *)
  Definition delta_origin (left_side : bool) (dx dy dz yoff : T) : v3 T :=
    V3 dx (if left_side then dy - yoff else dy + yoff) dz.
  (* 922-925 (a real segment, ID <> 0) *)
  Definition root_loc (origin delta : v3 T) : v3 T := vadd origin delta.
  (* 861-870: where a child is attached *)
  Definition attach_at_root (parent_left : bool) (parent_root : v3 T) (parent_yoff : T) : v3 T :=
    V3 (vx parent_root) (if parent_left then vy parent_root + parent_yoff else vy parent_root - parent_yoff) (vz parent_root).

  (* 999-1047 *)
  Definition unswept_axial (tw di : T) : v3 T := V3 (- fcos tw) (- fsin tw * fsin di) (fsin tw * fcos di).
  Definition unswept_normal (tw di : T) : v3 T := V3 (- fsin tw) (fcos tw * fsin di) (- fcos tw * fcos di).
  Definition unswept_span (di : T) : v3 T := V3 n0 (fcos di) (fsin di).
  (* 1059-1060 *)
  Definition ll_loc (qc : v3 T) (offset chord : T) (ua : v3 T) : v3 T := vadd qc (vscale (offset * chord) ua).
End QCurve.
Arguments dist T : clear implicits.

(* 316-343: section dihedral of a curve given by points: the curve is differenced over a small window of span fractions and the angle
   of the chord in the y-z plane is taken with its quadrant, per side (the curve leaves the root along -[cos, sin] on the left and
   +[cos, sin] on the right).  numpy.arctan2 is an oracle. *)
Section QPoints.
  Context {T : Type} {N : Num T}.
  Local Open Scope num_scope.
  Variable fatan2 : T -> T -> T.
  Definition fd_window (s : T) : T * T :=
    let h := nofZ 5 / nofZ 1000 in
    let h2 := n1 / nofZ 100 in
    if s <? h then (s, s + h2) else if nofZ 995 / nofZ 1000 <? s then (s - h2, s) else (s - h, s + h).
  Definition dihedral_points (left_side : bool) (p0 p1 : v3 T) : T :=
    if left_side then fatan2 (- (vz p1 - vz p0)) (- (vy p1 - vy p0)) else fatan2 (vz p1 - vz p0) (vy p1 - vy p0).
  (* 398-402: section sweep of the same chord, with the per-side sign of a sweep given as an angle (negated on the left) *)
  Variables (fatan fsq : T -> T).      (* np.arctan; the scalar power x**2, which NumPy evaluates with pow: an oracle, x*x over R *)
  Definition sweep_points (left_side : bool) (p0 p1 : v3 T) : T :=
    let dy := vy p1 - vy p0 in
    let dz := vz p1 - vz p0 in
    let a := - fatan ((vx p1 - vx p0) / nsqrt (fsq dy + fsq dz)) in
    if left_side then - a else a.
End QPoints.
