(* machupX/scene.py 440-530: the Earth-frame arrays of a scene are assembled from every aircraft's body-frame arrays, position and
   attitude.  A control point sees the horseshoes of its own aircraft on their effective lines (with the effective joints) and the
   horseshoes of every other aircraft on the actual lines (with the actual joints). *)
From Coq Require Import ZArith List Bool.
From MuxV Require Import Base.Num Base.Vec3 Model.Helpers.
Import ListNotations.

Section Assemble.
  Context {T : Type} {N : Num T}.
  Local Open Scope num_scope.

  (* 451-456, 471-484: body-frame point of an aircraft at position p with attitude q, in Earth-fixed coordinates *)
  Definition to_earth (q : quat T) (p x : v3 T) : v3 T := vadd p (quat_inv_trans q x).
  (* 457-468: directions are only turned *)
  Definition dir_to_earth (q : quat T) (u : v3 T) : v3 T := quat_inv_trans q u.
  (* the node of horseshoe j as control point i sees it *)
  Definition node_seen (same_aircraft : bool) (q : quat T) (p : v3 T) (effective actual : v3 T) : v3 T :=
    to_earth q p (if same_aircraft then effective else actual).
  (* 487-513: vector from the node to the control point *)
  Definition r_vec (pc node : v3 T) : v3 T := vsub pc node.
End Assemble.
