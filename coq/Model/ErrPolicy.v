(* machupX/scene.py 1449-1532 (solver dispatch and the two try blocks of solve_forces),
   671-702 (scipy path), 3830-3884 (set_err_state / _handle_error) as a decision table. *)
From Coq Require Import List Bool String.
Import ListNotations.

Inductive err_instr := IRaise | IWarn | IIgnore | IBad.        (* "raise" / "warn" / "ignore" / anything else *)
Inductive solver_kind := SNonlinear | SLinear | SScipy | SOther.
Inductive guess := GLinear | GPrevious | GOtherGuess.

(* what the numerical kernels did on this call (oracle facts) *)
Record run_facts := {
  n_aircraft : nat;
  fsolve_ok : bool;           (* scipy fsolve reported ier = 1 *)
  newton_ok : bool;           (* the Newton loop exited normally (Converged) *)
  integrate_db_error : bool   (* a DatabaseBoundsError surfaced while integrating *)
}.

Inductive outcome :=
| Loads (warnings : nat) (from_converged : bool)     (* result dictionary returned *)
| RaisedNotConverged
| RaisedDatabaseBounds
| RaisedRuntimeError.

(* which stages run: (fsolve, linear, newton) *)
Definition stages (s : solver_kind) (g : guess) (f : run_facts) : bool * bool * bool :=
  let fs := match s with SScipy => true | _ => false end in
  let fs_failed := (fs && negb (fsolve_ok f))%bool in
  let lin := match s, g with
             | SLinear, _ => true
             | SNonlinear, GLinear => true
             | _, _ => fs_failed
             end in
  let newt := match s with SNonlinear => true | _ => fs_failed end in
  (fs, lin, newt).

(* _handle_error for one custom exception under instruction i: None = execution continues *)
Definition handle (i : err_instr) (exc : outcome) : option outcome * nat :=
  match i with
  | IRaise => (Some exc, 0)
  | IWarn => (None, 1)
  | IIgnore => (None, 0)
  | IBad => (Some RaisedRuntimeError, 0)
  end.

Definition solve_forces_outcome (s : solver_kind) (g : guess) (nc db : err_instr) (f : run_facts) : outcome :=
  if Nat.eqb (n_aircraft f) 0 then RaisedRuntimeError else
  let '(fs, lin, newt) := stages s g f in
  let solved_ok := match s with
                   | SLinear => true
                   | SNonlinear => newton_ok f
                   | SScipy => (fsolve_ok f || newton_ok f)%bool
                   | SOther => false
                   end in
  (* first try block: the only custom exception raised there is SolverNotConvergedError from the Newton loop *)
  let '(r1, w1) := if (newt && negb (newton_ok f))%bool then handle nc RaisedNotConverged else (None, 0) in
  match r1 with
  | Some o => o
  | None =>
      (* second try block: integration *)
      let '(r2, w2) := if integrate_db_error f then handle db RaisedDatabaseBounds else (None, 0) in
      match r2 with
      | Some o => o
      | None => Loads (w1 + w2) solved_ok
      end
  end.

(* set_err_state (scene.py 3883-3914): every call REPLACES the state; what a call does not mention goes back to "raise" *)
Definition err_state := (err_instr * err_instr)%type.                 (* (not_converged, database_bounds) *)
Definition set_err_state (call : option err_instr * option err_instr) : err_state :=
  (match fst call with Some i => i | None => IRaise end, match snd call with Some i => i | None => IRaise end).
(* the state after a history of calls on a fresh scene (the constructor calls set_err_state() itself) *)
Definition err_state_after (calls : list (option err_instr * option err_instr)) : err_state :=
  fold_left (fun _ c => set_err_state c) calls (IRaise, IRaise).
