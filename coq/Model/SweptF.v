From Coq Require Import PrimFloat List Bool ZArith.
From MuxV Require Import Base.Num Base.Vec3 Base.FInst Model.Reid Model.Swept.
Import ListNotations.
Local Open Scope float_scope.

Definition v3_closeS (tol : float) (a b : v3 float) : bool :=
  fclose 0 tol (vx a) (vx b) && fclose 0 tol (vy a) (vy b) && fclose 0 tol (vz a) (vz b).
(* the three arrays of unit vectors a segment stores at its nodes (components of unit vectors: absolute tolerance) *)
Definition chk_swept (tol : float) (ll ua0 : list (v3 float)) (e : list (v3 float * v3 float * v3 float)) : bool :=
  let r := swept_triads ll ua0 in
  Nat.eqb (List.length r) (List.length e) &&
  forallb (fun p => let '(ua, un, us) := fst p in let '(ea, en, es) := snd p in
                    v3_closeS tol ua ea && v3_closeS tol un en && v3_closeS tol us es) (combine r e).

(* the triads at the control points from the node arrays (span fractions ascending) *)
Definition chk_cp_triads (tol : float) (xs : list float) (uas uss : list (v3 float)) (cps : list float)
           (e : list (v3 float * v3 float * v3 float)) : bool :=
  Nat.eqb (List.length cps) (List.length e) &&
  forallb (fun p => let '(ua, un, us) := cp_triad xs uas uss (fst p) in let '(ea, en, es) := snd p in
                    v3_closeS tol ua ea && v3_closeS tol un en && v3_closeS tol us es) (combine cps e).
