From Coq Require Import PrimFloat List Bool ZArith.
From MuxV Require Import Base.Num Base.Vec3 Base.FInst Model.Helpers Model.AeroState Model.Restore.
Import ListNotations.
Local Open Scope float_scope.

Definition frame_eqb (a b : frame_in) : bool :=
  match a, b with FBody, FBody | FStab, FStab | FWind, FWind => true | _, _ => false end.
Definition v3cl (a b : v3 float) : bool :=
  fclose 0x1p-40 0x1p-40 (vx a) (vx b) && fclose 0x1p-40 0x1p-40 (vy a) (vy b) && fclose 0x1p-40 0x1p-40 (vz a) (vz b).
Definition q4cl (a b : quat float) : bool :=
  fclose 0x1p-40 0x1p-40 (qw a) (qw b) && fclose 0x1p-40 0x1p-40 (qx a) (qx b) && fclose 0x1p-40 0x1p-40 (qy a) (qy b) && fclose 0x1p-40 0x1p-40 (qz a) (qz b).
(* the complete state the object holds after state_derivatives / pitch_trim_using_orientation(set_trim_state=False) is what the model's
   restore gives from the state before (no trigonometric function is evaluated for body rates: the tables are empty) *)
Definition chk_restore (before after : fstate float) : bool :=
  let r := restore (fun _ => nan) (fun _ => nan) (fun _ => nan) (fun _ _ => nan) nan before in
  v3cl (f_p r) (f_p after) && q4cl (f_q r) (f_q after) && v3cl (f_v r) (f_v after) && v3cl (f_w r) (f_w after) && frame_eqb (f_frame r) (f_frame after).
