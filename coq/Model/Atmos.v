(* machupX/standard_atmosphere.py 18-175, written once over [Num T].
   exp and ** are section variables (R: exp / Rpower; binary64: oracle tables of NumPy's results). *)
From Coq Require Import ZArith List Bool.
From MuxV Require Import Base.Num Base.Interp.
Import ListNotations.

Section Atmos.
  Context {T : Type} {N : Num T}.
  Local Open Scope num_scope.
  Variables (fexp : T -> T) (fpow : T -> T -> T).

  (* constants of StandardAtmosphere.__init__ (lines 23-36) and the literals used in the methods *)
  Record atm := {
    aH_b : list T; aL_M_b : list T; aT_M_b : list T;
    ar_0 : T; ag_0 : T; aM_0 : T; aR_star : T; aP_0 : T; aS : T; abeta : T; agamma : T;
    aT_0 : T;                       (* 15 *)
    aK : T;                         (* 273.15 *)
    aLtol : T;                      (* 1e-6: "isothermal" threshold on the lapse rate *)
    aZmax : T;                      (* 86000.0 *)
    a_one_p_five : T;               (* 1.5 *)
    c_ft : T;                       (* 0.3048 *)
    c_P : T;                        (* 0.02088543815038 lbf/ft^2 per Pa *)
    c_rho : T;                      (* 0.0019403203 slug/ft^3 per kg/m^3 *)
    c_mu : T;                       (* 0.020885434273039 *)
    c_nine : T; c_five : T          (* 9.0, 5.0 *)
  }.
  Variable A : atm.

  (* lines 174-175 *)
  Definition geopotential (Z : T) : T := (ar_0 A * Z) / (ar_0 A + Z).

  (* lines 160-162 (after the range-check repair: both unit systems) *)
  Definition in_range (Z : T) : bool := negb (aZmax A <? Z).

  (* line 44, SI value *)
  Definition T_SI_of_H (H : T) : T := interp H (combine (aH_b A) (aT_M_b A)) + aT_0 A + aK A.

  (* one pass of the [while] body, lines 70-76 *)
  Definition layer_factor (Hb Hb1 L Tm H : T) : T :=
    let Tb := aT_0 A + Tm + aK A in
    let Hlim := if Hb1 <? H then Hb1 else H in        (* Python min(H, Hb1) *)
    if nabs L <? aLtol A then
      fexp (((- ag_0 A) * aM_0 A * (Hlim - Hb)) / (aR_star A * Tb))
    else
      let e := (ag_0 A * aM_0 A) / (aR_star A * L) in
      fpow (Tb / (Tb + L * (Hlim - Hb))) e.

  (* lines 65-78: layers = [(H_b[b], H_b[b+1], L_M_b[b], T_M_b[b])] for b = 0..; loop stops at the
     first layer whose base is not below H *)
  Fixpoint press (layers : list (T * T * T * T)) (H P : T) : T :=
    match layers with
    | [] => P
    | (Hb, Hb1, L, Tm) :: rest =>
        if Hb <? H then press rest H (P * layer_factor Hb Hb1 L Tm H) else P
    end.

  Fixpoint mk_layers (Hs Ls Tms : list T) : list (T * T * T * T) :=
    match Hs, Ls, Tms with
    | Hb :: ((Hb1 :: _) as Hs'), L :: Ls', Tm :: Tms' => (Hb, Hb1, L, Tm) :: mk_layers Hs' Ls' Tms'
    | _, _, _ => []
    end.
  Definition layers : list (T * T * T * T) := mk_layers (aH_b A) (aL_M_b A) (aT_M_b A).

  Definition P_SI_of_H (H : T) : T := press layers H (aP_0 A).

  (* SI quantities at geometric height Z (metres) *)
  Definition T_SI (Z : T) := T_SI_of_H (geopotential Z).
  Definition P_SI (Z : T) := P_SI_of_H (geopotential Z).
  Definition rho_of (P Tk : T) : T := P * aM_0 A / (aR_star A * Tk).                 (* line 100 *)
  Definition mu_of (Tk : T) : T := abeta A * fpow Tk (a_one_p_five A) / (Tk + aS A).   (* line 117 *)
  Definition a_of (Tk : T) : T := nsqrt (agamma A * aR_star A * Tk / aM_0 A).          (* line 134 *)
  Definition rho_SI (Z : T) := rho_of (P_SI Z) (T_SI Z).
  Definition mu_SI (Z : T) := mu_of (T_SI Z).
  Definition a_SI (Z : T) := a_of (T_SI Z).
  Definition nu_SI (Z : T) := mu_SI Z / rho_SI Z.

  (* English: h in feet -> Z = h*0.3048; results converted exactly as the code does (lines 46-49,
     83-86, 96-105, 114-122, 131-139) *)
  Definition T_EN (h : T) : T := c_nine A / c_five A * T_SI (h * c_ft A).
  Definition P_EN (h : T) : T := P_SI (h * c_ft A) * c_P A.
  Definition rho_EN (h : T) : T :=
    let P := P_EN h / c_P A in let Tk := T_EN h * c_five A / c_nine A in rho_of P Tk * c_rho A.
  Definition mu_EN (h : T) : T := let Tk := T_EN h * c_five A / c_nine A in mu_of Tk * c_mu A.
  Definition a_EN (h : T) : T := let Tk := T_EN h * c_five A / c_nine A in a_of Tk / c_ft A.
  Definition nu_EN (h : T) : T := mu_EN h / rho_EN h.
End Atmos.
