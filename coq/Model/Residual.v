(* machupX/scene.py 557-668 (flow), 705-797 (residual), 800-917 (linear system, Jacobian, Newton). *)
From Coq Require Import ZArith List Bool.
From MuxV Require Import Base.Num Base.Vec3 Model.Kernel.
Import ListNotations.

Section Residual.
  Context {T : Type} {N : Num T}.
  Local Open Scope num_scope.
  Variable fatan2 : T -> T -> T.

  (* solver options, scene.py 82-87 *)
  Record opts := mk_opts { use_swept : bool; use_total : bool; use_in_plane : bool; match_pro : bool }.
  Variable O : opts.

  (* per-control-point data, all vectors in the Earth frame *)
  Record cpt := mk_cpt {
    cdl : v3 T; cua : v3 T; cun : v3 T; cus : v3 T;
    cdS : T; ccbar : T; cnu : T; csos : T; ccsi : T;      (* ccsi = 1/cos(section sweep) *)
    cvinf : v3 T;                                          (* wind - aircraft velocity, line 571 *)
    cvrot : v3 T                                           (* -(omega x r_CG), line 569 *)
  }.
  (* section model at one control point (airfoil_db through the WingSegment coefficient getters): oracle *)
  Record section := mk_section {
    sCL : T -> T -> T -> T; sCLa : T -> T -> T -> T; sCLRe : T -> T -> T -> T; sCLM : T -> T -> T -> T;
    saL0 : T -> T -> T }.

  Definition vinf_rot (c : cpt) : v3 T := vadd (cvinf c) (cvrot c).                   (* line 572 *)
  (* line 728 *)
  Definition v_local (c : cpt) (Vr : list (v3 T)) (g : list T) : v3 T := vadd (vinf_rot c) (induced Vr g).
  (* P_in_plane v = v - u_s (u_s . v), lines 519, 737 *)
  Definition in_plane (c : cpt) (v : v3 T) : v3 T := vsub v (vscale (vdot (cus c) v) (cus c)).

  (* everything _get_section_lift derives at one control point from the local velocity *)
  Record secstate := mk_ss { s_vip : v3 T; s_V2 : T; s_V : T; s_Re : T; s_M : T; s_va : T; s_vn : T; s_alpha : T;
                             s_CL : T; s_CLa : T; s_CLRe : T; s_CLM : T }.
  Definition sec_state (c : cpt) (sc : section) (v : v3 T) : secstate :=
    let vip := if use_in_plane O then in_plane c v else v in
    let V2 := vdot vip vip in
    let V := nsqrt V2 in
    let Re := V * ccbar c / cnu c in
    let M := V / csos c in
    let va := vdot v (cua c) in
    let vn := vdot v (cun c) in
    let al := fatan2 vn va in
    let CLa := sCLa sc al Re M in
    let CL0 := sCL sc al Re M in
    let aL0 := saL0 sc Re M in
    (* line 797, applied unless match_machup_pro *)
    let CL := if (use_swept O && negb (match_pro O))%bool then CL0 + CLa * (aL0 - aL0 * ccsi c) else CL0 in
    mk_ss vip V2 V Re M va vn al CL CLa (sCLRe sc al Re M) (sCLM sc al Re M).

  (* freestream speed squared used when use_total_velocity is off (lines 775, 789, 791, 888, 890) *)
  Definition Vinf_of (v : v3 T) : T := nsqrt (vdot v v).
  Definition Vinf_raw (c : cpt) : T := Vinf_of (cvinf c).                                   (* _V_inf *)
  Definition Vinf_ip (c : cpt) : T := Vinf_of (in_plane c (cvinf c)).                       (* _V_inf_in_plane *)
  Definition Vinf_sel (c : cpt) : T := if use_in_plane O then Vinf_ip c else Vinf_raw c.
  Definition lift_V2 (c : cpt) (s : secstate) : T :=
    if match_pro O then Vinf_raw c * Vinf_raw c
    else if use_total O then s_V2 s else Vinf_sel c * Vinf_sel c.

  (* lines 715-723: residual at one control point given its row of influence vectors *)
  Definition wvec (c : cpt) (v : v3 T) : v3 T := vcross v (cdl c).
  Definition residual_at (c : cpt) (sc : section) (Vr : list (v3 T)) (g : list T) (gi : T) : T :=
    let v := v_local c Vr g in
    let s := sec_state c sc v in
    nofZ 2 * vnorm (wvec c v) * gi - lift_V2 c s * s_CL s * cdS c.

  (* one entry of the Jacobian, lines 846-893 *)
  (* NOTE (modelled as coded): three NumPy broadcasts in _solve_nonlinear index by the *column* j instead of the
     row i: line 847 np.matmul(P_in_plane, V_ji[...]) projects V_ji[i,j] with the spanwise vector of section j;
     line 867 np.cross(V_ji, self._dl) uses dl of horseshoe j; line 873 multiplies by c_bar of section j.
     The exact derivative of the residual uses the quantities of control point i; the assembled matrix is
     therefore only an approximate Jacobian.  This affects the convergence rate, not the converged root. *)
  Definition jac_entry (c : cpt) (s : secstate) (v : v3 T) (gi : T) (diag : bool) (Vraw : v3 T) (cj : cpt) : T :=
    let V := if use_in_plane O then in_plane cj Vraw else Vraw in
    let w := wvec c v in
    let wm := vnorm w in
    let viji := vdot (s_vip s) V in
    let t1 := (nofZ 2 * gi / wm) * vdot w (vcross V (cdl cj)) in
    let t2 := if use_total O then t1 - (nofZ 2 * cdS c * s_CL s) * viji else t1 in
    let CLgRe := s_CLRe s * ccbar cj / (cnu c * s_V s) * viji in
    let CLgM := s_CLM s / (csos c * s_V s) * viji in
    let CLga := s_CLa s * (s_va s * vdot V (cun c) - s_vn s * vdot V (cua c)) / (s_vn s * s_vn s + s_va s * s_va s) in
    let V2 := if use_total O then s_V2 s else Vinf_sel c * Vinf_sel c in
    let t3 := t2 - (V2 * cdS c) * (CLga + CLgRe + CLgM) in
    if diag then t3 + nofZ 2 * wm else t3.

  Fixpoint jac_row_from (j i : nat) (c : cpt) (s : secstate) (v : v3 T) (gi : T) (Vr : list (v3 T)) (cols : list cpt) : list T :=
    match Vr, cols with
    | V :: r, cj :: cr => jac_entry c s v gi (Nat.eqb i j) V cj :: jac_row_from (Datatypes.S j) i c s v gi r cr
    | _, _ => []
    end.
  Definition jac_row (i : nat) (c : cpt) (sc : section) (Vr : list (v3 T)) (cols : list cpt) (g : list T) (gi : T) : list T :=
    let v := v_local c Vr g in jac_row_from 0 i c (sec_state c sc v) v gi Vr cols.

  (* whole-scene residual and Jacobian: control points, their sections and their influence rows zipped *)
  Fixpoint residual_from (cs : list cpt) (Ss : list section) (Vm : list (list (v3 T))) (g gs : list T) : list T :=
    match cs, Ss, Vm, gs with
    | c :: cs', sc :: Ss', Vr :: Vm', gi :: gs' => residual_at c sc Vr g gi :: residual_from cs' Ss' Vm' g gs'
    | _, _, _, _ => []
    end.
  Definition residual (cs : list cpt) (Ss : list section) (Vm : list (list (v3 T))) (g : list T) : list T :=
    residual_from cs Ss Vm g g.
  Fixpoint jacobian_from (i : nat) (cols : list cpt) (cs : list cpt) (Ss : list section) (Vm : list (list (v3 T))) (g gs : list T) : list (list T) :=
    match cs, Ss, Vm, gs with
    | c :: cs', sc :: Ss', Vr :: Vm', gi :: gs' => jac_row i c sc Vr cols g gi :: jacobian_from (Datatypes.S i) cols cs' Ss' Vm' g gs'
    | _, _, _, _ => []
    end.
  Definition jacobian cs Ss Vm g := jacobian_from 0 cs cs Ss Vm g g.

  (* np.linalg.norm of a vector *)
  Definition norm2 (l : list T) : T := nsqrt (nsum (map (fun x => x * x) l)).

  (* ---- linear system of _solve_linear, lines 810-827, from the freestream section properties ---- *)
  Record linstate := mk_ls { l_CL : T; l_CLa : T }.
  Definition lin_state (c : cpt) (sc : section) : linstate :=
    let vr := vinf_rot c in
    let Re := (if use_in_plane O then Vinf_of (in_plane c vr) else Vinf_raw c) * ccbar c / cnu c in   (* lines 642-646 *)
    let M := Vinf_sel c / csos c in
    let al := fatan2 (vdot vr (cun c)) (vdot vr (cua c)) in                                        (* lines 649-651 *)
    let CLa := sCLa sc al Re M in
    let CL0 := sCL sc al Re M in
    let aL0 := saL0 sc Re M in
    mk_ls (if use_swept O then CL0 + CLa * (aL0 - aL0 * ccsi c) else CL0) CLa.                      (* lines 665-666 *)
  Definition lin_entry (c : cpt) (ls : linstate) (diag : bool) (V : v3 T) : T :=
    let a := (- (Vinf_sel c * l_CLa ls * cdS c)) * vdot V (cun c) in
    if diag then a + nofZ 2 * vnorm (vcross (vinf_rot c) (cdl c)) else a.
  Definition lin_rhs (c : cpt) (ls : linstate) : T := Vinf_sel c * Vinf_sel c * cdS c * l_CL ls.
  Fixpoint lin_row_from (j i : nat) (c : cpt) (ls : linstate) (Vr : list (v3 T)) : list T :=
    match Vr with
    | [] => []
    | V :: r => lin_entry c ls (Nat.eqb i j) V :: lin_row_from (Datatypes.S j) i c ls r
    end.
  Fixpoint lin_system_from (i : nat) (cs : list cpt) (Ss : list section) (Vm : list (list (v3 T))) : list (list T) * list T :=
    match cs, Ss, Vm with
    | c :: cs', sc :: Ss', Vr :: Vm' =>
        let ls := lin_state c sc in
        let '(A, b) := lin_system_from (Datatypes.S i) cs' Ss' Vm' in
        (lin_row_from 0 i c ls Vr :: A, lin_rhs c ls :: b)
    | _, _, _ => ([], [])
    end.
  Definition lin_system cs Ss Vm := lin_system_from 0 cs Ss Vm.

  (* ---- Newton iteration of _solve_nonlinear, lines 851-913 ---- *)
  Variable solve : list (list T) -> list T -> list T.     (* np.linalg.solve: oracle *)
  Variables (conv relax : T) (max_iter : nat).
  Inductive nres := Converged (g : list T) (iters : nat) | NotConverged (g : list T) (iters : nat).

  Definition newton_update (cs : list cpt) (Ss : list section) (Vm : list (list (v3 T))) (g : list T) : list T :=
    let R := residual cs Ss Vm g in
    let dG := solve (jacobian cs Ss Vm g) (map nopp R) in
    map2 (fun x d => x + relax * d) g dG.

  (* [err] is the residual norm measured before the last update (100 initially); fuel = max_iter *)
  Fixpoint newton (fuel : nat) (iter : nat) (err : T) cs Ss Vm (g : list T) : nres :=
    if conv <? err then
      match fuel with
      | 0 => NotConverged g iter
      | Datatypes.S f =>
          let e := norm2 (residual cs Ss Vm g) in
          let g' := newton_update cs Ss Vm g in
          if Nat.leb max_iter (Datatypes.S iter) then NotConverged g' (Datatypes.S iter)
          else newton f (Datatypes.S iter) e cs Ss Vm g'
      end
    else Converged g iter.
  Definition solve_nonlinear cs Ss Vm g0 := newton max_iter 0 (nofZ 100) cs Ss Vm g0.
  Definition solve_linear cs Ss Vm := let '(A, b) := lin_system cs Ss Vm in solve A b.
End Residual.
Arguments cpt T : clear implicits.
Arguments section T : clear implicits.
Arguments secstate T : clear implicits.
Arguments nres T : clear implicits.
