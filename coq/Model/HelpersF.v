(* binary64 instantiation of Model/Helpers.v and the comparison predicates used by case files *)
From Coq Require Import PrimFloat List Bool ZArith.
From MuxV Require Import Base.Num Base.Vec3 Base.FInst Model.Helpers.
Import ListNotations.
Local Open Scope float_scope.

Definition v3_bits (a b : v3 float) : bool :=
  fbits_eq (vx a) (vx b) && fbits_eq (vy a) (vy b) && fbits_eq (vz a) (vz b).
Definition q4_bits (a b : quat float) : bool :=
  fbits_eq (qw a) (qw b) && fbits_eq (qx a) (qx b) && fbits_eq (qy a) (qy b) && fbits_eq (qz a) (qz b).
Definition v3_close (rt at_ : float) (a b : v3 float) : bool :=
  fclose rt at_ (vx a) (vx b) && fclose rt at_ (vy a) (vy b) && fclose rt at_ (vz a) (vz b).
Definition q4_close (rt at_ : float) (a b : quat float) : bool :=
  fclose rt at_ (qw a) (qw b) && fclose rt at_ (qx a) (qx b) && fclose rt at_ (qy a) (qy b) && fclose rt at_ (qz a) (qz b).

Definition chk_trans (q : quat float) (v e : v3 float) := v3_bits (quat_trans q v) e.
Definition chk_inv_trans (q : quat float) (v e : v3 float) := v3_bits (quat_inv_trans q v) e.
Definition chk_mult (a b e : quat float) := q4_bits (quat_mult a b) e.
Definition chk_mult_v3l (a : v3 float) (b e : quat float) := q4_bits (quat_mult (quat_of_vec a) b) e.
Definition chk_conj (a e : quat float) := q4_bits (quat_conj a) e.
(* np.linalg.norm goes through BLAS: compare to 2 ulp instead of bit-exactly *)
Definition chk_normalize (a e : quat float) := q4_close 0x1p-51 0 (quat_normalize a) e.
Definition chk_e2q (cs sn : list (float * float)) (phi theta psi : float) (e : quat float) :=
  q4_bits (euler_to_quat (olookup cs) (olookup sn) phi theta psi) e.
Definition chk_q2e (at2 : list (float * float * float)) (asn : list (float * float)) (pi cq : float)
           (q : quat float) (e : v3 float) :=
  v3_bits (quat_to_euler (olookup2 at2) (olookup asn) pi 0.5 cq q) e.
