(* binary64 run of Model/FieldInterp.v against the live density / wind getters of a Scene built on a field table *)
From Coq Require Import PrimFloat List Bool ZArith.
From MuxV Require Import Base.Num Base.FInst Base.Vec3 Model.FieldInterp.
Import ListNotations.
Local Open Scope float_scope.

(* the simplex handed over by the live triangulation really contains the point, and the model's value is the getter's *)
Definition chk_field (rtol atol : float) (a b c d : v3 float) (fa fb fc fd : float) (p : v3 float) (e : float) : bool :=
  in_simplex 0x1p-30 a b c d p && fclose rtol atol (field_interp a b c d fa fb fc fd p) e.
Definition chk_wind_field (rtol atol : float) (a b c d wa wb wc wd p e : v3 float) : bool :=
  let w := wind_interp a b c d wa wb wc wd p in
  in_simplex 0x1p-30 a b c d p && fclose rtol atol (vx w) (vx e) && fclose rtol atol (vy w) (vy e) && fclose rtol atol (vz w) (vz e).
