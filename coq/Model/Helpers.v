(* machupX/helpers.py 151-262: quaternion algebra, written once over [Num T].
   Operation order follows the Python source exactly (left-associated), so the
   float instance is bit-identical to NumPy on scalars and element-wise arrays. *)
From Coq Require Import ZArith List Bool.
From MuxV Require Import Base.Num Base.Vec3.
Import ListNotations.

Section Helpers.
  Context {T : Type} {N : Num T}.
  Local Open Scope num_scope.

  (* helpers.py 151-166 *)
  Definition quat_trans (q : quat T) (v : v3 T) : v3 T :=
    let '(Q4 q0 q1 q2 q3) := q in
    let '(V3 v0 v1 v2) := v in
    let t0 := (- v0) * q1 - v1 * q2 - v2 * q3 in
    let t1 := v0 * q0 + v1 * q3 - v2 * q2 in
    let t2 := (- v0) * q3 + v1 * q0 + v2 * q1 in
    let t3 := v0 * q2 - v1 * q1 + v2 * q0 in
    V3 (q0 * t1 - q1 * t0 - q2 * t3 + q3 * t2)
       (q0 * t2 + q1 * t3 - q2 * t0 - q3 * t1)
       (q0 * t3 - q1 * t2 + q2 * t1 - q3 * t0).

  (* helpers.py 169-184 *)
  Definition quat_inv_trans (q : quat T) (v : v3 T) : v3 T :=
    let '(Q4 q0 q1 q2 q3) := q in
    let '(V3 v0 v1 v2) := v in
    let t0 := v0 * q1 + v1 * q2 + v2 * q3 in
    let t1 := v0 * q0 - v1 * q3 + v2 * q2 in
    let t2 := v0 * q3 + v1 * q0 - v2 * q1 in
    let t3 := (- v0) * q2 + v1 * q1 + v2 * q0 in
    V3 (q0 * t1 + q1 * t0 + q2 * t3 - q3 * t2)
       (q0 * t2 - q1 * t3 + q2 * t0 + q3 * t1)
       (q0 * t3 + q1 * t2 - q2 * t1 + q3 * t0).

  (* helpers.py 187-209 (4-vectors; a 3-vector is promoted with q0 = 0) *)
  Definition quat_mult (a b : quat T) : quat T :=
    let '(Q4 a0 a1 a2 a3) := a in
    let '(Q4 b0 b1 b2 b3) := b in
    Q4 (a0 * b0 - a1 * b1 - a2 * b2 - a3 * b3)
       (a0 * b1 + a1 * b0 + a2 * b3 - a3 * b2)
       (a0 * b2 - a1 * b3 + a2 * b0 + a3 * b1)
       (a0 * b3 + a1 * b2 - a2 * b1 + a3 * b0).
  Definition quat_of_vec (v : v3 T) : quat T := Q4 n0 (vx v) (vy v) (vz v).

  (* helpers.py 261-262 *)
  Definition quat_conj (q : quat T) : quat T :=
    let '(Q4 q0 q1 q2 q3) := q in Q4 q0 (- q1) (- q2) (- q3).

  Definition quat_norm2 (q : quat T) : T :=
    let '(Q4 q0 q1 q2 q3) := q in q0 * q0 + q1 * q1 + q2 * q2 + q3 * q3.
  (* airplane.py 156: q / np.linalg.norm(q) *)
  Definition quat_normalize (q : quat T) : quat T :=
    let n := nsqrt (quat_norm2 q) in
    let '(Q4 q0 q1 q2 q3) := q in Q4 (q0 / n) (q1 / n) (q2 / n) (q3 / n).

  Section Trig.
    Variables (fcos fsin : T -> T) (fatan2 : T -> T -> T) (fasin : T -> T) (pi half quarter_pi_cos : T).

    (* helpers.py 212-231; E in radians *)
    Definition euler_to_quat (phi theta psi : T) : quat T :=
      let Cp := fcos (phi / n2) in let Sp := fsin (phi / n2) in
      let Ct := fcos (theta / n2) in let St := fsin (theta / n2) in
      let Cs := fcos (psi / n2) in let Ss := fsin (psi / n2) in
      Q4 (Cp * Ct * Cs + Sp * St * Ss)
         (Sp * Ct * Cs - Cp * St * Ss)
         (Cp * St * Cs + Sp * Ct * Ss)
         (Cp * Ct * Ss - Sp * St * Cs).

    (* helpers.py 234-258; [half] = 0.5, [quarter_pi_cos] = cos(pi/4) *)
    Definition quat_to_euler (q : quat T) : v3 T :=
      let '(Q4 q0 q1 q2 q3) := q in
      let quantity := q0 * q2 - q1 * q3 in
      if negb (quantity =? half) && negb (quantity =? - half) then
        let q02 := q0 * q0 in let q12 := q1 * q1 in
        let q22 := q2 * q2 in let q32 := q3 * q3 in
        V3 (fatan2 (n2 * (q0 * q1 + q2 * q3)) (q02 + q32 - q12 - q22))
           (fasin (n2 * (q0 * q2 - q1 * q3)))
           (fatan2 (n2 * (q0 * q3 + q1 * q2)) (q02 + q12 - q22 - q32))
      else
        V3 (n2 * fasin (q1 / quarter_pi_cos)) (pi * quantity) n0.
  End Trig.
End Helpers.
