(* machupX/airplane.py 146, 189 and scene.py set_aircraft_state (1530-1560): what an aircraft keeps of a position handed over as the
   caller's own array.  The caller's arrays live in a heap; the aircraft holds a reference into it (np.asarray of a float array makes no
   copy - the pinned snapshot) or its own value (np.array - fix ebac569).  Scene.set_aircraft_state compares the aircraft's position
   before and after the hand-over and rebuilds the Earth-frame geometry / atmosphere only when they differ. *)
From Coq Require Import ZArith List Bool.
Import ListNotations.

Definition arr := list Z.
Definition heap := list arr.                       (* address = index *)
Inductive held := Ref (a : nat) | Own (v : arr).
Definition deref (h : heap) (x : held) : arr := match x with Ref a => nth a h [] | Own v => v end.
Fixpoint write (h : heap) (a : nat) (v : arr) : heap :=
  match h, a with
  | [], _ => []
  | _ :: r, O => v :: r
  | x :: r, S a' => x :: write r a' v
  end.
Definition arr_eqb (x y : arr) : bool := Nat.eqb (length x) (length y) && forallb (fun p => Z.eqb (fst p) (snd p)) (combine x y).

Inductive ev :=
| SetState (a : nat)               (* set_aircraft_state(state={"position": <the caller's array at address a>}) *)
| CallerWrites (a : nat) (v : arr) (* the caller edits its own array in place *)
| Query.                           (* solve_forces: uses the aircraft's position and the stored geometry *)

Record st := { hp : heap; pos : held; geom : arr }.

(* one event; [copy] selects np.array (true) or np.asarray (false).  A query reports (position of the aircraft, position the geometry
   in use was built for) *)
Definition step (copy : bool) (s : st) (e : ev) : st * option (arr * arr) :=
  match e with
  | SetState a =>
      let old := deref (hp s) (pos s) in
      let p := if copy then Own (nth a (hp s) []) else Ref a in
      let new := deref (hp s) p in
      ({| hp := hp s; pos := p; geom := if arr_eqb old new then geom s else new |}, None)
  | CallerWrites a v => ({| hp := write (hp s) a v; pos := pos s; geom := geom s |}, None)
  | Query => (s, Some (deref (hp s) (pos s), geom s))
  end.
Fixpoint run (copy : bool) (s : st) (es : list ev) : list (arr * arr) :=
  match es with
  | [] => []
  | e :: r => let (s', o) := step copy s e in (match o with Some x => [x] | None => [] end) ++ run copy s' r
  end.
Definition init (h : heap) (p0 : arr) : st := {| hp := h; pos := Own p0; geom := p0 |}.

Definition outs_eqb (a b : list (arr * arr)) : bool :=
  Nat.eqb (length a) (length b) &&
  forallb (fun p => arr_eqb (fst (fst p)) (fst (snd p)) && arr_eqb (snd (fst p)) (snd (snd p))) (combine a b).
