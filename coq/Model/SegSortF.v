From Coq Require Import PrimFloat List Bool Arith.
From MuxV Require Import Base.Num Base.FInst Model.SegSort.
Import ListNotations.
Local Open Scope float_scope.

(* the order of the left-hand segments of a wing, from (identifier, tip distance) pairs given in any order *)
Definition chk_sort_left (l : list (nat * float)) (e : list nat) : bool :=
  let r := sort_left (-1)%float (List.length l) l [] in
  Nat.eqb (List.length r) (List.length e) && forallb (fun p => Nat.eqb (fst p) (snd p)) (combine r e).
