From Coq Require Import PrimFloat List Bool ZArith.
From MuxV Require Import Base.Num Base.Vec3 Base.FInst Model.Helpers Model.AeroState Model.Analyses.
Import ListNotations.
Local Open Scope float_scope.

Definition chk_cdiff (k : float) (fwd bwd e : list float) : bool := all2 fbits_eq (cdiff k fwd bwd) e.
Definition chk_cdiv (k : float) (fwd bwd e : list float) : bool := all2 fbits_eq (cdiff_div k fwd bwd) e.
Definition chk_damp (kl V l : float) (fwd bwd e : list float) : bool :=
  all2 fbits_eq (map (fun x => x * (2 * V / l)) (cdiff kl fwd bwd)) e.
Definition chk_ac (FM0 FM1 FM2 : list float) (delta ex ez ecm : float) : bool :=
  (* x and z are recovered by the harness from the dimensional point the API returns: compared to 1e-10 *)
  let '(x, z, cm) := ac_point FM0 FM1 FM2 delta in fclose 1e-10 1e-12 x ex && fclose 1e-10 1e-12 z ez && fclose 1e-10 1e-12 cm ecm.
