From Coq Require Import PrimFloat List Bool ZArith.
From MuxV Require Import Base.Num Base.Vec3 Base.FInst Model.Helpers Model.AeroState Model.Analyses.
Import ListNotations.
Local Open Scope float_scope.

Definition chk_cdiff (k : float) (fwd bwd e : list float) : bool := all2 fbits_eq (cdiff k fwd bwd) e.
Definition chk_cdiv (k : float) (fwd bwd e : list float) : bool := all2 fbits_eq (cdiff_div k fwd bwd) e.
Definition chk_damp (kl V l : float) (fwd bwd e : list float) : bool :=
  all2 fbits_eq (map (fun x => x * (2 * V / l)) (cdiff kl fwd bwd)) e.
Definition chk_ac (FM0 FM1 FM2 : list float) (delta ex ez ecm : float) : bool :=
  (* x and z are recovered by the harness from the dimensional point the API returns: compared to 1e-10 *)
  let '(x, z, cm) := ac_point FM0 FM1 FM2 delta in fclose 1e-10 1e-12 x ex && fclose 1e-10 1e-12 z ez && fclose 1e-10 1e-12 cm ecm.

(* the states state_derivatives hands to set_state (position, body-fixed velocity, attitude, rates), forward and backward, bit for bit *)
Definition v3_bits (a b : v3 float) : bool := fbits_eq (vx a) (vx b) && fbits_eq (vy a) (vy b) && fbits_eq (vz a) (vz b).
Definition q4_bits (a b : quat float) : bool :=
  let '(Q4 a0 a1 a2 a3) := a in let '(Q4 b0 b1 b2 b3) := b in fbits_eq a0 b0 && fbits_eq a1 b1 && fbits_eq a2 b2 && fbits_eq a3 b3.
Definition args_bits (a e : sargs (T:=float)) : bool :=
  let '(p, vb, q, w) := a in let '(ep, evb, eq, ew) := e in v3_bits p ep && v3_bits vb evb && q4_bits q eq && v3_bits w ew.
Definition chk_sd_args (v w p : v3 float) (q : quat float) (var : nat) (i : nat) (d : float) (ef eb : sargs (T:=float)) : bool :=
  let s := mk_ast v w p q [] in
  let vr := match var with 0%nat => SVel | 1%nat => SPos | _ => SRate end in
  args_bits (sd_args s vr i d) ef && args_bits (sd_args_b s vr i d) eb.
Definition chk_sd_args_q (v w p : v3 float) (q : quat float) (i : nat) (e : float) (ef eb : sargs (T:=float)) : bool :=
  let s := mk_ast v w p q [] in
  args_bits (sd_args_q s i e true) ef && args_bits (sd_args_q s i e false) eb.
