(* machupX/helpers.py 17-148: convert_units and import_value as a decision tree over a small
   Python-value datatype.  [factor u] is the conversion table of the selected unit system
   (None = KeyError -> IOError). *)
From Coq Require Import ZArith List Bool String.
From MuxV Require Import Base.Num.
Import ListNotations.
Open Scope string_scope.

Section ImportValue.
  Context {T : Type} {N : Num T}.
  Local Open Scope num_scope.

  Inductive pyval :=
  | PNone
  | PFloat (x : T)
  | PInt (z : Z)
  | PStr (s : string)
  | PCallable
  | PList (l : list pyval)
  | POther.                      (* anything else: dict, bool-less objects, ... *)

  Inductive perr := EIOError | EValueError | ETypeError | EIndexError.

  Inductive imported :=
  | IFloat (x : T)
  | IStr (s : string)
  | IVec (l : list T)            (* ndarray, 1-D *)
  | IArr (rows : list (list T))  (* ndarray, 2-D *)
  | IElliptic (root_chord : T)
  | ICallable
  | IRaise (e : perr).

  Variable factor : string -> option T.     (* table of the chosen system, after strip() *)

  (* str.strip(' \t\r\n') *)
  Definition is_ws (c : Ascii.ascii) : bool :=
    let n := Ascii.nat_of_ascii c in (Nat.eqb n 32 || Nat.eqb n 9 || Nat.eqb n 13 || Nat.eqb n 10)%bool.
  Fixpoint lstrip (s : string) : string :=
    match s with String c r => if is_ws c then lstrip r else s | EmptyString => EmptyString end.
  Fixpoint rstrip (s : string) : string :=
    match s with
    | EmptyString => EmptyString
    | String c r => match rstrip r with
                    | EmptyString => if is_ws c then EmptyString else String c EmptyString
                    | r' => String c r'
                    end
    end.
  Definition strip (s : string) : string := rstrip (lstrip s).

  (* helpers.py 17-71: "-" is tested before stripping, the table lookup after *)
  Definition convert_units (x : T) (u : string) : option T :=
    if String.eqb u "-" then Some x
    else match factor (strip u) with Some f => Some (x * f) | None => None end.

  Definition is_list (v : pyval) : bool := match v with PList _ => true | _ => false end.
  Definition is_str (v : pyval) : bool := match v with PStr _ => true | _ => false end.
  Definition num_of (v : pyval) : option T :=
    match v with PFloat x => Some x | PInt z => Some (nofZ z) | _ => None end.

  Fixpoint nums_of (l : list pyval) : option (list T) :=
    match l with
    | [] => Some []
    | v :: r => match num_of v, nums_of r with Some x, Some xs => Some (x :: xs) | _, _ => None end
    end.
  Fixpoint conv_all (l : list T) (u : string) : option (list T) :=
    match l with
    | [] => Some []
    | x :: r => match convert_units x u, conv_all r u with Some y, Some ys => Some (y :: ys) | _, _ => None end
    end.
  Fixpoint conv_row (l : list T) (us : list string) : option (list T) :=
    match l, us with
    | [], [] => Some []
    | x :: r, u :: ur => match convert_units x u, conv_row r ur with Some y, Some ys => Some (y :: ys) | _, _ => None end
    | _, _ => None
    end.
  Fixpoint strs_of (l : list pyval) : option (list string) :=
    match l with
    | [] => Some []
    | PStr s :: r => match strs_of r with Some ss => Some (s :: ss) | None => None end
    | _ => None
    end.
  Fixpoint rows_of (l : list pyval) : option (list (list T)) :=
    match l with
    | [] => Some []
    | PList r :: rest => match nums_of r, rows_of rest with Some xs, Some xss => Some (xs :: xss) | _, _ => None end
    | _ => None
    end.
  Fixpoint conv_rows (rows : list (list T)) (us : list string) : option (list (list T)) :=
    match rows with
    | [] => Some []
    | r :: rest => match conv_row r us, conv_rows rest us with Some y, Some ys => Some (y :: ys) | _, _ => None end
    end.

  Definition last_py (l : list pyval) : pyval := List.last l PNone.
  Definition first_of_row (v : pyval) : pyval := match v with PList (x :: _) => x | _ => PNone end.

  (* import_value(key, dict, system, default) once val = dict.get(key, default) is known;
     rectangular numeric arrays only (ragged / mixed arrays are outside the model and reported as POther) *)
  Definition import_value (val : pyval) : imported :=
    match val with
    | PNone => IRaise EIOError
    | PFloat x => IFloat x
    | PInt z => IFloat (nofZ z)
    | PStr s => IStr s                              (* ".csv" paths are read by the harness, not modelled *)
    | PCallable => ICallable
    | POther => IRaise EValueError
    | PList l =>
        if existsb is_list l then
          (* array: unit row iff the first element of the last row is a string *)
          if is_str (first_of_row (last_py l)) then
            match last_py l with
            | PList us =>
                match strs_of us, rows_of (removelast l) with
                | Some ustrs, Some rows =>
                    match conv_rows rows ustrs with Some r => IArr r | None => IRaise EIOError end
                | _, _ => IRaise EValueError
                end
            | _ => IRaise EValueError
            end
          else match rows_of l with Some rows => IArr rows | None => IRaise EValueError end
        else
          match l with
          | [] => IRaise EIndexError
          | PStr "elliptic" :: rest =>
              match rest with
              | [c; PStr u] => match num_of c with
                               | Some x => match convert_units x u with Some y => IElliptic y | None => IRaise EIOError end
                               | None => IRaise ETypeError end
              | c :: _ => match num_of c with Some x => IElliptic x | None => IRaise EValueError end
              | [] => IRaise EIndexError
              end
          | _ =>
              match last_py l with
              | PStr u =>
                  match nums_of (removelast l) with
                  | Some [] => IRaise EValueError       (* np.vectorize on a size-0 input *)
                  | Some xs =>
                      match conv_all xs u with
                      | Some [y] => IFloat y
                      | Some ys => IVec ys
                      | None => IRaise EIOError
                      end
                  | None => IRaise ETypeError
                  end
              | _ =>
                  if (Nat.eqb (List.length l) 3 || Nat.eqb (List.length l) 4)%bool then
                    match nums_of l with Some xs => IVec xs | None => IRaise EValueError end
                  else IRaise EValueError
              end
          end
    end.
End ImportValue.
Arguments pyval T : clear implicits.
Arguments imported T : clear implicits.
