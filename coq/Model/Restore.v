(* The complete state an Airplane object holds (airplane.py 137-215) - position, attitude, Earth-fixed velocity, body rates and the
   frame the rates were given in, which selects the axes of the damping derivatives (scene.py 2075-2090) - and how the two analyses
   that go through set_state with a keyword dictionary put it back: state_derivatives (scene.py 2376-2414) and
   pitch_trim_using_orientation(set_trim_state=False) (scene.py 2771-2940); since fix 13935a1 export_pylot_model puts the state back the
   same way after its sweeps.  A frame that is not named in the dictionary is "body". *)
From Coq Require Import ZArith List Bool.
From MuxV Require Import Base.Num Base.Vec3 Model.Helpers Model.AeroState.
Import ListNotations.

Section Restore.
  Context {T : Type} {N : Num T}.
  Local Open Scope num_scope.
  Variables (fcos fsin fasin : T -> T) (fatan2 : T -> T -> T) (deg2rad : T).

  Record fstate := mk_fs { f_p : v3 T; f_q : quat T; f_v : v3 T; f_w : v3 T; f_frame : frame_in }.

  (* Airplane.set_state(position=, velocity=[u,v,w] body-fixed, orientation=quaternion, angular_rates=, [angular_rate_frame=]) *)
  Definition set_state_dict (p vb : v3 T) (q : quat T) (w_raw : v3 T) (fr : option frame_in) (v_wind : v3 T) : fstate :=
    let qn := quat_normalize q in
    let frame := match fr with Some f => f | None => FBody end in
    mk_fs p qn (quat_inv_trans qn vb) (parse_rates fcos fsin fasin fatan2 deg2rad qn v_wind (VVec vb) frame w_raw) frame.

  (* the dictionary both analyses build from get_state(): body-fixed components of the velocity, body rates, no frame *)
  Definition reset_from (s : fstate) : fstate :=
    set_state_dict (f_p s) (quat_trans (f_q s) (f_v s)) (f_q s) (f_w s) None vzero.
  (* as the code stood: the frame is lost *)
  Definition restore_without_frame (s : fstate) : fstate := reset_from s.
  (* with the frame put back (fix) *)
  Definition restore (s : fstate) : fstate :=
    let r := reset_from s in mk_fs (f_p r) (f_q r) (f_v r) (f_w r) (f_frame s).
End Restore.
Arguments fstate T : clear implicits.
