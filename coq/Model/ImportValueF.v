From Coq Require Import PrimFloat List Bool ZArith String.
From MuxV Require Import Base.Num Base.FInst Model.ImportValue Live.LiveTables.
Import ListNotations.
Local Open Scope float_scope.

Fixpoint lookup_unit (tbl : list (string * option float * option float)) (english : bool) (u : string) : option float :=
  match tbl with
  | [] => None
  | (k, e, s) :: r => if String.eqb k u then (if english then e else s) else lookup_unit r english u
  end.
Definition factorF (english : bool) (u : string) : option float := lookup_unit live_units_F english u.

Definition perr_eqb (a b : perr) : bool :=
  match a, b with
  | EIOError, EIOError | EValueError, EValueError | ETypeError, ETypeError | EIndexError, EIndexError => true
  | _, _ => false
  end.
Definition imported_eqb (a b : imported float) : bool :=
  match a, b with
  | IFloat x, IFloat y => fbits_eq x y
  | IStr s, IStr t => String.eqb s t
  | IVec l, IVec m => all2 fbits_eq l m
  | IArr l, IArr m => all2 (all2 fbits_eq) l m
  | IElliptic x, IElliptic y => fbits_eq x y
  | ICallable, ICallable => true
  | IRaise e, IRaise f => perr_eqb e f
  | _, _ => false
  end.
Definition chk_import (english : bool) (v : pyval float) (e : imported float) : bool :=
  imported_eqb (import_value (factorF english) v) e.
