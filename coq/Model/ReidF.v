From Coq Require Import PrimFloat List Bool ZArith Arith.
From MuxV Require Import Base.Num Base.Vec3 Base.FInst Model.Reid.
Import ListNotations.
Local Open Scope float_scope.

Definition v3c (rtol atol : float) (a : v3 float) (e : float * float * float) : bool :=
  let '(ex, ey, ez) := e in fclose rtol atol (vx a) ex && fclose rtol atol (vy a) ey && fclose rtol atol (vz a) ez.
Fixpoint all_v3c (rtol atol : float) (l : list (v3 float)) (e : list (float * float * float)) : bool :=
  match l, e with
  | [], [] => true
  | a :: l', x :: e' => v3c rtol atol a x && all_v3c rtol atol l' e'
  | _, _ => false
  end.

Definition chk_sigma (b bd cs e : float) : bool := fclose 0x1p-50 0 (sigma_blend b bd cs) e.

(* effective nodes and joints seen by control point [i] of the wing [w] (exp values from a table with exact arguments) *)
Definition chk_reid_row (te : list (float * float)) (atol : float) (w : list (sec float)) (i : nat)
           (e0 e1 j0 j1 : list (float * float * float)) : bool :=
  match nth_error w i with
  | None => false
  | Some si =>
      let '(r0, r1, q0, q1) := reid_row (olookup te) w si in
      all_v3c 0x1p-30 atol r0 e0 && all_v3c 0x1p-30 atol r1 e1 && all_v3c 0x1p-30 atol q0 j0 && all_v3c 0x1p-30 atol q1 j1
  end.

(* joints on the actual line (what control points of other wings see) *)
Definition chk_joint_actual (atol : float) (rows : list ((float * float * float) * float * float * bool * (float * float * float)))
           (e : list (float * float * float)) : bool :=
  Nat.eqb (List.length rows) (List.length e) &&
  forallb (fun p => let '(P, c, dj, reid, ua) := fst p in
                    let '(px, py, pz) := P in let '(ux, uy, uz) := ua in
                    v3c 0x1p-40 atol (joint_actual (V3 px py pz) c dj reid (V3 ux uy uz)) (snd p)) (combine rows e).
