(* The Scene object as a state machine (scene.py 37-55, 268-327, 394/428/549/668 flag writes, 1411-1598,
   3076-3078, and the perturb/restore skeletons of the analyses).  Aircraft descriptions, poses, velocity/rate
   states and control states are opaque tokens; what is modelled is which data each query is computed from. *)
From Coq Require Import List Bool Arith Lia.
Import ListNotations.

Record acst := mk_ac { a_name : nat; a_geom : nat; a_pose : nat; a_vel : nat; a_ctrl : nat }.

(* scene state: aircraft in insertion order; the (name, geometry, pose) list the Earth-frame arrays were assembled from;
   the solved flag and the aircraft states the stored section data (circulation, section loads) were computed from *)
Record scene := mk_scene {
  acs : list acst;
  geo : list (nat * nat * nat);
  solved : bool;
  snap : list acst }.

Definition init : scene := mk_scene [] [] false [].
Definition geo_of (l : list acst) : list (nat * nat * nat) := map (fun a => (a_name a, a_geom a, a_pose a)) l.

Fixpoint has_name (n : nat) (l : list acst) : bool :=
  match l with [] => false | a :: r => Nat.eqb (a_name a) n || has_name n r end.
Fixpoint upd (n : nat) (f : acst -> acst) (l : list acst) : list acst :=
  match l with [] => [] | a :: r => if Nat.eqb (a_name a) n then f a :: r else a :: upd n f r end.
Fixpoint del (n : nat) (l : list acst) : list acst :=
  match l with [] => [] | a :: r => if Nat.eqb (a_name a) n then r else a :: del n r end.
Fixpoint get (n : nat) (l : list acst) : option acst :=
  match l with [] => None | a :: r => if Nat.eqb (a_name a) n then Some a else get n r end.

(* ---- internal primitives (what the methods do to the object) ---- *)
Inductive prim :=
| PSetVel (n vel : nat)            (* Airplane.set_aerodynamic_state / .w = ... : velocity state only *)
| PSetCtrl (n ctrl : nat)          (* Airplane.set_control_state *)
| PSetPoseVel (n pose vel : nat)   (* Airplane.set_state called directly *)
| PRefresh                         (* _perform_geometry_and_atmos_calcs: rebuild Earth-frame arrays, solved := False *)
| PUnsolve                         (* self._solved = False *)
| PSolve                           (* solve_forces: section data := current, solved := True *)
| PEnsureSolved.                   (* distributions: solve only if not solved *)

(* what a solve is computed from: current aircraft states + the geometry cache *)
Inductive output :=
| OSolve (states : list acst) (g : list (nat * nat * nat))
| ODist (current : list acst) (states : list acst) (g : list (nat * nat * nat))
| OError.

Definition pstep (s : scene) (p : prim) : scene * list output :=
  match p with
  | PSetVel n v => (mk_scene (upd n (fun a => mk_ac (a_name a) (a_geom a) (a_pose a) v (a_ctrl a)) (acs s)) (geo s) (solved s) (snap s), [])
  | PSetCtrl n c => (mk_scene (upd n (fun a => mk_ac (a_name a) (a_geom a) (a_pose a) (a_vel a) c) (acs s)) (geo s) (solved s) (snap s), [])
  | PSetPoseVel n p v => (mk_scene (upd n (fun a => mk_ac (a_name a) (a_geom a) p v (a_ctrl a)) (acs s)) (geo s) (solved s) (snap s), [])
  | PRefresh => (mk_scene (acs s) (geo_of (acs s)) false (snap s), [])
  | PUnsolve => (mk_scene (acs s) (geo s) false (snap s), [])
  | PSolve => (mk_scene (acs s) (geo s) true (acs s), [OSolve (acs s) (geo s)])
  | PEnsureSolved => if solved s then (s, []) else (mk_scene (acs s) (geo s) true (acs s), [OSolve (acs s) (geo s)])
  end.
Fixpoint prun (s : scene) (ps : list prim) : scene * list output :=
  match ps with
  | [] => (s, [])
  | p :: r => let '(s1, o1) := pstep s p in let '(s2, o2) := prun s1 r in (s2, o1 ++ o2)
  end.

(* ---- public operations ---- *)
Inductive op :=
| AddAircraft (a : acst)
| RemoveAircraft (n : nat)
| SetState (n pose vel : nat)
| SetControls (n ctrl : nat)
| SolveForces
| Distributions
(* analyses: the tokens are the perturbed states they visit; [v0]/[c0]/[p0] stand for the values read at entry *)
| VelAnalysis (n : nat) (perturbed : list nat)            (* stability / damping derivatives, aero_center, target_CL(set_state=False):
                                                              velocity or rate perturbations, each solved, then restored *)
| CtrlAnalysis (n : nat) (perturbed : list nat)           (* control_derivatives *)
| PoseAnalysis (n : nat) (perturbed : list (nat * nat))   (* state_derivatives / pitch_trim_using_orientation(set_trim_state=False) *)
| TrimSet (n : nat) (visited : list (nat * nat)) (vel ctrl : nat).  (* pitch_trim / target_CL with set state: (vel,ctrl) iterates, final state *)

Definition vel_steps (n : nat) (vs : list nat) : list prim := flat_map (fun v => [PSetVel n v; PSolve]) vs.
Definition ctrl_steps (n : nat) (cs : list nat) : list prim := flat_map (fun c => [PSetCtrl n c; PSolve]) cs.
Definition pose_steps (n : nat) (ps : list (nat * nat)) : list prim :=
  flat_map (fun pv => [PSetPoseVel n (fst pv) (snd pv); PRefresh; PSolve]) ps.

Definition step (s : scene) (o : op) : scene * list output :=
  match o with
  | AddAircraft a =>
      (* an aircraft added under an existing name replaces the old one (which is removed first) *)
      prun (mk_scene (del (a_name a) (acs s) ++ [a]) (geo s) (solved s) (snap s)) [PRefresh]
  | RemoveAircraft n =>
      if has_name n (acs s) then
        let s' := mk_scene (del n (acs s)) (geo s) (solved s) (snap s) in
        (* lines 324-327: arrays are only rebuilt when aircraft remain; an empty scene cannot be queried *)
        match acs s' with [] => (mk_scene [] [] false (snap s), []) | _ => prun s' [PRefresh] end
      else (s, [OError])
  | SetState n p v =>
      match get n (acs s) with
      | None => (s, [OError])
      | Some a =>
          (* lines 1564-1571: set the state; rebuild the geometry when the pose changed; invalidate the solution *)
          prun s ([PSetPoseVel n p v] ++ (if Nat.eqb (a_pose a) p then [] else [PRefresh]) ++ [PUnsolve])
      end
  | SetControls n c => if has_name n (acs s) then prun s [PSetCtrl n c; PUnsolve] else (s, [OError])
  | SolveForces => match acs s with [] => (s, [OError]) | _ => prun s [PSolve] end
  | Distributions =>
      match acs s with
      | [] => (s, [OError])
      | _ => let '(s1, o1) := prun s [PEnsureSolved] in (s1, o1 ++ [ODist (acs s1) (snap s1) (geo s1)])
      end
  | VelAnalysis n vs =>
      match get n (acs s) with
      | None => (s, [OError])
      | Some a => prun s (vel_steps n vs ++ [PSetVel n (a_vel a); PUnsolve])
      end
  | CtrlAnalysis n cs =>
      match get n (acs s) with
      | None => (s, [OError])
      | Some a => prun s (ctrl_steps n cs ++ [PSetCtrl n (a_ctrl a); PUnsolve])
      end
  | PoseAnalysis n ps =>
      match get n (acs s) with
      | None => (s, [OError])
      | Some a => prun s (pose_steps n ps ++ [PSetPoseVel n (a_pose a) (a_vel a); PRefresh; PUnsolve])
      end
  | TrimSet n visited v c =>
      match get n (acs s) with
      | None => (s, [OError])
      | Some a => prun s (flat_map (fun vc => [PSetVel n (fst vc); PSetCtrl n (snd vc); PSolve]) visited
                          ++ [PSetVel n v; PSetCtrl n c; PUnsolve])
      end
  end.

Fixpoint run (s : scene) (os : list op) : scene * list output :=
  match os with
  | [] => (s, [])
  | o :: r => let '(s1, o1) := step s o in let '(s2, o2) := run s1 r in (s2, o1 ++ o2)
  end.

(* an output is fresh when it was computed from aircraft states whose geometry cache is the assembly of exactly those states *)
Definition fresh (o : output) : Prop :=
  match o with
  | OSolve st g => g = geo_of st
  | ODist cur st g => st = cur /\ g = geo_of cur
  | OError => True
  end.
