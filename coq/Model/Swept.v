(* machupX/wing_segment.py 545-570 (_initialize_unit_vector_dists): the swept section vectors at the vortex nodes of a segment.  The span
   vector is the unit tangent of the lifting line (numpy.gradient with respect to the cumulative chord length, edge_order = 2 - the same
   construction as for the effective lifting lines, Model/Reid.v); the axial vector is the unswept chord direction made orthogonal to it,
   c1 u_a + c2 u_s with c1 = sqrt(1/(1-k^2)), c2 = -c1 k, k = <u_s, u_a>, normalised; the normal vector is their cross product. *)
From Coq Require Import ZArith List Bool.
From MuxV Require Import Base.Num Base.Vec3 Base.Interp Model.Reid.
Import ListNotations.

Section Swept.
  Context {T : Type} {N : Num T}.
  Local Open Scope num_scope.
  Definition swept_span (ll : list (v3 T)) : list (v3 T) := unit_tangents ll.
  Definition swept_axial (us ua0 : v3 T) : v3 T := joint_dir us ua0.
  Definition swept_normal (ua us : v3 T) : v3 T := vcross ua us.
  Definition swept_triads (ll ua0 : list (v3 T)) : list (v3 T * v3 T * v3 T) :=
    map2 (fun us u0 => let ua := swept_axial us u0 in (ua, swept_normal ua us, us)) (swept_span ll) ua0.

  (* 695-703: the vectors at the control points: linear interpolation between the node vectors (scipy interp1d over the ascending span
     fractions), then made an orthonormal triad again - span vector normalised, axial vector freed of its span component and normalised,
     normal vector their cross product (fix 55e4504) *)
  Definition comp_table (f : v3 T -> T) (xs : list T) (vs : list (v3 T)) : list (T * T) := combine xs (map f vs).
  Definition interp_vec (xs : list T) (vs : list (v3 T)) (s : T) : v3 T :=
    V3 (interp s (comp_table vx xs vs)) (interp s (comp_table vy xs vs)) (interp s (comp_table vz xs vs)).
  Definition cp_triad (xs : list T) (uas uss : list (v3 T)) (s : T) : v3 T * v3 T * v3 T :=
    let us0 := interp_vec xs uss s in
    let us := vdivs us0 (vnorm us0) in
    let ua0 := interp_vec xs uas s in
    let ua1 := vsub ua0 (vscale (vdot ua0 us) us) in
    let ua := vdivs ua1 (vnorm ua1) in
    (ua, vcross ua us, us).
End Swept.
