(* machupX/wing_segment.py 545-570 (_initialize_unit_vector_dists): the swept section vectors at the vortex nodes of a segment.  The span
   vector is the unit tangent of the lifting line (numpy.gradient with respect to the cumulative chord length, edge_order = 2 - the same
   construction as for the effective lifting lines, Model/Reid.v); the axial vector is the unswept chord direction made orthogonal to it,
   c1 u_a + c2 u_s with c1 = sqrt(1/(1-k^2)), c2 = -c1 k, k = <u_s, u_a>, normalised; the normal vector is their cross product. *)
From Coq Require Import ZArith List Bool.
From MuxV Require Import Base.Num Base.Vec3 Model.Reid.
Import ListNotations.

Section Swept.
  Context {T : Type} {N : Num T}.
  Local Open Scope num_scope.
  Definition swept_span (ll : list (v3 T)) : list (v3 T) := unit_tangents ll.
  Definition swept_axial (us ua0 : v3 T) : v3 T := joint_dir us ua0.
  Definition swept_normal (ua us : v3 T) : v3 T := vcross ua us.
  Definition swept_triads (ll ua0 : list (v3 T)) : list (v3 T * v3 T * v3 T) :=
    map2 (fun us u0 => let ua := swept_axial us u0 in (ua, swept_normal ua us, us)) (swept_span ll) ua0.
End Swept.
