(* Input validation of machupX: the documented constraints as a decision procedure over an abstract description of the input.
   scene.py 61-130 (input type, unit system, solver type, atmosphere profiles), airplane.py 141-213 (state), 386-391 (side), 872-894 (reference),
   wing_segment.py 63-65 (ID), 203-223 (grid list), 248-256 (span definition), 572-593 (airfoil names), 650-652 / 1355-1362 (flap distributions),
   882-889 (parent), helpers.py 66-82 (unit strings, required keys), scene.py 1455-1457 (empty scene), 1552-1604 (aircraft names).
   Numbers that are only compared (grid fractions, flap span locations) are carried as integers in thousandths: the harness only uses
   values with three decimals, for which binary64 comparison and integer comparison agree. *)
From Coq Require Import ZArith List Bool String Arith.
Import ListNotations.
Open Scope string_scope.

Inductive err :=
| EUnitSys | ESolverType | EProfile | EUnitString
| EWeight | EVelocity | EAlphaBetaVector | ERateFrame
| EID0 | ESide | ESpanNeither | ESpanBoth | EDihedralQC | ESweepQC | EAirfoil
| EGridLen | EGridEnds | EGridMono | EGridType | EParent | EFlapChordEnds | ENoMain.

Definition err_eqb (a b : err) : bool :=
  match a, b with
  | EUnitSys, EUnitSys | ESolverType, ESolverType | EProfile, EProfile | EUnitString, EUnitString
  | EWeight, EWeight | EVelocity, EVelocity | EAlphaBetaVector, EAlphaBetaVector | ERateFrame, ERateFrame
  | EID0, EID0 | ESide, ESide | ESpanNeither, ESpanNeither | ESpanBoth, ESpanBoth | EDihedralQC, EDihedralQC | ESweepQC, ESweepQC
  | EAirfoil, EAirfoil | EGridLen, EGridLen | EGridEnds, EGridEnds | EGridMono, EGridMono | EGridType, EGridType | EParent, EParent
  | EFlapChordEnds, EFlapChordEnds | ENoMain, ENoMain => true
  | _, _ => false
  end.

Inductive gridspec := GCosine | GLinear | GList (l : list Z) | GOther.
Record csurf := { cs_root : Z; cs_tip : Z; cs_chord_ends : option (Z * Z) }.   (* None: constant flap-chord fraction *)

Record segment := {
  s_id : Z; s_side : string;
  s_semispan : bool; s_qc : bool; s_sweep : bool; s_dihedral : bool;   (* which keys are present *)
  s_airfoils : list string;                                            (* airfoil names used along the span *)
  s_grid : gridspec; s_N : nat;
  s_parent : Z;                                                        (* connect_to.ID, 0 = origin *)
  s_main : bool;
  s_cs : option csurf;
  s_units : list string                                                (* unit strings attached to values of this segment *)
}.

Inductive velocity_form := VMissing | VScalar | VVector.
Record state := { st_velocity : velocity_form; st_alpha : bool; st_beta : bool; st_rate_frame : string; st_units : list string }.

Record aircraft := {
  a_weight : bool;
  a_airfoils : list string;              (* names defined under "airfoils" *)
  a_segments : list segment;
  a_ref_area : bool; a_ref_lon : bool; a_ref_lat : bool;
  a_state : state
}.

Record scene := {
  sc_units : string; sc_solver : string;
  sc_profiles : list string;             (* atmosphere entries given as a profile name *)
  sc_aircraft : list aircraft
}.

Section Validate.
  Variable unit_known : string -> bool.   (* helpers.py unit tables (Live/LiveTables.v) after strip; "-" always known *)

  Definition mem (s : string) (l : list string) : bool := existsb (String.eqb s) l.

  Fixpoint increasing (l : list Z) : bool :=
    match l with
    | a :: ((b :: _) as r) => (a <? b)%Z && increasing r
    | _ => true
    end.

  Definition grid_errs (g : gridspec) (n : nat) : list err :=
    match g with
    | GCosine | GLinear => []
    | GOther => [EGridType]
    | GList l =>
        if negb (Nat.eqb (List.length l) (2 * n + 1)) then [EGridLen]
        else if negb ((hd 1%Z l =? 0)%Z && (last l 0%Z =? 1000)%Z) then [EGridEnds]
        else if negb (increasing l) then [EGridMono] else []
    end.

  Definition when (b : bool) (e : err) : list err := if b then [e] else [].

  Definition cs_errs (c : option csurf) : list err :=
    match c with
    | Some {| cs_root := r; cs_tip := t; cs_chord_ends := Some (a, b) |} => when (negb ((a =? r)%Z && (b =? t)%Z)) EFlapChordEnds
    | _ => []
    end.

  Definition side_ok (s : string) : bool := String.eqb s "left" || String.eqb s "right" || String.eqb s "both".

  Definition segment_errs (defined : list string) (ids : list Z) (sg : segment) : list err :=
    when (s_id sg =? 0)%Z EID0
    ++ when (negb (side_ok (s_side sg))) ESide
    ++ when (negb (s_semispan sg) && negb (s_qc sg)) ESpanNeither
    ++ when (s_semispan sg && s_qc sg) ESpanBoth
    ++ when (s_dihedral sg && s_qc sg) EDihedralQC
    ++ when (s_sweep sg && s_qc sg) ESweepQC
    ++ when (negb (forallb (fun a => mem a defined) (s_airfoils sg))) EAirfoil
    ++ grid_errs (s_grid sg) (s_N sg)
    ++ when (negb ((s_parent sg =? 0)%Z || existsb (Z.eqb (s_parent sg)) ids)) EParent
    ++ cs_errs (s_cs sg)
    ++ when (negb (forallb unit_known (s_units sg))) EUnitString.

  Definition frame_ok (s : string) : bool := String.eqb s "body" || String.eqb s "stab" || String.eqb s "wind".

  Definition state_errs (st : state) : list err :=
    when (match st_velocity st with VMissing => true | _ => false end) EVelocity
    ++ when (match st_velocity st with VVector => st_alpha st || st_beta st | _ => false end) EAlphaBetaVector
    ++ when (negb (frame_ok (st_rate_frame st))) ERateFrame
    ++ when (negb (forallb unit_known (st_units st))) EUnitString.

  Definition aircraft_errs (a : aircraft) : list err :=
    when (negb (a_weight a)) EWeight
    ++ flat_map (segment_errs (a_airfoils a) (map s_id (a_segments a))) (a_segments a)
    ++ when (negb (existsb s_main (a_segments a)) && negb (a_ref_area a && a_ref_lat a)) ENoMain
    ++ state_errs (a_state a).

  Definition unit_sys_ok (s : string) : bool := String.eqb s "English" || String.eqb s "SI".
  Definition solver_ok (s : string) : bool := String.eqb s "linear" || String.eqb s "nonlinear" || String.eqb s "scipy_fsolve".
  Definition profile_ok (s : string) : bool := String.eqb s "standard".

  Definition scene_errs (sc : scene) : list err :=
    when (negb (unit_sys_ok (sc_units sc))) EUnitSys
    ++ when (negb (solver_ok (sc_solver sc))) ESolverType
    ++ when (negb (forallb profile_ok (sc_profiles sc))) EProfile
    ++ flat_map aircraft_errs (sc_aircraft sc).

  (* loading the scene and solving once: loads are produced only when nothing is violated and there is an aircraft *)
  Inductive outcome := Loads | Raises.
  Definition load_and_solve (sc : scene) : outcome :=
    match scene_errs sc, sc_aircraft sc with
    | [], _ :: _ => Loads
    | _, _ => Raises
    end.
End Validate.

(* aircraft named in a call (state setters, remove_aircraft, trims): scene.py 318-321, 1552-1604, 2519-2524 *)
Inductive call_outcome := Acts (name : string) | CallRaises.
Definition resolve_name (scene_names : list string) (given : option string) : call_outcome :=
  match given with
  | Some n => if existsb (String.eqb n) scene_names then Acts n else CallRaises
  | None => match scene_names with [n] => Acts n | _ => CallRaises end
  end.
Definition trim_control_ok (controls : list string) (pitch_control : string) : bool := existsb (String.eqb pitch_control) controls.
(* output files (distributions, export_stl, export_vtk): filename.endswith(ext) *)
Fixpoint ends_with (ext filename : string) : bool :=
  String.eqb ext filename || match filename with EmptyString => false | String _ r => ends_with ext r end.
(* input files and run keys: the code tests [ext in filename] *)
Fixpoint extension_ok (ext filename : string) : bool :=
  String.prefix ext filename || match filename with EmptyString => false | String _ r => extension_ok ext r end.
