(* machupX/scene.py 3769-3789 (_get_aircraft) and the single-aircraft default of 1552-1557: which aircraft a call acts on. *)
From Coq Require Import List String Bool.
Import ListNotations.

Inductive aircraft_arg := ANone | AList (l : list string) | AStr (s : string) | AOther.
Inductive sel := Names (l : list string) | SelError.

(* _get_aircraft *)
Definition get_aircraft (scene_names : list string) (a : aircraft_arg) : sel :=
  match a with
  | ANone => Names scene_names
  | AList l => Names l
  | AStr s => Names [s]
  | AOther => SelError
  end.
(* state setters / reference geometry: a name is required unless there is exactly one aircraft *)
Definition single_default (scene_names : list string) (a : option string) : sel :=
  match a with
  | Some s => Names [s]
  | None => match scene_names with [n] => Names [n] | _ => SelError end
  end.
