(* machupX/scene.py 521-541 and 613-634: Biot-Savart influence of one jointed horseshoe vortex
   (bound segment, two joint segments, two semi-infinite trailing filaments) on a control point. *)
From Coq Require Import ZArith List Bool.
From MuxV Require Import Base.Num Base.Vec3.
Import ListNotations.

Section Kernel.
  Context {T : Type} {N : Num T}.
  Local Open Scope num_scope.
  Variable fnn : T -> T.          (* np.nan_to_num (identity on the reals) *)
  Variable cutoff : T.            (* 1e-13 *)
  Variable inv4pi : T.            (* 1/(4*np.pi) *)

  (* horseshoe j as seen from one control point: inbound/outbound node, their joints, and the unit
     directions of the two trailing filaments *)
  Record hshoe := mk_hs { hP0 : v3 T; hP1 : v3 T; hJ0 : v3 T; hJ1 : v3 T; hu0 : v3 T; hu1 : v3 T }.

  (* straight segment A -> B seen at ra = PC - A, rb = PC - B (scene.py 525-527, 531-533, 536-538):
     (|ra|+|rb|) (ra x rb) / (|ra||rb| (|ra||rb| + ra.rb)) *)
  Definition seg_kernel (ra rb : v3 T) : v3 T :=
    let ma := vnorm ra in let mb := vnorm rb in
    let mm := ma * mb in
    vdivs (vscale (ma + mb) (vcross ra rb)) (mm * (mm + vdot ra rb)).

  (* semi-infinite filament leaving the joint along u, seen at r = PC - joint (scene.py 621-630):
     (u x r) / (|r| (|r| - u.r)), dropped when the denominator is not above the cut-off *)
  Definition trail_denom (u r : v3 T) : T := let m := vnorm r in m * (m - vdot u r).
  Definition trail_kernel (u r : v3 T) : v3 T :=
    let d := trail_denom u r in
    if cutoff <? d then
      let c := vcross u r in V3 (fnn (vx c / d)) (fnn (vy c / d)) (fnn (vz c / d))
    else vzero.

  (* scene.py 525-541, 621-634; [diag]: the bound segment of a control point's own vortex is zeroed *)
  Definition vji (diag : bool) (pc : v3 T) (h : hshoe) : v3 T :=
    let r0 := vsub pc (hP0 h) in let r1 := vsub pc (hP1 h) in
    let r0j := vsub pc (hJ0 h) in let r1j := vsub pc (hJ1 h) in
    let bound := if diag then vzero else seg_kernel r0 r1 in
    let j0 := seg_kernel r0j r0 in
    let j1 := seg_kernel r1 r1j in
    let t0 := vopp (trail_kernel (hu0 h) r0j) in
    let t1 := trail_kernel (hu1 h) r1j in
    vscale inv4pi (vadd (vadd t0 (vadd (vadd bound j0) j1)) t1).

  Fixpoint vji_row_from (j i : nat) (pc : v3 T) (row : list hshoe) : list (v3 T) :=
    match row with
    | [] => []
    | h :: r => vji (Nat.eqb i j) pc h :: vji_row_from (S j) i pc r
    end.
  Definition vji_row (i : nat) (pc : v3 T) (row : list hshoe) : list (v3 T) := vji_row_from 0 i pc row.

  (* induced velocity: np.einsum('ijk,j->ik', V_ji, gamma) for one i *)
  Fixpoint induced (Vr : list (v3 T)) (g : list T) : v3 T :=
    match Vr, g with
    | V :: Vr', x :: g' => vadd (vscaler V x) (induced Vr' g')
    | _, _ => vzero
    end.
End Kernel.
Arguments hshoe T : clear implicits.
