From Coq Require Import PrimFloat List Bool ZArith.
From MuxV Require Import Base.Num Base.Vec3 Base.FInst Model.Helpers Model.Assemble.
Import ListNotations.
Local Open Scope float_scope.

Definition t3 := (float * float * float)%type.
Definition mk3 (e : t3) : v3 float := let '(x, y, z) := e in V3 x y z.
Definition cl3 (atol : float) (a : v3 float) (e : t3) : bool :=
  let '(x, y, z) := e in fclose 0x1p-40 atol (vx a) x && fclose 0x1p-40 atol (vy a) y && fclose 0x1p-40 atol (vz a) z.
(* nodes of the horseshoes of one aircraft (attitude q, position p) as seen by one control point: rows (same aircraft?, effective, actual, scene entry) *)
Definition chk_nodes_seen (atol : float) (q : quat float) (p : t3) (rows : list (bool * t3 * t3 * t3)) : bool :=
  forallb (fun r => let '(same, e, a, got) := r in cl3 atol (node_seen same q (mk3 p) (mk3 e) (mk3 a)) got) rows.
(* control points and the node-to-control-point vectors *)
Definition chk_points (atol : float) (q : quat float) (p : t3) (rows : list (t3 * t3)) : bool :=
  forallb (fun r => cl3 atol (to_earth q (mk3 p) (mk3 (fst r))) (snd r)) rows.
Definition chk_rvecs (atol : float) (rows : list (t3 * t3 * t3)) : bool :=
  forallb (fun r => let '(pc, node, got) := r in cl3 atol (r_vec (mk3 pc) (mk3 node)) got) rows.
