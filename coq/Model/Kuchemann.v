(* machupX/wing_segment.py 766-802: the lifting line on Kuchemann's locus of aerodynamic centres, as a fraction of the local chord at
   every vortex node of a segment with constant sweep.  cos, tan and the power function (Python's float ** float, C pow) are oracles. *)
From Coq Require Import ZArith List Bool.
From MuxV Require Import Base.Num.
Import ListNotations.

Section Kuchemann.
  Context {T : Type} {N : Num T}.
  Local Open Scope num_scope.
  Variables (fcos ftan : T -> T) (fpow : T -> T -> T) (pi : T).

  Definition quarter : T := n1 / nofZ 4.
  (* 769: aspect ratio of the segment *)
  Definition aspect (b area : T) : T := nofZ 2 * b / area.     (* "area" is quad(chord, 0, 1): the mean chord *)
  (* (CLa cos(sweep) / (pi R_A)) ** 2 *)
  Definition lift_term (CLa RA sw : T) : T := fpow (CLa * fcos sw / (pi * RA)) (nofZ 2).
  (* 770-773: the sweep enters through its magnitude *)
  Definition sweep_eff (CLa RA sw : T) : T := let s := nabs sw in s / fpow (n1 + lift_term CLa RA s) quarter.
  (* 776-780 *)
  Definition sweep_div (se : T) : T := if se =? n0 then n1 else ftan se / se.
  (* 781-782 *)
  Definition kfac (CLa RA se : T) : T := fpow (n1 + lift_term CLa RA se) (pi / (nofZ 4 * (pi + nofZ 2 * nabs se))).
  (* 795-797: the hyperbolic interpolation weight *)
  Definition lam (sd x : T) : T := let t := nofZ 2 * pi * sd * x in nsqrt (n1 + t * t) - t.
  (* 789-800 at one node: span fraction [loc] (root to tip), local chord [c] *)
  Definition offset_at (CLa RA sw b : T) (loc c : T) : T :=
    let se := sweep_eff CLa RA sw in
    let sd := sweep_div se in
    let z := loc * b in
    let cen := if c =? n0 then n0 else z / c in
    let tip := if c =? n0 then n0 else (b - z) / c in
    let l := lam sd cen - lam sd tip in
    - (quarter * (n1 - n1 / kfac CLa RA se * (n1 + nofZ 2 * l * se / pi))).
  Definition offsets (CLa RA sw b : T) (nodes : list (T * T)) : list T := map (fun p => offset_at CLa RA sw b (fst p) (snd p)) nodes.
End Kuchemann.
