From Coq Require Import PrimFloat List Bool ZArith String.
From MuxV Require Import Base.Num Base.Vec3 Base.FInst Model.Helpers Model.HelpersF Model.Kernel Model.Residual Model.Integrate Model.SceneF.
Import ListNotations.
Local Open Scope float_scope.

(* polynomial section models probed from the live airfoils (exact for 'linear' airfoils and their blends) *)
Definition quad_fn (q2 q1 q0 : float) : float -> float -> float -> float := fun al _ _ => (q2 * al + q1) * al + q0.
Definition mk_iptF (rCG : v3 float) (rho : float) (ua un : v3 float) (d2 d1 d0 m1 m0 : float) : ipt float :=
  mk_ipt rCG rho ua un (quad_fn d2 d1 d0) (quad_fn 0 m1 m0).

Definition station := (cpt float * ipt float * v3 float * float)%type.     (* control point, extras, local velocity, circulation *)

Section S.
  Variables (at2 : list (float * float * float)) (o : opts).
  Definition loadF (s : station) : secload float :=
    let '(c, p, v, g) := s in section_load (olookup2_near at2) o 0.5 c p v g.

  (* expected: dF_inv, dF_visc, dM_inv, dM_visc and a force scale / moment scale *)
  Definition chk_station (tol fs ms : float) (s : station) (e : v3 float * v3 float * v3 float * v3 float) : bool :=
    let L := loadF s in
    let '(a, b, c, d) := e in
    v3_near tol fs (dFi L) a && v3_near tol fs (dFv L) b && v3_near tol ms (dMi L) c && v3_near tol ms (dMv L) d.
  Definition chk_stations tol fs ms (ss : list station) es : bool :=
    Nat.eqb (List.length ss) (List.length es) && forallb (fun p => chk_station tol fs ms (fst p) (snd p)) (combine ss es).

  Definition seg_fm (q : quat float) (seg : string * list station) : string * fm * fm :=
    let ls := map loadF (snd seg) in
    let '(i, v) := seg_body q ls in (fst seg, i, v).

  Definition reportF (ro : ropts) (r : refs float) (q : quat float) (vinf0 : v3 float) (segs : list (string * list station)) : list (entry (T:=float)) :=
    let uinf := quat_trans q (vdivs vinf0 (vnorm vinf0)) in
    report ro r uinf (map (seg_fm q) segs).
End S.

Definition part_eqb (a b : part) : bool :=
  match a, b with Inviscid, Inviscid | Viscous, Viscous | Total, Total => true | _, _ => false end.
Definition oseg_eqb (a b : option string) : bool :=
  match a, b with Some x, Some y => String.eqb x y | None, None => true | _, _ => false end.
(* expected entries carry their own magnitude scale *)
Definition xentry := (part * string * option string * float * float)%type.
Definition entry_match (tol : float) (e : entry (T:=float)) (x : xentry) : bool :=
  let '(p, k, s, v) := e in let '(p', k', s', v', sc) := x in
  part_eqb p p' && String.eqb k k' && oseg_eqb s s' && f_near tol sc v v'.
(* same number of entries, every model entry has its counterpart and vice versa *)
Definition chk_report (tol : float) (model : list (entry (T:=float))) (expected : list xentry) : bool :=
  Nat.eqb (List.length model) (List.length expected) &&
  forallb (fun e => existsb (entry_match tol e) expected) model &&
  forallb (fun x => existsb (fun e => entry_match tol e x) model) expected.
