From Coq Require Import PrimFloat List Bool ZArith.
From MuxV Require Import Base.Num Base.Vec3 Base.FInst Model.Helpers Model.HelpersF Model.AeroState.
Import ListNotations.
Local Open Scope float_scope.

(* oracle tables: cos sin tan atan asin (1-arg), atan2 (2-arg); every predicate takes all of them *)
Record orc := { tc : list (float * float); ts : list (float * float); tt : list (float * float);
                ta : list (float * float); tas : list (float * float); ta2 : list (float * float * float);
                d2r : float; r2d : float }.
Definition mk_orc tc ts tt ta tas ta2 d2r r2d := Build_orc tc ts tt ta tas ta2 d2r r2d.

Definition chk_get_aero (o : orc) (q : quat float) (v w : v3 float) (ea eb eV : float) : bool :=
  let '(a, b, V) := get_aero_state (olookup (tas o)) (olookup2 (ta2 o)) (r2d o) q v w in
  fbits_eq a ea && fbits_eq b eb && fbits_eq V eV.
Definition chk_set_aero (o : orc) (q : quat float) (v w : v3 float) (a b V : option float) (e : v3 float) : bool :=
  v3_bits (set_aero_state (olookup (tc o)) (olookup (ts o)) (olookup (tt o)) (olookup (ta o)) (olookup (tas o))
             (olookup2 (ta2 o)) (d2r o) (r2d o) q v w a b V) e.
(* exact-argument lookup, falling back to the nearest entry within a few ulp: the code squares with ** (libm pow), the model with a
   product, and the two sums of squares can differ in the last bit *)
Fixpoint onear1 (tbl : list (float * float)) (x : float) (best : float * float) : float * float :=
  match tbl with
  | [] => best
  | (a, r) :: t => let d := abs (a - x) in if PrimFloat.ltb d (fst best) then onear1 t x (d, r) else onear1 t x best
  end.
Definition olookup_near (tbl : list (float * float)) (x : float) : float :=
  let '(d, r) := onear1 tbl x (infinity, nan) in if PrimFloat.leb d (0x1p-50 * abs x) then r else nan.

Definition chk_set_state (o : orc) (oi : orient_in) (vin : vel_in) (fr : frame_in) (w_raw wind : v3 float)
           (eq_ : quat float) (ev ew : v3 float) : bool :=
  let q := parse_orientation (olookup (tc o)) (olookup (ts o)) (d2r o) oi in
  q4_close 0x1p-51 0 q eq_ &&
  (* velocity and rates are computed from the quaternion the code itself stored, so that the BLAS
     rounding of np.linalg.norm does not propagate into a bit-exact comparison *)
  v3_bits (parse_velocity (olookup (tc o)) (olookup (ts o)) (olookup (tt o)) (olookup (ta o)) (d2r o) eq_ vin wind) ev &&
  v3_bits (parse_rates (olookup (tc o)) (olookup (ts o)) (olookup_near (tas o)) (olookup2 (ta2 o)) (d2r o) eq_ wind vin fr w_raw) ew.
