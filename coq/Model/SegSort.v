(* machupX/airplane.py 822-862 (_sort_segments_left_to_right, one wing): the left-hand segments are put in order by repeatedly picking,
   among those not yet picked, the one whose tip is farthest from the body x-axis.  A segment is (identifier, distance of its tip).
   [init] is the distance a tip has to beat in every pass: 0.0 in the pinned snapshot, -1.0 since fix d0fcbd7. *)
From Coq Require Import ZArith List Bool Arith.
From MuxV Require Import Base.Num.
Import ListNotations.

Section SegSort.
  Context {T : Type} {N : Num T}.
  Local Open Scope num_scope.
  Definition seg := (nat * T)%type.
  Definition picked (i : nat) (sorted : list nat) : bool := existsb (Nat.eqb i) sorted.
  (* one pass of the for loop: the running candidate and the distance to beat *)
  Fixpoint pass (l : list seg) (sorted : list nat) (best : option seg) (beat : T) : option seg :=
    match l with
    | [] => best
    | (i, n) :: r => if (beat <? n) && negb (picked i sorted) then pass r sorted (Some (i, n)) n else pass r sorted best beat
    end.
  (* the while loop; fuel = number of segments (every pass but the last picks one) *)
  Fixpoint sort_left (init : T) (fuel : nat) (l : list seg) (sorted : list nat) : list nat :=
    match fuel with
    | 0 => sorted
    | Datatypes.S f => match pass l sorted None init with
                       | None => sorted
                       | Some (i, _) => sort_left init f l (sorted ++ [i])
                       end
    end.
End SegSort.
