From Coq Require Import PrimFloat List Bool ZArith Arith.
From MuxV Require Import Base.Num Base.Vec3 Base.FInst Base.Interp Model.QCurve.
Import ListNotations.
Local Open Scope float_scope.

Definition v3_close (rtol atol : float) (a : v3 float) (e : float * float * float) : bool :=
  let '(ex, ey, ez) := e in fclose rtol atol (vx a) ex && fclose rtol atol (vy a) ey && fclose rtol atol (vz a) ez.
Definition mkv (e : float * float * float) : v3 float := let '(x, y, z) := e in V3 x y z.

(* section angles at the given span fractions, bit for bit *)
Definition chk_angles (d2r : float) (left_side : bool) (tw di sw : dist float) (spans etw edi esw : list float) : bool :=
  all2 fbits_eq (map (get_twist d2r tw) spans) etw &&
  all2 fbits_eq (map (get_dihedral d2r left_side di) spans) edi &&
  all2 fbits_eq (map (get_sweep d2r left_side sw) spans) esw.

Definition chk_discont (di sw : dist float) (e : list float) : bool := all2 fbits_eq (mk_discont di sw) e.

(* the quarter-chord curve of a semispan / sweep / dihedral description; quad values from tables keyed by the two limits *)
Definition chk_qc_standard (left_side : bool) (root : float * float * float) (b : float) (di sw : dist float)
           (tx ty tz : list (float * float * float)) (spans : list float) (e : list (float * float * float)) : bool :=
  let disc := mk_discont di sw in
  Nat.eqb (List.length spans) (List.length e) &&
  forallb (fun p => v3_close 0x1p-40 0x1p-40 (qc_standard left_side (mkv root) (olookup2 tx) (olookup2 ty) (olookup2 tz) b disc (fst p)) (snd p))
          (combine spans e).

(* quarter-chord points *)
Definition chk_qc_points (left_side : bool) (root : float * float * float) (pts : list (float * float * float))
           (eb : float) (spans : list float) (e : list (float * float * float)) : bool :=
  let ps := map mkv pts in
  fclose 0x1p-45 0 (qc_semispan ps) eb &&
  Nat.eqb (List.length spans) (List.length e) &&
  forallb (fun p => v3_close 0x1p-40 0x1p-40 (qc_points left_side (mkv root) (qc_table ps) (fst p)) (snd p)) (combine spans e).

(* connection: attachment point on the parent (None: the origin) plus the offsets *)
Definition chk_root (left_side : bool) (attach : float * float * float) (at_parent_root parent_left : bool) (parent_yoff : float)
           (dx dy dz yoff : float) (e : float * float * float) : bool :=
  let a := if at_parent_root then attach_at_root parent_left (mkv attach) parent_yoff else mkv attach in
  v3_close 0x1p-48 0x1p-48 (root_loc a (delta_origin left_side dx dy dz yoff)) e.

(* lifting-line points from quarter-chord points, offset, chord and section angles (cos / sin tables) *)
Definition chk_ll (tc ts : list (float * float)) (rows : list ((float * float * float) * float * float * float * float))
           (e : list (float * float * float)) : bool :=
  Nat.eqb (List.length rows) (List.length e) &&
  forallb (fun p => let '(qc, off, chord, tw, di) := fst p in
                    v3_close 0x1p-44 0x1p-44 (ll_loc (mkv qc) off chord (unswept_axial (olookup tc) (olookup ts) tw di)) (snd p))
          (combine rows e).

(* section dihedral of a curve given by points: window and angle, bit for bit (arctan2 from a table keyed by its two arguments) *)
Definition chk_dihedral_points (ta : list (float * float * float)) (left_side : bool)
           (rows : list (float * (float * float) * ((float * float * float) * (float * float * float)))) (e : list float) : bool :=
  Nat.eqb (List.length rows) (List.length e) &&
  forallb (fun p => let '(s, w, (p0, p1)) := fst p in
                    let (a, b) := fd_window s in
                    fbits_eq a (fst w) && fbits_eq b (snd w) &&
                    fbits_eq (dihedral_points (olookup2 ta) left_side (mkv p0) (mkv p1)) (snd p))
          (combine rows e).

Definition chk_sweep_points (tt tq : list (float * float)) (left_side : bool)
           (rows : list ((float * float * float) * (float * float * float))) (e : list float) : bool :=
  Nat.eqb (List.length rows) (List.length e) &&
  forallb (fun p => let '(p0, p1) := fst p in fbits_eq (sweep_points (olookup tt) (olookup tq) left_side (mkv p0) (mkv p1)) (snd p)) (combine rows e).
