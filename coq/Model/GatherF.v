From Coq Require Import PrimFloat List Bool ZArith.
From MuxV Require Import Base.Num Base.FInst Model.Gather.
Import ListNotations.
Local Open Scope float_scope.
Definition chk_wing_spans (segs : list (segsp float)) (ePC eP0 eP1 : list float) : bool :=
  all2 fbits_eq (wing_PC 0 segs) ePC && all2 fbits_eq (wing_P0 0 segs) eP0 && all2 fbits_eq (wing_P1 0 segs) eP1.
