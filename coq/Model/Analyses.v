(* scene.py 1876-2273 (derivatives), 2440-2660 (pitch_trim), 2891-2986 (aero_center), 3887-4006 (target_CL),
   2276-2437 / 2663-2888 (state handling of state_derivatives and pitch_trim_using_orientation):
   the analyses as functionals of an abstract solve function F, together with the aircraft state they leave behind. *)
From Coq Require Import ZArith List Bool.
From MuxV Require Import Base.Num Base.Vec3 Model.Helpers Model.AeroState.
Import ListNotations.

Section Analyses.
  Context {T : Type} {N : Num T}.
  Local Open Scope num_scope.
  Variables (fcos fsin ftan fatan fasin : T -> T) (fatan2 : T -> T -> T) (deg2rad rad2deg : T).

  (* state of one aircraft as the Airplane object stores it *)
  Record ast := mk_ast { s_v : v3 T; s_w : v3 T; s_p : v3 T; s_q : quat T; s_c : list T }.
  Variable W : v3 T.                     (* wind at the aircraft position (uniform during the analysis) *)
  Variable F : ast -> list T.            (* solve_forces: the requested totals, in a fixed key order *)

  Definition get_ae (s : ast) := get_aero_state fasin fatan2 rad2deg (s_q s) (s_v s) W.
  Definition set_ae (s : ast) (a b V : option T) : ast :=
    mk_ast (set_aero_state fcos fsin ftan fatan fasin fatan2 deg2rad rad2deg (s_q s) (s_v s) W a b V) (s_w s) (s_p s) (s_q s) (s_c s).
  Definition set_w (s : ast) (w : v3 T) : ast := mk_ast (s_v s) w (s_p s) (s_q s) (s_c s).
  Definition set_c (s : ast) (c : list T) : ast := mk_ast (s_v s) (s_w s) (s_p s) (s_q s) c.

  (* central difference of two result tables *)
  Definition cdiff (k : T) (fwd bwd : list T) : list T := map2 (fun a b => (a - b) * k) fwd bwd.
  Definition cdiff_div (k : T) (fwd bwd : list T) : list T := map2 (fun a b => (a - b) / k) fwd bwd.

  (* scene.py 1915-1992; dtheta in degrees; returns (d/dalpha table, d/dbeta table, state left behind) *)
  Definition stability (s : ast) (dth : T) : list T * list T * ast :=
    let '(a0, b0, _) := get_ae s in
    let s1 := set_ae s (Some (a0 + dth)) None None in
    let s2 := set_ae s1 (Some (a0 - dth)) None None in
    let s3 := set_ae s2 (Some a0) (Some (b0 + dth)) None in
    let s4 := set_ae s3 None (Some (b0 - dth)) None in
    let k := n1 / (nofZ 2 * radians deg2rad dth) in
    (cdiff k (F s1) (F s2), cdiff k (F s3) (F s4), set_ae s4 (Some a0) (Some b0) None).

  (* scene.py 2039-2110; perturbations already expressed in body axes; returns three tables scaled by
     1/(2 dw) * 2V/l with l = lat, lon, lat, and the state left behind *)
  Definition damping (s : ast) (dw : T) (pp qq rr : v3 T) (lat lon : T) : list T * list T * list T * ast :=
    let '(_, _, V0) := get_ae s in
    let w0 := s_w s in
    let kl := n1 / (nofZ 2 * dw) in
    let tab (d : v3 T) (l : T) := map (fun x => x * (nofZ 2 * V0 / l))
                                      (cdiff kl (F (set_w s (vadd w0 d))) (F (set_w s (vsub w0 d)))) in
    (tab pp lat, tab qq lon, tab rr lat, set_w s w0).

  (* scene.py 2220-2271 for one control (index i): value +- dtheta, restored afterwards *)
  Fixpoint set_nth (l : list T) (i : nat) (x : T) : list T :=
    match l, i with
    | [], _ => []
    | _ :: r, 0 => x :: r
    | y :: r, Datatypes.S j => y :: set_nth r j x
    end.
  Definition control_deriv (s : ast) (i : nat) (dth : T) : list T * ast :=
    let c0 := s_c s in
    let x := nth i c0 n0 in
    let fwd := F (set_c s (set_nth c0 i (x + dth))) in
    let bwd := F (set_c s (set_nth c0 i (x - dth))) in
    (cdiff_div (nofZ 2 * radians deg2rad dth) fwd bwd, set_c s (set_nth c0 i x)).

  (* scene.py 2954-2971: aerodynamic-centre point and moment from three result tables [Cx; Cz; Cm] at alpha0-delta, alpha0, alpha0+delta *)
  Definition ac_point (FM0 FM1 FM2 : list T) (delta : T) : T * T * T :=
    let g (l : list T) (i : nat) := nth i l n0 in
    let d2 := delta * delta in
    let CA_a := (- g FM2 0 + g FM0 0) / (nofZ 2 * delta) in
    let CN_a := (- g FM2 1 + g FM0 1) / (nofZ 2 * delta) in
    let Cm_a := (g FM2 2 - g FM0 2) / (nofZ 2 * delta) in
    let CA_a2 := (- g FM2 0 + nofZ 2 * g FM1 0 - g FM0 0) / d2 in
    let CN_a2 := (- g FM2 1 + nofZ 2 * g FM1 1 - g FM0 1) / d2 in
    let Cm_a2 := (g FM2 2 - nofZ 2 * g FM1 2 + g FM0 2) / d2 in
    let den := CN_a * CA_a2 - CA_a * CN_a2 in
    let x := (CA_a * Cm_a2 - Cm_a * CA_a2) / den in
    let z := (CN_a * Cm_a2 - Cm_a * CN_a2) / den in
    (x, z, g FM1 2 - x * g FM1 1 + z * g FM1 0).
  (* scene.py 2928-2978; returns (x_ac/l, z_ac/l, Cm_ac) and the state left behind *)
  Definition aero_center (s : ast) (delta : T) : T * T * T * ast :=
    let FM1 := F s in
    let '(a0, b0, V0) := get_ae s in
    let s0 := set_ae s (Some (a0 - delta)) (Some b0) (Some V0) in
    let FM0 := F s0 in
    let s2 := set_ae s0 (Some (a0 + delta)) (Some b0) (Some V0) in
    let FM2 := F s2 in
    let s3 := set_ae s2 (Some a0) (Some b0) (Some V0) in
    (ac_point FM0 FM1 FM2 delta, s3).

  (* scene.py 3955-3998: secant-type iteration on alpha; F returns [CL]; fuel = max_iterations *)
  Inductive tres := TOk (alpha : T) (s : ast) | TMaxIter.
  Definition CL_of (s : ast) : T := nth 0 (F s) n0.
  Fixpoint target_CL_loop (fuel : nat) (s : ast) (alpha CL target relax tol : T) : option (T * ast) :=
    if tol <? nabs (CL - target) then
      match fuel with
      | 0 => None
      | Datatypes.S f =>
          let sf := set_ae s (Some (alpha + nofZ 5 / nofZ 1000)) None None in
          let sb := set_ae sf (Some (alpha - nofZ 5 / nofZ 1000)) None None in
          let CLa := (CL_of sf - CL_of sb) / (n1 / nofZ 100) in
          let alpha' := alpha + (target - CL) / CLa * relax in
          let s' := set_ae sb (Some alpha') None None in
          match f with
          | 0 => None                                   (* i == max_iter: MaxIterationError *)
          | _ => target_CL_loop f s' alpha' (CL_of s') target relax tol
          end
      end
    else Some (alpha, s).
  (* scene.py 2521-2616: Newton iteration on (alpha, pitch control) with a finite-difference Jacobian.
     F returns [CL; Cm_w; Cm]; residual = (CL - CL_des, Cm - Cm_des); ic = index of the pitch control. *)
  Definition trim_res (s : ast) (CLd Cmd : T) : T * T := (nth 0 (F s) n0 - CLd, nth 2 (F s) n0 - Cmd).
  Definition big (tol : T) (R : T * T) : bool := (tol <? nabs (fst R)) || (tol <? nabs (snd R)).
  Variable solve2 : T -> T -> T -> T -> T -> T -> T * T.     (* np.linalg.solve on the 2x2 system: J00 J01 J10 J11 b0 b1 *)
  Fixpoint pitch_trim_loop (fuel : nat) (s : ast) (ic : nat) (alpha flap : T) (R : T * T) (CLd Cmd relax tol : T)
    : option (T * T * ast) :=
    if big tol R then
      match fuel with
      | 0 => None
      | Datatypes.S f =>
          let dth := n1 / nofZ 2 in
          let c0 := s_c s in
          let x := nth ic c0 n0 in
          let FMf := F (set_c s (set_nth c0 ic (x + dth))) in
          let FMb := F (set_c s (set_nth c0 ic (x - dth))) in
          let s0 := set_c s (set_nth c0 ic x) in
          let dd := nofZ 2 * radians deg2rad dth in
          let CL_d := (nth 0 FMf n0 - nth 0 FMb n0) / dd in
          let Cm_d := (nth 1 FMf n0 - nth 1 FMb n0) / dd in
          let '(a0, b0, _) := get_ae s0 in
          let sa := set_ae s0 (Some (a0 + dth)) None None in
          let sb := set_ae sa (Some (a0 - dth)) None None in
          let CL_a := (nth 0 (F sa) n0 - nth 0 (F sb) n0) / dd in
          let Cm_a := (nth 1 (F sa) n0 - nth 1 (F sb) n0) / dd in
          let sr := set_ae sb (Some a0) (Some b0) None in
          let '(d0, d1) := solve2 CL_a CL_d Cm_a Cm_d (- fst R) (- snd R) in
          let alpha1 := alpha + degrees rad2deg d0 * relax in
          let flap1 := flap + degrees rad2deg d1 * relax in
          let s1 := set_c (set_ae sr (Some alpha1) None None) (set_nth (s_c sr) ic flap1) in
          let R1 := trim_res s1 CLd Cmd in
          match f with
          | 0 => None                                   (* i == max_iter: MaxIterationError *)
          | _ => pitch_trim_loop f s1 ic alpha1 flap1 R1 CLd Cmd relax tol
          end
      end
    else Some (alpha, flap, s).

  (* scene.py 2729-2960 (pitch_trim_using_orientation): Newton iteration on (elevation angle, pitch control) with finite-difference
     derivatives; the attitude is rebuilt from the unchanged bank and heading and the current elevation, the Earth-fixed velocity v0, the
     position p0 and the rates w0 recorded before the loop are handed back at every state update (set_state takes the velocity in
     body-fixed components: quat_trans q v0).  The control is in degrees and its derivative is taken per degree; F returns [CL; Cm_w; Cm]. *)
  Definition with_attitude (s : ast) (q : quat T) (v0 w0 p0 : v3 T) : ast :=
    mk_ast (quat_inv_trans q (quat_trans q v0)) w0 p0 q (s_c s).
  Fixpoint orient_trim_loop (fuel : nat) (s : ast) (ic : nat) (phi theta psi flap : T) (R : T * T) (CLd Cmd relax tol : T)
           (v0 w0 p0 : v3 T) : option (T * T * ast) :=
    if big tol R then
      match fuel with
      | 0 => None
      | Datatypes.S f =>
          let dth := n1 / nofZ 1000 in
          let c0 := s_c s in
          let FMf := F (set_c s (set_nth c0 ic (flap + dth))) in
          let FMb := F (set_c s (set_nth c0 ic (flap - dth))) in
          let s0 := set_c s (set_nth c0 ic flap) in
          let dd := nofZ 2 * dth in
          let CL_de := (nth 0 FMf n0 - nth 0 FMb n0) / dd in
          let Cm_de := (nth 2 FMf n0 - nth 2 FMb n0) / dd in
          let sf := with_attitude s0 (euler_to_quat fcos fsin phi (theta + dth) psi) v0 w0 p0 in
          let sb := with_attitude sf (euler_to_quat fcos fsin phi (theta - dth) psi) v0 w0 p0 in
          let CL_dt := (nth 0 (F sf) n0 - nth 0 (F sb) n0) / dd in
          let Cm_dt := (nth 2 (F sf) n0 - nth 2 (F sb) n0) / dd in
          let '(d0, d1) := solve2 CL_dt CL_de Cm_dt Cm_de (- fst R) (- snd R) in
          let theta1 := theta + d0 * relax in
          let flap1 := flap + d1 * relax in
          let s1 := set_c (with_attitude sb (euler_to_quat fcos fsin phi theta1 psi) v0 w0 p0) (set_nth (s_c sb) ic flap1) in
          let R1 := trim_res s1 CLd Cmd in
          match f with
          | 0 => None                                   (* i == max_iter: MaxIterationError *)
          | _ => orient_trim_loop f s1 ic phi theta1 psi flap1 R1 CLd Cmd relax tol v0 w0 p0
          end
      end
    else Some (theta, flap, s).

  (* scene.py 2376-2503 (state_derivatives / _determine_state_derivs): one row of the table.  The state is handed to set_state as
     (position, body-fixed velocity, attitude, body rates); a component is moved by +d and then by -2d; for the attitude the quaternion is
     multiplied by a small rotation about one body axis and the body-fixed velocity is turned with it, so that the Earth-fixed velocity
     stays what it was.  F returns the dimensional [Fx; Fy; Fz; Mx; My; Mz]. *)
  Definition vbump (v : v3 T) (i : nat) (d : T) : v3 T :=
    match i with 0 => V3 (vx v + d) (vy v) (vz v) | 1 => V3 (vx v) (vy v + d) (vz v) | _ => V3 (vx v) (vy v) (vz v + d) end.
  Definition from_body (p vb : v3 T) (q : quat T) (w : v3 T) (c : list T) : ast := mk_ast (quat_inv_trans q vb) w p q c.
  Inductive svar := SVel | SPos | SRate.
  (* what is handed to set_state: (position, body-fixed velocity, attitude, body rates) *)
  Definition sargs := (v3 T * v3 T * quat T * v3 T)%type.
  Definition of_args (a : sargs) (c : list T) : ast := let '(p, vb, q, w) := a in from_body p vb q w c.
  Definition sd_args (s : ast) (var : svar) (i : nat) (d : T) : sargs :=
    let vb := quat_trans (s_q s) (s_v s) in
    match var with
    | SVel => (s_p s, vbump vb i d, s_q s, s_w s)
    | SPos => (vbump (s_p s) i d, vb, s_q s, s_w s)
    | SRate => (s_p s, vb, s_q s, vbump (s_w s) i d)
    end.
  (* the backward state is reached from the forward one: (x + d) - 2 d *)
  Definition sd_args_b (s : ast) (var : svar) (i : nat) (d : T) : sargs :=
    let vb := quat_trans (s_q s) (s_v s) in
    match var with
    | SVel => (s_p s, vbump (vbump vb i d) i (- (nofZ 2 * d)), s_q s, s_w s)
    | SPos => (vbump (vbump (s_p s) i d) i (- (nofZ 2 * d)), vb, s_q s, s_w s)
    | SRate => (s_p s, vb, s_q s, vbump (vbump (s_w s) i d) i (- (nofZ 2 * d)))
    end.
  Definition sd_state (s : ast) (var : svar) (i : nat) (d : T) : ast := of_args (sd_args s var i d) (s_c s).
  Definition sd_row (s : ast) (var : svar) (i : nat) (d : T) : list T :=
    cdiff ((n1 / nofZ 2) / d) (F (of_args (sd_args s var i d) (s_c s))) (F (of_args (sd_args_b s var i d) (s_c s))).
  Definition dq_of (i : nat) (e : T) : quat T :=
    let h := (n1 / nofZ 2) * e in
    quat_normalize (match i with 0 => Q4 n1 h n0 n0 | 1 => Q4 n1 n0 h n0 | _ => Q4 n1 n0 n0 h end).
  Definition sd_args_q (s : ast) (i : nat) (e : T) (fwd : bool) : sargs :=
    let vb := quat_trans (s_q s) (s_v s) in
    let dq := dq_of i e in
    if fwd then (s_p s, quat_trans dq vb, quat_mult (s_q s) dq, s_w s)
    else (s_p s, quat_inv_trans dq vb, quat_mult (s_q s) (quat_conj dq), s_w s).
  Definition sd_state_q (s : ast) (i : nat) (e : T) (fwd : bool) : ast := of_args (sd_args_q s i e fwd) (s_c s).
  Definition sd_row_q (s : ast) (i : nat) (e : T) : list T :=
    cdiff ((n1 / nofZ 2) / e) (F (sd_state_q s i e true)) (F (sd_state_q s i e false)).
End Analyses.
Arguments ast T : clear implicits.
