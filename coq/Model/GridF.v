From Coq Require Import PrimFloat List Bool ZArith Arith.
From MuxV Require Import Base.Num Base.FInst Model.Grid.
Import ListNotations.
Local Open Scope float_scope.

Definition chk_grid (ct : list (float * float)) (pi : float) (left_side : bool) (secs : list (float * float * nat))
           (enodes ecps : list float) : bool :=
  let g := for_side left_side (cosine_grid (olookup ct) pi 0.5 secs) in
  all2 fbits_eq (fst g) enodes && all2 fbits_eq (snd g) ecps.
Definition chk_linear_grid (left_side : bool) (n : nat) (enodes ecps : list float) : bool :=
  let g := for_side left_side (linear_grid n) in
  all2 fbits_eq (fst g) enodes && all2 fbits_eq (snd g) ecps.
Definition chk_explicit_grid (left_side : bool) (l enodes ecps : list float) : bool :=
  let g := for_side left_side (explicit_grid l) in
  all2 fbits_eq (fst g) enodes && all2 fbits_eq (snd g) ecps.
Definition chk_alloc (Ncp : Z) (rounded expect : list Z) : bool :=
  let a := alloc Ncp rounded in Nat.eqb (List.length a) (List.length expect) && forallb (fun p => Z.eqb (fst p) (snd p)) (combine a expect).
Definition chk_areas (b : float) (node_spans node_chords ecbar edS : list float) : bool :=
  let cb := mean_chords node_chords in
  all2 fbits_eq cb ecbar && all2 fbits_eq (areas b node_spans cb) edS.
Definition chk_refs (gS glat glon : option float) (segs : list (bool * bool * float * float)) (eS elon elat : float) : bool :=
  let '(Sr, lon, lat) := ref_defaults gS glat glon segs in
  fclose 0x1p-50 0 Sr eS && fclose 0x1p-50 0 lon elon && fclose 0x1p-50 0 lat elat.
