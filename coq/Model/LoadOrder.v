(* machupX/airplane.py _load_wing_segments: the order in which the segments of the "wings" dictionary are attached.  A segment is
   (key, ID, ID it connects to).  First loop: every segment is put in front of the first listed segment that connects to it, or at the
   end.  Second loop (fix aa4a7c8): while some segment stands in front of the segment it connects to, the first such segment is moved
   right behind that one; at most (number of segments)^2 moves. *)
From Coq Require Import List Bool Arith.
Import ListNotations.

Definition sg := (nat * nat * nat)%type.
Definition skey (s : sg) : nat := fst (fst s).
Definition sID (s : sg) : nat := snd (fst s).
Definition spar (s : sg) : nat := snd s.

Fixpoint insert_before_dependent (k : sg) (l : list sg) : option (list sg) :=
  match l with
  | [] => None
  | x :: r => if Nat.eqb (spar x) (sID k) then Some (k :: x :: r) else option_map (cons x) (insert_before_dependent k r)
  end.
Definition place (l : list sg) (k : sg) : list sg :=
  match insert_before_dependent k l with Some l' => l' | None => l ++ [k] end.
Definition first_order (input : list sg) : list sg := fold_left place input [].

(* x stood in front of r; put it right behind the first element of r that x connects to *)
Fixpoint insert_after_parent (x : sg) (r : list sg) : option (list sg) :=
  match r with
  | [] => None
  | y :: r' => if Nat.eqb (sID y) (spar x) then Some (y :: x :: r') else option_map (cons y) (insert_after_parent x r')
  end.
(* one move, or None when no segment stands in front of the segment it connects to *)
Fixpoint fix_step (l : list sg) : option (list sg) :=
  match l with
  | [] => None
  | x :: r => match insert_after_parent x r with
              | Some r' => Some r'
              | None => option_map (cons x) (fix_step r)
              end
  end.
Fixpoint fixup (fuel : nat) (l : list sg) : list sg :=
  match fuel with
  | 0 => l
  | S f => match fix_step l with None => l | Some l' => fixup f l' end
  end.
Definition load_order (input : list sg) : list sg := fixup (length input * length input) (first_order input).

Definition settled (l : list sg) : bool := match fix_step l with None => true | Some _ => false end.
Fixpoint list_eqb (a b : list nat) : bool :=
  match a, b with [], [] => true | x :: r, y :: q => Nat.eqb x y && list_eqb r q | _, _ => false end.
(* live: the keys in the order the segments were attached *)
Definition chk_load_order (input : list sg) (live : list nat) : bool :=
  list_eqb (map skey (load_order input)) live && settled (load_order input).
