From Coq Require Import PrimFloat List Bool ZArith.
From MuxV Require Import Base.Num Base.FInst Base.Interp Model.Controls.
Import ListNotations.
Local Open Scope float_scope.

Definition chk_delta (d2r : float) (left_side : bool) (root tip sat : float) (mx : list (mixing (T:=float)))
           (spans expect : list float) : bool :=
  all2 fbits_eq (map (delta_flap d2r left_side root tip sat mx) spans) expect.
Definition chk_cf (root tip : float) (cf : cinput float) (spans expect : list float) : bool :=
  all2 fbits_eq (map (flap_fraction root tip cf) spans) expect.

(* the finite-difference step of a control derivative applied to a recorded table-valued input (both columns bit for bit) *)
Definition chk_shift_table (tbl : list (float * float)) (d : float) (e : list (float * float)) : bool :=
  match shift_input (CTable tbl) d with
  | CTable t => Nat.eqb (List.length t) (List.length e) &&
                forallb (fun p => fbits_eq (fst (fst p)) (fst (snd p)) && fbits_eq (snd (fst p)) (snd (snd p))) (combine t e)
  | _ => false
  end.

(* a control input given as a function of span: its values at the control points come from a table keyed by the span fraction *)
Definition chk_delta_fun (d2r : float) (left_side : bool) (root tip sat : float) (sym : bool) (k : float) (tf : list (float * float))
           (rest : list (mixing (T:=float))) (spans expect : list float) : bool :=
  all2 fbits_eq (map (delta_flap d2r left_side root tip sat ((sym, k, CFun (olookup tf)) :: rest)) spans) expect.
