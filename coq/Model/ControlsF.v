From Coq Require Import PrimFloat List Bool ZArith.
From MuxV Require Import Base.Num Base.FInst Base.Interp Model.Controls.
Import ListNotations.
Local Open Scope float_scope.

Definition chk_delta (d2r : float) (left_side : bool) (root tip sat : float) (mx : list (mixing (T:=float)))
           (spans expect : list float) : bool :=
  all2 fbits_eq (map (delta_flap d2r left_side root tip sat mx) spans) expect.
Definition chk_cf (root tip : float) (cf : cinput float) (spans expect : list float) : bool :=
  all2 fbits_eq (map (flap_fraction root tip cf) spans) expect.
