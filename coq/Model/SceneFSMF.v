(* executable trace of the state machine for the correspondence runs *)
From Coq Require Import List Bool Arith.
From MuxV Require Import Model.SceneFSM.
Import ListNotations.

Definition obs (s : scene) : list nat * bool := (map a_name (acs s), solved s).
Fixpoint trace (s : scene) (os : list op) : list (list nat * bool * bool) :=
  match os with
  | [] => []
  | o :: r => let '(s1, out) := step s o in
              (obs s1, existsb (fun x => match x with OError => true | _ => false end) out) :: trace s1 r
  end.
Fixpoint list_nat_eqb (a b : list nat) : bool :=
  match a, b with [], [] => true | x :: a', y :: b' => Nat.eqb x y && list_nat_eqb a' b' | _, _ => false end.
Fixpoint trace_eqb (a b : list (list nat * bool * bool)) : bool :=
  match a, b with
  | [], [] => true
  | (n1, s1, e1) :: a', (n2, s2, e2) :: b' => list_nat_eqb n1 n2 && Bool.eqb s1 s2 && Bool.eqb e1 e2 && trace_eqb a' b'
  | _, _ => false
  end.
Definition chk_trace (os : list op) (expected : list (list nat * bool * bool)) : bool := trace_eqb (trace init os) expected.
