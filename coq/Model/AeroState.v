(* machupX/airplane.py 105-316: state parsing and the aerodynamic-angle getter/setter. *)
From Coq Require Import ZArith List Bool.
From MuxV Require Import Base.Num Base.Vec3 Model.Helpers.
Import ListNotations.

Section AeroState.
  Context {T : Type} {N : Num T}.
  Local Open Scope num_scope.
  Variables (fcos fsin ftan fatan fasin : T -> T) (fatan2 : T -> T -> T).
  Variables (deg2rad rad2deg : T).           (* math.radians(x) = x*(pi/180); math.degrees(x) = x*(180/pi) *)

  Definition radians (x : T) : T := x * deg2rad.
  Definition degrees (x : T) : T := x * rad2deg.

  (* airplane.py 237-265: returns (alpha [deg], beta [deg], V) *)
  Definition get_aero_state (q : quat T) (v_earth v_wind : v3 T) : T * T * T :=
    let v := quat_trans q (vsub v_earth v_wind) in
    let V := nsqrt (vx v * vx v + vy v * vy v + vz v * vz v) in
    (degrees (fatan2 (vz v) (vx v)), degrees (fasin (vy v / V)), V).

  (* airplane.py 299-313: body-frame freestream components for (alpha, beta) in degrees *)
  Definition body_velocity (alpha beta V : T) : v3 T :=
    let C_a := fcos (radians alpha) in
    let B_f := fatan (ftan (radians beta) / C_a) in
    let S_a := fsin (radians alpha) in
    let C_B := fcos B_f in
    let S_B := fsin B_f in
    let denom := n1 / nsqrt (n1 - S_a * S_a * S_B * S_B) in
    V3 (V * C_a * C_B * denom) (V * C_a * S_B * denom) (V * S_a * C_B * denom).

  (* airplane.py 268-316: new Earth-fixed velocity; absent arguments default to the current values *)
  Definition set_aero_state (q : quat T) (v_earth v_wind : v3 T) (alpha beta V : option T) : v3 T :=
    let '(a0, b0, V0) := get_aero_state q v_earth v_wind in
    let a := match alpha with Some x => x | None => a0 end in
    let b := match beta with Some x => x | None => b0 end in
    let Vv := match V with Some x => x | None => V0 end in
    vadd v_wind (quat_inv_trans q (body_velocity a b Vv)).

  (* --- set_state (airplane.py 137-213) --- *)
  Inductive orient_in := OEuler (phi theta psi : T) | OQuat (q : quat T).
  Inductive vel_in := VMag (V alpha beta : T) | VVec (v : v3 T).
  Inductive frame_in := FBody | FStab | FWind.

  Definition parse_orientation (o : orient_in) : quat T :=
    match o with
    | OEuler p t s => euler_to_quat fcos fsin (radians p) (radians t) (radians s)
    | OQuat q => quat_normalize q
    end.

  Definition parse_velocity (q : quat T) (vin : vel_in) (v_wind : v3 T) : v3 T :=
    match vin with
    | VMag V a b =>
        (* line 172 seeds self.v with [9.181994,0,0]; every argument is given, so the seed is irrelevant *)
        vadd v_wind (quat_inv_trans q (body_velocity a b V))
    | VVec v => quat_inv_trans q v
    end.

  (* alpha, beta in radians as used for the rate frames (lines 196-212); with a velocity vector the angles are those of the
     velocity relative to the local wind (the wind is Earth-fixed, the vector body-fixed) *)
  Definition rate_angles (q : quat T) (v_wind : v3 T) (vin : vel_in) : T * T :=
    match vin with
    | VMag _ a b => (radians a, radians b)
    | VVec v0 => let v := vsub v0 (quat_trans q v_wind) in
                 (fatan2 (vz v) (vx v),
                  fasin (vy v / nsqrt (vx v * vx v + vy v * vy v + vz v * vz v)))
    end.

  Definition parse_rates (q : quat T) (v_wind : v3 T) (vin : vel_in) (fr : frame_in) (w_raw : v3 T) : v3 T :=
    match fr with
    | FBody => w_raw
    | FStab => let '(a, _) := rate_angles q v_wind vin in
               quat_inv_trans (quat_conj (euler_to_quat fcos fsin n0 a n0)) w_raw
    | FWind => let '(a, b) := rate_angles q v_wind vin in
               (* body axes are yawed by -beta relative to the wind axes (beta = asin(v/V)) *)
               quat_inv_trans (quat_conj (euler_to_quat fcos fsin n0 a (- b))) w_raw
    end.
End AeroState.
