From Coq Require Import PrimFloat List Bool ZArith.
From MuxV Require Import Base.Num Base.FInst Model.Kuchemann.
Import ListNotations.
Local Open Scope float_scope.

(* the table of offsets a segment stores (span fraction, offset), bit for bit; cos / tan from tables keyed by the argument, pow by both *)
Definition chk_kuchemann (tc tt : list (float * float)) (tp : list (float * float * float)) (pi CLa b area sw : float)
           (nodes : list (float * float)) (e : list float) : bool :=
  all2 fbits_eq (offsets (olookup tc) (olookup tt) (olookup2 tp) pi CLa (aspect b area) sw b nodes) e.
