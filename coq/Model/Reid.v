(* machupX/airplane.py 515, 557-671: the "general" (Reid-Hunsaker) corrections.  For every control point i of a wing the lifting
   line seen by i is blended between the straight line through i along its own section's span direction and the actual line
   (Gaussian weight in the span-wise distance), the unswept chord direction is blended the same way, and each vortex node gets a
   joint of length chord x delta_joint orthogonal to the tangent of the effective line, in the plane of tangent and chord line.
   The tangent is numpy.gradient(..., edge_order=2) with respect to the cumulative chord length of the effective line.
   exp / cos are oracles. *)
From Coq Require Import ZArith List Bool Arith.
From MuxV Require Import Base.Num Base.Vec3.
Import ListNotations.

Section Reid.
  Context {T : Type} {N : Num T}.
  Local Open Scope num_scope.
  Variable fexp : T -> T.

  (* 515: blending parameter of a section from semispan, blending distance and cos(section sweep) *)
  Definition sigma_blend (b blend_dist cos_sweep : T) : T := let q := nofZ 2 / (b * blend_dist * cos_sweep) in q * q.

  (* 566: derivative of the control point with respect to the span coordinate measured in the body y-z plane *)
  Definition pc_deriv (us : v3 T) : v3 T := vdivs us (nsqrt (vy us * vy us + vz us * vz us)).

  (* 589-592, 595-598: one effective node *)
  Definition blend_weight (sigma ds : T) : T := fexp (- sigma * ds * ds).
  Definition blend_node (sigma : T) (PCi dPC : v3 T) (PCsi : T) (P : v3 T) (Ps : T) : v3 T :=
    let ds := Ps - PCsi in
    let bl := blend_weight sigma ds in
    vadd (vscaler (vadd PCi (vscaler dPC ds)) bl) (vscaler P (n1 - bl)).

  (* 601-605: blended unswept chord direction, normalised *)
  Definition blend_ua (sigma : T) (uai : v3 T) (PCsi : T) (uaj : v3 T) (PCsj : T) : v3 T :=
    let ds := PCsj - PCsi in
    let bl := blend_weight sigma ds in
    let u := vadd (vscaler uai bl) (vscaler uaj (n1 - bl)) in
    vdivs u (vnorm u).

  (* np.diff, cumulative length (625-629) *)
  Fixpoint diffs (l : list (v3 T)) : list (v3 T) :=
    match l with
    | a :: ((b :: _) as r) => vsub b a :: diffs r
    | _ => []
    end.
  Fixpoint cumsum_from (acc : T) (l : list T) : list T :=
    match l with [] => [] | x :: r => (acc + x) :: cumsum_from (acc + x) r end.
  Definition arclen (pts : list (v3 T)) : list T := n0 :: cumsum_from n0 (map vnorm (diffs pts)).

  (* numpy.gradient(f, x, edge_order=2, axis=0) for at least three points *)
  Definition comb3 (a b c : T) (f0 f1 f2 : v3 T) : v3 T := vadd (vadd (vscale a f0) (vscale b f1)) (vscale c f2).
  Definition gradient_at (f : list (v3 T)) (x : list T) (j : nat) : v3 T :=
    let n := List.length f in
    let F k := nth k f vzero in
    let X k := nth k x n0 in
    if Nat.eqb j 0 then
      let dx1 := X 1%nat - X 0%nat in let dx2 := X 2%nat - X 1%nat in
      comb3 (- (nofZ 2 * dx1 + dx2) / (dx1 * (dx1 + dx2))) ((dx1 + dx2) / (dx1 * dx2)) (- dx1 / (dx2 * (dx1 + dx2))) (F 0%nat) (F 1%nat) (F 2%nat)
    else if Nat.eqb j (n - 1) then
      let dx1 := X (n - 2)%nat - X (n - 3)%nat in let dx2 := X (n - 1)%nat - X (n - 2)%nat in
      comb3 (dx2 / (dx1 * (dx1 + dx2))) (- (dx2 + dx1) / (dx1 * dx2)) ((nofZ 2 * dx2 + dx1) / (dx2 * (dx1 + dx2))) (F (n - 3)%nat) (F (n - 2)%nat) (F (n - 1)%nat)
    else
      let dx1 := X j - X (j - 1)%nat in let dx2 := X (j + 1)%nat - X j in
      comb3 (- dx2 / (dx1 * (dx1 + dx2))) ((dx2 - dx1) / (dx1 * dx2)) (dx1 / (dx2 * (dx1 + dx2))) (F (j - 1)%nat) (F j) (F (j + 1)%nat).
  Definition unit_tangents (pts : list (v3 T)) : list (v3 T) :=
    let x := arclen pts in
    map (fun j => let g := gradient_at pts x j in vdivs g (vnorm g)) (seq 0 (List.length pts)).

  (* 632-637: the joint direction: c1 u_a + c2 T with c1 = sqrt(1/(1-k^2)), c2 = -c1 k, k = <T, u_a>; normalised *)
  Definition joint_dir (Tn ua : v3 T) : v3 T :=
    let k := vdot Tn ua in
    let c1 := nsqrt (n1 / (n1 - k * k)) in
    let c2 := - c1 * k in
    let u := vadd (vscale c1 ua) (vscale c2 Tn) in
    vdivs u (vnorm u).
  Definition joint_node (P : v3 T) (chord dj : T) (uj : v3 T) : v3 T := vadd P (vscale (chord * dj) uj).

  (* one section of the wing as seen from the control points: control point, its span coordinate, the two nodes with theirs,
     unswept chord direction, node chords, joint length *)
  Record sec := mk_sec { sPC : v3 T; sPCs : T; sP0 : v3 T; sP0s : T; sP1 : v3 T; sP1s : T; sus : v3 T; sua : v3 T; sc0 : T; sc1 : T; sdj : T;
                         ssig : T; sreid : bool }.

  Fixpoint joints (e tg uas : list (v3 T)) (chords djs : list T) : list (v3 T) :=
    match e, tg, uas, chords, djs with
    | P :: e', t :: tg', u :: uas', c :: ch', d :: dj' => joint_node P c d (joint_dir t u) :: joints e' tg' uas' ch' dj'
    | _, _, _, _, _ => []
    end.

  (* the row of effective nodes and joints for control point [i], over the sections [w] of its own wing *)
  Definition reid_row (w : list sec) (i : sec) : list (v3 T) * list (v3 T) * list (v3 T) * list (v3 T) :=
    if sreid i then
      let dPC := pc_deriv (sus i) in
      let e0 := map (fun j => blend_node (ssig i) (sPC i) dPC (sPCs i) (sP0 j) (sP0s j)) w in
      let e1 := map (fun j => blend_node (ssig i) (sPC i) dPC (sPCs i) (sP1 j) (sP1s j)) w in
      let uas := map (fun j => blend_ua (ssig i) (sua i) (sPCs i) (sua j) (sPCs j)) w in
      (e0, e1, joints e0 (unit_tangents e0) uas (map sc0 w) (map sdj w), joints e1 (unit_tangents e1) uas (map sc1 w) (map sdj w))
    else
      (* 667-671: no corrections for this control point: nodes unchanged, no joints *)
      (map sP0 w, map sP1 w, map sP0 w, map sP1 w).

  (* 557-560: sections of other wings are seen on their actual line, with a joint along the section's own chord direction at the node
     when that section uses the corrections *)
  Definition joint_actual (P : v3 T) (chord dj : T) (reid : bool) (ua_node : v3 T) : v3 T :=
    vadd P (vscale (chord * dj * (if reid then n1 else n0)) ua_node).
End Reid.
Arguments sec T : clear implicits.
