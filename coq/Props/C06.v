(* C06 — equivalent input descriptions (units, encodings) give identical results.  Statements only. *)
From Coq Require Import Reals Lra List QArith Qabs Qreals String Bool.
From Interval Require Import Tactic.
From MuxV Require Import Base.Num Base.Vec3 Base.RInst Base.Interp Model.Helpers Model.ImportValue Model.AeroState
  Proofs.HelpersP Proofs.InterpP Proofs.ImportValueP Proofs.AeroStateP Live.LiveTables.
Import ListNotations.
Open Scope string_scope.
Open Scope list_scope.

(* ---- the unit tables read from the running code ---- *)
(* exact SI value of one unit (NIST SP 811), and its measurement class *)
Inductive uclass := Length | Velocity | Area | Density | Force | Angle | AngRate.
Definition lbf_N : Q := 44482216152605 # 10000000000000.
Definition ft_m : Q := 3048 # 10000.
Definition spec_unit (u : string) : option (uclass * option Q) :=
  if String.eqb u "ft" then Some (Length, Some ft_m) else
  if String.eqb u "in" then Some (Length, Some (254 # 10000)) else
  if String.eqb u "m" then Some (Length, Some 1) else
  if String.eqb u "cm" then Some (Length, Some (1 # 100)) else
  if String.eqb u "ft/s" then Some (Velocity, Some ft_m) else
  if String.eqb u "m/s" then Some (Velocity, Some 1) else
  if String.eqb u "mph" then Some (Velocity, Some (44704 # 100000)) else
  if String.eqb u "kph" then Some (Velocity, Some (1000 # 3600)) else
  if String.eqb u "kn" then Some (Velocity, Some (1852 # 3600)) else
  if String.eqb u "ft^2" then Some (Area, Some (ft_m * ft_m)) else
  if String.eqb u "m^2" then Some (Area, Some 1) else
  if String.eqb u "slug/ft^3" then Some (Density, Some (lbf_N / (ft_m * ft_m * ft_m * ft_m))) else
  if String.eqb u "kg/m^3" then Some (Density, Some 1) else
  if String.eqb u "lbf" then Some (Force, Some lbf_N) else
  if String.eqb u "N" then Some (Force, Some 1) else
  if String.eqb u "deg" then Some (Angle, Some 1) else          (* angles: the default is degrees in both systems *)
  if String.eqb u "rad" then Some (Angle, None) else            (* 180/pi: see C06_angle_factors *)
  if String.eqb u "rad/s" then Some (AngRate, Some 1) else      (* rates: the default is rad/s in both systems *)
  if String.eqb u "deg/s" then Some (AngRate, None) else None.
(* SI value of the English default unit of each class *)
Definition english_default (c : uclass) : Q :=
  match c with
  | Length | Velocity => ft_m | Area => ft_m * ft_m
  | Density => lbf_N / (ft_m * ft_m * ft_m * ft_m) | Force => lbf_N | Angle | AngRate => 1
  end.
Definition tol : Q := 1 # 1000000.
Definition qclose (a b : Q) : bool := Qle_bool (Qabs (a - b)) (tol * Qabs b).

(* a row (unit, to-English factor, to-SI factor) is consistent iff both factors are present and
   si = exact(u) and en * exact(English default) = exact(u), to the 1e-6 the table prints *)
Definition row_ok (row : string * option Q * option Q) : bool :=
  let '(u, en, si) := row in
  match spec_unit u, en, si with
  | Some (c, Some ex), Some e, Some s => qclose s ex && qclose (e * english_default c) ex
  | Some (c, None), Some e, Some s => Qeq_bool e s     (* angular: the same number in both systems *)
  | _, _, _ => false
  end.

Theorem C06_unit_tables_consistent :
  forallb row_ok live_units = true /\ live_unknown_unit_raises = true /\ live_dash_is_identity = true.
Proof. repeat split; vm_compute; reflexivity. Qed.
Print Assumptions C06_unit_tables_consistent.

Definition live_factor (u : string) : Q :=
  match find (fun r => String.eqb (fst (fst r)) u) live_units with
  | Some (_, Some e, _) => e | _ => 0 end.
Theorem C06_angle_factors :
  (Rabs (Q2R (live_factor "rad") - 180 / PI) <= 1 / 1000000)%R /\
  (Rabs (Q2R (live_factor "deg/s") - PI / 180) <= 1 / 100000000)%R.
Proof.
  split.
  - let v := eval vm_compute in (live_factor "rad") in change (live_factor "rad") with v.
    unfold Q2R; cbn [Qnum Qden]. interval.
  - let v := eval vm_compute in (live_factor "deg/s") in change (live_factor "deg/s") with v.
    unfold Q2R; cbn [Qnum Qden]. interval.
Qed.
Print Assumptions C06_angle_factors.

(* ---- import_value: annotated values are imported as their pre-converted counterparts ---- *)
Section Import.
  Variable factor : string -> option R.
  Notation imp := (import_value factor).
  Notation known := (known factor).
  Theorem C06_annotated_equals_preconverted :
    (forall z, imp (PInt z) = imp (PFloat (IZR z))) /\
    (forall x u f, known u f -> imp (PList [PFloat x; PStr u]) = imp (PFloat (f x))) /\
    (forall a b c u f, known u f ->
       imp (PList [PFloat a; PFloat b; PFloat c; PStr u]) = imp (PList [PFloat (f a); PFloat (f b); PFloat (f c)])) /\
    (forall a b c d u f, known u f ->
       imp (PList [PFloat a; PFloat b; PFloat c; PFloat d; PStr u]) =
       imp (PList [PFloat (f a); PFloat (f b); PFloat (f c); PFloat (f d)])) /\
    (forall c u f, known u f -> imp (PList [PStr "elliptic"; PFloat c; PStr u]) = imp (PList [PStr "elliptic"; PFloat (f c)])) /\
    (forall rows u1 u2 f1 f2, rows <> [] -> known u1 f1 -> known u2 f2 ->
       imp (PList (map row2 rows ++ [PList [PStr u1; PStr u2]])) =
       imp (PList (map row2 (map (fun r => (f1 (fst r), f2 (snd r))) rows)))) /\
    (forall x u, u <> "-" -> factor (strip u) = None -> imp (PList [PFloat x; PStr u]) = IRaise EIOError) /\
    imp PNone = IRaise EIOError.
  Proof.
    split; [intros; reflexivity|].
    split; [intros; apply scalar_units; assumption|].
    split; [intros; apply vector3_units; assumption|].
    split; [intros; apply vector4_units; assumption|].
    split; [intros; apply elliptic_units; assumption|].
    split; [intros; apply array2_units; assumption|].
    split; [intros; apply scalar_unknown_unit; assumption|].
    apply missing_key.
  Qed.
End Import.
Print Assumptions C06_annotated_equals_preconverted.

(* ---- a constant given as an array is the constant; tables reproduce their nodes ---- *)
Theorem C06_const_array_eq_scalar : forall (c s s0 s1 : R),
  interp s [(s0, c); (s1, c)] = c.
Proof. intros. apply interp_const; [discriminate | repeat constructor]. Qed.
Print Assumptions C06_const_array_eq_scalar.

(* ---- Euler angles are stored as the unit quaternion of the same attitude; stab/wind rate frames ---- *)
Theorem C06_orientation_and_rate_frames :
  (forall phi theta psi, quat_norm2 (euler_to_quat cos sin phi theta psi) = 1%R) /\
  (forall a p q r, quat_inv_trans (quat_conj (euler_to_quat cos sin 0 a 0)) (V3 p q r) =
                   V3 (cos a * p - sin a * r) q (sin a * p + cos a * r))%R.
Proof. split; [apply euler_to_quat_unit | apply stab_rates_rotation]. Qed.
Print Assumptions C06_orientation_and_rate_frames.
