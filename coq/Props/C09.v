(* C09 — reported derivatives are the documented central differences of the loads.  Statements only. *)
From Coq Require Import Reals Lra List Bool.
From MuxV Require Import Base.Num Base.Vec3 Base.RInst Model.Helpers Model.AeroState Model.Analyses
  Proofs.HelpersP Proofs.AnalysesP Proofs.AeroStateP Proofs.TrigP.
Import ListNotations.
Local Open Scope R_scope.

(* central difference of two result tables, entry by entry *)
Fixpoint central (h : R) (fwd bwd : list R) : list R :=
  match fwd, bwd with a :: f, b :: g => (a - b) / (2 * h) :: central h f g | _, _ => [] end.

Lemma cdiff_central k h fwd bwd : k = 1 / (2 * h) -> cdiff k fwd bwd = central h fwd bwd.
Proof.
  intros ->. unfold cdiff. revert bwd; induction fwd as [|a f IH]; intros [|b g]; try reflexivity.
  cbn [map2 central]. rewrite IH. f_equal. rcompute. unfold Rdiv. ring.
Qed.

Lemma cdiff_div_central h fwd bwd : cdiff_div (2 * h) fwd bwd = central h fwd bwd.
Proof. unfold cdiff_div. revert bwd; induction fwd as [|a f IH]; intros [|b g]; try reflexivity. cbn [map2 central]. f_equal. apply IH. Qed.

Section C09.
  Variables (fcos fsin ftan fatan fasin : R -> R) (fatan2 : R -> R -> R) (r2d : R).
  Variable W : v3 R.
  Variable F : ast R -> list R.
  Variable okA : R -> R -> R -> Prop.
  Let d2r := PI / 180.
  Hypothesis HA : forall a b V, okA a b V -> enc fasin fatan2 r2d (dec fcos fsin ftan fatan d2r a b V) = (a, b, V).
  Notation aero s := (get_ae fasin fatan2 r2d W s).
  Definition others_fixed (s s' : ast R) : Prop := s_w s' = s_w s /\ s_p s' = s_p s /\ s_q s' = s_q s /\ s_c s' = s_c s.

  (* stability derivatives: every entry is the central difference, per radian, of the corresponding solve_forces total between
     two states that differ from the base state only in alpha (resp. beta) by +-dtheta degrees, measured relative to the wind *)
  Theorem C09_stability_table : forall s dth, qn2 (s_q s) = 1 ->
    let '(a0, b0, V0) := enc fasin fatan2 r2d (quat_trans (s_q s) (vsub (s_v s) W)) in
    okA (a0 + dth) b0 V0 -> okA (a0 - dth) b0 V0 -> okA a0 (b0 + dth) V0 -> okA a0 (b0 - dth) V0 ->
    exists sa_p sa_m sb_p sb_m,
      aero sa_p = (a0 + dth, b0, V0) /\ aero sa_m = (a0 - dth, b0, V0) /\
      aero sb_p = (a0, b0 + dth, V0) /\ aero sb_m = (a0, b0 - dth, V0) /\
      others_fixed s sa_p /\ others_fixed s sa_m /\ others_fixed s sb_p /\ others_fixed s sb_m /\
      fst (stability fcos fsin ftan fatan fasin fatan2 d2r r2d W F s dth) =
        (central (dth * (PI / 180)) (F sa_p) (F sa_m), central (dth * (PI / 180)) (F sb_p) (F sb_m)).
  Proof.
    intros s dth Hq.
    pose proof (stability_table fcos fsin ftan fatan fasin fatan2 d2r r2d W F okA HA s dth Hq) as T.
    unfold vbody in T. destruct (enc fasin fatan2 r2d (quat_trans (s_q s) (vsub (s_v s) W))) as [[a0 b0] V0].
    intros H1 H2 H3 H4. destruct (T H1 H2 H3 H4) as (s1 & s2 & s3 & s4 & E1 & E2 & E3 & E4 & R1 & R2 & R3 & R4 & Ht).
    exists s1, s2, s3, s4.
    split; [exact E1|]. split; [exact E2|]. split; [exact E3|]. split; [exact E4|].
    split; [exact R1|]. split; [exact R2|]. split; [exact R3|]. split; [exact R4|].
    rewrite Ht. unfold d2r. rewrite !(cdiff_central _ (dth * (PI / 180))) by reflexivity. reflexivity.
  Qed.

  (* damping derivatives: central difference in the body rates along the three perturbation axes, normalised by 2V/b, 2V/c, 2V/b
     with V the airspeed relative to the wind; for rates given in stability axes the perturbation axes are the stability axes *)
  Theorem C09_damping_table : forall s dw pp qq rr lat lon,
    let '(_, _, V0) := aero s in
    fst (damping fasin fatan2 r2d W F s dw pp qq rr lat lon) =
      (map (fun x => x * (2 * V0 / lat)) (central dw (F (set_w s (vadd (s_w s) pp))) (F (set_w s (vsub (s_w s) pp)))),
       map (fun x => x * (2 * V0 / lon)) (central dw (F (set_w s (vadd (s_w s) qq))) (F (set_w s (vsub (s_w s) qq)))),
       map (fun x => x * (2 * V0 / lat)) (central dw (F (set_w s (vadd (s_w s) rr))) (F (set_w s (vsub (s_w s) rr))))).
  Proof.
    intros. unfold damping. destruct (Analyses.get_ae _ _ _ _ _) as [[a b] V0]. cbv zeta. cbn [fst].
    rewrite !(cdiff_central _ dw) by reflexivity. reflexivity.
  Qed.
  Theorem C09_stability_axes_perturbation : forall a p q r,
    quat_inv_trans (quat_conj (euler_to_quat cos sin 0 a 0)) (V3 p q r) = V3 (cos a * p - sin a * r) q (sin a * p + cos a * r).
  Proof. exact stab_rates_rotation. Qed.

  (* control derivatives: central difference per radian in one control input, all other inputs and the state held fixed *)
  Theorem C09_control_table : forall s i dth,
    fst (control_deriv d2r F s i dth) =
      central (dth * (PI / 180)) (F (set_c s (set_nth (s_c s) i (nth i (s_c s) 0 + dth))))
                                 (F (set_c s (set_nth (s_c s) i (nth i (s_c s) 0 - dth)))).
  Proof.
    intros. unfold control_deriv. cbv zeta. cbn [fst]. unfold radians, d2r.
    change (@n0 R RNum) with 0. change (@nadd R RNum) with Rplus. change (@nsub R RNum) with Rminus.
    change (@nmul R RNum) with Rmult. change (@nofZ R RNum 2) with 2.
    apply cdiff_div_central.
  Qed.
End C09.
Print Assumptions C09_stability_table.
Print Assumptions C09_damping_table.
Print Assumptions C09_stability_axes_perturbation.
Print Assumptions C09_control_table.

(* ---- with the real trigonometric functions and NumPy's atan2 the encoding hypothesis is a theorem (Proofs/TrigP.v): the stability
   table is the documented central difference for every state whose perturbed angles stay inside (-90, 90) degrees ---- *)
Theorem C09_stability_table_real : forall W F s dth, qn2 (s_q s) = 1 ->
  let '(a0, b0, V0) := enc asin Ratan2 r2d (quat_trans (s_q s) (vsub (s_v s) W)) in
  okA_real (a0 + dth) b0 V0 -> okA_real (a0 - dth) b0 V0 -> okA_real a0 (b0 + dth) V0 -> okA_real a0 (b0 - dth) V0 ->
  exists sa_p sa_m sb_p sb_m,
    get_ae asin Ratan2 r2d W sa_p = (a0 + dth, b0, V0) /\ get_ae asin Ratan2 r2d W sa_m = (a0 - dth, b0, V0) /\
    get_ae asin Ratan2 r2d W sb_p = (a0, b0 + dth, V0) /\ get_ae asin Ratan2 r2d W sb_m = (a0, b0 - dth, V0) /\
    others_fixed s sa_p /\ others_fixed s sa_m /\ others_fixed s sb_p /\ others_fixed s sb_m /\
    fst (stability cos sin tan atan asin Ratan2 (PI / 180) r2d W F s dth) =
      (central (dth * (PI / 180)) (F sa_p) (F sa_m), central (dth * (PI / 180)) (F sb_p) (F sb_m)).
Proof. intros W F. exact (C09_stability_table cos sin tan atan asin Ratan2 r2d W F okA_real HA_real). Qed.
Print Assumptions C09_stability_table_real.

(* "control input per radian ... with everything else held fixed", when the control is set as a span-wise table of deflections (documented:
   float or array): the step is added to the deflections and to nothing else (Model/Controls.v shift_input, Proofs/ShiftP.v; fix 52ecd5c) -
   every section inside the control surface sees its input moved by exactly the step, the span column is unchanged so the surface's
   end-point test accepts the perturbed table exactly when it accepts the table; adding the step to both columns, as the pinned snapshot
   did, makes that test reject every accepted table for every non-zero step *)
From MuxV Require Import Model.Controls Proofs.ShiftP.
Theorem C09_control_step_on_input : forall (c : cinput R) d root tip s,
  (match c with CConst _ => True | CTable tbl => tbl <> [] | CFun _ => False end) ->
  input_at (shift_input c d) true s = input_at c true s + d /\
  table_ends_ok root tip (shift_input c d) = table_ends_ok root tip c.
Proof. intros c d root tip s H. split; [exact (input_at_shift c d s H) | exact (shift_keeps_ends c d root tip)]. Qed.
Print Assumptions C09_control_step_on_input.
Theorem C09_step_on_both_columns_refuted : forall d root tip tbl, d <> 0 ->
  table_ends_ok root tip (CTable tbl) = true -> table_ends_ok root tip (CTable (shift_both d tbl)) = false.
Proof. exact shift_both_rejected. Qed.
Print Assumptions C09_step_on_both_columns_refuted.
Example C09_control_step_nonvacuous : table_ends_ok 0.3 0.8 (CTable [(0.3, 2); (0.8, 4)]) = true /\ [(0.3, 2); (0.8, 4)] <> @nil (R * R).
Proof. split; [|discriminate]. cbn [table_ends_ok last fst]. change (@neqb R RNum) with Reqb. apply andb_true_intro; split; apply Reqb_true; reflexivity. Qed.

(* state derivatives ("body-fixed velocity, Earth position, body rates and attitude"): every row of the table is the central difference,
   per unit of the step, of the loads in two states that differ from the current one in that single variable - a step along one body axis
   of the velocity (the Earth-fixed velocity moves by that step turned to the Earth frame), one Earth-fixed coordinate of the position, one
   body rate, or a small rotation about one body axis with the Earth-fixed velocity, position and rates held (Model/Analyses.v sd_row,
   sd_row_q; Proofs/StateDerivsP.v) *)
From MuxV Require Import Proofs.StateDerivsP.
Theorem C09_state_table : forall (F : ast R -> list R) (s : ast R) i d, qn2 (s_q s) = 1 -> d <> 0 ->
  sd_row F s SVel i d =
    central d (F (mk_ast (vadd (s_v s) (quat_inv_trans (s_q s) (vbump (V3 0 0 0) i d))) (s_w s) (s_p s) (s_q s) (s_c s)))
              (F (mk_ast (vadd (s_v s) (quat_inv_trans (s_q s) (vbump (V3 0 0 0) i (- d)))) (s_w s) (s_p s) (s_q s) (s_c s))) /\
  sd_row F s SPos i d =
    central d (F (mk_ast (s_v s) (s_w s) (vbump (s_p s) i d) (s_q s) (s_c s))) (F (mk_ast (s_v s) (s_w s) (vbump (s_p s) i (- d)) (s_q s) (s_c s))) /\
  sd_row F s SRate i d =
    central d (F (mk_ast (s_v s) (vbump (s_w s) i d) (s_p s) (s_q s) (s_c s))) (F (mk_ast (s_v s) (vbump (s_w s) i (- d)) (s_p s) (s_q s) (s_c s))) /\
  sd_row_q F s i d =
    central d (F (mk_ast (s_v s) (s_w s) (s_p s) (quat_mult (s_q s) (dq_of i d)) (s_c s)))
              (F (mk_ast (s_v s) (s_w s) (s_p s) (quat_mult (s_q s) (quat_conj (dq_of i d))) (s_c s))).
Proof.
  intros F s i d Hq Hd.
  assert (Hk : 1 / 2 / d = 1 / (2 * d)) by (field; exact Hd).
  repeat split.
  - unfold sd_row, sd_args_b. rnum. change (IZR 2) with 2. rewrite vbump_twice.
    change (of_args (sd_args s SVel i d) (s_c s)) with (sd_state s SVel i d).
    match goal with |- context [of_args ?a (s_c s)] => change (of_args a (s_c s)) with (sd_state s SVel i (- d)) end.
    rewrite !sd_vel by exact Hq. apply cdiff_central. exact Hk.
  - unfold sd_row, sd_args_b. rnum. change (IZR 2) with 2. rewrite vbump_twice.
    change (of_args (sd_args s SPos i d) (s_c s)) with (sd_state s SPos i d).
    match goal with |- context [of_args ?a (s_c s)] => change (of_args a (s_c s)) with (sd_state s SPos i (- d)) end.
    rewrite !sd_pos by exact Hq. apply cdiff_central. exact Hk.
  - unfold sd_row, sd_args_b. rnum. change (IZR 2) with 2. rewrite vbump_twice.
    change (of_args (sd_args s SRate i d) (s_c s)) with (sd_state s SRate i d).
    match goal with |- context [of_args ?a (s_c s)] => change (of_args a (s_c s)) with (sd_state s SRate i (- d)) end.
    rewrite !sd_rate by exact Hq. apply cdiff_central. exact Hk.
  - unfold sd_row_q. rnum. change (IZR 2) with 2. rewrite sd_quat_fwd, sd_quat_bwd by exact Hq. apply cdiff_central. exact Hk.
Qed.
Print Assumptions C09_state_table.
(* the attitude of both perturbed states is a unit quaternion again *)
Theorem C09_state_table_attitudes : forall (s : ast R) i e b, qn2 (s_q s) = 1 -> qn2 (s_q (sd_state_q s i e b)) = 1.
Proof. intros s i e b H. apply sd_quat_unit. exact H. Qed.
Print Assumptions C09_state_table_attitudes.
