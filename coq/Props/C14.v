(* C14 — the converged solution is independent of the solver path.  Statements only.
   Proved: what a converged Newton iteration converges TO does not depend on relaxation or starting vector (its fixed points are
   the zeros of the residual), and the linear solver returns the solution of its system.  NOT proved: uniqueness of the zero of
   the nonlinear residual and the quadratic approach of the linear to the nonlinear solution (both exercised by the sweep). *)
From Coq Require Import Reals Lra List Bool.
From MuxV Require Import Base.Num Base.Vec3 Base.RInst Model.Kernel Model.Residual Proofs.SolverPathP.
Import ListNotations.
Local Open Scope R_scope.

Theorem C14_fixed_points_are_zeros : forall atan2 opt solve relax cs Ss Vm g,
  relax <> 0 -> length (residual atan2 opt cs Ss Vm g) = length g ->
  solve_regular atan2 opt solve cs Ss Vm g ->
  (newton_update atan2 opt solve relax cs Ss Vm g = g <-> Forall (fun r => r = 0) (residual atan2 opt cs Ss Vm g)).
Proof. intros. apply fixed_points_are_zeros; assumption. Qed.
Print Assumptions C14_fixed_points_are_zeros.

(* the 'linear' solver returns whatever the linear-algebra routine returns for the documented system A gamma = b assembled from the
   freestream section properties; with an exact routine this is the exact solution *)
Theorem C14_linear_solver_exact : forall (atan2 : R -> R -> R) (opt : opts) (solve : list (list R) -> list R -> list R)
  (cs : list (cpt R)) (Ss : list (section R)) (Vm : list (list (v3 R))) (mulv : list (list R) -> list R -> list R),
  (forall A b, mulv A (solve A b) = b) ->
  let '(A, b) := lin_system atan2 opt cs Ss Vm in mulv A (solve_linear atan2 opt solve cs Ss Vm) = b.
Proof.
  intros atan2 opt solve cs Ss Vm mulv H. unfold solve_linear. destruct (lin_system atan2 opt cs Ss Vm) as [A b]. apply H.
Qed.
Print Assumptions C14_linear_solver_exact.

(* the right-hand side and the diagonal of the linear system are the residual's lift term and vortex-lift slope at zero circulation:
   b_i = V_inf^2 CL(alpha_inf) dS_i and A_ii contains 2 |(v_inf + v_rot) x dl| *)
Theorem C14_linear_system_entries : forall (opt : opts) (c : cpt R) (ls : linstate (T:=R)) (V : v3 R),
  lin_rhs opt c ls = Vinf_sel opt c * Vinf_sel opt c * cdS c * l_CL ls /\
  lin_entry opt c ls true V - lin_entry opt c ls false V = 2 * vnorm (vcross (vinf_rot c) (cdl c)).
Proof. intros. split; [reflexivity|]. unfold lin_entry. rcompute. ring. Qed.
Print Assumptions C14_linear_system_entries.
