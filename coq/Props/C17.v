(* C17 — 1976 US Standard Atmosphere and table interpolation.
   Statements only; proofs are [exact]/short instantiations of Proofs/AtmosP.v, Proofs/InterpP.v.
   The constants come from Live/LiveTables.v (regenerated from the running code on every run). *)
From Coq Require Import Reals Lra List QArith Qreals.
From Coquelicot Require Import Coquelicot.
From MuxV Require Import Base.Num Base.RInst Base.Interp Model.Atmos Proofs.InterpP Proofs.AtmosP Live.LiveTables Base.Vec3 Model.FieldInterp Proofs.FieldInterpP.
Import ListNotations.
Local Open Scope R_scope.

(* ---- the published constants (U.S. Standard Atmosphere 1976, Tables 3 and 4, eqs 17-33) ---- *)
Definition spec_H_b : list R := [0; 11000; 20000; 32000; 47000; 51000; 71000; 84852].
Definition spec_L_M_b : list R := [-0.0065; 0; 0.001; 0.0028; 0; -0.0028; -0.002].
(* T_M,b - 288.15 K *)
Definition spec_T_M_b : list R := [0; -71.5; -71.5; -59.5; -17.5; -17.5; -73.5; -101.204].

Definition atmR : @atm R := {|
  aH_b := map Q2R live_H_b_Q; aL_M_b := map Q2R live_L_M_b_Q; aT_M_b := map Q2R live_T_M_b_Q;
  ar_0 := Q2R live_r_0_Q; ag_0 := Q2R live_g_0_Q; aM_0 := Q2R live_M_0_Q; aR_star := Q2R live_R_star_Q;
  aP_0 := Q2R live_P_0_Q; aS := Q2R live_S_Q; abeta := Q2R live_beta_Q; agamma := Q2R live_gamma_Q;
  aT_0 := Q2R live_T_0_Q; aK := 273.15; aLtol := 0.000001; aZmax := 86000; a_one_p_five := 1.5;
  c_ft := 0.3048; c_P := 0.02088543815038; c_rho := 0.0019403203; c_mu := 0.020885434273039;
  c_nine := 9; c_five := 5 |}.

Ltac live := cbv [Q2R Qnum Qden map live_H_b_Q live_L_M_b_Q live_T_M_b_Q live_r_0_Q live_g_0_Q live_M_0_Q
  live_R_star_Q live_P_0_Q live_S_Q live_beta_Q live_gamma_Q live_T_0_Q].
Ltac rtuple := repeat (match goal with |- pair _ _ = pair _ _ => apply f_equal2 end); lra.
Ltac rlist := repeat (match goal with |- cons _ _ = cons _ _ => apply f_equal2; [first [lra | rtuple]|] end); try reflexivity.
Ltac q2r := live; first [lra | rlist].

(* the constants the running code uses are the published ones *)
Theorem C17_constants_are_USSA76 :
  aH_b atmR = spec_H_b /\ aL_M_b atmR = spec_L_M_b /\ aT_M_b atmR = spec_T_M_b /\
  ar_0 atmR = 6356766 /\ ag_0 atmR = 9.80665 /\ aM_0 atmR = 28.9644 /\ aR_star atmR = 8314.32 /\
  aP_0 atmR = 101325 /\ aS atmR = 110.4 /\ abeta atmR = 0.000001458 /\ agamma atmR = 1.4 /\
  aT_0 atmR + aK atmR = 288.15.
Proof. cbn [atmR aH_b aL_M_b aT_M_b ar_0 ag_0 aM_0 aR_star aP_0 aS abeta agamma aT_0 aK]. unfold spec_H_b, spec_L_M_b, spec_T_M_b. repeat split; q2r. Qed.
Print Assumptions C17_constants_are_USSA76.

Definition layersR := layers atmR.
Definition P_of_H (H : R) : R := P_SI_of_H exp Rpower atmR H.
Definition T_of_H (H : R) : R := T_SI_of_H atmR H.

Lemma layersR_eq : layersR =
  [(0, 11000, -0.0065, 0); (11000, 20000, 0, -71.5); (20000, 32000, 0.001, -71.5); (32000, 47000, 0.0028, -59.5);
   (47000, 51000, 0, -17.5); (51000, 71000, -0.0028, -17.5); (71000, 84852, -0.002, -73.5)].
Proof. unfold layersR, layers. cbn [atmR aH_b aL_M_b aT_M_b]. live. cbn [mk_layers]. rlist. Qed.

Lemma wf_layersR : wf_layers atmR layersR.
Proof.
  rewrite layersR_eq. cbn [wf_layers wf_layer fst snd]. unfold Tb. cbn [atmR aT_0 aK aLtol]. live.
  repeat split; try lra; try (intros HA; exfalso; revert HA; unfold Rabs; destruct (Rcase_abs _); lra).
Qed.

(* molecular-scale temperature of the standard: T_b + L_b (H - H_b) in the layer containing H *)
Definition T_std (H : R) : R := Tmol atmR layersR H.
(* "H lies strictly inside one of the seven layers" *)
Definition in_a_layer (H : R) : Prop := inside layersR H.

(* hydrostatic equation dP/dH = -g0' M0 P / (R* T_M) everywhere inside the seven layers, up to 84852 m' (= 86 km geometric) *)
Theorem C17_hydrostatic : forall H, in_a_layer H ->
  is_derive P_of_H H (- (9.80665 * 28.9644) / (8314.32 * T_std H) * P_of_H H).
Proof.
  intros H Hin.
  assert (Hc : ag_0 atmR = 9.80665 /\ aM_0 atmR = 28.9644 /\ aR_star atmR = 8314.32) by (cbn; live; repeat split; lra).
  destruct Hc as [Hg [HM HRs]]. rewrite <- Hg, <- HM, <- HRs.
  apply (hydrostatic_layers atmR).
  - cbn; lra.
  - rewrite HRs; lra.
  - exact wf_layersR.
  - exact Hin.
Qed.
Print Assumptions C17_hydrostatic.

(* every geopotential height strictly between 0 and 84852 m' other than the six interior breakpoints is covered *)
Theorem C17_layers_cover : forall H, 0 < H < 84852 ->
  H <> 11000 -> H <> 20000 -> H <> 32000 -> H <> 47000 -> H <> 51000 -> H <> 71000 -> in_a_layer H.
Proof.
  intros H [H0 H1] n1 n2 n3 n4 n5 n6. unfold in_a_layer. rewrite layersR_eq. cbn [inside].
  destruct (Rlt_dec H 11000); [left; lra|right; split; [lra|]].
  destruct (Rlt_dec H 20000); [left; lra|right; split; [lra|]].
  destruct (Rlt_dec H 32000); [left; lra|right; split; [lra|]].
  destruct (Rlt_dec H 47000); [left; lra|right; split; [lra|]].
  destruct (Rlt_dec H 51000); [left; lra|right; split; [lra|]].
  destruct (Rlt_dec H 71000); [left; lra|right; split; [lra|]].
  left; lra.
Qed.
Print Assumptions C17_layers_cover.

(* sea-level pressure and continuity of the pressure at each interior breakpoint *)
Theorem C17_sea_level_and_continuity :
  P_of_H 0 = 101325 /\
  (forall Hb L Tm, 0 < Tb atmR Tm -> fac_at atmR Hb L Tm Hb = 1).
Proof.
  split.
  - unfold P_of_H, P_SI_of_H. fold layersR. change (press exp Rpower atmR layersR 0 (aP_0 atmR)) with (pressR atmR layersR 0 (aP_0 atmR)).
    rewrite press_below by (rewrite layersR_eq; lra). cbn [atmR aP_0]; live; lra.
  - intros; apply fac_at_base; assumption.
Qed.
Print Assumptions C17_sea_level_and_continuity.

(* temperature profile: T(H) = T_b + L_b (H - H_b) in each layer, i.e. the same T_std the hydrostatic law uses *)
Theorem C17_temperature_profile : forall H, 0 <= H < 84852 -> T_of_H H = T_std H.
Proof.
  intros H [H0 H1]. unfold T_of_H, T_SI_of_H, T_std. rewrite layersR_eq.
  assert (Etab : combine (aH_b atmR) (aT_M_b atmR) =
     [(0, 0); (11000, -71.5); (20000, -71.5); (32000, -59.5); (47000, -17.5); (51000, -17.5); (71000, -73.5); (84852, -101.204)]).
  { cbn [atmR aH_b aT_M_b]. live. cbn [combine]. rlist. }
  rewrite Etab. cbn [Tmol].
  assert (Hinc : incr [(0, 0); (11000, -71.5); (20000, -71.5); (32000, -59.5); (47000, -17.5); (51000, -17.5); (71000, -73.5); (84852, -101.204)])
    by (cbn; repeat split; lra).
  destruct (Rlt_dec H 11000). { apply (T_in_layer atmR [] 0 0 11000 (-71.5) _ (-0.0065) H Hinc); lra. }
  destruct (Rlt_dec H 20000). { apply (T_in_layer atmR [(0,0)] 11000 (-71.5) 20000 (-71.5) _ 0 H Hinc); lra. }
  destruct (Rlt_dec H 32000). { apply (T_in_layer atmR [(0,0); (11000,-71.5)] 20000 (-71.5) 32000 (-59.5) _ 0.001 H Hinc); lra. }
  destruct (Rlt_dec H 47000). { apply (T_in_layer atmR [(0,0); (11000,-71.5); (20000,-71.5)] 32000 (-59.5) 47000 (-17.5) _ 0.0028 H Hinc); lra. }
  destruct (Rlt_dec H 51000). { apply (T_in_layer atmR [(0,0); (11000,-71.5); (20000,-71.5); (32000,-59.5)] 47000 (-17.5) 51000 (-17.5) _ 0 H Hinc); lra. }
  destruct (Rlt_dec H 71000). { apply (T_in_layer atmR [(0,0); (11000,-71.5); (20000,-71.5); (32000,-59.5); (47000,-17.5)] 51000 (-17.5) 71000 (-73.5) _ (-0.0028) H Hinc); lra. }
  destruct (Rlt_dec H 84852); [|lra].
  apply (T_in_layer atmR [(0,0); (11000,-71.5); (20000,-71.5); (32000,-59.5); (47000,-17.5); (51000,-17.5)] 71000 (-73.5) 84852 (-101.204) _ (-0.002) H Hinc); lra.
Qed.
Print Assumptions C17_temperature_profile.

(* derived quantities are the ideal-gas density, Sutherland viscosity and sound speed; geopotential height *)
Theorem C17_derived_quantities : forall P Tk Z, 0 < Tk ->
  rho_of atmR P Tk * (8314.32 * Tk) = P * 28.9644 /\
  mu_of Rpower atmR Tk = 0.000001458 * Rpower Tk 1.5 / (Tk + 110.4) /\
  a_of atmR Tk = sqrt (1.4 * 8314.32 * Tk / 28.9644) /\
  geopotential atmR Z = 6356766 * Z / (6356766 + Z).
Proof.
  intros P Tk Z HT.
  destruct C17_constants_are_USSA76 as (_ & _ & _ & Hr0 & _ & HM & HRs & _ & HS & Hbeta & Hgam & _).
  assert (H15 : a_one_p_five atmR = 1.5) by reflexivity.
  unfold rho_of, mu_of, a_of, geopotential. rewrite Hr0, HM, HRs, HS, Hbeta, Hgam, H15.
  change (@nmul R RNum) with Rmult. change (@ndiv R RNum) with Rdiv. change (@nadd R RNum) with Rplus.
  change (@nsqrt R RNum) with sqrt.
  repeat split; try reflexivity. field. lra.
Qed.
Print Assumptions C17_derived_quantities.

(* table-driven profiles: linear interpolation that reproduces its nodes; constant tables are constant *)
Theorem C17_profile_tables : forall (tbl : list (R * R)),
  (forall x y, incr tbl -> In (x, y) tbl -> interp x tbl = y) /\
  (forall c x, tbl <> [] -> List.Forall (fun p => snd p = c) tbl -> interp x tbl = c) /\
  (forall x x0 y0 x1 y1, x0 <= x < x1 -> interp x [(x0, y0); (x1, y1)] = y0 + (y1 - y0) / (x1 - x0) * (x - x0)).
Proof.
  intros tbl. repeat split.
  - intros; apply interp_reproduces_nodes; assumption.
  - intros; apply interp_const; assumption.
  - intros; apply interp_two; assumption.
Qed.
Print Assumptions C17_profile_tables.

(* non-vacuity: 5 km (geopotential) lies in the first layer, where T = 288.15 - 0.0065 H *)
Example C17_inside_example : in_a_layer 5000 /\ T_std 5000 = 288.15 - 0.0065 * 5000.
Proof.
  split.
  - unfold in_a_layer. rewrite layersR_eq. cbn [inside]. left; lra.
  - unfold T_std. rewrite layersR_eq. cbn [Tmol]. destruct (Rlt_dec 5000 11000); [|lra]. unfold Tb; cbn; live. lra.
Qed.

(* field tables (x, y, z, value): in the simplex of the triangulation that contains the query point the value is the barycentric
   combination of the four node values.  Whatever non-degenerate simplex the triangulation provides: every node value is returned
   at its node, an affine field (density or the three wind columns) is reproduced exactly everywhere, the value inside the simplex
   lies between the node values, and neighbouring simplices agree on their common face. *)
Theorem C17_field_tables : forall (a b c d : v3 R), tet_volume6 a b c d <> 0 ->
  (forall fa fb fc fd,
     field_interp a b c d fa fb fc fd a = fa /\ field_interp a b c d fa fb fc fd b = fb /\
     field_interp a b c d fa fb fc fd c = fc /\ field_interp a b c d fa fb fc fd d = fd) /\
  (forall g k p, field_interp a b c d (vdot g a + k) (vdot g b + k) (vdot g c + k) (vdot g d + k) p = vdot g p + k) /\
  (forall gx gy gz k p, let w q := V3 (vdot gx q + vx k) (vdot gy q + vy k) (vdot gz q + vz k) in
     wind_interp a b c d (w a) (w b) (w c) (w d) p = w p) /\
  (forall fa fb fc fd p lo hi, in_tet a b c d p -> lo <= fa <= hi -> lo <= fb <= hi -> lo <= fc <= hi -> lo <= fd <= hi ->
     lo <= field_interp a b c d fa fb fc fd p <= hi) /\
  (forall d' fa fb fc fd fd' p, tet_volume6 a b c d' <> 0 -> (let '(_, _, _, l3) := bary a b c d p in l3 = 0) ->
     field_interp a b c d fa fb fc fd p = field_interp a b c d' fa fb fc fd' p).
Proof.
  intros a b c d HD. repeat split.
  1-4: apply interp_nodes; exact HD.
  - intros; apply interp_affine; exact HD.
  - intros; apply wind_affine; exact HD.
  - eapply interp_bounds; eassumption.
  - eapply interp_bounds; eassumption.
  - intros; apply interp_shared_face; assumption.
Qed.
Print Assumptions C17_field_tables.

(* the weights used are the only ones that sum to one and reproduce the point: any other evaluation of "linear on the simplex" is this one *)
Theorem C17_field_weights_unique : forall (a b c d p : v3 R) m0 m1 m2 m3, tet_volume6 a b c d <> 0 ->
  m0 + m1 + m2 + m3 = 1 -> comb m0 m1 m2 m3 a b c d = p -> bary a b c d p = (m0, m1, m2, m3).
Proof. exact bary_unique. Qed.
Print Assumptions C17_field_weights_unique.

Example C17_field_example :
  let a := V3 0 0 0 in let b := V3 1 0 0 in let c := V3 0 1 0 in let d := V3 0 0 1 in
  tet_volume6 a b c d <> 0 /\ in_tet a b c d (V3 (1/4) (1/4) (1/4)) /\ field_interp a b c d 1 2 3 5 (V3 (1/4) (1/4) (1/4)) = 11/4.
Proof. exact unit_tet_inside. Qed.
