(* C01 — the returned circulation solves the general numerical lifting-line equation, or an error is raised.
   Statements only.  Models: Model/Kernel.v, Model/Residual.v, Model/ErrPolicy.v. *)
From Coq Require Import Reals Lra List Lia Bool.
From Coquelicot Require Import Coquelicot.
From MuxV Require Import Base.Num Base.Vec3 Base.RInst Model.Kernel Model.Residual Model.ErrPolicy Model.Helpers Model.Flow Proofs.ResidualP Proofs.FlowP Proofs.BiotSavartP.
Import ListNotations.
Local Open Scope R_scope.

(* ---- the equation, written out for the documented default options ---- *)
Section Equation.
  Variables (atan2 : R -> R -> R) (c : cpt R) (sc : section R) (Vr : list (v3 R)) (g : list R) (gi : R).

  (* local velocity: freestream + rigid-body rotation + sum over all horseshoe vortices of influence * strength *)
  Definition spec_v : v3 R :=
    vadd (vadd (cvinf c) (cvrot c))
         (fold_right (fun p acc => vadd (vscale (snd p) (fst p)) acc) vzero (combine Vr g)).
  Definition spec_v_in_plane : v3 R := vsub spec_v (vscale (vdot (cus c) spec_v) (cus c)).
  Definition spec_alpha : R := atan2 (vdot spec_v (cun c)) (vdot spec_v (cua c)).
  Definition spec_Vip : R := sqrt (vdot spec_v_in_plane spec_v_in_plane).
  Definition spec_Re : R := spec_Vip * ccbar c / cnu c.
  Definition spec_M : R := spec_Vip / csos c.
  (* swept-section lift coefficient: section CL corrected with the local lift slope (scene.py 797) *)
  Definition spec_CL : R :=
    sCL sc spec_alpha spec_Re spec_M
    + sCLa sc spec_alpha spec_Re spec_M * (saL0 sc spec_Re spec_M - saL0 sc spec_Re spec_M * ccsi c).
  (* Kutta-Joukowski lift of the bound vortex (per rho/2) minus the section lift (per rho/2) *)
  Definition spec_residual : R :=
    2 * sqrt (vdot (vcross spec_v (cdl c)) (vcross spec_v (cdl c))) * gi
    - vdot spec_v_in_plane spec_v_in_plane * spec_CL * cdS c.

  Lemma induced_spec : induced Vr g = fold_right (fun p acc => vadd (vscale (snd p) (fst p)) acc) vzero (combine Vr g).
  Proof.
    revert g; induction Vr as [|V Vr' IH]; intros [|x g']; try reflexivity.
    cbn [induced combine fold_right fst snd]. rewrite IH. f_equal. destruct V; rcompute; f_equal; ring.
  Qed.

  Theorem C01_residual_is_GNLL :
    residual_at atan2 (mk_opts true true true false) c sc Vr g gi = spec_residual.
  Proof.
    unfold residual_at, spec_residual, v_local, vinf_rot, sec_state, lift_V2, wvec, vnorm, vnorm2, in_plane.
    cbn [use_swept use_total use_in_plane match_pro andb negb s_CL s_V2].
    rewrite induced_spec. reflexivity.
  Qed.
End Equation.
Print Assumptions C01_residual_is_GNLL.

(* ---- the iteration: normal exit means converged residual; the cap means NotConverged ---- *)
Section Iteration.
  Variables (atan2 : R -> R -> R) (O : opts) (solve : list (list R) -> list R -> list R).
  Variables (conv relax : R) (max_iter : nat).
  Variables (cs : list (cpt R)) (Ss : list (section R)) (Vm : list (list (v3 R))).

  (* whenever the nonlinear solver returns a circulation, the residual norm measured immediately before the last
     (relaxed) Newton update was within the configured tolerance, and at most max_iter updates were made *)
  Theorem C01_newton_exit : forall g0 g' k,
    solve_nonlinear atan2 O solve conv relax max_iter cs Ss Vm g0 = Converged g' k ->
    (100 <= conv /\ g' = g0) \/
    (exists g, norm2 (residual atan2 O cs Ss Vm g) <= conv /\
               g' = newton_update atan2 O solve relax cs Ss Vm g /\ (k < max_iter)%nat).
  Proof.
    intros g0 g' k H. unfold solve_nonlinear in H. apply newton_exit in H.
    destruct H as [[H1 [H2 _]]|[g [H1 [H2 [_ H4]]]]]; [left; split; assumption | right; exists g; repeat split; assumption].
  Qed.

  (* if the tolerance is not met within max_iter updates the outcome is NotConverged (an exception), never a result *)
  Theorem C01_newton_cap : forall g0 g' k, (0 < max_iter)%nat ->
    solve_nonlinear atan2 O solve conv relax max_iter cs Ss Vm g0 = NotConverged g' k -> k = max_iter.
  Proof. intros g0 g' k Hm H. unfold solve_nonlinear in H. eapply newton_cap; [| |exact H]; lia. Qed.
End Iteration.
Print Assumptions C01_newton_exit.
Print Assumptions C01_newton_cap.

(* ---- the error policy ---- *)
Definition not_converged (s : solver_kind) (f : run_facts) : bool :=
  match s with
  | SNonlinear => negb (newton_ok f)
  | SScipy => negb (fsolve_ok f) && negb (newton_ok f)
  | _ => false
  end.

(* set_err_state prescribes: raise -> SolverNotConvergedError propagates and no loads are returned;
   warn -> one warning, loads returned; ignore -> loads returned silently; anything else -> RuntimeError *)
Theorem C01_policy_table : forall s g db f, n_aircraft f <> 0%nat -> integrate_db_error f = false ->
  not_converged s f = true ->
  solve_forces_outcome s g IRaise db f = RaisedNotConverged /\
  solve_forces_outcome s g IWarn db f = Loads 1 false /\
  solve_forces_outcome s g IIgnore db f = Loads 0 false /\
  solve_forces_outcome s g IBad db f = RaisedRuntimeError.
Proof.
  intros s g db f Hn Hdb Hnc. unfold solve_forces_outcome.
  destruct (Nat.eqb_spec (n_aircraft f) 0); [contradiction|].
  unfold stages. rewrite Hdb.
  destruct s, g; cbn in Hnc; try discriminate;
    destruct (fsolve_ok f), (newton_ok f); cbn in Hnc; try discriminate; cbn; repeat split.
Qed.
Print Assumptions C01_policy_table.

(* under the default 'raise' state, loads are only ever returned from a solver run that reported convergence *)
Theorem C01_never_silent_under_raise : forall s g db f w ok,
  solve_forces_outcome s g IRaise db f = Loads w ok -> not_converged s f = false \/ s = SOther.
Proof.
  intros s g db f w ok H. destruct f as [n fo no dbe]. unfold solve_forces_outcome, stages, not_converged in *. cbn in *.
  destruct (Nat.eqb n 0); [discriminate|].
  destruct s; [| | |right; reflexivity]; left; destruct g, fo, no, dbe, db; cbn in *; try discriminate; reflexivity.
Qed.
Print Assumptions C01_never_silent_under_raise.

(* non-vacuity: a concrete failing run under each instruction *)
Example C01_policy_example :
  let f := {| n_aircraft := 1; fsolve_ok := false; newton_ok := false; integrate_db_error := false |} in
  solve_forces_outcome SScipy GLinear IRaise IRaise f = RaisedNotConverged /\
  solve_forces_outcome SNonlinear GPrevious IWarn IRaise f = Loads 1 false.
Proof. split; reflexivity. Qed.

(* ---- what the residual is evaluated with: the air velocity seen at a point at body offset r from the CG is wind - v + R^T (r x w),
   the trailing vortices leave along the unit vector of that velocity at the joints and, when the sheet is constrained, have no
   component along the body z-axis (scene.py _calc_invariant_flow_properties; run against the live arrays after every solve path) ---- *)
Theorem C01_flow_at_points : forall (q : quat R) (v wind w r vj : v3 R),
  v_inf_and_rot q v wind w r = vadd (vsub wind v) (quat_inv_trans q (vcross r w)) /\
  (vnorm2 vj <> 0 -> vnorm2 (trailing_dir false q vj) = 1) /\
  (vnorm2 (body_z q) = 1 -> vdot (body_z q) (trailing_dir true q vj) = 0).
Proof.
  intros. split; [apply v_inf_and_rot_spec|]. split; [apply trailing_is_unit | apply constrained_in_body_plane].
Qed.
Print Assumptions C01_flow_at_points.

(* ---- the influence of a straight vortex segment A -> B (bound segment, joint segments) that the code evaluates in closed form is the
   Biot-Savart line integral over the segment: with ra = PC - A, rb = PC - B, dl = (B - A) dt and rho(t) the vector from the point
   A + t (B - A) to the control point, each component of int_0^1 dl x rho / |rho|^3 equals that component of
   (|ra|+|rb|) (ra x rb) / (|ra||rb| (|ra||rb| + ra.rb)), whenever the control point is not on the line through A and B.
   The semi-infinite trailing filaments follow below.) ---- *)
Theorem C01_segment_is_biot_savart : forall ra rb : v3 R, vnorm2 (vcross ra rb) <> 0 ->
  let integrand := fun t => vscale (/ (vnorm2 (rho ra rb t) * sqrt (vnorm2 (rho ra rb t)))) (vcross (vsub ra rb) (rho ra rb t)) in
  is_RInt (fun t => vx (integrand t)) 0 1 (vx (seg_kernel ra rb)) /\
  is_RInt (fun t => vy (integrand t)) 0 1 (vy (seg_kernel ra rb)) /\
  is_RInt (fun t => vz (integrand t)) 0 1 (vz (seg_kernel ra rb)).
Proof.
  intros ra rb H integrand. unfold integrand.
  split; [|split]; apply (seg_kernel_is_biot_savart ra rb H); intros k [x y z]; reflexivity.
Qed.
Print Assumptions C01_segment_is_biot_savart.

(* ---- a trailing filament leaves its joint along the unit vector u and is followed to infinity: for every length T the truncated
   Biot-Savart integral int_0^T (u x rho) / |rho|^3 dt exists, and its limit for T -> infinity is, component by component, the closed form
   (u x r) / (|r| (|r| - u.r)) that the code evaluates (scene.py 621-639), whenever the control point is not on the line of the filament;
   [trail_kernel] is that closed form whenever it is kept, i.e. above the cut-off ---- *)
Theorem C01_trailing_is_biot_savart : forall u r : v3 R, vnorm2 u = 1 -> 0 < vnorm2 r - vdot u r * vdot u r ->
  let integrand := fun t => vscale (/ (vnorm2 (rho_t u r t) * sqrt (vnorm2 (rho_t u r t)))) (vcross u (rho_t u r t)) in
  let closed := vdivs (vcross u r) (vnorm r * (vnorm r - vdot u r)) in
  forall proj, (proj = vx \/ proj = vy \/ proj = vz) ->
  exists I : R -> R, (forall T, is_RInt (fun t => proj (integrand t)) 0 T (I T)) /\ is_lim I p_infty (proj closed).
Proof.
  intros u r Hu Hnc integrand closed proj Hp.
  assert (Hproj : forall k v, proj (vscale k v) = k * proj v) by (destruct Hp as [E|[E|E]]; rewrite E; intros k [x y z]; reflexivity).
  destruct (trail_kernel_is_biot_savart u r Hu Hnc proj Hproj) as [H1 H2].
  eexists. split; [exact H1 | exact H2].
Qed.
Print Assumptions C01_trailing_is_biot_savart.

Theorem C01_trail_kernel_closed_form : forall (cutoff : R) (u r : v3 R), cutoff < trail_denom u r ->
  trail_kernel (fun x => x) cutoff u r = vdivs (vcross u r) (vnorm r * (vnorm r - vdot u r)).
Proof.
  intros cutoff u r H. unfold trail_kernel, trail_denom in *. cbv zeta. rnum. unfold Rltb.
  destruct (Rlt_dec cutoff (vnorm r * (vnorm r - vdot u r))) as [_|Hn]; [|exfalso; apply Hn; exact H].
  destruct (vcross u r); reflexivity.
Qed.
Print Assumptions C01_trail_kernel_closed_form.

(* the error state is that of the LAST set_err_state call; whatever that call leaves out is "raise" again, whatever earlier calls said
   (docstring: "All will default to 'raise' if not specified") - so an earlier 'ignore' can never silence a later unconverged solve *)
Theorem C01_err_state_last_call_wins : forall calls c,
  err_state_after (calls ++ [c]) = set_err_state c /\ err_state_after [] = (IRaise, IRaise) /\
  (fst c = None -> fst (err_state_after (calls ++ [c])) = IRaise).
Proof.
  intros calls c. unfold err_state_after. rewrite fold_left_app. cbn [fold_left]. repeat split.
  intro H. unfold set_err_state. rewrite H. reflexivity.
Qed.
Print Assumptions C01_err_state_last_call_wins.
