(* C20 — files, CLI runs and exports agree with the API; inputs are never mutated.  Statements only.
   (Equality of file contents with the API results, absence of aliasing of the caller's dictionaries and the geometric content of
    the exported outlines are runtime facts: they are exercised by the harness on every run, not proved.) *)
From Coq Require Import List String Bool Arith.
From MuxV Require Import Model.Validate Model.Export Proofs.ExportP.
Import ListNotations.
Open Scope string_scope.
Open Scope list_scope.

(* default file names: only the extension of the input name is replaced, for every input name *)
Theorem C20_default_names : forall b key,
  let input := (b ++ ".json")%string in
  default_filename input "export_stl" = Some (b ++ ".stl")%string /\
  default_filename input "export_vtk" = Some (b ++ ".vtk")%string /\
  default_filename input "distributions" = Some (b ++ "_distributions.csv")%string /\
  (key <> "export_stl" -> key <> "export_vtk" -> key <> "distributions" ->
   default_filename input key = if extension_ok "display" key then None else Some (b ++ "_" ++ key ++ ".json")%string).
Proof. exact default_names. Qed.
Print Assumptions C20_default_names.

(* the runner calls exactly the known commands of "run", once each, in the order given, and skips the others; a given filename is kept *)
Theorem C20_dispatch : forall methods input run,
  map fst (run_cli methods input run) = filter (fun k => mem k methods) (map fst run) /\
  (forall key f, In (key, f) (run_cli methods input run) ->
     mem key methods = true /\ exists given, In (key, given) run /\ f = match given with Some g => Some g | None => default_filename input key end) /\
  (forall key given r, mem key methods = false -> run_cli methods input ((key, given) :: r) = run_cli methods input r).
Proof.
  intros. split; [apply run_cli_calls|]. split; [intros key f; apply run_cli_filenames | intros; apply run_cli_unknown_skipped; assumption].
Qed.
Print Assumptions C20_dispatch.

(* STL assembly: the six vertex slots of the panels tile the vertex array exactly (every position belongs to exactly one panel), each panel
   contributes two triangles whose vertices are exactly the four corners of its quadrilateral, the aircraft's facets are the segments'
   triples in order, and the left-hand quadrilateral is the reversed mirror image of the right-hand one *)
Theorem C20_stl_panels : forall R N, 2 <= R ->
  (forall i j k, i < N -> j < R - 1 -> k < 6 -> slot R i j + k < 3 * num_facets N R /\ decode R (slot R i j + k) = (i, j, k)) /\
  (forall v, v < 3 * num_facets N R -> let '(i, j, k) := decode R v in i < N /\ j < R - 1 /\ k < 6 /\ slot R i j + k = v).
Proof.
  intros R N HR. split.
  - intros i j k Hi Hj Hk. split; [apply slot_in_range; assumption | apply decode_slot; assumption].
  - intro v. apply slot_decode. exact HR.
Qed.
Print Assumptions C20_stl_panels.

Theorem C20_two_triangles_per_quad : forall (A : Type) (b : bool) (v0 v1 v2 v3 : A),
  List.length (two_tris b v0 v1 v2 v3) = 6 /\ forall x, In x (two_tris b v0 v1 v2 v3) <-> In x [v0; v1; v2; v3].
Proof. intros. split; [apply two_tris_length | intro x; apply two_tris_cover]. Qed.
Print Assumptions C20_two_triangles_per_quad.

Theorem C20_facets_of_aircraft : forall (A : Type) (segs : list (list A)) (ns : list nat),
  Forall2 (fun s n => List.length s = 3 * n) segs ns ->
  List.concat (airplane_facets segs) = List.concat segs /\ List.length (airplane_facets segs) = fold_right Nat.add 0 ns.
Proof. intros A segs ns. apply airplane_facets_spec. Qed.
Print Assumptions C20_facets_of_aircraft.

Theorem C20_mirror_quads : forall (A : Type) (M : A -> A) (rootR tipR rootL tipL : nat -> A) j,
  (forall n, rootL n = M (rootR n)) -> (forall n, tipL n = M (tipR n)) ->
  quad_left rootL tipL j = map M (rev (quad_right rootR tipR j)).
Proof. intros A M. apply quad_mirror. Qed.
Print Assumptions C20_mirror_quads.

Example C20_nonvacuous :
  run_cli ["solve_forces"; "distributions"; "export_stl"] "dir.json.d/in.json"
          [("solve_forces", None); ("bogus", None); ("distributions", Some "d.csv"); ("export_stl", None)]
  = [("solve_forces", Some "dir.json.d/in_solve_forces.json"); ("distributions", Some "d.csv"); ("export_stl", Some "dir.json.d/in.stl")].
Proof. reflexivity. Qed.

(* the rows of the distributions file are attributed to aircraft and segments by name: with the name columns as wide as the longest name
   (at least 18 characters; fix a7579e9) every label in the file is the name itself, so distinct segments keep distinct labels; with the
   fixed width of 18 characters of the pinned snapshot the two halves of a wing whose name has more than 12 characters share one label *)
Theorem C20_csv_labels : forall names a b, In a names -> In b names ->
  csv_label (name_width names) a = a /\ (csv_label (name_width names) a = csv_label (name_width names) b -> a = b).
Proof. intros names a b Ha Hb. split; [exact (csv_labels_are_names names a Ha) | exact (csv_labels_injective names a b Ha Hb)]. Qed.
Print Assumptions C20_csv_labels.
Example C20_fixed_width_refuted :
  csv_label 18 "main_wing_outboard_panel_left" = csv_label 18 "main_wing_outboard_panel_right" /\
  "main_wing_outboard_panel_left" <> "main_wing_outboard_panel_right" /\
  In "main_wing_outboard_panel_left" ["main_wing_outboard_panel_left"; "main_wing_outboard_panel_right"].
Proof. split; [reflexivity | split; [discriminate | left; reflexivity]]. Qed.
