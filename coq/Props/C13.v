(* C13 — multi-aircraft scenes: order independence, add/remove identity, selection.  Statements only.
   (The isolation limit - loads tend to the isolated values as the separation grows - is NOT proved; it is exercised.) *)
From Coq Require Import Reals Lra List Bool Arith Lia Permutation String.
From MuxV Require Import Base.Num Base.Vec3 Base.RInst Model.Kernel Model.Residual Model.SceneFSM Model.Select
  Proofs.HelpersP Proofs.SceneFSMP Proofs.MultiP.
Import ListNotations.
Local Open Scope R_scope.

(* the velocity induced at a control point is the sum over all horseshoes in the scene of influence x strength; it does not depend
   on the order in which the horseshoes (hence the aircraft) are stored *)
Theorem C13_order_independence : forall (Vr Vr' : list (v3 R)) (g g' : list R),
  List.length Vr = List.length g -> List.length Vr' = List.length g' -> Permutation (combine Vr g) (combine Vr' g') ->
  induced Vr g = induced Vr' g'.
Proof. intros. rewrite !induced_pairs by assumption. apply ind_pairs_perm; assumption. Qed.
Print Assumptions C13_order_independence.

(* adding an aircraft (under a name not yet used) and removing it again restores the aircraft list, and the scene is coherent again:
   by C07 every later result is computed from exactly the original aircraft with a freshly assembled geometry *)
Theorem C13_add_remove_identity : forall s a,
  (geo s = geo_of (acs s) /\ (solved s = true -> snap s = acs s)) ->
  has_name (a_name a) (acs s) = false -> acs s <> [] ->
  let s' := fst (run s [AddAircraft a; RemoveAircraft (a_name a)]) in
  acs s' = acs s /\ geo s' = geo_of (acs s') /\ (solved s' = true -> snap s' = acs s').
Proof. intros s a Hinv Hf Hne. destruct (add_remove_identity s a Hinv Hf Hne) as [H1 [H2 H3]]. repeat split; assumption. Qed.
Print Assumptions C13_add_remove_identity.

(* analyses restricted to named aircraft report only those; no name = all aircraft; anything else is an input error *)
Theorem C13_selection : forall names,
  get_aircraft names ANone = Names names /\
  (forall l, get_aircraft names (AList l) = Names l) /\
  (forall s, get_aircraft names (AStr s) = Names [s]) /\
  get_aircraft names AOther = SelError /\
  (forall n, single_default [n] None = Names [n]) /\
  (forall a b r, single_default (a :: b :: r) None = SelError) /\ single_default [] None = SelError.
Proof. intros; repeat split. Qed.
Print Assumptions C13_selection.

(* ---------------------------------------------------------------------------------------------------------------------------------
   The isolation limit, as far as it is a theorem: how fast one vortex element's influence falls off.
   A straight (bound or joint) segment of length L whose ends are seen at distances ma, mb, within 90 degrees of each other:
       |K|^2 <= (ma + mb)^2 L^2 / (2 (ma mb)^3)       i.e.  O(L / D^2);
   a semi-infinite trailing filament seen at perpendicular distance h = |u x r| from its line:  |K| h <= 2, i.e. O(1/h) -
   there is no decay along a wake, only away from it (an aircraft flying in another's wake is never "isolated"). *)
From Coq Require Import Reals.
From MuxV Require Import Base.Num Base.Vec3 Base.RInst Model.Kernel Proofs.DecayP.
Local Open Scope R_scope.
Theorem C13_influence_decays :
  (forall ra rb : v3 R, 0 < vnorm ra -> 0 < vnorm rb -> 0 <= vdot ra rb ->
     let ma := vnorm ra in let mb := vnorm rb in let L2 := vdot (vsub rb ra) (vsub rb ra) in
     vnorm2 (seg_kernel ra rb) <= (ma + mb) * (ma + mb) * L2 / (2 * (ma * mb) * (ma * mb) * (ma * mb))) /\
  (forall cutoff (u r : v3 R), vdot u u = 1 -> 0 <= cutoff -> cutoff < trail_denom u r ->
     vnorm2 (trail_kernel (fun x => x) cutoff u r) * vnorm2 (vcross u r) <= 4).
Proof. split; [exact seg_kernel_decay | exact trail_kernel_decay]. Qed.
Print Assumptions C13_influence_decays.
(* the hypotheses are satisfiable: a filament along x seen from one unit to its side; a unit segment seen from ten units away *)
Example C13_decay_nonvacuous :
  (vdot (V3 1 0 0 : v3 R) (V3 1 0 0) = 1 /\ 0 <= 1e-13 /\ 1e-13 < trail_denom (V3 1 0 0 : v3 R) (V3 0 1 0)) /\
  (0 < vnorm (V3 10 0 0 : v3 R) /\ 0 <= vdot (V3 10 0 0 : v3 R) (V3 10 1 0)).
Proof.
  unfold trail_denom, vnorm, vnorm2, vdot; cbn [vx vy vz]; rnum.
  replace (0 * 0 + 1 * 1 + 0 * 0) with 1 by ring. rewrite sqrt_1.
  replace (10 * 10 + 0 * 0 + 0 * 0) with (10 * 10) by ring. rewrite sqrt_square by lra.
  repeat split; lra.
Qed.
