(* C07 — results always reflect the current state, whatever the call history.  Statements only.
   Model: Model/SceneFSM.v (flags, caches and the perturb/restore skeleton of every analysis). *)
From Coq Require Import List Bool Arith.
From MuxV Require Import Model.SceneFSM Proofs.SceneFSMP.
Import ListNotations.

(* coherent scene: the Earth-frame geometry cache is the assembly of the current aircraft (names, descriptions, poses),
   and if the solved flag is up the stored section data were computed from the current aircraft states *)
Definition coherent (s : scene) : Prop :=
  geo s = map (fun a => (a_name a, a_geom a, a_pose a)) (acs s) /\ (solved s = true -> snap s = acs s).

(* a query result is current when it was computed from the current aircraft states with a geometry cache assembled from exactly those *)
Definition current (o : output) : Prop :=
  match o with
  | OSolve st g => g = map (fun a => (a_name a, a_geom a, a_pose a)) st
  | ODist cur st g => st = cur /\ g = map (fun a => (a_name a, a_geom a, a_pose a)) cur
  | OError => True
  end.

(* for every finite sequence of public calls, starting from any coherent scene (in particular the empty one), every result
   produced along the way - including the solves made inside analyses - is current, and the scene stays coherent *)
Theorem C07_queries_fresh : forall (ops : list op) (s : scene), coherent s ->
  coherent (fst (run s ops)) /\ Forall current (snd (run s ops)).
Proof. intros ops s H. exact (run_inv ops s H). Qed.
Print Assumptions C07_queries_fresh.

Theorem C07_new_scene_is_coherent : coherent init.
Proof. exact init_inv. Qed.
Print Assumptions C07_new_scene_is_coherent.

(* non-vacuity: a history with a velocity-only state change followed by distributions() - the stored section data are
   recomputed, not served from the earlier state *)
Example C07_history_example :
  let a := mk_ac 1 7 0 0 0 in
  snd (run init [AddAircraft a; SolveForces; SetState 1 0 5; Distributions]) =
  [OSolve [a] [(1, 7, 0)]; OSolve [mk_ac 1 7 0 5 0] [(1, 7, 0)]; ODist [mk_ac 1 7 0 5 0] [mk_ac 1 7 0 5 0] [(1, 7, 0)]].
Proof. reflexivity. Qed.
