(* C07 — results always reflect the current state, whatever the call history.  Statements only.
   Model: Model/SceneFSM.v (flags, caches and the perturb/restore skeleton of every analysis). *)
From Coq Require Import List Bool Arith.
From MuxV Require Import Model.SceneFSM Proofs.SceneFSMP.
Import ListNotations.

(* coherent scene: the Earth-frame geometry cache is the assembly of the current aircraft (names, descriptions, poses),
   and if the solved flag is up the stored section data were computed from the current aircraft states *)
Definition coherent (s : scene) : Prop :=
  geo s = map (fun a => (a_name a, a_geom a, a_pose a)) (acs s) /\ (solved s = true -> snap s = acs s).

(* a query result is current when it was computed from the current aircraft states with a geometry cache assembled from exactly those *)
Definition current (o : output) : Prop :=
  match o with
  | OSolve st g => g = map (fun a => (a_name a, a_geom a, a_pose a)) st
  | ODist cur st g => st = cur /\ g = map (fun a => (a_name a, a_geom a, a_pose a)) cur
  | OError => True
  end.

(* for every finite sequence of public calls, starting from any coherent scene (in particular the empty one), every result
   produced along the way - including the solves made inside analyses - is current, and the scene stays coherent *)
Theorem C07_queries_fresh : forall (ops : list op) (s : scene), coherent s ->
  coherent (fst (run s ops)) /\ Forall current (snd (run s ops)).
Proof. intros ops s H. exact (run_inv ops s H). Qed.
Print Assumptions C07_queries_fresh.

Theorem C07_new_scene_is_coherent : coherent init.
Proof. exact init_inv. Qed.
Print Assumptions C07_new_scene_is_coherent.

(* non-vacuity: a history with a velocity-only state change followed by distributions() - the stored section data are
   recomputed, not served from the earlier state *)
Example C07_history_example :
  let a := mk_ac 1 7 0 0 0 in
  snd (run init [AddAircraft a; SolveForces; SetState 1 0 5; Distributions]) =
  [OSolve [a] [(1, 7, 0)]; OSolve [mk_ac 1 7 0 5 0] [(1, 7, 0)]; ODist [mk_ac 1 7 0 5 0] [mk_ac 1 7 0 5 0] [(1, 7, 0)]].
Proof. reflexivity. Qed.

(* the same statement one level below the scene, where Python's reference semantics live (Model/Alias.v, Proofs/AliasP.v; fix ebac569): a
   position handed over as the caller's own array.  With the aircraft keeping a copy, for every history of hand-overs, in-place edits of
   the caller's arrays and queries, every query is answered with the geometry built for the aircraft's own current position - an edit
   changes nothing until the array is handed over again, and then the geometry follows.  Keeping the reference, as the pinned snapshot
   did, refutes it on a four-call history (a simulation loop that re-uses its position array). *)
From Coq Require Import ZArith.
From MuxV Require Model.Alias Proofs.AliasP.
Theorem C07_caller_arrays : forall (es : list Alias.ev) (s : Alias.st), AliasP.coherent s ->
  Forall (fun o => fst o = snd o) (Alias.run true s es).
Proof. intros es s H. exact (AliasP.copy_queries_fresh es s H). Qed.
Print Assumptions C07_caller_arrays.
Theorem C07_caller_arrays_by_reference_refuted :
  Alias.run false (Alias.init [[0; 0; -1000]%Z] [0; 0; 0]%Z)
            [Alias.SetState 0; Alias.CallerWrites 0 [0; 0; -30000]%Z; Alias.SetState 0; Alias.Query]
  = [([0; 0; -30000]%Z, [0; 0; -1000]%Z)].
Proof. exact AliasP.alias_refuted. Qed.
Print Assumptions C07_caller_arrays_by_reference_refuted.
Example C07_caller_arrays_nonvacuous : AliasP.coherent (Alias.init [[0; 0; -1000]%Z] [0; 0; 0]%Z).
Proof. exists [0; 0; 0]%Z. split; reflexivity. Qed.
