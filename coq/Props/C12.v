(* C12 — generated lifting-line geometry reproduces the described wing: span-wise grid, section chords and areas, reference
   defaults.  Statements only.  (The quarter-chord curve itself is checked against an independent integration of the documented
   curve by the harness; see DESIGN.) *)
From Coq Require Import Reals Lra List Bool Arith Lia ZArith.
From MuxV Require Import Base.Num Base.RInst Model.Grid Proofs.GridP.
Import ListNotations.
Local Open Scope R_scope.

(* cosine clustering inside one section [d0,d1] holding n >= 1 control points: node k at d0 + (1-cos(k pi/n))/2 (d1-d0);
   nodes run strictly monotonically from d0 to d1 with exactly one control point strictly between consecutive nodes *)
Definition node_at (d0 d1 : R) (n k : nat) : R := d0 + node_frac cos PI (1/2) n k * (d1 - d0).
Definition cp_at (d0 d1 : R) (n k : nat) : R := d0 + cp_frac cos PI (1/2) n k * (d1 - d0).
Theorem C12_cosine_section : forall d0 d1 n, d0 < d1 -> (1 <= n)%nat ->
  node_at d0 d1 n 0 = d0 /\ node_at d0 d1 n n = d1 /\
  (forall k, (k < n)%nat -> node_at d0 d1 n k < cp_at d0 d1 n k < node_at d0 d1 n (S k)).
Proof.
  intros d0 d1 n Hd Hn. unfold node_at, cp_at. destruct (section_ends n Hn) as [E0 E1].
  unfold nodeF in *. rewrite E0, E1. repeat split; try lra.
  - pose proof (section_interleaved n k Hn H) as [A _]. unfold nodeF, cpF in A. nra.
  - pose proof (section_interleaved n k Hn H) as [_ B]. unfold nodeF, cpF in B. nra.
Qed.
Print Assumptions C12_cosine_section.

(* the lists the code builds for a section are exactly these nodes (k = 1..n) and control points (k = 0..n-1) *)
Theorem C12_section_lists : forall d0 d1 n,
  sec_nodes cos PI (1/2) d0 d1 n = map (node_at d0 d1 n) (seq 1 n) /\
  sec_cps cos PI (1/2) d0 d1 n = map (cp_at d0 d1 n) (seq 0 n).
Proof. intros; split; reflexivity. Qed.
Print Assumptions C12_section_lists.

(* linear spacing: nodes k/N, control points at the mid-points (2k+1)/(2N) *)
Theorem C12_linear_grid : forall n k, (1 <= n)%nat ->
  ((k <= n)%nat -> nth k (fst (linear_grid (T:=R) n)) 0 = INR k / INR n) /\
  ((k < n)%nat -> nth k (snd (linear_grid (T:=R) n)) 0 = (2 * INR k + 1) / (2 * INR n)).
Proof. intros; apply linear_grid_R; assumption. Qed.
Print Assumptions C12_linear_grid.

(* left segments carry the mirror image: the same span fractions in reversed order (left to right along the lifting line) *)
Theorem C12_left_is_reversed_right : forall (g : list R * list R),
  for_side true g = (rev (fst (for_side false g)), rev (snd (for_side false g))).
Proof. intros [a b]; reflexivity. Qed.
Print Assumptions C12_left_is_reversed_right.

(* the N control points are all allocated: after the correction (taken from the root section, or from the longest sections when the
   root section is too short) the section counts - rounded lengths, hence non-negative - sum to N *)
Theorem C12_counts : forall (Ncp : Z) (rounded : list Z), rounded <> [] -> Forall (fun r => 0 <= r)%Z rounded ->
  fold_left Z.add (alloc Ncp rounded) 0%Z = Ncp.
Proof. intros; apply alloc_sum; assumption. Qed.
Print Assumptions C12_counts.

(* section chord = mean of its two node chords; section areas sum to semispan x the trapezoid rule of the node chords
   (= semispan x integral of the chord whenever the chord is affine between nodes) *)
Theorem C12_area_sum : forall b spans chords, length spans = length chords ->
  fold_right Rplus 0 (areas b spans (mean_chords chords)) = b * trapezoid spans chords.
Proof. intros; apply area_sum; assumption. Qed.
Print Assumptions C12_area_sum.

(* reference defaults: area = sum of the main segments' areas, lateral length = 2 x semispan of the main wing (right or one-sided
   segments), longitudinal length = area / lateral length; explicit values win *)
Theorem C12_reference_defaults : forall (b c : R) (a_r a_l : R),
  ref_defaults None None None [(true, false, b, a_l); (true, true, b, a_r); (false, true, c, 5)] = (a_l + a_r, (a_l + a_r) / (2 * b), 2 * b) /\
  (forall S lat lon segs, ref_defaults (Some S) (Some lat) (Some lon) segs = (S, lon, lat)).
Proof.
  intros. split; [|reflexivity]. unfold ref_defaults. cbn [fold_left andb]. rnum.
  f_equal; [f_equal|]; try ring. f_equal; ring.
Qed.
Print Assumptions C12_reference_defaults.

From Coquelicot Require Import Coquelicot.
From MuxV Require Import Base.Vec3 Model.QCurve Proofs.QCurveP.
Local Open Scope R_scope.
(* ---------------------------------------------------------------------------------------------------------------------------------
   The lifting line lies on the documented curve.  [qc_code] is wing_segment.py's piece-wise accumulation between the discontinuities
   with scipy's quad read as the Riemann integral of the code's integrands (per-side signs of sweep and dihedral included);
   [curve_spec] is the documented curve in terms of the description's own angles Lambda(s), Gamma(s):
       x(s) = x0 - b Int_0^s tan Lambda,   y(s) = y0 +- b Int_0^s cos Gamma,   z(s) = z0 - b Int_0^s sin Gamma.
   The integrability hypotheses are what the proof needs of the description (they hold for every constant, piece-wise linear or
   step table; the constant case is discharged below). *)
Theorem C12_quarter_chord_curve : forall (dr : R) (sw di : dist R),
  (forall a b, ex_RInt (fun s => tan (angle_val dr sw s)) a b) ->
  (forall a b, ex_RInt (fun s => cos (angle_val dr di s)) a b) ->
  (forall a b, ex_RInt (fun s => sin (angle_val dr di s)) a b) ->
  forall left_side root b rest s, nondecr 0 rest -> 0 <= s <= last rest 0 ->
  qc_code dr sw di left_side root b (0 :: rest) s = curve_spec dr sw di left_side root b s.
Proof. exact qc_standard_is_curve. Qed.
Print Assumptions C12_quarter_chord_curve.

(* the list of discontinuities the code builds is sorted, whatever the tables *)
Theorem C12_discontinuities_sorted : forall di sw : dist R, sortedR (mk_discont di sw).
Proof. exact mk_discont_sorted. Qed.
Print Assumptions C12_discontinuities_sorted.

(* it starts at the root, and advances with dx/ds = -b tan(sweep), the span direction rotated by the dihedral *)
Theorem C12_curve_start_and_tangent : forall (dr : R) (sw di : dist R),
  (forall a b, ex_RInt (fun s => tan (angle_val dr sw s)) a b) ->
  (forall a b, ex_RInt (fun s => cos (angle_val dr di s)) a b) ->
  (forall a b, ex_RInt (fun s => sin (angle_val dr di s)) a b) ->
  forall left_side root b,
  curve_spec dr sw di left_side root b 0 = root /\
  forall s, continuous (fun t => tan (angle_val dr sw t)) s -> continuous (fun t => cos (angle_val dr di t)) s ->
            continuous (fun t => sin (angle_val dr di t)) s ->
    is_derive (fun u => vx (curve_spec dr sw di left_side root b u)) s (- b * tan (angle_val dr sw s)) /\
    is_derive (fun u => vy (curve_spec dr sw di left_side root b u)) s
              (if left_side then - b * cos (angle_val dr di s) else b * cos (angle_val dr di s)) /\
    is_derive (fun u => vz (curve_spec dr sw di left_side root b u)) s (- b * sin (angle_val dr di s)).
Proof.
  intros dr sw di HT HC HS left_side root b. split; [apply curve_starts_at_root|].
  intros s CT CC CS. exact (curve_tangent dr sw di HT HC HS left_side root b s CT CC CS).
Qed.
Print Assumptions C12_curve_start_and_tangent.

(* left segments are the mirror image of right ones: the curve, the connection offsets and the quarter-chord-points branch *)
Theorem C12_curve_mirror : forall dr sw di root b s,
  curve_spec dr sw di true (mirror_y root) b s = mirror_y (curve_spec dr sw di false root b s).
Proof. exact curve_mirror. Qed.
Print Assumptions C12_curve_mirror.
Theorem C12_connection : forall dx dy dz yoff,
  delta_origin true dx (- dy) dz yoff = mirror_y (delta_origin false dx dy dz yoff) /\
  forall left_side origin, attach_at_root left_side (root_loc origin (delta_origin left_side dx dy dz yoff)) yoff = vadd origin (V3 dx dy dz).
Proof. intros. split; [apply delta_origin_mirror | intros; apply attach_at_root_removes_offset]. Qed.
Print Assumptions C12_connection.

(* constant sweep and dihedral, no hypothesis left: the code's list of discontinuities is [0; 1] and the curve is the straight line *)
Theorem C12_constant_angles_straight_line : forall dr left_side root b lam gam s, 0 <= s <= 1 ->
  qc_code dr (DConst lam) (DConst gam) left_side root b (mk_discont (DConst lam) (DConst gam)) s =
  V3 (vx root - s * b * tan (lam * dr))
     (if left_side then vy root - s * b * cos (gam * dr) else vy root + s * b * cos (gam * dr))
     (vz root - s * b * sin (gam * dr)).
Proof. exact qc_const_line. Qed.
Print Assumptions C12_constant_angles_straight_line.

(* quarter-chord points: span fractions increase strictly when consecutive points differ in the y-z plane, the curve then passes
   through every given point (y mirrored on the left) *)
Theorem C12_quarter_chord_points : forall pts, pts <> [] -> distinct_yz 0 0 pts ->
  incr_spans (qc_table pts) /\
  forall left_side root t p, In (t, p) (qc_table pts) ->
    qc_points left_side root (qc_table pts) t = V3 (vx root + vx p) (if left_side then vy root + - vy p else vy root + vy p) (vz root + vz p).
Proof.
  intros pts Hne Hd. pose proof (qc_table_incr pts Hne Hd) as Hi. split; [exact Hi|].
  intros left_side root t p Hin. apply qc_points_through; assumption.
Qed.
Print Assumptions C12_quarter_chord_points.

(* "shifted along the local chord by ll_offset": the displacement has length |offset| x chord, lies along the unswept chord line
   (orthogonal to the unswept span and normal directions, which with it form an orthonormal triad); zero offset leaves the point *)
Theorem C12_ll_offset : forall qc off chord tw di,
  (let d := vsub (ll_loc qc off chord (unswept_axial cos sin tw di)) qc in
   vdot d d = (off * chord) * (off * chord) /\ vdot d (unswept_span cos sin di) = 0 /\ vdot d (unswept_normal cos sin tw di) = 0) /\
  ll_loc qc 0 chord (unswept_axial cos sin tw di) = qc /\
  (let a := unswept_axial cos sin tw di in let n := unswept_normal cos sin tw di in let s := unswept_span cos sin di in
   vdot a a = 1 /\ vdot n n = 1 /\ vdot s s = 1 /\ vdot a n = 0 /\ vdot a s = 0 /\ vdot n s = 0).
Proof. intros. split; [apply ll_offset_distance | split; [apply ll_offset_zero | apply unswept_triad]]. Qed.
Print Assumptions C12_ll_offset.

(* the hypotheses are satisfiable: a two-piece description with a discontinuity list 0 < 0.4 < 1 *)
Example C12_curve_nonvacuous : nondecr 0 [0.4; 1] /\ 0 <= 0.7 <= last [0.4; 1] 0 /\ distinct_yz 0 0 [V3 0 1 0; V3 (-0.2) 2 (-0.3)].
Proof. cbn. repeat split; try lra; left; lra. Qed.

(* ---------------------------------------------------------------------------------------------------------------------------------
   Effective lifting lines and vortex joints (general corrections, airplane.py 557-671, Model/Reid.v). *)
From MuxV Require Import Model.Reid Proofs.ReidP.
(* without the corrections the nodes are the generated ones and there are no joints; with them every effective node is a convex
   combination (weight in (0,1], a Gaussian of the span-wise distance) of the straight line through the control point and the actual
   node, and the line passes through the control point itself *)
Theorem C12_effective_line :
  (forall fexp (w : list (sec R)) i, sreid i = false -> reid_row fexp w i = (map sP0 w, map sP1 w, map sP0 w, map sP1 w)) /\
  (forall sigma PCi dPC PCsi P Ps, 0 <= sigma -> exists lam, 0 < lam <= 1 /\
     blend_node exp sigma PCi dPC PCsi P Ps = vadd (vscale lam (vadd PCi (vscale (Ps - PCsi) dPC))) (vscale (1 - lam) P)) /\
  (forall sigma PCi dPC PCsi P, blend_node exp sigma PCi dPC PCsi P PCsi = PCi).
Proof. split; [exact reid_off | split; [exact blend_node_convex | exact blend_node_at_cp]]. Qed.
Print Assumptions C12_effective_line.
(* the joint direction is a unit vector orthogonal to the (unit) tangent of the effective line, in the plane of tangent and chord line,
   on the chord line's side; the joint is chord x delta_joint long *)
Theorem C12_joints : forall (Tn ua : v3 R), vdot Tn Tn = 1 -> vdot ua ua = 1 -> Rabs (vdot Tn ua) < 1 ->
  (let u := joint_dir Tn ua in vdot u u = 1 /\ vdot u Tn = 0 /\ 0 < vdot u ua /\ exists c1 c2, u = vadd (vscale c1 ua) (vscale c2 Tn)) /\
  forall P chord dj, let J := joint_node P chord dj (joint_dir Tn ua) in vdot (vsub J P) (vsub J P) = (chord * dj) * (chord * dj).
Proof.
  intros Tn ua HT Hu Hk. pose proof (joint_dir_spec Tn ua HT Hu Hk) as H. split; [exact H|].
  intros P chord dj. cbv zeta. apply joint_node_length. cbv zeta in H. exact (proj1 H).
Qed.
Print Assumptions C12_joints.

(* the integrability hypotheses discharged (Proofs/InterpContP.v: np.interp over strictly increasing abscissae is a sum of ramps, hence
   continuous): for constant or piece-wise linear (strictly increasing table) sweep and dihedral, sweep never +-90 degrees, the generated
   curve is the documented one with no further assumption.  (Step tables, which repeat a node, stay under the hypothesis form above.) *)
From MuxV Require Import Proofs.InterpP Proofs.InterpContP.
Theorem C12_quarter_chord_curve_tables : forall dr sw di, wf_dist sw -> wf_dist di -> (forall s, cos (angle_val dr sw s) <> 0) ->
  forall left_side root b rest s, nondecr 0 rest -> 0 <= s <= last rest 0 ->
  qc_code dr sw di left_side root b (0 :: rest) s = curve_spec dr sw di left_side root b s.
Proof. exact qc_standard_is_curve_tables. Qed.
Print Assumptions C12_quarter_chord_curve_tables.
Example C12_tables_nonvacuous : wf_dist (DTab [(0, 2); (0.5, 4); (1, 10)]) /\ wf_dist (DConst 3).
Proof. cbn. repeat split; lra. Qed.

(* section dihedral of a curve given by quarter-chord points (Model/QCurve.v dihedral_points; Proofs/QPointsP.v): for every chord of the
   curve that is not degenerate in the y-z plane - outboard, straight up or down, back inboard - and on either side, the angle the code
   derives is one whose span direction, as the curve integrands and the unswept section vectors use it, is the direction of that chord;
   the angles of the two halves of a wing are mirror images.  numpy.arctan2 enters through its specification (atan2_spec), which the
   instance atan2R built from atan satisfies. *)
From MuxV Require Import Proofs.QPointsP.
Theorem C12_points_dihedral : forall atan2, atan2_spec atan2 -> forall left_side (p0 p1 : v3 R),
  let dy := vy p1 - vy p0 in
  let dz := vz p1 - vz p0 in
  dy <> 0 \/ dz <> 0 ->
  span_dir left_side (dihedral_points atan2 left_side p0 p1) = (dy / sqrt (dy * dy + dz * dz), dz / sqrt (dy * dy + dz * dz)).
Proof. exact dihedral_points_direction. Qed.
Print Assumptions C12_points_dihedral.
Theorem C12_points_dihedral_mirror : forall atan2, atan2_spec atan2 -> forall (p0 p1 : v3 R),
  vy p1 - vy p0 <> 0 \/ vz p1 - vz p0 <> 0 ->
  let dr := dihedral_points atan2 false p0 p1 in
  let dl := dihedral_points atan2 true (mirror_y p0) (mirror_y p1) in
  cos dl = cos dr /\ sin dl = - sin dr.
Proof. exact dihedral_points_mirror. Qed.
Print Assumptions C12_points_dihedral_mirror.
Example C12_points_dihedral_nonvacuous : atan2_spec atan2R /\ (vy (V3 0 0 (-2)) - vy (V3 0 0 0) <> 0 \/ vz (V3 0 0 (-2)) - vz (V3 0 0 0) <> 0).
Proof. split; [exact atan2R_spec | right; cbn; lra]. Qed.

(* ... and the section sweep derived from the same chord (fix 78b1e1c gave it the per-side sign of a sweep given as an angle): the
   x-advance of the curve per unit length in the y-z plane that the integrands compute from it - +tan on the left, -tan on the right -
   is the slope of the chord; the two halves carry opposite angles *)
Theorem C12_points_sweep : forall (left_side : bool) (p0 p1 : v3 R),
  let dy := vy p1 - vy p0 in
  let dz := vz p1 - vz p0 in
  (if left_side then tan (sweep_points atan (fun x => x * x) left_side p0 p1) else - tan (sweep_points atan (fun x => x * x) left_side p0 p1))
  = (vx p1 - vx p0) / sqrt (dy * dy + dz * dz).
Proof. exact sweep_points_direction. Qed.
Print Assumptions C12_points_sweep.
Theorem C12_points_sweep_mirror : forall (p0 p1 : v3 R),
  sweep_points atan (fun x => x * x) true (mirror_y p0) (mirror_y p1) = - sweep_points atan (fun x => x * x) false p0 p1.
Proof. exact sweep_points_mirror. Qed.
Print Assumptions C12_points_sweep_mirror.

(* the lifting line on Kuchemann's locus of aerodynamic centres (Model/Kuchemann.v, Proofs/KuchemannP.v): the offset depends on the
   sweep only through its magnitude - the two halves of a wing, whose internal sweep angles are opposite, carry the same offset station by
   station; stations mirrored about the middle of the semispan deviate from the mid value -(1 - 1/K)/4 by opposite amounts, and a station
   as far from the centre as from the tip takes it; the interpolation weight lies in (0, 1].  For any cos, tan and power function. *)
From MuxV Require Import Model.Kuchemann Proofs.KuchemannP.
Theorem C12_kuchemann_offset : forall fcos ftan fpow pi CLa RA sw b,
  (forall nodes, offsets fcos ftan fpow pi CLa RA (- sw) b nodes = offsets fcos ftan fpow pi CLa RA sw b nodes) /\
  (forall loc c, offset_at fcos ftan fpow pi CLa RA sw b loc c + offset_at fcos ftan fpow pi CLa RA sw b (1 - loc) c
                 = 2 * mid_value fcos fpow pi CLa RA sw) /\
  (forall loc c, c <> 0 -> loc * b = b - loc * b -> offset_at fcos ftan fpow pi CLa RA sw b loc c = mid_value fcos fpow pi CLa RA sw).
Proof.
  intros. split; [intros; apply offsets_sweep_sign | split; [intros; apply offset_antisymmetric | intros; apply offset_mid; assumption]].
Qed.
Print Assumptions C12_kuchemann_offset.
Theorem C12_kuchemann_weight : forall pi sd x, 0 <= 2 * pi * sd * x -> 0 < lam pi sd x <= 1.
Proof. exact lam_bounds. Qed.
Print Assumptions C12_kuchemann_weight.

(* the swept section vectors a segment stores at its vortex nodes (Model/Swept.v, Proofs/SweptP.v): with the unit tangent of the lifting
   line as span vector and a unit unswept chord direction not parallel to it, the axial vector is a unit vector orthogonal to the span
   vector, in the plane of the two and on the chord direction's side, and the normal vector - their cross product - completes an
   orthonormal triad; the span vector is unit wherever the gradient of the line does not vanish *)
From MuxV Require Import Model.Swept Proofs.SweptP.
Theorem C12_swept_section_vectors : forall (us ua0 : v3 R), vdot us us = 1 -> vdot ua0 ua0 = 1 -> Rabs (vdot us ua0) < 1 ->
  let ua := swept_axial us ua0 in
  let un := swept_normal ua us in
  vdot ua ua = 1 /\ vdot un un = 1 /\ vdot us us = 1 /\
  vdot ua us = 0 /\ vdot un ua = 0 /\ vdot un us = 0 /\
  0 < vdot ua ua0 /\ (exists c1 c2, ua = vadd (vscale c1 ua0) (vscale c2 us)).
Proof. exact swept_triad. Qed.
Print Assumptions C12_swept_section_vectors.
Theorem C12_span_vector_unit : forall g : v3 R, vdot g g <> 0 -> vdot (vdivs g (vnorm g)) (vdivs g (vnorm g)) = 1.
Proof. exact vdivs_unit. Qed.
Print Assumptions C12_span_vector_unit.
(* ... and at the control points, where the node vectors are interpolated linearly: the span vector normalised, the axial vector freed of
   its span component and normalised, and their cross product are an orthonormal triad again (fix 55e4504), whatever the interpolated
   vectors are as long as the first does not vanish and the second is not parallel to it *)
Theorem C12_control_point_triads : forall xs uas uss (s : R),
  let us0 := interp_vec xs uss s in
  let ua0 := interp_vec xs uas s in
  vdot us0 us0 <> 0 ->
  (let us := vdivs us0 (vnorm us0) in let ua1 := vsub ua0 (vscale (vdot ua0 us) us) in vdot ua1 ua1 <> 0) ->
  let '(ua, un, us) := cp_triad xs uas uss s in
  vdot ua ua = 1 /\ vdot un un = 1 /\ vdot us us = 1 /\ vdot ua us = 0 /\ vdot un ua = 0 /\ vdot un us = 0.
Proof. exact cp_triad_orthonormal. Qed.
Print Assumptions C12_control_point_triads.

(* grouping of the half-segments into wings (airplane.py _sort_segments_into_wings, Model/Wings.v): whenever the procedure finishes there
   are as many wings as half-segments that start a lifting line, the i-th wing begins with the i-th of them, every member is one of the
   aircraft's half-segments; a half-segment starts a lifting line iff it is not a left half lying against its right half and it either
   continues nothing or is two-sided on a one-sided parent; a finished wing is closed under one more pass of the while loop; a pass only
   takes half-segments that no wing had, that start no lifting line themselves and that are continuations. *)
From MuxV Require Import Model.Wings Proofs.WingsP.
Theorem C12_wing_grouping : forall segs ws, wings_of segs = Some ws ->
  length ws = length (originals segs) /\ heads ws (originals segs) /\ List.Forall (List.Forall (fun s => In s segs)) ws.
Proof. exact wings_spec. Qed.
Print Assumptions C12_wing_grouping.

Theorem C12_wing_originals : forall segs s, In s (originals segs) <->
  In s segs /\ skipped s = false /\ (cont s = false \/ (mir s = true /\ pmir s = false)).
Proof. exact originals_spec. Qed.
Print Assumptions C12_wing_originals.

Theorem C12_wing_closed : forall fuel origs o jm segs wing assigned w a,
  grow fuel origs o jm segs wing assigned = Some (w, a) -> pass origs o jm segs w a false = (w, a, false).
Proof. exact grow_closed. Qed.
Print Assumptions C12_wing_closed.

Theorem C12_wing_pass_takes_only_free_continuations : forall origs o jm l wing assigned added,
  let '(_, a, _) := pass origs o jm l wing assigned added in
  exists new, a = new ++ assigned /\
    (forall pre s post, new = pre ++ s :: post -> isin s (post ++ assigned) = false /\ isin s origs = false /\ cont s = true).
Proof. exact pass_fresh. Qed.
Print Assumptions C12_wing_pass_takes_only_free_continuations.

(* every member of every wing is recorded as assigned (wing_ID <> -1) ... *)
Theorem C12_wing_members_assigned : forall segs ws a,
  build segs (originals segs) (originals segs) [] [] = Some (ws, a) -> List.Forall (List.Forall (fun s => In s a)) ws.
Proof. exact wings_members_assigned. Qed.
Print Assumptions C12_wing_members_assigned.

(* ... hence what a pass takes for the wing being built has the (ID, side) of no member of the wings built before: the passes never list a
   half-segment in two wings *)
Theorem C12_wing_pass_disjoint_from_earlier_wings : forall origs o jm l wings wing assigned added,
  List.Forall (List.Forall (fun s => In s assigned)) wings ->
  let '(_, a, _) := pass origs o jm l wing assigned added in
  exists new, a = new ++ assigned /\
    forall s, In s new -> forall wg m, In wg wings -> In m wg -> keyeq s m = false.
Proof. exact pass_takes_from_no_earlier_wing. Qed.
Print Assumptions C12_wing_pass_disjoint_from_earlier_wings.

(* non-vacuity: a two-sided wing with outer panels and a one-sided fin carrying a two-sided T-tail give three wings (Proofs/WingsP.v) *)
Definition C12_wing_example := wings_example.
Check C12_wing_example.

(* order in which the segments of the "wings" dictionary are attached (airplane.py _load_wing_segments, Model/LoadOrder.v): the procedure
   only permutes the segments; when its second loop stops because nothing moves, no segment stands in front of the segment it connects
   to - every segment finds its parent attached -; an order in which that already holds is left as it is. *)
From MuxV Require Import Model.LoadOrder Proofs.LoadOrderP.
From Coq Require Import Permutation.
Theorem C12_load_order_permutes : forall input, Permutation input (load_order input).
Proof. exact load_order_perm. Qed.
Print Assumptions C12_load_order_permutes.

Theorem C12_load_order_parents_first : forall l, settled l = true ->
  forall pre x post, l = pre ++ x :: post -> forall y, In y post -> sID y <> spar x.
Proof. exact settled_spec. Qed.
Print Assumptions C12_load_order_parents_first.

Theorem C12_load_order_keeps_settled_orders : forall fuel l, settled l = true -> fixup fuel l = l.
Proof. exact fixup_settled. Qed.
Print Assumptions C12_load_order_keeps_settled_orders.

Definition C12_load_order_example := load_order_example.
Check C12_load_order_example.
