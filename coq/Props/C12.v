(* C12 — generated lifting-line geometry reproduces the described wing: span-wise grid, section chords and areas, reference
   defaults.  Statements only.  (The quarter-chord curve itself is checked against an independent integration of the documented
   curve by the harness; see DESIGN.) *)
From Coq Require Import Reals Lra List Bool Arith Lia ZArith.
From MuxV Require Import Base.Num Base.RInst Model.Grid Proofs.GridP.
Import ListNotations.
Local Open Scope R_scope.

(* cosine clustering inside one section [d0,d1] holding n >= 1 control points: node k at d0 + (1-cos(k pi/n))/2 (d1-d0);
   nodes run strictly monotonically from d0 to d1 with exactly one control point strictly between consecutive nodes *)
Definition node_at (d0 d1 : R) (n k : nat) : R := d0 + node_frac cos PI (1/2) n k * (d1 - d0).
Definition cp_at (d0 d1 : R) (n k : nat) : R := d0 + cp_frac cos PI (1/2) n k * (d1 - d0).
Theorem C12_cosine_section : forall d0 d1 n, d0 < d1 -> (1 <= n)%nat ->
  node_at d0 d1 n 0 = d0 /\ node_at d0 d1 n n = d1 /\
  (forall k, (k < n)%nat -> node_at d0 d1 n k < cp_at d0 d1 n k < node_at d0 d1 n (S k)).
Proof.
  intros d0 d1 n Hd Hn. unfold node_at, cp_at. destruct (section_ends n Hn) as [E0 E1].
  unfold nodeF in *. rewrite E0, E1. repeat split; try lra.
  - pose proof (section_interleaved n k Hn H) as [A _]. unfold nodeF, cpF in A. nra.
  - pose proof (section_interleaved n k Hn H) as [_ B]. unfold nodeF, cpF in B. nra.
Qed.
Print Assumptions C12_cosine_section.

(* the lists the code builds for a section are exactly these nodes (k = 1..n) and control points (k = 0..n-1) *)
Theorem C12_section_lists : forall d0 d1 n,
  sec_nodes cos PI (1/2) d0 d1 n = map (node_at d0 d1 n) (seq 1 n) /\
  sec_cps cos PI (1/2) d0 d1 n = map (cp_at d0 d1 n) (seq 0 n).
Proof. intros; split; reflexivity. Qed.
Print Assumptions C12_section_lists.

(* linear spacing: nodes k/N, control points at the mid-points (2k+1)/(2N) *)
Theorem C12_linear_grid : forall n k, (1 <= n)%nat ->
  ((k <= n)%nat -> nth k (fst (linear_grid (T:=R) n)) 0 = INR k / INR n) /\
  ((k < n)%nat -> nth k (snd (linear_grid (T:=R) n)) 0 = (2 * INR k + 1) / (2 * INR n)).
Proof. intros; apply linear_grid_R; assumption. Qed.
Print Assumptions C12_linear_grid.

(* left segments carry the mirror image: the same span fractions in reversed order (left to right along the lifting line) *)
Theorem C12_left_is_reversed_right : forall (g : list R * list R),
  for_side true g = (rev (fst (for_side false g)), rev (snd (for_side false g))).
Proof. intros [a b]; reflexivity. Qed.
Print Assumptions C12_left_is_reversed_right.

(* the N control points are all allocated: after the correction (taken from the root section, or from the longest sections when the
   root section is too short) the section counts - rounded lengths, hence non-negative - sum to N *)
Theorem C12_counts : forall (Ncp : Z) (rounded : list Z), rounded <> [] -> Forall (fun r => 0 <= r)%Z rounded ->
  fold_left Z.add (alloc Ncp rounded) 0%Z = Ncp.
Proof. intros; apply alloc_sum; assumption. Qed.
Print Assumptions C12_counts.

(* section chord = mean of its two node chords; section areas sum to semispan x the trapezoid rule of the node chords
   (= semispan x integral of the chord whenever the chord is affine between nodes) *)
Theorem C12_area_sum : forall b spans chords, length spans = length chords ->
  fold_right Rplus 0 (areas b spans (mean_chords chords)) = b * trapezoid spans chords.
Proof. intros; apply area_sum; assumption. Qed.
Print Assumptions C12_area_sum.

(* reference defaults: area = sum of the main segments' areas, lateral length = 2 x semispan of the main wing (right or one-sided
   segments), longitudinal length = area / lateral length; explicit values win *)
Theorem C12_reference_defaults : forall (b c : R) (a_r a_l : R),
  ref_defaults None None None [(true, false, b, a_l); (true, true, b, a_r); (false, true, c, 5)] = (a_l + a_r, (a_l + a_r) / (2 * b), 2 * b) /\
  (forall S lat lon segs, ref_defaults (Some S) (Some lat) (Some lon) segs = (S, lon, lat)).
Proof.
  intros. split; [|reflexivity]. unfold ref_defaults. cbn [fold_left andb]. rnum.
  f_equal; [f_equal|]; try ring. f_equal; ring.
Qed.
Print Assumptions C12_reference_defaults.
