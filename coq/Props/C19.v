(* C19 — inputs violating documented constraints are rejected, never silently computed.  Statements only. *)
From Coq Require Import ZArith List Bool String Arith.
From MuxV Require Import Model.Validate Proofs.ValidateP.
Import ListNotations.
Open Scope string_scope.

(* the validation performed while loading and first solving lets a scene through exactly when every documented constraint holds
   (unit system and unit strings, solver type, atmosphere profiles, weight, velocity form, alpha/beta vs vector, rate frame, segment ID,
   side, exactly one span definition, no sweep/dihedral with quarter-chord points, defined airfoils, grid list length / ends / monotone,
   grid type, parent ID, flap-chord distribution ends, main wing or explicit reference) *)
Theorem C19_accepts_iff_documented : forall unit_known sc, scene_errs unit_known sc = [] <-> SceneDoc unit_known sc.
Proof. exact scene_ok. Qed.
Print Assumptions C19_accepts_iff_documented.

(* loads are produced only by a non-empty scene meeting every constraint; any violation, and the empty scene, raise *)
Theorem C19_loads_only_if_documented : forall unit_known sc,
  load_and_solve unit_known sc = Loads <-> (SceneDoc unit_known sc /\ sc_aircraft sc <> []).
Proof. exact loads_only_if_documented. Qed.
Print Assumptions C19_loads_only_if_documented.

Theorem C19_violation_raises : forall unit_known sc, ~ SceneDoc unit_known sc -> load_and_solve unit_known sc = Raises.
Proof. exact violating_input_raises. Qed.
Print Assumptions C19_violation_raises.

Theorem C19_empty_scene_raises : forall unit_known sc, sc_aircraft sc = [] -> load_and_solve unit_known sc = Raises.
Proof. exact empty_scene_raises. Qed.
Print Assumptions C19_empty_scene_raises.

(* aircraft names in the state setters / remove_aircraft / trims, pitch control, file extension: an input file must contain its extension,
   an output file (distributions, export_stl, export_vtk) must end with it - fix d06e743: "d.csv.txt" is not a .csv file *)
Theorem C19_names : forall names,
  (forall g n, resolve_name names g = Acts n -> In n names) /\
  (forall m, ~ In m names -> resolve_name names (Some m) = CallRaises) /\
  (forall a b r, resolve_name (a :: b :: r) None = CallRaises) /\ resolve_name [] None = CallRaises /\
  (forall controls p, trim_control_ok controls p = true <-> In p controls) /\
  (forall ext f, extension_ok ext f = true <-> exists a b, f = (a ++ ext ++ b)%string) /\
  (forall ext f, ends_with ext f = true <-> exists a, f = (a ++ ext)%string).
Proof.
  intro names. split; [intros g n; apply resolve_acts|]. split; [apply resolve_unknown|].
  split; [reflexivity|]. split; [reflexivity|]. split; [apply trim_control_spec|]. split; [apply extension_spec | apply ends_with_spec].
Qed.
Print Assumptions C19_names.

(* the hypotheses are satisfiable: a valid description is accepted, and a single violation of each kind is reported *)
Definition ex_seg : segment :=
  {| s_id := 1; s_side := "both"; s_semispan := true; s_qc := false; s_sweep := true; s_dihedral := false; s_airfoils := ["af"];
     s_grid := GList [0; 100; 300; 600; 1000]%Z; s_N := 2; s_parent := 0; s_main := true;
     s_cs := Some {| cs_root := 200; cs_tip := 900; cs_chord_ends := Some (200, 900)%Z |}; s_units := ["ft"] |}.
Definition ex_ac : aircraft :=
  {| a_weight := true; a_airfoils := ["af"]; a_segments := [ex_seg]; a_ref_area := false; a_ref_lon := false; a_ref_lat := false;
     a_state := {| st_velocity := VScalar; st_alpha := true; st_beta := false; st_rate_frame := "body"; st_units := [] |} |}.
Definition ex_sc : scene := {| sc_units := "English"; sc_solver := "nonlinear"; sc_profiles := ["standard"]; sc_aircraft := [ex_ac] |}.
Example C19_nonvacuous :
  load_and_solve (fun u => String.eqb u "ft") ex_sc = Loads /\
  load_and_solve (fun u => String.eqb u "ft") {| sc_units := "english"; sc_solver := "nonlinear"; sc_profiles := []; sc_aircraft := [ex_ac] |} = Raises.
Proof. split; reflexivity. Qed.
