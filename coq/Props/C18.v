(* C18 — classical lifting-line limits.  Statements only.
   What is proved here is the analytic side the code is compared with: Prandtl's elliptic solution and its closed forms, the roll-damping
   mode, the planform integrals (area factor, mean aerodynamic chord) and the monotone behaviour of the trapezoid area under grid refinement.
   That the discretised horseshoe system of the code converges to these values (within 0.5 % for N >= 20, first order for linear spacing) is a
   numerical statement about the implementation: it is measured on every run by harness/props/C18.py, NOT proved. *)
From Coq Require Import Reals Lra List.
From Coquelicot Require Import Coquelicot.
From MuxV Require Import Proofs.PrandtlP.
Import ListNotations.
Local Open Scope R_scope.

(* with Prandtl's uniform downwash G0/(2b) of an elliptic circulation, the lifting-line equation holds at every station of an elliptic wing
   for exactly one circulation strength, and then CL = a0 alpha / (1 + a0/(pi RA)), CDi = CL^2 / (pi RA) *)
Theorem C18_elliptic_closed_forms : forall b cr V a0 alpha G0, 0 < b -> 0 < cr -> 0 < V -> 0 < a0 ->
  let RA := b * b / (PI * b * cr / 4) in
  (G0 = / 2 * V * cr * a0 * alpha / (1 + a0 * cr / (4 * b)) -> forall theta, ll_equation b cr V a0 alpha G0 theta) /\
  ((exists theta, sin theta <> 0 /\ ll_equation b cr V a0 alpha G0 theta) -> G0 = / 2 * V * cr * a0 * alpha / (1 + a0 * cr / (4 * b))) /\
  (G0 = / 2 * V * cr * a0 * alpha / (1 + a0 * cr / (4 * b)) -> CL b cr V G0 = a0 * alpha / (1 + a0 / (PI * RA))) /\
  CDi b cr V G0 = CL b cr V G0 * CL b cr V G0 / (PI * RA).
Proof.
  intros b cr V a0 alpha G0 Hb Hcr HV Ha0 RA. split; [|split; [|split]].
  - apply elliptic_solves; assumption.
  - apply elliptic_unique; assumption.
  - apply CL_closed_form; assumption.
  - apply CDi_closed_form; assumption.
Qed.
Print Assumptions C18_elliptic_closed_forms.

(* roll damping: the sin(2 theta) mode solves the equation for the antisymmetric roll-rate angle, and Cl / pbar = -a0 / (8 (1 + 2 a0/(pi RA))) *)
Theorem C18_roll_damping : forall b cr V a0 pbar A2, 0 < b -> 0 < cr -> 0 < V -> 0 < a0 ->
  let RA := b * b / (PI * b * cr / 4) in
  A2 = / 4 * V * cr * a0 * pbar / (1 + 2 * (a0 * cr / (4 * b))) ->
  (forall theta, sin theta <> 0 -> ll_roll b cr V a0 pbar A2 theta) /\ Cl b cr V A2 = - a0 / (8 * (1 + 2 * a0 / (PI * RA))) * pbar.
Proof.
  intros b cr V a0 pbar A2 Hb Hcr HV Ha0 RA HA. split.
  - apply roll_mode_solves; assumption.
  - apply Cl_pbar_closed_form; assumption.
Qed.
Print Assumptions C18_roll_damping.

(* elliptic planform: area factor pi/4 per semispan, S = pi b cr / 4, mean aerodynamic chord 8 cr / (3 pi) *)
Theorem C18_planform_integrals : forall b cr, 0 < cr ->
  is_RInt ell 0 1 (PI / 4) /\
  (is_RInt (fun x => b / 2 * (cr * ell x)) 0 1 (PI * b * cr / 8) /\ 2 * (PI * b * cr / 8) = PI * b * cr / 4) /\
  (is_RInt (fun x => (cr * ell x) * (cr * ell x)) 0 1 (cr * cr * (2 / 3)) /\ is_RInt (fun x => cr * ell x) 0 1 (cr * (PI / 4)) /\
   (cr * cr * (2 / 3)) / (cr * (PI / 4)) = 8 * cr / (3 * PI)).
Proof. intros b cr Hcr. split; [exact RInt_ell | split; [apply elliptic_area | apply elliptic_MAC; exact Hcr]]. Qed.
Print Assumptions C18_planform_integrals.

(* the code integrates areas by the trapezoid rule over the node chords (C12): for the (concave) elliptic chord, adding a node anywhere
   never lowers the integrated area, so nested refinements approach the analytic area monotonically from below *)
Theorem C18_area_monotone_under_refinement : forall pre a m c post, -1 <= a -> c <= 1 -> a < m < c ->
  trap ell (pre ++ a :: c :: post) <= trap ell (pre ++ a :: m :: c :: post).
Proof. exact ell_trap_refine. Qed.
Print Assumptions C18_area_monotone_under_refinement.

Theorem C18_elliptic_chord_concave : forall x y u, -1 <= x <= 1 -> -1 <= y <= 1 -> 0 <= u <= 1 ->
  u * ell x + (1 - u) * ell y <= ell (u * x + (1 - u) * y).
Proof. exact ell_concave. Qed.
Print Assumptions C18_elliptic_chord_concave.
