(* C03 — Body-frame results are invariant under rigid motion; the quaternion algebra is exact.
   This file holds ONLY statements (with their specs written out here) closed by [exact lemma]
   and [Print Assumptions].  Model: Model/Helpers.v (helpers.py 151-262, airplane.py 148-159). *)
From Coq Require Import Reals List.
From MuxV Require Import Base.Num Base.Vec3 Base.RInst Model.Helpers Proofs.HelpersP.
Local Open Scope R_scope.

(* |q|^2 written out independently of the model *)
Definition unitq (q : quat R) : Prop :=
  qw q * qw q + qx q * qx q + qy q * qy q + qz q * qz q = 1.
Definition len2 (v : v3 R) : R := vx v * vx v + vy v * vy v + vz v * vz v.

(* transforming a vector into a frame and back is the identity *)
Theorem C03_there_and_back : forall q v, unitq q ->
  quat_inv_trans q (quat_trans q v) = v /\ quat_trans q (quat_inv_trans q v) = v.
Proof. intros q v H; split; [apply inv_trans_trans_unit | apply trans_inv_trans_unit]; destruct q; exact H. Qed.
Print Assumptions C03_there_and_back.

(* transformations preserve length (and all inner products) for unit quaternions *)
Theorem C03_length_preserved : forall q a b, unitq q ->
  vdot (quat_trans q a) (quat_trans q b) = vdot a b /\
  vdot (quat_inv_trans q a) (quat_inv_trans q b) = vdot a b /\
  len2 (quat_trans q a) = len2 a /\ sqrt (len2 (quat_inv_trans q a)) = sqrt (len2 a).
Proof.
  intros q a b H. assert (Hq : qn2 q = 1) by (destruct q; exact H).
  repeat split.
  - rewrite trans_dot, Hq; ring.
  - rewrite inv_trans_dot, Hq; ring.
  - change (len2 (quat_trans q a)) with (vnorm2 (quat_trans q a)). rewrite trans_norm2, Hq.
    destruct a; rcompute; ring.
  - f_equal. change (len2 (quat_inv_trans q a)) with (vnorm2 (quat_inv_trans q a)). rewrite inv_trans_norm2, Hq.
    destruct a; rcompute; ring.
Qed.
Print Assumptions C03_length_preserved.

(* handedness is preserved: cross products commute with the transformation *)
Theorem C03_cross_equivariant : forall q a b, unitq q ->
  vcross (quat_trans q a) (quat_trans q b) = quat_trans q (vcross a b) /\
  vcross (quat_inv_trans q a) (quat_inv_trans q b) = quat_inv_trans q (vcross a b).
Proof.
  intros q a b H. assert (Hq : qn2 q = 1) by (destruct q; exact H).
  split; [rewrite trans_cross | rewrite inv_trans_cross]; rewrite Hq; apply vscale_1.
Qed.
Print Assumptions C03_cross_equivariant.

(* composition of transformations equals quaternion multiplication; the conjugate is the inverse *)
Theorem C03_composition : forall p q v,
  quat_trans (quat_mult p q) v = quat_trans q (quat_trans p v) /\
  quat_inv_trans (quat_mult p q) v = quat_inv_trans p (quat_inv_trans q v) /\
  quat_trans (quat_conj q) v = quat_inv_trans q v.
Proof. intros; repeat split; [apply trans_mult | apply inv_trans_mult | apply conj_trans]. Qed.
Print Assumptions C03_composition.

(* a quaternion given un-normalised is stored as a unit quaternion describing the same rotation *)
Theorem C03_set_state_normalises : forall q v,
  qw q * qw q + qx q * qx q + qy q * qy q + qz q * qz q <> 0 ->
  unitq (quat_normalize q) /\
  quat_trans (quat_normalize q) v =
    vscale (/ (qw q * qw q + qx q * qx q + qy q * qy q + qz q * qz q)) (quat_trans q v).
Proof.
  intros q v H. assert (Hq : qn2 q <> 0) by (destruct q; exact H).
  split.
  - pose proof (normalize_unit q Hq) as Hn. destruct (quat_normalize q); exact Hn.
  - rewrite (normalize_same_rotation q v Hq). destruct q; reflexivity.
Qed.
Print Assumptions C03_set_state_normalises.

(* non-vacuity: a concrete non-trivial unit quaternion *)
Example C03_unit_example : unitq (Q4 (1/2) (1/2) (-1/2) (1/2)).
Proof. unfold unitq; rcompute; field. Qed.
