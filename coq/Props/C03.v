(* C03 — Body-frame results are invariant under rigid motion; the quaternion algebra is exact.
   This file holds ONLY statements (with their specs written out here) closed by [exact lemma]
   and [Print Assumptions].  Model: Model/Helpers.v (helpers.py 151-262, airplane.py 148-159). *)
From Coq Require Import Reals List.
From MuxV Require Import Base.Num Base.Vec3 Base.RInst Model.Helpers Proofs.HelpersP Model.Flow Proofs.FlowP.
Local Open Scope R_scope.

(* |q|^2 written out independently of the model *)
Definition unitq (q : quat R) : Prop :=
  qw q * qw q + qx q * qx q + qy q * qy q + qz q * qz q = 1.
Definition len2 (v : v3 R) : R := vx v * vx v + vy v * vy v + vz v * vz v.

(* transforming a vector into a frame and back is the identity *)
Theorem C03_there_and_back : forall q v, unitq q ->
  quat_inv_trans q (quat_trans q v) = v /\ quat_trans q (quat_inv_trans q v) = v.
Proof. intros q v H; split; [apply inv_trans_trans_unit | apply trans_inv_trans_unit]; destruct q; exact H. Qed.
Print Assumptions C03_there_and_back.

(* transformations preserve length (and all inner products) for unit quaternions *)
Theorem C03_length_preserved : forall q a b, unitq q ->
  vdot (quat_trans q a) (quat_trans q b) = vdot a b /\
  vdot (quat_inv_trans q a) (quat_inv_trans q b) = vdot a b /\
  len2 (quat_trans q a) = len2 a /\ sqrt (len2 (quat_inv_trans q a)) = sqrt (len2 a).
Proof.
  intros q a b H. assert (Hq : qn2 q = 1) by (destruct q; exact H).
  repeat split.
  - rewrite trans_dot, Hq; ring.
  - rewrite inv_trans_dot, Hq; ring.
  - change (len2 (quat_trans q a)) with (vnorm2 (quat_trans q a)). rewrite trans_norm2, Hq.
    destruct a; rcompute; ring.
  - f_equal. change (len2 (quat_inv_trans q a)) with (vnorm2 (quat_inv_trans q a)). rewrite inv_trans_norm2, Hq.
    destruct a; rcompute; ring.
Qed.
Print Assumptions C03_length_preserved.

(* handedness is preserved: cross products commute with the transformation *)
Theorem C03_cross_equivariant : forall q a b, unitq q ->
  vcross (quat_trans q a) (quat_trans q b) = quat_trans q (vcross a b) /\
  vcross (quat_inv_trans q a) (quat_inv_trans q b) = quat_inv_trans q (vcross a b).
Proof.
  intros q a b H. assert (Hq : qn2 q = 1) by (destruct q; exact H).
  split; [rewrite trans_cross | rewrite inv_trans_cross]; rewrite Hq; apply vscale_1.
Qed.
Print Assumptions C03_cross_equivariant.

(* composition of transformations equals quaternion multiplication; the conjugate is the inverse *)
Theorem C03_composition : forall p q v,
  quat_trans (quat_mult p q) v = quat_trans q (quat_trans p v) /\
  quat_inv_trans (quat_mult p q) v = quat_inv_trans p (quat_inv_trans q v) /\
  quat_trans (quat_conj q) v = quat_inv_trans q v.
Proof. intros; repeat split; [apply trans_mult | apply inv_trans_mult | apply conj_trans]. Qed.
Print Assumptions C03_composition.

(* a quaternion given un-normalised is stored as a unit quaternion describing the same rotation *)
Theorem C03_set_state_normalises : forall q v,
  qw q * qw q + qx q * qx q + qy q * qy q + qz q * qz q <> 0 ->
  unitq (quat_normalize q) /\
  quat_trans (quat_normalize q) v =
    vscale (/ (qw q * qw q + qx q * qx q + qy q * qy q + qz q * qz q)) (quat_trans q v).
Proof.
  intros q v H. assert (Hq : qn2 q <> 0) by (destruct q; exact H).
  split.
  - pose proof (normalize_unit q Hq) as Hn. destruct (quat_normalize q); exact Hn.
  - rewrite (normalize_same_rotation q v Hq). destruct q; reflexivity.
Qed.
Print Assumptions C03_set_state_normalises.

(* non-vacuity: a concrete non-trivial unit quaternion *)
Example C03_unit_example : unitq (Q4 (1/2) (1/2) (-1/2) (1/2)).
Proof. unfold unitq; rcompute; field. Qed.

(* ---- scene level: a rigid motion of the whole scene rotates every influence vector and leaves the residual unchanged ---- *)
From Coq Require Import Lra.
From MuxV Require Import Model.Kernel Model.Residual Proofs.KernelP Proofs.ResidualEqP Proofs.SceneEqP.

Section Rigid.
  Variable q : quat R.                 (* any unit quaternion *)
  Variable t : v3 R.                   (* any translation *)
  Hypothesis Hq : unitq q.
  Let Hq' : qn2 q = 1. Proof. destruct q; exact Hq. Qed.
  Definition move_point (x : v3 R) : v3 R := vadd (quat_inv_trans q x) t.
  Definition move_hs (h : hshoe R) : hshoe R :=
    mk_hs (move_point (hP0 h)) (move_point (hP1 h)) (move_point (hJ0 h)) (move_point (hJ1 h))
          (quat_inv_trans q (hu0 h)) (quat_inv_trans q (hu1 h)).

  (* the influence of a moved horseshoe on a moved control point is the rotated influence (bound, jointed and trailing parts,
     including the cut-off decision) *)
  Theorem C03_influence_rotates : forall cutoff i4p diag pc h,
    vji (fun x => x) cutoff i4p diag (move_point pc) (move_hs h) = quat_inv_trans q (vji (fun x => x) cutoff i4p diag pc h).
  Proof.
    intros cutoff i4p diag pc h.
    pose proof (vji_sim (rotO q) 1 (rot_add q) (rot_scale q) (rot_dot q Hq') (rot_cross q Hq') 1 t ltac:(lra) cutoff i4p diag pc h) as H.
    replace (1 * 1 * cutoff) with cutoff in H by ring.
    unfold Sh in H. unfold Sp, rotO in H. unfold move_point, move_hs.
    assert (E : forall x, vadd (vscale 1 (quat_inv_trans q x)) t = vadd (quat_inv_trans q x) t) by (intros; rewrite vscale_1; reflexivity).
    rewrite !E in H. replace (1 / 1) with 1 in H by field. rewrite vscale_1 in H. exact H.
  Qed.

  (* moved control point data: every vector rotated, scalars untouched *)
  Definition move_cpt (c : cpt R) : cpt R :=
    mk_cpt (quat_inv_trans q (cdl c)) (quat_inv_trans q (cua c)) (quat_inv_trans q (cun c)) (quat_inv_trans q (cus c))
           (cdS c) (ccbar c) (cnu c) (csos c) (ccsi c) (quat_inv_trans q (cvinf c)) (quat_inv_trans q (cvrot c)).

  (* for every solver-option combination, every section model, every list of control points / influence rows / circulations:
     the lifting-line residual of the moved scene equals that of the original scene; in particular they have the same solutions *)
  Theorem C03_rigid_motion_invariance : forall atan2 opt cs Ss Vm g,
    residual atan2 opt (map move_cpt cs) Ss (map (map (quat_inv_trans q)) Vm) g = residual atan2 opt cs Ss Vm g.
  Proof.
    intros atan2 opt cs Ss Vm g.
    pose proof (residual_sim (rotO q) (rot_add q) (rot_scale q) (rot_dot q Hq') 1 ltac:(ring) (rot_cross q Hq') 1 ltac:(lra) atan2 opt cs Ss Vm g
                  (or_introl eq_refl)) as H.
    assert (Ec : map (Tc (rotO q) 1 1) cs = map move_cpt cs).
    { apply map_ext. intros c. unfold Tc, move_cpt, rotO. destruct c; cbn. f_equal; try ring; try apply vscale_1.
      replace (1 * 1) with 1 by ring. apply vscale_1. }
    assert (Ev : map (map (TV (rotO q) 1)) Vm = map (map (quat_inv_trans q)) Vm).
    { apply map_ext. intros row. apply map_ext. intros V. unfold TV, rotO. replace (1 / 1) with 1 by field. apply vscale_1. }
    assert (Eg : map (Rmult 1) g = g) by (rewrite <- (map_id g) at 2; apply map_ext; intros; ring).
    rewrite Ec, Ev, Eg in H. rewrite H. rewrite <- (map_id (residual atan2 opt cs Ss Vm g)) at 2. apply map_ext. intros; ring.
  Qed.
End Rigid.
Print Assumptions C03_influence_rotates.
Print Assumptions C03_rigid_motion_invariance.

(* the inputs of the residual themselves turn with the scene: for the aircraft re-oriented by a unit quaternion Q (orientation
   quat_mult Q q; Earth-fixed velocity and wind turned by Q) the air velocity at every point of the aircraft and the directions of
   the trailing vortices - free or constrained to the body x-y plane - are the turned ones; with C03_influence_rotates and
   C03_rigid_motion_invariance this covers scene.py's _calc_invariant_flow_properties *)
Theorem C03_flow_rotates : forall (Q : quat R), qn2 Q = 1 -> forall q v wind w r mp c vj,
  v_inf_and_rot (quat_mult Q q) (quat_inv_trans Q v) (quat_inv_trans Q wind) w r = quat_inv_trans Q (v_inf_and_rot q v wind w r) /\
  joint_v_inf mp (quat_mult Q q) (quat_inv_trans Q v) (quat_inv_trans Q wind) w r = quat_inv_trans Q (joint_v_inf mp q v wind w r) /\
  trailing_dir c (quat_mult Q q) (quat_inv_trans Q vj) = quat_inv_trans Q (trailing_dir c q vj).
Proof.
  intros Q HQ q v wind w r mp c vj. split; [exact (v_inf_and_rot_rigid Q HQ q v wind w r)|]. split; [exact (joint_v_inf_rigid Q HQ mp q v wind w r) | exact (trailing_dir_rigid Q HQ c q vj)].
Qed.
Print Assumptions C03_flow_rotates.

(* ---------------------------------------------------------------------------------------------------------------------------------
   The Earth-frame arrays a scene is solved on are assembled from every aircraft's body-frame arrays, position and attitude
   (scene.py 440-530, Model/Assemble.v; tied to the live scene arrays of multi-aircraft scenes in the C13 run).  Under a rigid motion of
   the whole scene - attitude r q (first r, then q), position t + R_r^-1 p - every assembled control point and node (own aircraft:
   effective line; other aircraft: actual line) is the moved one, directions turn, and the node-to-control-point vectors, which are all
   the influence and the residual see, only turn. *)
From MuxV Require Import Model.Assemble Proofs.AssembleP.
Theorem C03_assembly_moves_rigidly : forall (r : quat R) (t : v3 R) (q : quat R) (p : v3 R),
  (forall x, to_earth (moved_q r q) (moved_p r t p) x = move r t (to_earth q p x)) /\
  (forall u, dir_to_earth (moved_q r q) u = quat_inv_trans r (dir_to_earth q u)) /\
  (forall same e a, node_seen same (moved_q r q) (moved_p r t p) e a = move r t (node_seen same q p e a)) /\
  (forall pc node, r_vec (move r t pc) (move r t node) = quat_inv_trans r (r_vec pc node)).
Proof.
  intros. split; [intro; apply to_earth_rigid | split; [intro; apply dir_to_earth_rigid | split; [intros; apply node_seen_rigid | intros; apply r_vec_rigid]]].
Qed.
Print Assumptions C03_assembly_moves_rigidly.
