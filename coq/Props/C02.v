(* C02 — loads are the integral of the section loads; all reports agree.  Statements only. *)
From Coq Require Import Reals Lra List Bool String Lia.
From MuxV Require Import Base.Num Base.Vec3 Base.RInst Model.Helpers Model.Kernel Model.Residual Model.Integrate
  Proofs.HelpersP Proofs.IntegrateP.
Import ListNotations.
Local Open Scope R_scope.

(* ---- section loads (documented default solver options) ---- *)
Theorem C02_section_loads : forall atan2 (c : cpt R) (p : ipt R) (v : v3 R) (g : R),
  let L := section_load atan2 (mk_opts true true true false) (1/2) c p v g in
  let vip := vsub v (vscale (vdot (cus c) v) (cus c)) in
  (* vortex force rho Gamma (v x dl) *)
  dFi L = vscale (irho p * g) (vcross v (cdl c)) /\
  (* parasitic drag along the local velocity, redimensionalised with the full local speed *)
  dFv L = vscale ((1/2) * irho p * vdot v v * cdS c * o_CD L) (vdivs v (sqrt (vdot v v))) /\
  (* moments about the CG plus the section pitching moment about the local span axis (in-plane dynamic pressure) *)
  dMi L = vadd (vcross (irCG p) (dFi L)) (vscale ((1/2) * irho p * vdot vip vip * cdS c * ccbar c * o_Cm L) (cus c)) /\
  dMv L = vcross (irCG p) (dFv L).
Proof. intros. repeat split; reflexivity. Qed.
Print Assumptions C02_section_loads.

(* ---- the table: for every key, total = inviscid + viscous and the segments sum to the total ---- *)
Theorem C02_total_is_inviscid_plus_viscous : forall r dimensional f uinf (inv vis : fm) k,
  value r dimensional (in_frame f uinf (fm_add vis inv)) k =
  value r dimensional (in_frame f uinf vis) k + value r dimensional (in_frame f uinf inv) k.
Proof. intros; apply value_add. Qed.
Print Assumptions C02_total_is_inviscid_plus_viscous.

Theorem C02_segments_sum_to_total : forall r dimensional f uinf (segs : list fm) k,
  value r dimensional (in_frame f uinf (fm_sum segs)) k =
  fold_right Rplus 0 (map (fun x => value r dimensional (in_frame f uinf x) k) segs).
Proof. intros; apply value_sum. Qed.
Print Assumptions C02_segments_sum_to_total.

(* every coefficient is its dimensional counterpart divided by 1/2 rho V^2 S (x l_lon for pitch, l_lat for roll/yaw) *)
Theorem C02_coefficients : forall r x k,
  rrho r * rVinf r * rVinf r * rS r <> 0 -> rlon r <> 0 -> rlat r <> 0 ->
  value r false x k * ((1/2) * rrho r * rVinf r * rVinf r * rS r *
     match k with 0%nat | 1%nat | 2%nat => 1 | 4%nat => rlon r | _ => rlat r end) = value r true x k.
Proof. intros r x k H1 H2 H3. exact (coeff_is_dim_over_qSl r x k H1 H2 H3). Qed.
Print Assumptions C02_coefficients.

(* ---- wind and stability frames are exact rotations of the body-frame vectors defined by the freestream ---- *)
Theorem C02_wind_and_stability_axes : forall u v w, 0 < u * u + w * w ->
  let V := sqrt (u * u + v * v + w * w) in
  let m := sqrt (u * u + w * w) in
  let ui := V3 (- u / V) (- v / V) (- w / V) in        (* freestream direction in body axes *)
  (* (drag, side, lift) axes are orthonormal; lift is normal to the freestream and to body-y *)
  vdot ui ui = 1 /\ vdot (u_lift ui) (u_lift ui) = 1 /\ vdot (u_side ui) (u_side ui) = 1 /\
  vdot ui (u_lift ui) = 0 /\ vdot ui (u_side ui) = 0 /\ vdot (u_lift ui) (u_side ui) = 0 /\ vdot (u_lift ui) ey = 0 /\
  (* stability axes = body axes rotated about y by alpha, cos alpha = u/m, sin alpha = w/m *)
  (forall a, to_stab ui a = V3 ((u * vx a + w * vz a) / m) (vy a) ((- w * vx a + u * vz a) / m)).
Proof.
  intros u v w Huw V m ui.
  assert (HV : 0 < V) by (unfold V; apply sqrt_lt_R0; pose proof (Rle_0_sqr v); unfold Rsqr in *; lra).
  assert (HV2 : V * V = u * u + v * v + w * w) by (unfold V; apply sqrt_sqrt; pose proof (Rle_0_sqr v); unfold Rsqr in *; lra).
  assert (Hm : 0 < m) by (unfold m; apply sqrt_lt_R0; lra).
  assert (Hm2 : m * m = u * u + w * w) by (unfold m; apply sqrt_sqrt; lra).
  pose proof (triad_orthonormal u v w V m HV HV2 Hm Hm2) as T.
  change (uinf u v w V) with ui in T.
  destruct T as (T1 & T2 & T3 & T4 & T5 & T6 & T7).
  repeat split; try assumption. intros a. apply to_stab_eq; assumption.
Qed.
Print Assumptions C02_wind_and_stability_axes.

(* the per-section distributions sum to the body-frame totals *)
Theorem C02_section_sums : forall q (l : list (v3 R)), quat_trans q (vsum l) = vsum (map (quat_trans q) l).
Proof. exact section_sum_rotates. Qed.
Print Assumptions C02_section_sums.

(* ---- only the requested frames / dimensional kinds appear, each with its six components ---- *)
Theorem C02_keys_exactly_requested : forall ro r uinf p seg x e,
  In e (entries_for ro r uinf p seg x) <->
  exists d f k, In d (dims_of ro) /\ In f (frames_of ro) /\ (k < 6)%nat /\
                e = (p, key_name d f k, seg, value r d (in_frame f uinf x) k).
Proof.
  intros. unfold entries_for. rewrite in_flat_map. split.
  - intros [d [Hd H]]. rewrite in_flat_map in H. destruct H as [f [Hf H]]. rewrite in_map_iff in H.
    destruct H as [k [E Hk]]. exists d, f, k. repeat split; auto.
    unfold six in Hk. cbn in Hk. intuition lia.
  - intros [d [f [k [Hd [Hf [Hk E]]]]]]. exists d. split; [assumption|]. rewrite in_flat_map. exists f. split; [assumption|].
    rewrite in_map_iff. exists k. split; [symmetry; assumption|]. unfold six.
    destruct k as [|[|[|[|[|[|k]]]]]]; cbn; auto 10. lia.
Qed.
Print Assumptions C02_keys_exactly_requested.

(* non-vacuity: the default request (body + wind, both kinds) yields 24 keys per table level *)
Example C02_default_keys : forall r u x,
  List.length (entries_for (mk_ropts true false true true true false) r u Total None x) = 24%nat.
Proof. reflexivity. Qed.
