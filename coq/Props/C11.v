(* C11 — Galilean invariance under a uniform wind.  Statements only. *)
From Coq Require Import Reals Lra List Bool.
From MuxV Require Import Base.Num Base.Vec3 Base.RInst Model.Helpers Model.AeroState Model.Analyses Model.Kernel Model.Residual
  Proofs.HelpersP Proofs.GalileanP.
Import ListNotations.
Local Open Scope R_scope.

(* the freestream at every control point (and the reference freestream of the result table) is wind - velocity, so a scene
   with wind W and Earth-fixed velocity v has exactly the control-point data of the still-air scene with velocity v - W *)
Theorem C11_solve_galilean : forall (W v : v3 R) dl ua un us dS cbar nu sos csi vrot,
  mk_cpt dl ua un us dS cbar nu sos csi (vadd (vopp v) W) vrot =
  mk_cpt dl ua un us dS cbar nu sos csi (vadd (vopp (vsub v W)) vzero) vrot.
Proof. intros. f_equal. exact (freestream_galilean W v). Qed.
Print Assumptions C11_solve_galilean.

Section C11.
  Variables (fcos fsin ftan fatan fasin : R -> R) (fatan2 : R -> R -> R) (d2r r2d : R).
  Variable W : v3 R.
  Variables (FW F0 : ast R -> list R).
  (* the aircraft state of the still-air twin *)
  Definition twin (s : ast R) : ast R := mk_ast (vsub (s_v s) W) (s_w s) (s_p s) (s_q s) (s_c s).
  (* by C11_solve_galilean the two scenes solve to the same loads *)
  Hypothesis solve_twin : forall s, FW s = F0 (twin s).

  Theorem C11_analyses_galilean :
    (forall s dth,
      let '(A, B, sf) := stability fcos fsin ftan fatan fasin fatan2 d2r r2d W FW s dth in
      let '(A0, B0, sf0) := stability fcos fsin ftan fatan fasin fatan2 d2r r2d vzero F0 (twin s) dth in
      A = A0 /\ B = B0 /\ twin sf = sf0) /\
    (forall s dw pp qq rr lat lon,
      let '(A, B, C, sf) := damping fasin fatan2 r2d W FW s dw pp qq rr lat lon in
      let '(A0, B0, C0, sf0) := damping fasin fatan2 r2d vzero F0 (twin s) dw pp qq rr lat lon in
      A = A0 /\ B = B0 /\ C = C0 /\ twin sf = sf0) /\
    (forall s i dth,
      let '(A, sf) := control_deriv d2r FW s i dth in
      let '(A0, sf0) := control_deriv d2r F0 (twin s) i dth in A = A0 /\ twin sf = sf0) /\
    (forall s delta,
      let '(x, z, cm, sf) := aero_center fcos fsin ftan fatan fasin fatan2 d2r r2d W FW s delta in
      let '(x0, z0, cm0, sf0) := aero_center fcos fsin ftan fatan fasin fatan2 d2r r2d vzero F0 (twin s) delta in
      x = x0 /\ z = z0 /\ cm = cm0 /\ twin sf = sf0) /\
    (forall fuel s alpha CL target relax tol,
      match target_CL_loop fcos fsin ftan fatan fasin fatan2 d2r r2d W FW fuel s alpha CL target relax tol,
            target_CL_loop fcos fsin ftan fatan fasin fatan2 d2r r2d vzero F0 fuel (twin s) alpha CL target relax tol with
      | Some (a, sf), Some (a0, sf0) => a = a0 /\ twin sf = sf0
      | None, None => True
      | _, _ => False
      end).
  Proof.
    split; [intros; apply (stability_galilean fcos fsin ftan fatan fasin fatan2 d2r r2d W FW F0 solve_twin)|].
    split; [intros; apply (damping_galilean fasin fatan2 r2d W FW F0 solve_twin)|].
    split; [intros; apply (control_galilean d2r W FW F0 solve_twin)|].
    split; [intros; apply (aero_center_galilean fcos fsin ftan fatan fasin fatan2 d2r r2d W FW F0 solve_twin)|].
    intros; apply (target_CL_galilean fcos fsin ftan fatan fasin fatan2 d2r r2d W FW F0 solve_twin).
  Qed.
End C11.
Print Assumptions C11_analyses_galilean.
