(* C15 — control inputs map to section flap deflections exactly as documented.  Statements only. *)
From Coq Require Import Reals Lra List Bool.
From MuxV Require Import Base.Num Base.RInst Base.Interp Model.Controls Proofs.InterpP Proofs.ControlsP.
Import ListNotations.
Local Open Scope R_scope.

(* for one section: the inputs (degrees) of the mixed controls at that section, each with its mixing factor and symmetry flag *)
Fixpoint mixed_input (left_side : bool) (mx : list (mixing (T:=R))) (s : R) : R :=
  match mx with
  | [] => 0
  | (symmetric, factor, input) :: rest =>
      (if (negb left_side || symmetric)%bool then 1 else -1) * factor * input_at input true s + mixed_input left_side rest s
  end.
Definition clip (sat x : R) : R := if Rlt_dec sat x then sat else if Rlt_dec x (- sat) then - sat else x.

(* delta_i = clip(rad(sum_k mix_k * s_k * u_k(i)), +-sat) inside [root_span, tip_span], 0 elsewhere; s_k = -1 iff left and antisymmetric *)
Theorem C15_delta_flap_spec : forall left_side root tip sat mx s, 0 <= sat ->
  delta_flap (PI / 180) left_side root tip sat mx s =
    if in_surface root tip s then clip sat (mixed_input left_side mx s * (PI / 180)) else 0.
Proof.
  intros. rewrite delta_flap_spec by assumption.
  assert (E : forall l, spec_sum left_side l s = mixed_input left_side l s).
  { induction l as [|[[sym k] c] r IH]; [reflexivity|]. cbn [spec_sum mixed_input]. rewrite IH. reflexivity. }
  rewrite E. reflexivity.
Qed.
Print Assumptions C15_delta_flap_spec.

Theorem C15_window_and_saturation : forall left_side root tip sat mx s, 0 <= sat ->
  (in_surface root tip s = true <-> root <= s <= tip) /\
  - sat <= delta_flap (PI / 180) left_side root tip sat mx s <= sat /\
  (in_surface root tip s = false -> delta_flap (PI / 180) left_side root tip sat mx s = 0 /\
                                     forall cf, flap_fraction root tip cf s = 0).
Proof.
  intros. split; [apply in_surface_iff|]. split; [apply delta_flap_bounded; assumption|].
  intros Hout. split.
  - rewrite delta_flap_spec by assumption. rewrite Hout. reflexivity.
  - intros cf. unfold flap_fraction. rewrite Hout. reflexivity.
Qed.
Print Assumptions C15_window_and_saturation.

(* a control input given as a function of the span fraction (accepted like the functions of twist or sweep): the same mapping with the
   function's value at the control point - and, like every other form of input, zero outside the control surface *)
Corollary C15_function_input : forall left_side root tip sat symmetric factor (f : R -> R) s, 0 <= sat ->
  delta_flap (PI / 180) left_side root tip sat [(symmetric, factor, CFun f)] s =
    if in_surface root tip s
    then clip sat ((if (negb left_side || symmetric)%bool then 1 else -1) * factor * f s * (PI / 180))
    else 0.
Proof.
  intros. rewrite C15_delta_flap_spec by assumption. cbn [mixed_input input_at].
  destruct (in_surface root tip s); [|reflexivity]. f_equal. ring.
Qed.
Print Assumptions C15_function_input.

(* the flap-chord fraction inside the surface is the interpolated input (node values reproduced; constant = constant) *)
Theorem C15_flap_fraction_interpolated : forall root tip s,
  in_surface root tip s = true ->
  (forall c, flap_fraction root tip (CConst c) s = c) /\
  (forall tbl, flap_fraction root tip (CTable tbl) s = interp s tbl) /\
  (forall tbl y, incr tbl -> In (s, y) tbl -> flap_fraction root tip (CTable tbl) s = y).
Proof.
  intros root tip s Hin. unfold flap_fraction. rewrite Hin. repeat split; try reflexivity.
  intros tbl y Hi Hy. apply interp_reproduces_nodes; assumption.
Qed.
Print Assumptions C15_flap_fraction_interpolated.

(* setting a control state replaces the previous one: the section deflections are a function of the *last* setting only,
   and controls it does not mention are stored as zero *)
Theorem C15_set_replaces : forall (names : list nat) (given : list (nat * R)) n,
  In n names ->
  In (n, match find (fun p => Nat.eqb (fst p) n) given with Some p => snd p | None => 0 end)
     (replace_state Nat.eqb names given).
Proof.
  intros names given n Hin. induction names as [|m r IH]; [destruct Hin|].
  cbn [replace_state]. destruct Hin as [->|Hin]; [left; reflexivity | right; apply IH; assumption].
Qed.
Print Assumptions C15_set_replaces.

(* non-vacuity: a left antisymmetric aileron with mixing 1 and +5 deg input deflects -5 deg inside its span *)
Example C15_example : delta_flap (PI / 180) true 0.4 1 (PI / 2) [(false, 1, CConst 5)] 0.7 = - (5 * (PI / 180)).
Proof.
  rewrite C15_delta_flap_spec by (pose proof PI_RGT_0; lra).
  assert (Hin : in_surface (T:=R) 0.4 1 0.7 = true) by (apply in_surface_iff; lra). rewrite Hin.
  unfold clip, mixed_input, input_at. cbn [negb orb]. pose proof PI_RGT_0 as Hpi.
  destruct (Rlt_dec (PI / 2) _) as [H|H]; [exfalso; lra|]. destruct (Rlt_dec _ (- (PI / 2))) as [H2|H2]; [exfalso; lra|]. lra.
Qed.
