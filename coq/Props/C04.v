(* C04 — mirror symmetry: reflected aircraft and state give reflected loads.  Statements only. *)
From Coq Require Import Reals Lra List Bool Lia.
From MuxV Require Import Base.Num Base.Vec3 Base.RInst Model.Helpers Model.Kernel Model.Residual Model.Integrate
  Proofs.HelpersP Proofs.KernelP Proofs.ResidualEqP Proofs.SceneEqP.
Import ListNotations.
Local Open Scope R_scope.

(* reflection through the x-z plane *)
Definition M (v : v3 R) : v3 R := V3 (vx v) (- vy v) (vz v).

(* the mirror image of a horseshoe: nodes reflected AND its orientation reversed (MachUpX orders nodes left to right, so the
   inbound node of the mirrored vortex is the image of the outbound node) *)
Definition mirror_hs (h : hshoe R) : hshoe R := mk_hs (M (hP1 h)) (M (hP0 h)) (M (hJ1 h)) (M (hJ0 h)) (M (hu1 h)) (M (hu0 h)).

Theorem C04_influence_mirrors : forall cutoff i4p diag pc h,
  vji (fun x => x) cutoff i4p diag (M pc) (mirror_hs h) = M (vji (fun x => x) cutoff i4p diag pc h).
Proof.
  intros cutoff i4p diag pc h.
  pose proof (vji_sim mirO (-1) mir_add mir_scale mir_dot mir_cross 1 vzero ltac:(lra) cutoff i4p diag pc h) as H.
  replace (1 * 1 * cutoff) with cutoff in H by ring.
  assert (E : forall x : v3 R, vadd (vscale 1 (mirO x)) vzero = M x) by (intros [a b c]; rcompute; apply V3_eq; ring).
  unfold Sh in H. unfold Sp in H. rewrite !E in H.
  change (mirror_hs h) with (swap_hs (mk_hs (M (hP0 h)) (M (hP1 h)) (M (hJ0 h)) (M (hJ1 h)) (M (hu0 h)) (M (hu1 h)))).
  rewrite vji_swap. change mirO with M in H. rewrite H.
  destruct (M (vji (fun x : R => x) cutoff i4p diag pc h)) as [a b c]. rcompute. apply V3_eq; field.
Qed.
Print Assumptions C04_influence_mirrors.

(* mirrored control point: vectors reflected; the bound-vortex vector and the span vector additionally change sign because the
   node order is reversed; scalars unchanged.  Its freestream is the reflected one (beta, roll and yaw rate negated). *)
Definition mirror_cpt (c : cpt R) : cpt R :=
  mk_cpt (vopp (M (cdl c))) (M (cua c)) (M (cun c)) (vopp (M (cus c))) (cdS c) (ccbar c) (cnu c) (csos c) (ccsi c) (M (cvinf c)) (M (cvrot c)).

(* the residual at a control point of the mirrored scene equals the residual at its image, for every option combination *)
Theorem C04_residual_mirrors : forall atan2 opt c S Vr g gi,
  residual_at atan2 opt (mirror_cpt c) S (map M Vr) g gi = residual_at atan2 opt c S Vr g gi.
Proof.
  intros atan2 opt c S Vr g gi.
  pose proof (residual_at_sim mirO mir_add mir_scale mir_dot (-1) ltac:(ring) mir_cross 1 ltac:(lra) atan2 opt c S Vr g gi (or_introl eq_refl)) as H.
  assert (Ec : Tc mirO (-1) 1 c = mirror_cpt c).
  { unfold Tc, mirror_cpt. change mirO with M. destruct c; cbn. f_equal; try ring.
    - destruct (M cdl) as [a b c0]. rcompute. apply V3_eq; ring.
    - destruct (M cus) as [a b c0]. rcompute. apply V3_eq; ring. }
  assert (Ev : map (TV mirO 1) Vr = map M Vr).
  { apply map_ext. intros V. unfold TV. change mirO with M. replace (1 / 1) with 1 by field. apply vscale_1. }
  assert (Eg : map (Rmult 1) g = g) by (rewrite <- (map_id g) at 2; apply map_ext; intros; ring).
  rewrite Ec, Ev, Eg in H. rewrite Rmult_1_l in H. rewrite H. ring.
Qed.
Print Assumptions C04_residual_mirrors.

(* re-ordering: the induced velocity does not depend on the order in which the horseshoes are listed (left segments list them reversed) *)
Theorem C04_order_reversal : forall (Vr : list (v3 R)) g, length Vr = length g -> induced (rev Vr) (rev g) = induced Vr g.
Proof. exact induced_rev. Qed.
Print Assumptions C04_order_reversal.

(* loads: the section vortex force of the mirrored section is the reflected force, and its moment about the reflected CG is minus
   the reflected moment (pseudo-vector): Fx, Fz, My unchanged; Fy, Mx, Mz negated *)
Theorem C04_loads_mirror : forall rho g (v dl r : v3 R),
  let F := vscale (rho * g) (vcross v dl) in
  let F' := vscale (rho * g) (vcross (M v) (vopp (M dl))) in
  F' = M F /\ vcross (M r) F' = vopp (M (vcross r F)).
Proof. intros. subst F F'. destruct v, dl, r. split; rcompute; apply V3_eq; ring. Qed.
Print Assumptions C04_loads_mirror.

(* ---------------------------------------------------------------------------------------------------------------------------------
   The part of H_geom_mirror that concerns the general (Reid-Hunsaker) corrections is a theorem: for the reflected wing (sections in
   reverse order, inbound and outbound nodes and their chords swapped, span coordinate measured from the other tip, span directions
   still pointing left to right) every control point sees the mirror image of the effective lines and joints, in reverse order, with
   the roles of the inbound and outbound lines exchanged.  numpy.gradient with edge_order=2 on the cumulative chord length is part of
   the model; it needs at least three sections per wing, as numpy does. *)
From MuxV Require Import Model.Reid Proofs.ReidP.
Theorem C04_effective_lines_mirror : forall L (w : list (sec R)) (i : sec R), (3 <= length w)%nat ->
  reid_row exp (rev (map (sec_mirror L) w)) (sec_mirror L i) = mirror4 (reid_row exp w i).
Proof. exact reid_row_mirror. Qed.
Print Assumptions C04_effective_lines_mirror.

(* the span coordinate airplane.py measures from the left tip (Model/Gather.v): for the reflected wing - segments in reverse order, sides
   exchanged, span fractions stored in reverse - control points and nodes sit at L - s in reverse order with inbound and outbound nodes
   exchanged, which is the relation [sec_mirror] above starts from *)
From MuxV Require Import Model.Gather Proofs.GatherP.
Theorem C04_span_coordinates_mirror : forall segs : list (segsp R), let L := wing_length segs in
  wing_PC 0 (mirror_wing segs) = refl L (wing_PC 0 segs) /\
  wing_P0 0 (mirror_wing segs) = refl L (wing_P1 0 segs) /\
  wing_P1 0 (mirror_wing segs) = refl L (wing_P0 0 segs).
Proof. exact wing_spans_mirror. Qed.
Print Assumptions C04_span_coordinates_mirror.

(* segment level (Model/QCurve.v): the per-side sign conventions of the dihedral and sweep getters, the unswept section vectors and the
   lifting-line offset make the left half of a wing the mirror image of the right half, section by section (the quarter-chord curve
   itself: C12_curve_mirror) *)
From MuxV Require Import Model.QCurve Proofs.QCurveP.
Theorem C04_segment_geometry_mirrors : forall dr d s tw di qc off chord ua,
  (get_dihedral dr true d s = - get_dihedral dr false d s /\ get_sweep dr true d s = - get_sweep dr false d s) /\
  (unswept_axial cos sin tw (- di) = mirror_y (unswept_axial cos sin tw di) /\
   unswept_normal cos sin tw (- di) = mirror_y (unswept_normal cos sin tw di)) /\
  ll_loc (mirror_y qc) off chord (mirror_y ua) = mirror_y (ll_loc qc off chord ua).
Proof.
  intros. split; [apply getters_mirror|]. split; [|apply ll_loc_mirror].
  pose proof (unswept_vectors_mirror tw di) as [H1 [H2 _]]. split; assumption.
Qed.
Print Assumptions C04_segment_geometry_mirrors.

(* aircraft level (Model/SegSort.v, Proofs/SegSortP.v): the left-hand segments of a wing are put in order by repeatedly picking the one
   whose tip is farthest from the body x-axis.  With -1 as the distance to beat in every pass (fix d0fcbd7) the result holds every segment
   of the wing exactly once, whatever the distances (they are not negative) - as the right-hand side, which starts from infinity, always
   did; with 0, as in the pinned snapshot, a segment whose tip lies on the axis is never picked: the left-hand description of an aircraft
   loses a segment that its right-hand mirror image keeps. *)
From MuxV Require Import Model.SegSort Proofs.SegSortP.
Theorem C04_left_segments_all_sorted : forall (l : list (seg (T:=R))), NoDup (map fst l) -> (forall i n, In (i, n) l -> 0 <= n) ->
  NoDup (sort_left (-1) (length l) l []) /\ forall i, In i (sort_left (-1) (length l) l []) <-> In i (map fst l).
Proof. exact sort_left_all. Qed.
Print Assumptions C04_left_segments_all_sorted.
Example C04_zero_to_beat_refuted :
  NoDup (map fst [(1%nat, 0); (2%nat, 3)]) /\ (forall i n, In (i, n) [(1%nat, 0); (2%nat, 3)] -> 0 <= n) /\ ~ In 1%nat (sort_left 0 2 [(1%nat, 0); (2%nat, 3)] []).
Proof.
  split; [repeat constructor; cbn; intuition congruence|]. split; [intros i n [H|[H|[]]]; inversion H; lra|].
  intro H. destruct (sort_left_picks_beaters 0 _ _ _ _ H) as [[]|[n [Hin Hn]]].
  destruct Hin as [Hin|[Hin|[]]]; inversion Hin; subst; lra.
Qed.
