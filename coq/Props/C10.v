(* C10 — trim, target-CL and aerodynamic-centre results satisfy their defining conditions.  Statements only. *)
From Coq Require Import Reals Lra List Bool.
From MuxV Require Import Base.Num Base.Vec3 Base.RInst Model.Helpers Model.AeroState Model.Analyses Proofs.HelpersP Proofs.TrimP.
Import ListNotations.
Local Open Scope R_scope.

Section C10.
  Variables (fcos fsin ftan fatan fasin : R -> R) (fatan2 : R -> R -> R) (d2r r2d : R).
  Variable W : v3 R.
  Variable F : ast R -> list R.                                  (* any solve function; entries [CL; Cm_w; Cm] *)
  Variable solve2 : R -> R -> R -> R -> R -> R -> R * R.         (* any 2x2 linear solver *)

  (* target_CL either runs out of iterations (MaxIterationError) or leaves the aircraft in a state whose lift coefficient,
     as computed by the solver in that state, is within the tolerance of the target *)
  Theorem C10_target_CL_post : forall max_iter s alpha target relax tol a sf,
    target_CL_loop fcos fsin ftan fatan fasin fatan2 d2r r2d W F max_iter s alpha (CL_of F s) target relax tol = Some (a, sf) ->
    Rabs (CL_of F sf - target) <= tol.
  Proof. intros. eapply target_CL_post; [reflexivity | eassumption]. Qed.

  (* pitch_trim either raises or leaves the aircraft in a state in which CL and Cm, as computed by the solver, meet both targets *)
  Theorem C10_pitch_trim_post : forall max_iter s ic alpha flap CLd Cmd relax tol a fl sf,
    pitch_trim_loop fcos fsin ftan fatan fasin fatan2 d2r r2d W F solve2 max_iter s ic alpha flap (trim_res F s CLd Cmd) CLd Cmd relax tol
      = Some (a, fl, sf) ->
    Rabs (nth 0 (F sf) 0 - CLd) <= tol /\ Rabs (nth 2 (F sf) 0 - Cmd) <= tol.
  Proof. intros. eapply pitch_trim_post; [reflexivity | eassumption]. Qed.

  (* pitch_trim changes only the velocity (through alpha) and the chosen control: rates, position, attitude are never written *)
  Theorem C10_pitch_trim_frame : forall max_iter s ic alpha flap R CLd Cmd relax tol a fl sf,
    pitch_trim_loop fcos fsin ftan fatan fasin fatan2 d2r r2d W F solve2 max_iter s ic alpha flap R CLd Cmd relax tol = Some (a, fl, sf) ->
    s_w sf = s_w s /\ s_p sf = s_p s /\ s_q sf = s_q s.
  Proof.
    induction max_iter as [|f IH]; intros s ic alpha flap R CLd Cmd relax tol a fl sf H; cbn [pitch_trim_loop] in H.
    - destruct (big tol R); [discriminate|]. inversion H; subst. repeat split.
    - destruct (big tol R); [|inversion H; subst; repeat split].
      destruct (Analyses.get_ae _ _ _ _ _) as [[a0 b0] V0]. destruct (solve2 _ _ _ _ _ _) as [d0 d1].
      destruct f as [|f']; [discriminate|]. apply IH in H. cbn [s_w s_p s_q set_c Analyses.set_ae] in H. exact H.
  Qed.

  (* pitch_trim_using_orientation either raises or leaves the aircraft in a state in which CL and Cm, as computed by the solver, meet both
     targets (the targets are whatever the caller passes: the weight coefficient by default, also on a banked aircraft) *)
  Theorem C10_orientation_trim_post : forall max_iter s ic phi theta psi flap CLd Cmd relax tol v0 w0 p0 th fl sf,
    orient_trim_loop fcos fsin F solve2 max_iter s ic phi theta psi flap (trim_res F s CLd Cmd) CLd Cmd relax tol v0 w0 p0 = Some (th, fl, sf) ->
    Rabs (nth 0 (F sf) 0 - CLd) <= tol /\ Rabs (nth 2 (F sf) 0 - Cmd) <= tol.
  Proof. intros. eapply orient_trim_post; [reflexivity | eassumption]. Qed.
End C10.
Print Assumptions C10_orientation_trim_post.

(* ... and changes only the elevation angle and the chosen pitch control: with the real cos and sin, the state it returns is the one it
   was given (already trimmed), or has the attitude built from the unchanged bank and heading and the returned elevation, the Earth-fixed
   velocity, the rates and the position recorded before the loop, and every control but the chosen one as it was *)
From MuxV Require Import Proofs.AeroStateP.
Theorem C10_orientation_trim_frame : forall F solve2 max_iter s ic phi theta psi flap R CLd Cmd relax tol v0 w0 p0 th fl sf,
  orient_trim_loop cos sin F solve2 max_iter s ic phi theta psi flap R CLd Cmd relax tol v0 w0 p0 = Some (th, fl, sf) ->
  (sf = s /\ th = theta /\ fl = flap) \/
  (s_q sf = euler_to_quat cos sin phi th psi /\ s_v sf = v0 /\ s_w sf = w0 /\ s_p sf = p0 /\
   forall j, j <> ic -> nth j (s_c sf) 0 = nth j (s_c s) 0).
Proof.
  intros F solve2 max_iter s ic phi theta psi flap R CLd Cmd relax tol v0 w0 p0 th fl sf H.
  destruct (orient_trim_frame cos sin F solve2 max_iter s ic phi theta psi flap R CLd Cmd relax tol v0 w0 p0 th fl sf H)
    as [Hs|[Hq [Hw [Hp [Hv Hc]]]]]; [left; exact Hs|].
  right. repeat split; try assumption.
  rewrite Hv, Hq. apply inv_trans_trans_unit. apply euler_to_quat_unit.
Qed.
Print Assumptions C10_orientation_trim_frame.
Print Assumptions C10_target_CL_post.
Print Assumptions C10_pitch_trim_post.
Print Assumptions C10_pitch_trim_frame.

(* aerodynamic centre: with the moment transferred to the returned point, Cm_P = Cm - x Cz + z Cx, the first and second central
   alpha-differences of Cm_P vanish (the point about which the pitching moment is stationary in angle of attack) *)
Theorem C10_aero_center_stationary : forall Cx0 Cx1 Cx2 Cz0 Cz1 Cz2 Cm0 Cm1 Cm2 delta,
  delta <> 0 ->
  (- Cz2 + Cz0) / (2 * delta) * ((- Cx2 + 2 * Cx1 - Cx0) / (delta * delta)) -
  (- Cx2 + Cx0) / (2 * delta) * ((- Cz2 + 2 * Cz1 - Cz0) / (delta * delta)) <> 0 ->
  let x := x_ac Cx0 Cx1 Cx2 Cz0 Cz1 Cz2 Cm0 Cm1 Cm2 delta in
  let z := z_ac Cx0 Cx1 Cx2 Cz0 Cz1 Cz2 Cm0 Cm1 Cm2 delta in
  let CmP Cx Cz Cm := Cm - x * Cz + z * Cx in
  (CmP Cx2 Cz2 Cm2 - CmP Cx0 Cz0 Cm0) / (2 * delta) = 0 /\
  (CmP Cx2 Cz2 Cm2 - 2 * CmP Cx1 Cz1 Cm1 + CmP Cx0 Cz0 Cm0) / (delta * delta) = 0.
Proof. intros. apply aero_center_stationary; assumption. Qed.
Print Assumptions C10_aero_center_stationary.

(* the model's aero_center returns exactly that point and the moment about it *)
Theorem C10_aero_center_is_that_point : forall fcos fsin ftan fatan fasin fatan2 d2r r2d W F s delta,
  let '(x, z, cm, _) := aero_center fcos fsin ftan fatan fasin fatan2 d2r r2d W F s delta in
  let '(a0, b0, V0) := get_ae fasin fatan2 r2d W s in
  let s0 := set_ae fcos fsin ftan fatan fasin fatan2 d2r r2d W s (Some (a0 - delta)) (Some b0) (Some V0) in
  let s2 := set_ae fcos fsin ftan fatan fasin fatan2 d2r r2d W s0 (Some (a0 + delta)) (Some b0) (Some V0) in
  let g (l : list R) (i : nat) := nth i l 0 in
  let Cx l := g l 0%nat in let Cz l := g l 1%nat in let Cm l := g l 2%nat in
  x = x_ac (Cx (F s0)) (Cx (F s)) (Cx (F s2)) (Cz (F s0)) (Cz (F s)) (Cz (F s2)) (Cm (F s0)) (Cm (F s)) (Cm (F s2)) delta /\
  z = z_ac (Cx (F s0)) (Cx (F s)) (Cx (F s2)) (Cz (F s0)) (Cz (F s)) (Cz (F s2)) (Cm (F s0)) (Cm (F s)) (Cm (F s2)) delta /\
  cm = Cm (F s) - x * Cz (F s) + z * Cx (F s).
Proof.
  intros. unfold aero_center. destruct (get_ae fasin fatan2 r2d W s) as [[a0 b0] V0]. cbv zeta.
  repeat split; reflexivity.
Qed.
Print Assumptions C10_aero_center_is_that_point.
