(* C08 — analyses are side-effect free.  Statements only.  Model: Model/Analyses.v (the perturb/restore code of
   each analysis as a functional of an abstract solve function), Model/AeroState.v. *)
From Coq Require Import Reals Lra List Bool.
From MuxV Require Import Base.Num Base.Vec3 Base.RInst Model.Helpers Model.AeroState Model.Analyses Proofs.HelpersP Proofs.AnalysesP Proofs.TrigP.
Import ListNotations.
Local Open Scope R_scope.

Section C08.
  (* the trigonometric functions are arbitrary here; what is used of them is only that encoding a body-frame velocity as
     (alpha, beta, V) and decoding it again round-trip on the states the analysis visits (okA / okB) *)
  Variables (fcos fsin ftan fatan fasin : R -> R) (fatan2 : R -> R -> R) (d2r r2d : R).
  Variable W : v3 R.                      (* any uniform wind *)
  Variable F : ast R -> list R.           (* any solve function *)
  Variable okA : R -> R -> R -> Prop.
  Variable okB : v3 R -> Prop.
  Hypothesis HA : forall a b V, okA a b V -> enc fasin fatan2 r2d (dec fcos fsin ftan fatan d2r a b V) = (a, b, V).
  Hypothesis HB : forall vb, okB vb -> let '(a, b, V) := enc fasin fatan2 r2d vb in dec fcos fsin ftan fatan d2r a b V = vb.

  Definition unit_attitude (s : ast R) : Prop :=
    qw (s_q s) * qw (s_q s) + qx (s_q s) * qx (s_q s) + qy (s_q s) * qy (s_q s) + qz (s_q s) * qz (s_q s) = 1.
  (* body-frame velocity relative to the air *)
  Definition rel_body_velocity (s : ast R) : v3 R := quat_trans (s_q s) (vsub (s_v s) W).

  Theorem C08_stability_derivatives_restore : forall s dth, unit_attitude s -> okB (rel_body_velocity s) ->
    let '(a0, b0, V0) := enc fasin fatan2 r2d (rel_body_velocity s) in
    okA (a0 + dth) b0 V0 -> okA (a0 - dth) b0 V0 -> okA a0 (b0 + dth) V0 -> okA a0 (b0 - dth) V0 ->
    snd (stability fcos fsin ftan fatan fasin fatan2 d2r r2d W F s dth) = s.
  Proof.
    intros s dth Hq Hok. assert (Hq' : qn2 (s_q s) = 1) by (destruct s as [v w p [a b c d] cc]; exact Hq).
    exact (stability_restores fcos fsin ftan fatan fasin fatan2 d2r r2d W F okA okB HA HB s dth Hq' Hok).
  Qed.

  Theorem C08_damping_derivatives_restore : forall s dw pp qq rr lat lon,
    snd (damping fasin fatan2 r2d W F s dw pp qq rr lat lon) = s.
  Proof. intros; apply damping_restores. Qed.

  Theorem C08_control_derivatives_restore : forall s i dth, (i < length (s_c s))%nat ->
    snd (control_deriv d2r F s i dth) = s.
  Proof. intros; apply control_deriv_restores; assumption. Qed.

  Theorem C08_aero_center_restores : forall s delta, unit_attitude s -> okB (rel_body_velocity s) ->
    snd (aero_center fcos fsin ftan fatan fasin fatan2 d2r r2d W F s delta) = s.
  Proof.
    intros s delta Hq Hok. assert (Hq' : qn2 (s_q s) = 1) by (destruct s as [v w p [a b c d] cc]; exact Hq).
    exact (aero_center_restores fcos fsin ftan fatan fasin fatan2 d2r r2d W F okB HB s delta Hq' Hok).
  Qed.
End C08.
Print Assumptions C08_stability_derivatives_restore.
Print Assumptions C08_damping_derivatives_restore.
Print Assumptions C08_control_derivatives_restore.
Print Assumptions C08_aero_center_restores.

(* ---- the same statements with the real trigonometric functions and NumPy's atan2: the encoding hypotheses are theorems
   (Proofs/TrigP.v) for angles inside (-90, 90) degrees, positive airspeed and forward flight (u > 0) ---- *)
Theorem C08_stability_derivatives_restore_real : forall W F s dth, unit_attitude s -> okB_real (rel_body_velocity W s) ->
  let '(a0, b0, V0) := enc asin Ratan2 r2d (rel_body_velocity W s) in
  okA_real (a0 + dth) b0 V0 -> okA_real (a0 - dth) b0 V0 -> okA_real a0 (b0 + dth) V0 -> okA_real a0 (b0 - dth) V0 ->
  snd (stability cos sin tan atan asin Ratan2 d2r r2d W F s dth) = s.
Proof. intros W F. exact (C08_stability_derivatives_restore cos sin tan atan asin Ratan2 d2r r2d W F okA_real okB_real HA_real HB_real). Qed.
Print Assumptions C08_stability_derivatives_restore_real.

Theorem C08_aero_center_restores_real : forall W F s delta, unit_attitude s -> okB_real (rel_body_velocity W s) ->
  snd (aero_center cos sin tan atan asin Ratan2 d2r r2d W F s delta) = s.
Proof. intros W F. exact (C08_aero_center_restores cos sin tan atan asin Ratan2 d2r r2d W F okB_real HB_real). Qed.
Print Assumptions C08_aero_center_restores_real.

(* ---------------------------------------------------------------------------------------------------------------------------------
   state_derivatives and pitch_trim_using_orientation(set_trim_state=False) put the state back through set_state with a keyword
   dictionary built from get_state() (Model/Restore.v).  The complete state - position, attitude, Earth-fixed velocity, body rates
   AND the frame the rates were given in, which selects the axes of the damping derivatives - comes back exactly (fix da9be0f);
   the second statement is the behaviour before the fix: everything but the frame. *)
From MuxV Require Import Model.Restore Proofs.RestoreP.
Theorem C08_full_restore_keeps_rate_frame : forall fcos fsin fasin fatan2 d2r (s : fstate R), qn2 (f_q s) = 1 ->
  restore fcos fsin fasin fatan2 d2r s = s /\
  restore_without_frame fcos fsin fasin fatan2 d2r s = mk_fs (f_p s) (f_q s) (f_v s) (f_w s) FBody.
Proof. intros. split; [apply restore_id | apply restore_without_frame_loses_it]; assumption. Qed.
Print Assumptions C08_full_restore_keeps_rate_frame.
Example C08_restore_nonvacuous : qn2 (Q4 1 0 0 0 : quat R) = 1.
Proof. unfold qn2, quat_norm2; cbn; rnum. ring. Qed.
