(* C05 — dynamic similarity: length, speed and density scaling.  Statements only. *)
From Coq Require Import Reals Lra List Bool.
From MuxV Require Import Base.Num Base.Vec3 Base.RInst Model.Helpers Model.Kernel Model.Residual Model.Integrate
  Proofs.HelpersP Proofs.KernelP Proofs.ResidualEqP Proofs.SceneEqP.
Import ListNotations.
Local Open Scope R_scope.

Section Length.
  Variable k : R.
  Hypothesis kpos : 0 < k.
  Definition scale_point (x : v3 R) : v3 R := vscale k x.
  Definition scale_hs (h : hshoe R) : hshoe R :=
    mk_hs (scale_point (hP0 h)) (scale_point (hP1 h)) (scale_point (hJ0 h)) (scale_point (hJ1 h)) (hu0 h) (hu1 h).

  (* every influence vector (bound, jointed, trailing) is homogeneous of degree -1 in length; the absolute cut-off of the trailing
     filaments corresponds to cut-off/k^2 in the unscaled scene *)
  Theorem C05_influence_scales : forall cutoff i4p diag pc h,
    vji (fun x => x) (k * k * cutoff) i4p diag (scale_point pc) (scale_hs h) = vscale (1 / k) (vji (fun x => x) cutoff i4p diag pc h).
  Proof.
    intros cutoff i4p diag pc h.
    pose proof (vji_sim idO 1 (fun a b => eq_refl) (fun a b => eq_refl) (fun a b => eq_refl) id_cross k vzero kpos cutoff i4p diag pc h) as H.
    unfold Sh in H. unfold Sp, idO in H.
    assert (E : forall x : v3 R, vadd (vscale k x) vzero = vscale k x) by (intros [a b c]; rcompute; apply V3_eq; ring).
    rewrite !E in H. exact H.
  Qed.

  (* geometrically scaled control point: lengths x k, areas x k^2, rates x 1/k so that rotational velocities are unchanged *)
  Definition scale_cpt (c : cpt R) : cpt R :=
    mk_cpt (vscale k (cdl c)) (cua c) (cun c) (cus c) (k * k * cdS c) (k * ccbar c) (cnu c) (csos c) (ccsi c) (cvinf c) (cvrot c).

  (* with Reynolds-independent section data: circulation scaled by k => residual scaled by k^2, for every option combination;
     so the scaled scene is solved by k x the circulation of the original one *)
  Theorem C05_length_scaling : forall atan2 opt cs Ss Vm g, Forall (re_independent) Ss ->
    residual atan2 opt (map scale_cpt cs) Ss (map (map (vscale (1 / k))) Vm) (map (Rmult k) g) =
    map (Rmult (k * k)) (residual atan2 opt cs Ss Vm g).
  Proof.
    intros atan2 opt cs Ss Vm g Hs.
    pose proof (residual_sim idO (fun a b => eq_refl) (fun a b => eq_refl) (fun a b => eq_refl) 1 ltac:(ring) id_cross k kpos atan2 opt cs Ss Vm g
                  (or_intror Hs)) as H.
    assert (Ec : map (Tc idO 1 k) cs = map scale_cpt cs).
    { apply map_ext. intros c. unfold Tc, scale_cpt, idO. destruct c; cbn. f_equal; try ring.
      - f_equal. ring.
      - apply vscale_1. }
    rewrite Ec in H. exact H.
  Qed.
End Length.
Print Assumptions C05_influence_scales.
Print Assumptions C05_length_scaling.

(* airspeed scaling: all velocities (freestream and rotational, i.e. rates x lam) x lam and circulation x lam => residual x lam^2,
   for Reynolds- and Mach-independent section data *)
Theorem C05_speed_scaling : forall lam atan2 opt c S Vr g gi, 0 < lam ->
  (forall y x, atan2 (lam * y) (lam * x) = atan2 y x) -> rm_independent S ->
  residual_at atan2 opt (Tl lam c) S Vr (map (Rmult lam) g) (lam * gi) = lam * lam * residual_at atan2 opt c S Vr g gi.
Proof. intros. apply residual_at_speed; assumption. Qed.
Print Assumptions C05_speed_scaling.

(* density does not enter the lifting-line equation at all (the control-point record carries none); the vortex force is linear in
   it, so forces scale with rho and coefficients are unchanged *)
Theorem C05_density_scaling : forall atan2 opt (c : cpt R) (p : ipt R) v g mu,
  let p' := mk_ipt (irCG p) (mu * irho p) (iua_un p) (iun_un p) (iCD p) (iCm p) in
  dFi (section_load atan2 opt (1/2) c p' v g) = vscale mu (dFi (section_load atan2 opt (1/2) c p v g)).
Proof.
  intros. unfold section_load. cbn [dFi irho p']. destruct (vcross v (cdl c)). rcompute. apply V3_eq; ring.
Qed.
Print Assumptions C05_density_scaling.

(* ---------------------------------------------------------------------------------------------------------------------------------
   The part of H_geom_scale that concerns the general (Reid-Hunsaker) corrections is a theorem: when every length of the wing data
   (control points, nodes, span coordinates, chords) is multiplied by k and the blending parameter - which the code computes from
   the semispan - is divided by k^2, the effective lifting lines and the joints seen by every control point are the scaled ones.
   (Model/Reid.v is tied to airplane.py's arrays by the C12 correspondence.) *)
From MuxV Require Import Model.Reid Proofs.ReidP.
Theorem C05_effective_lines_scale : forall k, 0 < k -> forall (w : list (sec R)) (i : sec R),
  reid_row exp (map (sec_scale k) w) (sec_scale k i) = scale4 k (reid_row exp w i).
Proof. exact reid_row_scale. Qed.
Print Assumptions C05_effective_lines_scale.
Theorem C05_blending_parameter_scales : forall k, 0 < k -> forall b bd cs,
  sigma_blend (k * b) bd cs = sigma_blend b bd cs / (k * k).
Proof. exact sigma_blend_scale. Qed.
Print Assumptions C05_blending_parameter_scales.
(* ... and so is the part that concerns the lifting line on Kuchemann's locus (Model/Kuchemann.v, tied to the stored table by the C12
   correspondence): scaling semispan and chords by k leaves the aspect ratio and every offset - a fraction of the local chord - unchanged *)
From MuxV Require Import Model.Kuchemann Proofs.KuchemannP.
Theorem C05_kuchemann_offset_scales : forall fcos ftan fpow pi k, k <> 0 ->
  (forall b mean_chord, mean_chord <> 0 -> aspect (k * b) (k * mean_chord) = aspect b mean_chord) /\
  (forall CLa RA sw b loc c, offset_at fcos ftan fpow pi CLa RA sw (k * b) loc (k * c) = offset_at fcos ftan fpow pi CLa RA sw b loc c).
Proof.
  intros fcos ftan fpow pi k Hk. split.
  - intros b mc Hm. apply aspect_scale; assumption.
  - intros. apply offset_scale. exact Hk.
Qed.
Print Assumptions C05_kuchemann_offset_scales.
