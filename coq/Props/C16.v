(* C16 — section coefficients are the span-wise linear blend of the specified airfoils.  Statements only. *)
From Coq Require Import Reals Lra List Bool Arith Lia.
From MuxV Require Import Base.Num Base.RInst Model.AirfoilBlend Proofs.AirfoilBlendP.
Import ListNotations.
Local Open Scope R_scope.

Definition station (spans : list R) (k : nat) : R := nth k spans 0.
(* stations are listed root to tip; a step change of the airfoil repeats a station, so they are only required not to decrease *)
Definition increasing (l : list R) : Prop := forall a b, (a <= b)%nat -> (b < length l)%nat -> nth a l 0 <= nth b l 0.
(* control points are stored left-to-right along the lifting line: span fraction ascending on a right segment, descending on a left one *)
Definition ordered (left_side : bool) (cps : list R) : Prop :=
  forall a b, (a <= b)%nat -> (b < length cps)%nat ->
    if left_side then nth b cps 0 <= nth a cps 0 else nth a cps 0 <= nth b cps 0.

(* For any number of stations, any station positions (repeated ones included), any control-point positions, on both sides, and whatever the
   airfoils return:
   the coefficient used at control point i is the linear interpolation in span fraction between the two airfoils bracketing it,
   each evaluated at control point i's own arguments (fv i k), including control points that coincide with a station. *)
Theorem C16_blend_spec : forall (left_side : bool) (cps spans : list R) (fv : nat -> nat -> R) (i j : nat),
  increasing spans -> ordered left_side cps -> (i < length cps)%nat -> (S j < length spans)%nat ->
  station spans j < nth i cps 0 <= station spans (S j) ->
  nth i cps 0 < station spans (length spans - 1) ->
  blend_at left_side cps spans fv i =
    let d := (nth i cps 0 - station spans j) / (station spans (S j) - station spans j) in
    (1 - d) * fv i j + d * fv i (S j).
Proof.
  intros left_side cps spans fv i j Hs Ho Hi Hj Hx Hl.
  apply blend_spec; try assumption. destruct left_side; intros a b Hab Hb; exact (Ho a b Hab Hb).
Qed.
Print Assumptions C16_blend_spec.

(* at a station the blend is that station's airfoil alone - at a repeated station (a step change) the one listed first, i.e. the inboard
   airfoil, on the left and on the right half alike (fix c66fea3) *)
Corollary C16_at_station : forall (left_side : bool) (cps spans : list R) (fv : nat -> nat -> R) (i j : nat),
  increasing spans -> ordered left_side cps -> (i < length cps)%nat -> (S j < length spans)%nat ->
  station spans j < station spans (S j) ->
  nth i cps 0 = station spans (S j) -> nth i cps 0 < station spans (length spans - 1) ->
  blend_at left_side cps spans fv i = fv i (S j).
Proof.
  intros left_side cps spans fv i j Hs Ho Hi Hj Hlt Hx Hl.
  rewrite (C16_blend_spec left_side cps spans fv i j Hs Ho Hi Hj) by (try rewrite Hx; try lra; assumption).
  cbv zeta. rewrite Hx. unfold station in *.
  replace ((nth (S j) spans 0 - nth j spans 0) / (nth (S j) spans 0 - nth j spans 0)) with 1 by (field; lra). ring.
Qed.
Print Assumptions C16_at_station.

(* non-vacuity: three stations, left segment with four control points; control point 1 (span 0.6) lies between stations 0.5 and 1 *)
Example C16_example : forall fv,
  blend_at true [0.9; 0.6; 0.4; 0.1] [0; 0.5; 1] fv 1 = (1 - (0.6 - 0.5) / (1 - 0.5)) * fv 1%nat 1%nat + (0.6 - 0.5) / (1 - 0.5) * fv 1%nat 2%nat.
Proof.
  intros fv. rewrite (C16_blend_spec true [0.9; 0.6; 0.4; 0.1] [0; 0.5; 1] fv 1 1); try (cbn; lia).
  - reflexivity.
  - intros a b Hab Hb. cbn in Hb. destruct b as [|[|[|[|b]]]]; try lia; destruct a as [|[|[|a]]]; try lia; cbn; lra.
  - intros a b Hab Hb. cbn in Hb. destruct b as [|[|[|[|b]]]]; try lia; destruct a as [|[|[|[|a]]]]; try lia; cbn; lra.
  - unfold station; cbn; lra.
  - unfold station; cbn; lra.
Qed.

(* non-vacuity of the step case: stations [0; 0.5; 0.5; 1], a right-hand segment whose third control point lies on the step *)
Example C16_step_example : forall fv, blend_at false [0.1; 0.3; 0.5; 0.7; 0.9] [0; 0.5; 0.5; 1] fv 2 = fv 2%nat 1%nat.
Proof.
  intros fv. apply (C16_at_station false [0.1; 0.3; 0.5; 0.7; 0.9] [0; 0.5; 0.5; 1] fv 2 0); try (cbn; lia); try (unfold station; cbn; lra).
  - intros a b Hab Hb. cbn in Hb. destruct b as [|[|[|[|b]]]]; try lia; destruct a as [|[|[|[|a]]]]; try lia; cbn; lra.
  - intros a b Hab Hb. cbn in Hb. destruct b as [|[|[|[|[|b]]]]]; try lia; destruct a as [|[|[|[|[|a]]]]]; try lia; cbn; lra.
Qed.
