"""Reads the arrays of a live Scene / Airplane / WingSegment and writes them as Gallina literals."""
import math, copy
import numpy as np
from harness.common import fhex, flist, fv3, fq4, cbool, ftable2


def prepare(sc):
    """Make sure geometry + invariant flow arrays are current."""
    sc._calc_invariant_flow_properties()


def opts_of(sc):
    return dict(use_swept=bool(sc._use_swept_sections), use_total=bool(sc._use_total_velocity), use_in_plane=bool(sc._use_in_plane),
                match_pro=bool(sc._match_machup_pro))


def coq_opts(o):
    return "(mk_opts %s %s %s %s)" % (cbool(o["use_swept"]), cbool(o["use_total"]), cbool(o["use_in_plane"]), cbool(o["match_pro"]))


def coq_cpt(sc, i):
    csi = float(sc._C_sweep_inv[i]) if sc._use_swept_sections else 1.0
    vrot = np.array(sc._v_inf_and_rot[i]) - np.array(sc._v_inf[i])
    nu = np.asarray(sc._nu) * np.ones(sc._N)
    a = np.asarray(sc._a) * np.ones(sc._N)
    return "(mk_cpt %s %s %s %s %s %s %s %s %s %s %s)" % (
        fv3(sc._dl[i]), fv3(sc._u_a[i]), fv3(sc._u_n[i]), fv3(sc._u_s[i]), fhex(sc._dS[i]), fhex(sc._c_bar[i]), fhex(nu[i]), fhex(a[i]),
        fhex(csi), fv3(sc._v_inf[i]), fv3(vrot))


def coq_hshoe(sc, i, j):
    """horseshoe j as seen from control point i, expressed relative to the control point (pc = 0), so that the
    model's r-vectors are exactly the ones the code uses"""
    return "(mk_hs %s %s %s %s %s %s)" % (fv3(-sc._r_0[i, j]), fv3(-sc._r_1[i, j]), fv3(-sc._r_0_joint[i, j]), fv3(-sc._r_1_joint[i, j]),
                                         fv3(sc._u_trailing_0[j]), fv3(sc._u_trailing_1[j]))


def coq_hs_matrix(sc):
    N = sc._N
    return "[" + ";\n ".join("[" + "; ".join(coq_hshoe(sc, i, j) for j in range(N)) + "]" for i in range(N)) + "]"


def coq_v3_matrix(M):
    return "[" + ";\n ".join("[" + "; ".join(fv3(v) for v in row) + "]" for row in M) + "]"


def coq_matrix(M):
    return "[" + ";\n ".join(flist(row) for row in M) + "]"


def section_probe(sc):
    """Affine lift model A*alpha+B, lift slope and zero-lift angle per control point, probed from the live segments
    (exact for 'linear' airfoils and their spanwise blends when CL_max is not reached)."""
    A, B, CLa, aL0 = [], [], [], []
    for ap in sc._airplane_objects:
        for seg in ap.segments:
            n = seg.N
            z = np.zeros(n)
            one = np.full(n, 0.05)
            re = np.full(n, 1.0e6)
            c0 = np.array(seg.get_cp_CL(z, re, z), dtype=float) * np.ones(n)
            c1 = np.array(seg.get_cp_CL(one, re, z), dtype=float) * np.ones(n)
            A.extend(((c1 - c0) / 0.05).tolist())
            B.extend(c0.tolist())
            CLa.extend((np.array(seg.get_cp_CLa(z, re, z), dtype=float) * np.ones(n)).tolist())
            aL0.extend((np.array(seg.get_cp_aL0(re, z), dtype=float) * np.ones(n)).tolist())
    return A, B, CLa, aL0


def coq_sections(sc):
    A, B, CLa, aL0 = section_probe(sc)
    return "[" + "; ".join("lin_section %s %s %s %s" % (fhex(a), fhex(b), fhex(c), fhex(d)) for a, b, c, d in zip(A, B, CLa, aL0)) + "]"


def geometry_consistency(sc, tol=1e-9):
    """H_geom: the r-vectors used by the kernels are the differences of the stored Earth-frame points."""
    worst = 0.0
    scale = max(1.0, float(np.max(np.abs(sc._PC))))
    for r, P in ((sc._r_0, sc._P0), (sc._r_1, sc._P1), (sc._r_0_joint, sc._P0_joint), (sc._r_1_joint, sc._P1_joint)):
        d = np.max(np.abs(r - (sc._PC[:, None, :] - P)))
        worst = max(worst, float(d) / scale)
    return worst


class SolveRecorder:
    """Wraps numpy.linalg.solve to record (A, b, x) triples while active."""

    def __init__(self):
        self.calls = []

    def __enter__(self):
        self._orig = np.linalg.solve

        def rec(A, b):
            x = self._orig(A, b)
            self.calls.append((np.array(A, dtype=float).copy(), np.array(b, dtype=float).copy(), np.array(x, dtype=float).copy()))
            return x
        np.linalg.solve = rec
        return self

    def __exit__(self, *a):
        np.linalg.solve = self._orig
