"""Structured scenario generator shared by all checks.  Every choice is drawn from the single
random.Random instance passed in, and every choice is tallied in `hist` so that constant or starved
dimensions show up in the evidence."""
import math, copy


def _tally(hist, key, val):
    if hist is not None:
        k = "%s=%s" % (key, val)
        hist[k] = hist.get(k, 0) + 1


def r(rng, lo, hi, nd=4):
    return round(rng.uniform(lo, hi), nd)


def gen_airfoils(rng, n, hist=None, re_dep=False):
    afs = {}
    for i in range(n):
        sym = rng.random() < 0.3
        afs["af%d" % i] = {
            "type": "linear",
            "aL0": 0.0 if sym else r(rng, -0.08, 0.0),
            "CLa": r(rng, 5.6, 6.9),
            "CmL0": 0.0 if sym else r(rng, -0.11, 0.0),
            "Cma": r(rng, 0.0, 0.04),
            "CD0": r(rng, 0.004, 0.009, 5),
            "CD1": r(rng, -0.011, 0.0, 5),
            "CD2": r(rng, 0.008, 0.1, 5),
            "geometry": {"NACA": "0010"},
        }
    _tally(hist, "n_airfoils", n)
    return afs


def gen_dist(rng, lo, hi, hist, name, kinds=("const", "linear", "step", "three")):
    k = rng.choice(kinds)
    _tally(hist, name, k)
    if k == "const":
        return r(rng, lo, hi)
    if k == "linear":
        return [[0.0, r(rng, lo, hi)], [1.0, r(rng, lo, hi)]]
    if k == "step":
        s = r(rng, 0.3, 0.7, 2)
        a, b = r(rng, lo, hi), r(rng, lo, hi)
        return [[0.0, a], [s, a], [s, b], [1.0, b]]
    s = r(rng, 0.3, 0.7, 2)
    return [[0.0, r(rng, lo, hi)], [s, r(rng, lo, hi)], [1.0, r(rng, lo, hi)]]


def gen_grid(rng, hist, N=None, reid=None, allow_explicit=True, clusters=True):
    N = N if N is not None else rng.randint(3, 7)
    kinds = ["cosine_cluster", "cosine_cluster", "linear"] + (["explicit"] if allow_explicit else [])
    kind = rng.choice(kinds)
    _tally(hist, "grid", kind)
    g = {"N": N}
    if kind == "linear":
        g["distribution"] = "linear"
    elif kind == "explicit":
        pts = sorted(set(round(rng.uniform(0.02, 0.98), 3) for _ in range(2 * N - 1 + 6)))
        rng.shuffle(pts)
        pts = sorted(pts[:2 * N - 1])
        while len(pts) < 2 * N - 1:
            pts = sorted(set(pts + [round(rng.uniform(0.02, 0.98), 3)]))
        g["distribution"] = [0.0] + pts[:2 * N - 1] + [1.0]
    else:
        if clusters and rng.random() < 0.3:
            g["cluster_points"] = [r(rng, 0.3, 0.7, 2)]
            _tally(hist, "cluster_points", 1)
    reid = reid if reid is not None else (rng.random() < 0.5)
    g["reid_corrections"] = reid
    _tally(hist, "reid", reid)
    if reid and rng.random() < 0.4:
        g["joint_length"] = r(rng, 0.05, 0.3, 2)
        g["blending_distance"] = r(rng, 0.5, 1.5, 2)
    return g


def gen_control_surface(rng, hist, controls):
    cs = {}
    if rng.random() < 0.5:
        cs["root_span"] = r(rng, 0.0, 0.4, 2)
        cs["tip_span"] = r(rng, 0.6, 1.0, 2)
    if rng.random() < 0.3:
        rs, ts = cs.get("root_span", 0.0), cs.get("tip_span", 1.0)
        cs["chord_fraction"] = [[rs, r(rng, 0.1, 0.4, 2)], [ts, r(rng, 0.1, 0.4, 2)]]
        _tally(hist, "cf", "array")
    else:
        cs["chord_fraction"] = r(rng, 0.1, 0.4, 2)
        _tally(hist, "cf", "const")
    k = rng.randint(1, min(2, len(controls)))
    names = rng.sample(controls, k)
    cs["control_mixing"] = {n: rng.choice([1.0, -1.0, 0.5, r(rng, -1.5, 1.5, 2)]) for n in names}
    if rng.random() < 0.25:
        cs["saturation_angle"] = r(rng, 2.0, 20.0, 1)
        _tally(hist, "saturation", 1)
    return cs


def gen_wing(rng, hist, ID, afnames, controls, side="both", is_main=False, connect=None, span=(1.5, 5.0),
             chord=(0.5, 1.5), sweep=(-15.0, 30.0), dihedral=(-5.0, 12.0), N=None, reid=None, qc_points=False,
             planar=False, allow_explicit=True):
    w = {"ID": ID, "side": side, "is_main": is_main}
    if connect:
        w["connect_to"] = connect
    if qc_points:
        b = r(rng, *span)
        n = rng.randint(1, 3)
        pts, x, y, z = [], 0.0, 0.0, 0.0
        for i in range(n):
            dy = b / n
            x -= dy * math.tan(math.radians(r(rng, 0.0, 25.0)))
            z -= dy * math.tan(math.radians(r(rng, 0.0, 8.0)))
            y += dy
            pts.append([round(x, 4), round(y, 4), round(z, 4)])
        w["quarter_chord_locs"] = pts
        _tally(hist, "span_def", "qc_points")
    else:
        w["semispan"] = r(rng, *span)
        _tally(hist, "span_def", "semispan")
        if not planar:
            if rng.random() < 0.7:
                w["sweep"] = gen_dist(rng, sweep[0], sweep[1], hist, "sweep")
            if rng.random() < 0.7:
                w["dihedral"] = gen_dist(rng, dihedral[0], dihedral[1], hist, "dihedral")
    if rng.random() < 0.6 and not planar:
        w["twist"] = gen_dist(rng, -4.0, 4.0, hist, "twist", kinds=("const", "linear", "three"))
    ck = rng.choice(["const", "linear", "linear", "elliptic"] if not planar else ["const", "linear"])
    _tally(hist, "chord", ck)
    if ck == "const":
        w["chord"] = r(rng, *chord)
    elif ck == "linear":
        w["chord"] = [[0.0, r(rng, *chord)], [1.0, r(rng, 0.5 * chord[0], chord[1])]]
    else:
        w["chord"] = ["elliptic", r(rng, *chord)]
    if len(afnames) > 1 and rng.random() < 0.5:
        k = rng.randint(2, min(3, len(afnames)))
        names = [rng.choice(afnames) for _ in range(k)]
        if k == 2:
            w["airfoil"] = [[0.0, names[0]], [1.0, names[1]]]
        else:
            w["airfoil"] = [[0.0, names[0]], [r(rng, 0.3, 0.7, 2), names[1]], [1.0, names[2]]]
        _tally(hist, "airfoil", "dist%d" % k)
    else:
        w["airfoil"] = rng.choice(afnames)
        _tally(hist, "airfoil", "const")
    if controls and rng.random() < 0.7:
        w["control_surface"] = gen_control_surface(rng, hist, controls)
    w["grid"] = gen_grid(rng, hist, N=N, reid=reid, allow_explicit=allow_explicit)
    if rng.random() < 0.15:
        w["ll_offset"] = r(rng, -0.05, 0.05, 3)
        _tally(hist, "ll_offset", 1)
    elif isinstance(w.get("sweep"), float) and rng.random() < 0.35:
        w["ll_offset"] = "kuchemann"            # locus of aerodynamic centres of a swept wing (constant sweep only)
        _tally(hist, "ll_offset", "kuchemann")
    return w


def gen_aircraft(rng, hist=None, max_wings=3, reid=None, sides=("both",), N=None, qc_points_p=0.0,
                 controls=("aileron", "elevator", "rudder"), allow_chain=True, planar=False, allow_explicit=True,
                 explicit_refs=None, allow_fin=True, dy_p=None):
    """Returns an aircraft dictionary (airfoils inlined).  dy_p: probability that a connection carries a lateral offset 'dy' (which shifts
    both halves the same way, so the aircraft is then not laterally symmetric); default 0.3 unless only two-sided surfaces were asked for."""
    if dy_p is None:
        dy_p = 0.0 if set(sides) == {"both"} else 0.3
    nf = rng.randint(1, 3)
    afs = gen_airfoils(rng, nf, hist)
    afn = list(afs)
    ctrl = {c: {"is_symmetric": (c == "elevator") if rng.random() < 0.8 else rng.random() < 0.5} for c in controls}
    wings = {}
    side = rng.choice(sides)
    _tally(hist, "main_side", side)
    main_connect = None
    if rng.random() < 0.25:
        main_connect = {"ID": 0, "dx": r(rng, -0.5, 0.5, 2), "dz": r(rng, -0.3, 0.3, 2), "y_offset": rng.choice([0.0, r(rng, 0.1, 0.5, 2)])}
        _tally(hist, "main_y_offset", main_connect["y_offset"] != 0.0)
    wings["main_wing"] = gen_wing(rng, hist, 1, afn, list(controls), side=side, is_main=True, N=N, reid=reid, connect=main_connect,
                                  qc_points=(rng.random() < qc_points_p), planar=planar, allow_explicit=allow_explicit)
    nw = rng.randint(1, max_wings)
    _tally(hist, "n_wings", nw)
    layout = []
    if nw >= 2:
        layout.append(rng.choice(["tail", "tail", "chain" if allow_chain else "tail", "fin"]))
    if nw >= 3:
        layout.append(rng.choice(["fin", "winglet" if allow_chain else "fin", "tail2"]))
    if not allow_fin:
        layout = ["tail" if k in ("fin", "winglet") else k for k in layout]
        if layout.count("tail") > 1:
            layout = ["tail", "tail2"]
    ID = 2
    for kind in layout:
        _tally(hist, "extra", kind)
        if kind == "tail":
            wings["h_stab"] = gen_wing(rng, hist, ID, afn, list(controls), side=rng.choice(sides), connect={
                "ID": 1, "location": "root", "dx": r(rng, -5.0, -2.5, 2), "dz": r(rng, -0.5, 0.5, 2)},
                span=(0.8, 2.0), chord=(0.3, 0.8), N=N, reid=reid, planar=planar, allow_explicit=allow_explicit)
        elif kind == "tail2":
            wings["canard"] = gen_wing(rng, hist, ID, afn, list(controls), side="both", connect={
                "ID": 0, "dx": r(rng, 2.0, 4.0, 2), "dz": r(rng, -0.3, 0.3, 2), "y_offset": rng.choice([0.0, 0.0, r(rng, 0.05, 0.3, 2)])},
                span=(0.6, 1.5), chord=(0.3, 0.6), N=N, reid=reid, planar=planar, allow_explicit=allow_explicit)
        elif kind == "fin":
            w = gen_wing(rng, hist, ID, afn, list(controls), side=rng.choice(["left", "right"]), connect={
                "ID": 1, "location": "root", "dx": r(rng, -5.0, -2.5, 2), "dz": r(rng, -0.3, 0.0, 2)},
                span=(0.6, 1.5), chord=(0.3, 0.8), N=N, reid=reid, planar=True, allow_explicit=allow_explicit)
            w["dihedral"] = 90.0
            if rng.random() < 0.5:
                w["sweep"] = r(rng, 0.0, 30.0)
            wings["v_stab"] = w
        elif kind == "chain":
            w = gen_wing(rng, hist, ID, afn, list(controls), side=wings["main_wing"]["side"], connect={
                "ID": 1, "location": "tip"}, span=(0.5, 2.0), chord=(0.3, 0.8), N=N, reid=reid, planar=planar,
                allow_explicit=allow_explicit)
            w["is_main"] = rng.random() < 0.5
            wings["outer"] = w
        elif kind == "winglet":
            w = gen_wing(rng, hist, ID, afn, list(controls), side=wings["main_wing"]["side"], connect={
                "ID": 1, "location": "tip", "dx": rng.choice([0.0, r(rng, -0.2, 0.0, 2)])}, span=(0.3, 0.8),
                chord=(0.2, 0.5), N=N, reid=reid, planar=True, allow_explicit=allow_explicit)
            w["dihedral"] = r(rng, 60.0, 90.0, 1)
            wings["winglet"] = w
        ID += 1
    ac = {"CG": [r(rng, -0.5, 0.5, 2), rng.choice([0.0, 0.0, r(rng, -0.2, 0.2, 2)]), r(rng, -0.2, 0.2, 2)],
          "weight": r(rng, 20.0, 200.0, 1), "controls": ctrl, "airfoils": afs, "wings": wings}
    if explicit_refs is None:
        explicit_refs = rng.random() < 0.3
    if explicit_refs:
        ac["reference"] = {"area": r(rng, 4.0, 12.0, 2), "longitudinal_length": r(rng, 0.5, 1.5, 2),
                           "lateral_length": r(rng, 4.0, 10.0, 2)}
    _tally(hist, "explicit_refs", bool(explicit_refs))
    # lateral offset of a connection (not on tip chains, where the outer panel would leave the inner one)
    if dy_p > 0.0:
        for wn, w in wings.items():
            c = w.get("connect_to")
            if wn in ("outer", "winglet"):
                continue
            if rng.random() < dy_p:
                if c is None:
                    c = w["connect_to"] = {"ID": 0}
                c["dy"] = r(rng, -0.4, 0.4, 2)
                _tally(hist, "connect_dy", 1)
    return ac


def gen_state(rng, hist=None, V=(30.0, 150.0), ang=8.0, rates=True, pose=True, vec_velocity_p=0.3,
              rate_frames=("body", "body", "stab", "wind"), quat_p=0.5):
    st = {}
    v = r(rng, *V, nd=2)
    a, b = r(rng, -ang, ang, 3), r(rng, -ang, ang, 3)
    if rng.random() < vec_velocity_p:
        ca, sa, cb, sb = math.cos(math.radians(a)), math.sin(math.radians(a)), math.cos(math.radians(b)), math.sin(math.radians(b))
        st["velocity"] = [round(v * ca * cb, 4), round(v * sb, 4), round(v * sa * cb, 4)]
        _tally(hist, "velocity", "vector")
    else:
        st["velocity"] = v
        st["alpha"] = a
        st["beta"] = b
        _tally(hist, "velocity", "V_alpha_beta")
    if rates and rng.random() < 0.7:
        st["angular_rates"] = [r(rng, -0.15, 0.15, 4), r(rng, -0.1, 0.1, 4), r(rng, -0.1, 0.1, 4)]
        fr = rng.choice(rate_frames)
        if fr != "body" or rng.random() < 0.5:
            st["angular_rate_frame"] = fr
        _tally(hist, "rate_frame", fr)
    else:
        _tally(hist, "rate_frame", "none")
    if pose:
        if rng.random() < 0.8:
            st["position"] = [r(rng, -500.0, 500.0, 1), r(rng, -500.0, 500.0, 1), r(rng, -3000.0, 0.0, 1)]
        k = rng.random()
        if k < quat_p:
            q = [rng.gauss(0, 1) for _ in range(4)]
            s = rng.choice([1.0, 1.0, 0.3, 7.0])
            n = math.sqrt(sum(x * x for x in q))
            st["orientation"] = [round(x / n * s, 6) for x in q]
            _tally(hist, "orientation", "quat" if s == 1.0 else "quat_unnormalised")
        elif k < 0.9:
            st["orientation"] = [r(rng, -170.0, 170.0, 2), r(rng, -80.0, 80.0, 2), r(rng, -170.0, 170.0, 2)]
            _tally(hist, "orientation", "euler")
        else:
            _tally(hist, "orientation", "default")
    return st


def gen_controls(rng, ac, hist=None, p=0.7):
    cs = {}
    for c in ac.get("controls", {}):
        if rng.random() < p:
            cs[c] = r(rng, -8.0, 8.0, 2)
    return cs


def gen_solver(rng, hist=None, all_opts=True):
    s = {"type": "nonlinear"}
    if all_opts:
        for k in ("use_swept_sections", "use_total_velocity", "use_in_plane"):
            if rng.random() < 0.35:
                s[k] = False
        if rng.random() < 0.25:
            s["constrain_vortex_sheet"] = True
        if rng.random() < 0.3:
            s["relaxation"] = r(rng, 0.5, 1.0, 2)
    _tally(hist, "solver_opts", ",".join(sorted(k for k in s if k != "type")) or "default")
    return s


def gen_scene(rng, hist=None, units=None, wind=False, solver=None, rho=None):
    units = units or rng.choice(["English", "SI"])
    _tally(hist, "units", units)
    sc = {"units": units, "solver": solver if solver is not None else gen_solver(rng, hist),
          "scene": {"atmosphere": {}}}
    if rho is None:
        rho = rng.choice(["default", "const", "const"])
    if rho == "const":
        sc["scene"]["atmosphere"]["rho"] = r(rng, 0.0015, 0.0024, 6) if units == "English" else r(rng, 0.8, 1.25, 4)
    elif rho == "standard":
        sc["scene"]["atmosphere"]["rho"] = "standard"
    _tally(hist, "rho", rho)
    if wind:
        sc["scene"]["atmosphere"]["V_wind"] = [r(rng, -20.0, 20.0, 2), r(rng, -20.0, 20.0, 2), r(rng, -5.0, 5.0, 2)]
    _tally(hist, "wind", bool(wind))
    return sc


def build_scene(MX, scene_dict, aircraft):
    """aircraft: list of (name, aircraft_dict, state, control_state).  Deep copies are handed to MachUpX."""
    sc = MX.Scene(copy.deepcopy(scene_dict))
    for name, ac, st, cs in aircraft:
        sc.add_aircraft(name, copy.deepcopy(ac), state=copy.deepcopy(st), control_state=copy.deepcopy(cs))
    return sc


def simple_wing_aircraft(b=4.0, c=1.0, N=6, CLa=6.2832, reid=False, side="both", sweep=None, dihedral=None, extra=None,
                         controls=True):
    """A deterministic baseline aircraft used by histories and trims (one main wing + tail with elevator)."""
    ac = {
        "CG": [0.0, 0.0, 0.0], "weight": 50.0,
        "controls": {"aileron": {"is_symmetric": False}, "elevator": {"is_symmetric": True}, "rudder": {"is_symmetric": False}},
        "airfoils": {"af0": {"type": "linear", "aL0": -0.03, "CLa": CLa, "CmL0": -0.02, "Cma": 0.01, "CD0": 0.006,
                             "CD1": -0.002, "CD2": 0.01, "geometry": {"NACA": "0010"}}},
        "wings": {
            "main_wing": {"ID": 1, "side": side, "is_main": True, "semispan": b, "chord": c, "airfoil": "af0",
                          "control_surface": {"chord_fraction": 0.2, "root_span": 0.4, "control_mixing": {"aileron": 1.0}},
                          "grid": {"N": N, "reid_corrections": reid}},
            "h_stab": {"ID": 2, "side": "both", "is_main": False, "connect_to": {"ID": 1, "location": "root", "dx": -3.0},
                       "semispan": 0.4 * b, "chord": 0.5 * c, "airfoil": "af0",
                       "control_surface": {"chord_fraction": 0.4, "control_mixing": {"elevator": 1.0}},
                       "grid": {"N": max(3, N // 2), "reid_corrections": reid}},
            "v_stab": {"ID": 3, "side": "right", "is_main": False, "connect_to": {"ID": 1, "location": "root", "dx": -3.0, "dz": -0.1},
                       "semispan": 0.3 * b, "dihedral": 90.0, "chord": 0.5 * c, "airfoil": "af0",
                       "control_surface": {"chord_fraction": 0.4, "control_mixing": {"rudder": 1.0}},
                       "grid": {"N": max(3, N // 2), "reid_corrections": reid}},
        }}
    if sweep is not None:
        ac["wings"]["main_wing"]["sweep"] = sweep
    if dihedral is not None:
        ac["wings"]["main_wing"]["dihedral"] = dihedral
    if not controls:
        ac["controls"] = {}
        for w in ac["wings"].values():
            w.pop("control_surface", None)
    if extra:
        ac.update(extra)
    return ac
