"""Shared machinery for the MachUpX proof-based checks.

Every check (harness/props/Cxx.py) does, in this order:
  1. rebuild and re-check its Coq theorems (Props/Cxx.v and what it depends on),
  2. regenerate live data from /repo and run the model<->code correspondence
     (Gallina model evaluated by vm_compute on binary64 inside coqc),
  3. run the API-level conformance sweep / failing-input search,
  4. write evidence/<id>.json and print VIOLATION / KNOWN-FINDING lines.
"""
import os, sys, json, re, time, subprocess, random, hashlib, math, shutil, traceback, warnings

VERIF = os.path.dirname(os.path.dirname(os.path.abspath(__file__)))
COQ = os.path.join(VERIF, "coq")
LIVE = os.path.join(COQ, "Live")
REPO = os.environ.get("MACHUPX_REPO", "/repo")
EVID = os.path.join(VERIF, "evidence")
REPLAYS = os.path.join(VERIF, "replays")
NCPU = int(os.environ.get("VERIF_JOBS", "16"))


def setup_env():
    os.environ["PYTHONHASHSEED"] = "0"
    os.environ["MACHUPX_VERIF"] = "1"
    os.environ.setdefault("MPLBACKEND", "Agg")
    if REPO in sys.path:
        sys.path.remove(REPO)
    sys.path.insert(0, REPO)
    # one copy of the package per process: a second call must hand back the same module objects (exception classes are compared by identity)
    loaded = sys.modules.get("machupX")
    if loaded is not None and os.path.realpath(os.path.dirname(getattr(loaded, "__file__", "") or "")).startswith(os.path.realpath(REPO)):
        return loaded
    for m in list(sys.modules):
        if m == "machupX" or m.startswith("machupX."):
            del sys.modules[m]
    warnings.filterwarnings("ignore")
    import numpy as np
    np.seterr(all="ignore")
    import machupX  # noqa
    assert os.path.realpath(os.path.dirname(machupX.__file__)).startswith(os.path.realpath(REPO)), machupX.__file__
    return machupX


# ----------------------------------------------------------------------------- float literals
def fhex(x):
    """Python float -> Coq PrimFloat literal (exact)."""
    x = float(x)
    if x != x:
        return "nan"
    if x == math.inf:
        return "infinity"
    if x == -math.inf:
        return "neg_infinity"
    h = x.hex()
    if h.startswith("-"):
        return "(-" + h[1:] + ")"
    return h


def flist(xs):
    return "[" + "; ".join(fhex(x) for x in xs) + "]"


def fv3(v):
    return "(V3 %s %s %s)" % (fhex(v[0]), fhex(v[1]), fhex(v[2]))


def fq4(q):
    return "(Q4 %s %s %s %s)" % tuple(fhex(x) for x in q)


def fv3list(vs):
    return "[" + "; ".join(fv3(v) for v in vs) + "]"


def ftable(pairs):
    return "[" + "; ".join("(%s, %s)" % (fhex(a), fhex(b)) for a, b in pairs) + "]"


def ftable2(triples):
    return "[" + "; ".join("(%s, %s, %s)" % (fhex(a), fhex(b), fhex(c)) for a, b, c in triples) + "]"


def cbool(b):
    return "true" if b else "false"


# ----------------------------------------------------------------------------- running Coq
def sh(cmd, timeout=900, cwd=None):
    p = subprocess.run(cmd, shell=True, cwd=cwd, stdout=subprocess.PIPE, stderr=subprocess.STDOUT,
                       timeout=timeout, text=True)
    return p.returncode, p.stdout


_makefile_ready = False


def ensure_makefile():
    global _makefile_ready
    if _makefile_ready:
        return
    mk = os.path.join(COQ, "Makefile")
    cp = os.path.join(COQ, "_CoqProject")
    if not os.path.exists(mk) or os.path.getmtime(mk) < os.path.getmtime(cp):
        rc, out = sh("coq_makefile -f _CoqProject -o Makefile", cwd=COQ)
        if rc != 0:
            raise RuntimeError("coq_makefile failed:\n" + out)
    _makefile_ready = True


def coq_make(targets, timeout=1800):
    """make the given .vo targets (full .vo build, never -vos).  Returns (ok, output)."""
    ensure_makefile()
    if isinstance(targets, str):
        targets = [targets]
    rc, out = sh("timeout %d make -j%d %s" % (timeout, NCPU, " ".join(targets)), timeout=timeout + 30, cwd=COQ)
    return rc == 0, out


def coqc_file(path, timeout=600, extra=""):
    rc, out = sh("timeout %d coqc -Q . MuxV %s %s" % (timeout, extra, os.path.relpath(path, COQ)), timeout=timeout + 30, cwd=COQ)
    return rc, out


AX_RE = re.compile(r"^([A-Za-z_][\w.']*)\s*:", re.M)


def parse_assumptions(out):
    """Parse the output of the Print Assumptions commands of a Props file.
    Returns {theorem: [axiom names]} in order of appearance (keyed by position)."""
    blocks = []
    cur = None
    for line in out.splitlines():
        if line.startswith("Closed under the global context"):
            blocks.append([])
            cur = None
        elif line.startswith("Axioms:"):
            cur = []
            blocks.append(cur)
        elif cur is not None:
            m = re.match(r"^([A-Za-z_][\w.']*)\s*:?", line)
            if m and not line.startswith(" "):
                cur.append(m.group(1))
    return blocks


def build_props(pid, live_deps=()):
    """Re-check Props/<pid>.v from scratch (its .vo is removed first) together with whatever it
    depends on.  Returns dict(ok, obligations, discharged, axioms, theorems, output, checker_cmd)."""
    ensure_makefile()
    # the data snapshot of /repo (unit tables, atmosphere constants) belongs to the tree being checked: every check regenerates it, so that a
    # snapshot left by an earlier run on a different tree never decides a later build
    from harness import live
    live.generate()
    src = os.path.join(COQ, "Props", pid + ".v")
    text = open(src).read()
    theorems = re.findall(r"^\s*(?:Theorem|Corollary)\s+([\w']+)", text, re.M)
    n_print = len(re.findall(r"^\s*Print Assumptions", text, re.M))
    for ext in (".vo", ".glob", ".vos", ".vok"):
        try:
            os.remove(os.path.join(COQ, "Props", pid + ext))
        except FileNotFoundError:
            pass
    ok, out = coq_make(["Props/%s.vo" % pid])
    if ok:
        # the float instances the case files import (Model/*F.v) are not dependencies of the Props file: keep them up to date too
        ok_all, out_all = coq_make([])
        if not ok_all:
            ok, out = False, out + "\n[full build]\n" + out_all
    blocks = parse_assumptions(out) if ok else []
    axioms = sorted({a for b in blocks for a in b})
    discharged = len(theorems) if ok else 0
    res = dict(ok=ok and len(blocks) == n_print and n_print >= len(theorems), obligations=len(theorems),
               discharged=discharged, axioms=axioms, theorems=theorems, output=out,
               checker_cmd="make -C coq Props/%s.vo  (coqc 8.16.1, full .vo build; Print Assumptions under every theorem)" % pid)
    if ok and not res["ok"]:
        res["output"] += "\n[harness] Print Assumptions blocks: %d, expected %d, theorems %d" % (len(blocks), n_print, len(theorems))
    # on failure: which theorem is the first one that does not check?
    if not ok:
        m = re.search(r'File "\./([^"]+)", line (\d+)', out)
        res["failed_at"] = m.group(0) if m else "unknown"
    return res


AUDIT_RE = re.compile(r"\b(Admitted|admit|Axiom|Axioms|Parameter|Parameters|Conjecture|Admit Obligations|Unset Guard Checking|bypass_check|Unset Positivity Checking|Unset Universe Checking)\b")


def audit_sources():
    """grep audit: no Admitted/admit/Axiom/Parameter/Conjecture/disabled checks anywhere in coq/."""
    bad = []
    for root, _, files in os.walk(COQ):
        for f in files:
            if not f.endswith(".v"):
                continue
            p = os.path.join(root, f)
            txt = open(p).read()
            # strip comments (non-nested approximation is fine: we never write these words in comments)
            for i, line in enumerate(txt.splitlines(), 1):
                if AUDIT_RE.search(line):
                    bad.append("%s:%d: %s" % (os.path.relpath(p, COQ), i, line.strip()))
    return bad


def run_cases(tag, imports, defs, cases, chunk=400, timeout=600):
    """Evaluate boolean correspondence cases inside Coq.
    imports: list of 'From ... Require Import ...' lines; defs: list of shared definitions (strings);
    cases: list of Gallina bool expressions.  Returns (failing_indices, n_files, errors)."""
    os.makedirs(LIVE, exist_ok=True)
    for f in os.listdir(LIVE):
        if f.startswith("cases_%s_" % tag):
            os.remove(os.path.join(LIVE, f))
    files = []
    for k in range(0, len(cases), chunk):
        sub = cases[k:k + chunk]
        name = "cases_%s_%d.v" % (tag, k // chunk)
        p = os.path.join(LIVE, name)
        with open(p, "w") as fh:
            fh.write("From Coq Require Import PrimFloat List Bool ZArith.\nImport ListNotations.\nFrom MuxV Require Import Base.FInst.\n")
            for im in imports:
                fh.write(im + "\n")
            fh.write("Local Open Scope float_scope.\n")
            for d in defs:
                fh.write(d + "\n")
            seen = set()
            for i, c in enumerate(sub):
                if isinstance(c, tuple):      # (private definitions, expression)
                    for d in c[0]:
                        if d not in seen:
                            seen.add(d)
                            fh.write(d + "\n")
                    c = c[1]
                fh.write("Definition c%d : bool := %s.\n" % (i, c))
            # chunk the list of case names so that no literal is huge
            fh.write("Definition allc : list bool := [%s].\n" % "; ".join("c%d" % i for i in range(len(sub))))
            fh.write("Eval vm_compute in (failing allc).\n")
        files.append((k, p))
    failing, errors = [], []
    procs = []
    pending = list(files)
    running = []
    while pending or running:
        while pending and len(running) < NCPU:
            k, p = pending.pop(0)
            pr = subprocess.Popen("ulimit -s unlimited 2>/dev/null; timeout %d coqc -Q . MuxV %s" % (timeout, os.path.relpath(p, COQ)),
                                  shell=True, cwd=COQ, stdout=subprocess.PIPE, stderr=subprocess.STDOUT, text=True)
            running.append((k, p, pr))
        k, p, pr = running.pop(0)
        out, _ = pr.communicate()
        if pr.returncode != 0:
            errors.append("%s: rc=%d\n%s" % (os.path.basename(p), pr.returncode, out[-2000:]))
            continue
        m = re.search(r"=\s*\[([^\]]*)\]\s*:\s*list nat", out, re.S)
        if not m:
            errors.append("%s: cannot parse output\n%s" % (os.path.basename(p), out[-2000:]))
            continue
        body = m.group(1).strip()
        if body:
            failing.extend(k + int(x.replace("%nat", "")) for x in re.split(r"[;\s]+", body) if x)
    # clean compiled case files (keep sources of failing chunks for replay)
    for k, p in files:
        base = p[:-2]
        for ext in (".vo", ".glob", ".vos", ".vok", ".aux"):
            try:
                os.remove(base + ext)
            except FileNotFoundError:
                pass
        try:
            os.remove(os.path.join(os.path.dirname(p), "." + os.path.basename(base) + ".aux"))
        except FileNotFoundError:
            pass
    return sorted(failing), len(files), errors


def eval_exprs(tag, imports, defs, exprs, timeout=600):
    """Evaluate arbitrary Gallina expressions with vm_compute and return their printed values (strings)."""
    os.makedirs(LIVE, exist_ok=True)
    p = os.path.join(LIVE, "eval_%s.v" % tag)
    with open(p, "w") as fh:
        fh.write("From Coq Require Import PrimFloat List Bool ZArith.\nImport ListNotations.\n")
        for im in imports:
            fh.write(im + "\n")
        fh.write("Local Open Scope float_scope.\n")
        for d in defs:
            fh.write(d + "\n")
        for i, e in enumerate(exprs):
            fh.write("Definition e%d := %s.\nEval vm_compute in e%d.\n" % (i, e, i))
    rc, out = coqc_file(p, timeout=timeout)
    for ext in (".vo", ".glob", ".vos", ".vok"):
        try:
            os.remove(p[:-2] + ext)
        except FileNotFoundError:
            pass
    if rc != 0:
        raise RuntimeError("coqc failed on %s:\n%s" % (p, out[-3000:]))
    vals = re.findall(r"^\s+=\s(.*?)\n\s+:\s", out, re.S | re.M)
    return [re.sub(r"\s+", " ", v) for v in vals]


# ----------------------------------------------------------------------------- findings / evidence
def load_known():
    p = os.path.join(VERIF, "KNOWN_FINDINGS.json")
    if not os.path.exists(p):
        return {"known": [], "fixed": []}
    return json.load(open(p))


class Check:
    """Accumulates the outcome of one check run and writes evidence + the VIOLATION lines."""

    def __init__(self, pid, level, argv=None):
        self.pid = pid
        self.level = level
        self.t0 = time.time()
        self.tier = os.environ.get("VERIF_TIER", "quick")
        self.replay = None
        argv = list(argv or [])
        while argv:
            a = argv.pop(0)
            if a == "--tier":
                self.tier = argv.pop(0)
            elif a == "--replay":
                self.replay = argv.pop(0)
        if self.tier not in ("quick", "thorough"):
            self.tier = "quick"
        try:
            self.seed = int(os.environ.get("VERIF_SEED", "20260925"))
        except ValueError:
            self.seed = 20260925
        self.rng = random.Random(self.seed * 1000003 + int(hashlib.sha1(pid.encode()).hexdigest()[:6], 16))
        import numpy as np
        self.nprng = np.random.default_rng(self.rng.getrandbits(63))
        self.cov = dict(obligations=0, discharged=0, checker_cmd="", trusted_base=[], evaluations=0,
                        distinct_nontrivial=0, rule="", samples=[], traces_validated_against_impl=0)
        self.assumptions = []
        self.violations = []      # (signature, replay_path, note)
        self.known_hits = []
        self.hist = {}
        self.notes = []
        self.known = load_known()
        self._distinct = set()
        os.makedirs(EVID, exist_ok=True)
        os.makedirs(REPLAYS, exist_ok=True)

    def q(self, quick, thorough):
        return thorough if self.tier == "thorough" else quick

    # --- proof stage
    def proofs(self, extra_trusted=()):
        bad = audit_sources()
        res = build_props(self.pid)
        self.cov["obligations"] = res["obligations"]
        self.cov["discharged"] = res["discharged"]
        self.cov["checker_cmd"] = res["checker_cmd"]
        tb = ["Coq 8.16.1 kernel (coqc), vm_compute"] + ["axiom: " + a for a in res["axioms"]] + list(extra_trusted)
        self.cov["trusted_base"] = tb
        self.cov["theorems"] = res["theorems"]
        if bad:
            self.fail_obligation("source-audit", "forbidden declarations in coq/: " + "; ".join(bad[:5]))
        if not res["ok"]:
            self.fail_obligation("proofs:" + res.get("failed_at", "Props/%s.v" % self.pid), res["output"][-3000:])
        return res

    def fail_obligation(self, what, detail):
        """A theorem or a correspondence no longer checks and no concrete failing input is known (yet)."""
        self.violation("broken:" + what, dict(kind="broken-obligation", what=what, detail=detail), no_input=True)

    # --- counting
    def count(self, key, val=1):
        self.hist[key] = self.hist.get(key, 0) + val

    def case(self, descr, nontrivial=True):
        """Register one explored case.  descr must be hashable-by-json."""
        self.cov["evaluations"] += 1
        if nontrivial:
            h = hashlib.sha1(json.dumps(descr, sort_keys=True, default=str).encode()).hexdigest()
            self._distinct.add(h)
        if len(self.cov["samples"]) < 5:
            self.cov["samples"].append(descr)

    # --- violations
    def violation(self, signature, replay, no_input=False):
        for k in self.known.get("known", []):
            if k.get("property") == self.pid and k.get("signature") == signature:
                if signature not in self.known_hits:
                    self.known_hits.append(signature)
                    print("KNOWN-FINDING: property=%s %s" % (self.pid, k.get("what", signature)))
                return
        if any(v[0] == signature for v in self.violations):
            return
        n = len(self.violations)
        path = os.path.join(REPLAYS, "%s-%d-%d.json" % (self.pid, self.seed, n))
        replay = dict(replay)
        replay.update(property=self.pid, seed=self.seed, tier=self.tier, signature=signature)
        with open(path, "w") as fh:
            json.dump(replay, fh, indent=1, default=_jsonable)
        self.violations.append((signature, path, no_input))
        tail = " no-failing-input-found" if no_input else ""
        print("VIOLATION property=%s replay=%s%s" % (self.pid, path, tail))
        sys.stdout.flush()

    def finish(self, rule, explanation=None, extra=None):
        self.cov["distinct_nontrivial"] = len(self._distinct)
        self.cov["rule"] = rule
        self.cov["histogram"] = self.hist
        if explanation:
            self.cov["explanation"] = explanation
        if extra:
            self.cov.update(extra)
        if self.notes:
            self.cov["notes"] = self.notes
        ev = dict(property_id=self.pid, tier=self.tier, seed=self.seed, level=self.level, coverage=self.cov,
                  assumptions=self.assumptions, wall_s=round(time.time() - self.t0, 2),
                  violations=len(self.violations), known_findings_seen=self.known_hits)
        with open(os.path.join(EVID, self.pid + ".json"), "w") as fh:
            json.dump(ev, fh, indent=1, default=_jsonable)
        # a fix that is listed as 'fixed' suppresses nothing; a known finding that no longer reproduces is only noted
        print("%s: %s  obligations=%d discharged=%d evaluations=%d distinct=%d wall=%.1fs" % (
            self.pid, "FAIL" if self.violations else "ok", self.cov["obligations"], self.cov["discharged"],
            self.cov["evaluations"], self.cov["distinct_nontrivial"], time.time() - self.t0))
        return 1 if self.violations else 0


def _jsonable(o):
    import numpy as np
    if isinstance(o, np.ndarray):
        return o.tolist()
    if isinstance(o, (np.floating,)):
        return float(o)
    if isinstance(o, (np.integer,)):
        return int(o)
    if isinstance(o, (np.bool_,)):
        return bool(o)
    if isinstance(o, slice):
        return [o.start, o.stop]
    if callable(o):
        return "<callable>"
    return str(o)


def close(a, b, rtol=1e-9, atol=1e-12):
    import numpy as np
    a = np.asarray(a, dtype=float)
    b = np.asarray(b, dtype=float)
    if a.shape != b.shape:
        return False
    return bool(np.all((np.abs(a - b) <= atol + rtol * np.abs(b)) | ((a != a) & (b != b)) | (a == b)))
