"""Helpers that drive the real MachUpX API and flatten its results for comparison."""
import copy, math, warnings
import numpy as np
from harness import gen

ALL_FRAMES = dict(body_frame=True, stab_frame=True, wind_frame=True)


def flatten(d, prefix=""):
    out = {}
    if isinstance(d, dict):
        for k, v in d.items():
            out.update(flatten(v, prefix + "/" + str(k) if prefix else str(k)))
    elif isinstance(d, (list, tuple, np.ndarray)):
        for i, v in enumerate(d):
            out.update(flatten(v, "%s[%d]" % (prefix, i)))
    else:
        out[prefix] = d
    return out


def _load_class(k):
    """'F' / 'M' / 'C' for force, moment and coefficient entries of a solve_forces-like dictionary, else None"""
    for part in reversed(k.split("/")):
        if part and part != "total" and not part.endswith(("_left", "_right")):
            return part[0] if part[0] in "FMC" and (len(part) == 2 or "_" in part or part in ("FL", "FD", "FS", "CL", "CD", "CS")) else None
    return None


def compare(a, b, rtol=1e-6, atol=1e-8, skip=(), scale_atol=0.0):
    """Compare two flattened result dicts; returns list of (key, a, b) that differ (incl. missing keys).
    scale_atol adds an absolute tolerance relative to the largest force / moment / coefficient in the dictionaries, so that
    components that are small only through cancellation are compared at the accuracy of the loads they are differences of."""
    fa, fb = flatten(a), flatten(b)
    bad = []
    cls_max = {}
    if scale_atol:
        for f in (fa, fb):
            for k, v in f.items():
                c = _load_class(k)
                if c and isinstance(v, (int, float, np.floating)) and math.isfinite(float(v)):
                    cls_max[c] = max(cls_max.get(c, 0.0), abs(float(v)))
    for k in sorted(set(fa) | set(fb)):
        if any(s in k for s in skip):
            continue
        if k not in fa or k not in fb:
            bad.append((k, fa.get(k, "<missing>"), fb.get(k, "<missing>")))
            continue
        x, y = fa[k], fb[k]
        if isinstance(x, (int, float, np.floating)) and isinstance(y, (int, float, np.floating)):
            x, y = float(x), float(y)
            if x != x and y != y:
                continue
            if not (abs(x - y) <= atol + rtol * max(abs(x), abs(y)) + scale_atol * cls_max.get(_load_class(k), 0.0)):
                bad.append((k, x, y))
        elif x != y:
            bad.append((k, x, y))
    return bad


def all_finite(d):
    return all((not isinstance(v, float)) or math.isfinite(v) for v in flatten(d).values())


def solve(sc, **kw):
    opts = dict(ALL_FRAMES)
    opts.update(kw)
    return copy.deepcopy(sc.solve_forces(**opts))


BODY_DIST_KEYS = ("span_frac", "chord", "swept_chord", "twist", "dihedral", "sweep", "aero_sweep", "area", "alpha",
                  "delta_flap", "u", "v", "w", "Re", "M", "q", "section_CL", "section_Cm", "section_parasitic_CD",
                  "section_aL0", "Fx", "Fy", "Fz", "Mx", "My", "Mz", "circ", "CD_i")


def body_dist(sc):
    d = sc.distributions()
    return {a: {s: {k: list(map(float, v[k])) for k in BODY_DIST_KEYS} for s, v in segs.items()} for a, segs in d.items()}


def aircraft_state(sc, name):
    a = sc._airplanes[name]
    return dict(v=np.array(a.v, dtype=float).tolist(), w=np.array(a.w, dtype=float).tolist(),
                p=np.array(a.p_bar, dtype=float).tolist(), q=np.array(a.q, dtype=float).tolist(),
                rate_frame=getattr(a, "angular_rate_frame", "body"),        # part of the state: selects the axes of the damping derivatives
                controls={k: float(v) if not isinstance(v, (list, np.ndarray)) else v for k, v in a.current_control_state.items()},
                delta_flap={s.name: np.array(s._delta_flap, dtype=float).tolist() for s in a.segments})


def quat_mult(a, b):
    return [a[0]*b[0]-a[1]*b[1]-a[2]*b[2]-a[3]*b[3], a[0]*b[1]+a[1]*b[0]+a[2]*b[3]-a[3]*b[2],
            a[0]*b[2]-a[1]*b[3]+a[2]*b[0]+a[3]*b[1], a[0]*b[3]+a[1]*b[2]-a[2]*b[1]+a[3]*b[0]]


def quat_inv_rot(q, v):
    """Independent (matrix form) body->earth rotation for unit q; used by the sweeps as an oracle."""
    q0, q1, q2, q3 = q
    R = np.array([[q0*q0+q1*q1-q2*q2-q3*q3, 2*(q1*q2-q0*q3), 2*(q1*q3+q0*q2)],
                  [2*(q1*q2+q0*q3), q0*q0-q1*q1+q2*q2-q3*q3, 2*(q2*q3-q0*q1)],
                  [2*(q1*q3-q0*q2), 2*(q2*q3+q0*q1), q0*q0-q1*q1-q2*q2+q3*q3]])
    return R @ np.asarray(v, dtype=float)


def rand_unit_quat(rng):
    q = [rng.gauss(0, 1) for _ in range(4)]
    n = math.sqrt(sum(x*x for x in q))
    return [x/n for x in q]


def euler_to_quat_deg(E):
    p, t, s = [math.radians(x)/2 for x in E]
    cp, sp, ct, st, cs, ss = math.cos(p), math.sin(p), math.cos(t), math.sin(t), math.cos(s), math.sin(s)
    return [cp*ct*cs+sp*st*ss, sp*ct*cs-cp*st*ss, cp*st*cs+sp*ct*ss, cp*ct*ss-sp*st*cs]


def quat_to_euler_deg(q):
    q0, q1, q2, q3 = q
    return [math.degrees(math.atan2(2*(q0*q1+q2*q3), q0*q0+q3*q3-q1*q1-q2*q2)),
            math.degrees(math.asin(max(-1.0, min(1.0, 2*(q0*q2-q1*q3))))),
            math.degrees(math.atan2(2*(q0*q3+q1*q2), q0*q0+q1*q1-q2*q2-q3*q3))]


def shrink_list(items, still_fails, max_rounds=50):
    """Greedy delta-debugging on a list."""
    items = list(items)
    changed = True
    rounds = 0
    while changed and rounds < max_rounds:
        changed = False
        rounds += 1
        for i in range(len(items)):
            cand = items[:i] + items[i+1:]
            try:
                if still_fails(cand):
                    items = cand
                    changed = True
                    break
            except Exception:
                pass
    return items


# ------------------------------------------------------------------ analyses table (shared by C08, C09, C10, C11)
def _single(sc):
    return list(sc._airplanes.keys())[0]


ANALYSES = {
    "stability_derivatives": lambda sc, n: sc.stability_derivatives(aircraft=n, **ALL_FRAMES),
    "damping_derivatives": lambda sc, n: sc.damping_derivatives(aircraft=n, **ALL_FRAMES),
    "control_derivatives": lambda sc, n: sc.control_derivatives(aircraft=n, **ALL_FRAMES),
    "state_derivatives": lambda sc, n: sc.state_derivatives(aircraft=n),
    "derivatives": lambda sc, n: sc.derivatives(**ALL_FRAMES),
    "aero_center": lambda sc, n: sc.aero_center(aircraft=n),
    "distributions": lambda sc, n: body_dist(sc),
    "MAC": lambda sc, n: sc.MAC(aircraft=n),
    "reference_geometry": lambda sc, n: list(sc.get_aircraft_reference_geometry(aircraft=n)),
    "pitch_trim_noset": lambda sc, n: sc.pitch_trim(aircraft=n, set_trim_state=False),
    "pitch_trim_orient_noset": lambda sc, n: list(sc.pitch_trim_using_orientation(aircraft=n, set_trim_state=False)),
    "target_CL_noset": lambda sc, n: sc.target_CL(CL=0.4, set_state=False,
                                                  control_state={k: float(v) for k, v in sc._airplanes[n].current_control_state.items()}),
}
# the same analyses for every aircraft of the scene at once / for a list of names / with defaulted arguments
ANALYSES.update({
    "stability_derivatives_all": lambda sc, n: sc.stability_derivatives(**ALL_FRAMES),
    "damping_derivatives_all": lambda sc, n: sc.damping_derivatives(**ALL_FRAMES),
    "control_derivatives_all": lambda sc, n: sc.control_derivatives(**ALL_FRAMES),
    "state_derivatives_all": lambda sc, n: sc.state_derivatives(),
    "aero_center_all": lambda sc, n: sc.aero_center(),
    "derivatives_list": lambda sc, n: sc.derivatives(aircraft=list(sc._airplanes), **ALL_FRAMES),
    "target_CL_noset_default_controls": lambda sc, n: sc.target_CL(CL=0.4, set_state=False),
    # frame selections other than "everything"
    "stability_derivatives_no_wind_frame": lambda sc, n: sc.stability_derivatives(aircraft=n, wind_frame=False),
    "stability_derivatives_stab_only": lambda sc, n: sc.stability_derivatives(aircraft=n, body_frame=False, stab_frame=True, wind_frame=False),
    "damping_derivatives_body_only": lambda sc, n: sc.damping_derivatives(aircraft=n, wind_frame=False),
    "control_derivatives_wind_only": lambda sc, n: sc.control_derivatives(aircraft=n, body_frame=False),
    "derivatives_no_wind_frame": lambda sc, n: sc.derivatives(wind_frame=False, stab_frame=True),
})
MULTI_PREFERRED = ("stability_derivatives_all", "damping_derivatives_all", "control_derivatives_all", "state_derivatives_all", "aero_center_all",
                   "derivatives_list")
SINGLE_ONLY = ("target_CL_noset_default_controls", "pitch_trim_noset", "pitch_trim_orient_noset", "target_CL_noset", "pitch_trim", "pitch_trim_orient", "target_CL")
