"""C04 — mirror symmetry: reflected aircraft and state give reflected loads."""
import math, copy, json
import numpy as np
from harness import common, gen, api

LEVEL = "proof"
EVEN = ("Fx", "Fz", "My", "Cx", "Cz", "Cm", "FL", "FD", "CL", "CD", "My_w", "Cm_w", "Fx_s", "Fz_s", "My_s", "Cx_s", "Cz_s", "Cm_s")
ODD = ("Fy", "Mx", "Mz", "Cy", "Cl", "Cn", "FS", "CS", "Mx_w", "Mz_w", "Cl_w", "Cn_w", "Fy_s", "Mx_s", "Mz_s", "Cy_s", "Cl_s", "Cn_s")


def mirror_aircraft(ac):
    m = copy.deepcopy(ac)
    m["CG"] = [ac["CG"][0], -ac["CG"][1], ac["CG"][2]]
    for w in m["wings"].values():
        s = w.get("side", "both")
        w["side"] = {"left": "right", "right": "left", "both": "both"}[s]
        c = w.get("connect_to")
        if c and "dy" in c:
            c["dy"] = -c["dy"]
    return m


def rename_wings(ac):
    """wing names are the user's: they may well contain the words the code uses for the two sides"""
    ren = {"main_wing": "port_left_main", "h_stab": "bright_tail", "outer": "upright_outer", "winglet": "left_right_winglet", "v_stab": "fin_left",
           "canard": "canard_right_fore"}
    ac["wings"] = {ren.get(k, k): v for k, v in ac["wings"].items()}
    return ac


def mirror_state(st):
    m = copy.deepcopy(st)
    if isinstance(st["velocity"], list):
        m["velocity"] = [st["velocity"][0], -st["velocity"][1], st["velocity"][2]]
    else:
        m["beta"] = -st.get("beta", 0.0)
    if "angular_rates" in st:
        p, q, r = st["angular_rates"]
        m["angular_rates"] = [-p, q, -r]
    if "orientation" in st:
        o = st["orientation"]
        m["orientation"] = [-o[0], o[1], -o[2]] if len(o) == 3 else [o[0], -o[1], o[2], -o[3]]
    if "position" in st:
        m["position"] = [st["position"][0], -st["position"][1], st["position"][2]]
    return m


def mirror_controls(ac, cs):
    return {k: (v if ac["controls"][k].get("is_symmetric", True) else -v) for k, v in cs.items()}


def check_geometry_mirror(a, b):
    """H_geom_mirror: the body-frame arrays of the mirrored aircraft are the mirror image of the original's"""
    Mv = np.array([1.0, -1.0, 1.0])

    def key(P):
        return tuple(np.round(P, 7))
    if a.N != b.N:
        return "N differs"
    ia = sorted(range(a.N), key=lambda i: key(a.PC[i] * Mv))
    ib = sorted(range(b.N), key=lambda i: key(b.PC[i]))
    for i, j in zip(ia, ib):
        if not np.allclose(a.PC[i] * Mv, b.PC[j], atol=1e-9):
            return "control points are not mirror images"
        if not (np.allclose(a.P0[i] * Mv, b.P1[j], atol=1e-9) and np.allclose(a.P1[i] * Mv, b.P0[j], atol=1e-9)):
            return "vortex nodes are not swapped mirror images"
        if not (np.allclose(a.P0_joint[i] * Mv, b.P1_joint[j], atol=1e-9) and np.allclose(a.P1_joint[i] * Mv, b.P0_joint[j], atol=1e-9)):
            return "joints are not swapped mirror images"
        if not (np.allclose(a.u_a[i] * Mv, b.u_a[j], atol=1e-9) and np.allclose(a.u_n[i] * Mv, b.u_n[j], atol=1e-9) and np.allclose(-a.u_s[i] * Mv, b.u_s[j], atol=1e-9)):
            return "section unit vectors are not mirror images (u_s reversed)"
        if not (abs(a.dS[i] - b.dS[j]) < 1e-10 and abs(a.c_bar[i] - b.c_bar[j]) < 1e-10):
            return "section area / chord differ"
        for k in range(a.N):
            kk = ib[ia.index(k)]
            if not (np.allclose(a.P0_eff[i, k] * Mv, b.P1_eff[j, kk], atol=1e-9) and np.allclose(a.P0_joint_eff[i, k] * Mv, b.P1_joint_eff[j, kk], atol=1e-9)):
                return "effective lifting line (Reid) is not the mirror image"
    return None


def compare_mirror(fa, fb, name="a"):
    bad = []
    for part in ("inviscid", "viscous", "total"):
        for k in EVEN + ODD:
            if part == "total":
                x, y = fa[name][part].get(k), fb[name][part].get(k)
            else:
                x, y = fa[name][part].get(k, {}).get("total"), fb[name][part].get(k, {}).get("total")
            if x is None or y is None:
                continue
            exp = x if k in EVEN else -x
            scale = 1e-6 * max(abs(x), abs(y)) + 1e-7 * (1.0 + (abs(fa[name]["total"].get("FL", 0.0)) if k[0] in "FM" else 0.0))
            if not abs(y - exp) <= scale:
                bad.append((part + "/" + k, x, y))
    return bad


def run(chk):
    MX = common.setup_env()
    chk.proofs(extra_trusted=[
        "H_geom_mirror (the body-frame arrays generated for the mirrored description are the mirror image with reversed node order) is validated "
        "on the live Airplane arrays of every generated pair, including the Reid effective lifting lines",
        "sweep: solve_forces / distributions of (aircraft, state, controls) vs the mirrored triple in all frames"])
    rng = chk.rng
    n = chk.q(100, 400)
    fin_axis_done = False
    for it in range(n):
        kind = rng.choice(["general", "general", "symmetric", "fin"])
        sd = gen.gen_scene(rng, chk.hist, rho="const", wind=False)
        if kind == "fin":
            ac = gen.simple_wing_aircraft(N=4, reid=rng.random() < 0.5)
            # a symmetric section: with camber the left-hand description is the mirror-image fin, not the same one
            ac["airfoils"]["sym"] = {"type": "linear", "aL0": 0.0, "CLa": 6.2, "CmL0": 0.0, "Cma": 0.0, "CD0": 0.006, "CD1": 0.0, "CD2": 0.01,
                                     "geometry": {"NACA": "0010"}}
            ac["wings"]["v_stab"]["airfoil"] = "sym"
            ac["wings"]["v_stab"]["side"] = "right"
            ac["wings"]["v_stab"]["connect_to"] = {"ID": 1, "location": "root", "dx": -3.0, "dz": -0.1}
            ac2 = copy.deepcopy(ac)
            ac2["wings"]["v_stab"]["side"] = "left"          # the same fin described as a left segment
            st = gen.gen_state(rng, chk.hist, ang=5.0, pose=False, rate_frames=("body",))
            cs = {"rudder": 3.0, "elevator": -1.0}
            try:
                fa = api.solve(gen.build_scene(MX, sd, [("a", ac, st, cs)]))
                # rudder is antisymmetric: the left-hand description negates the input in its own (mirrored) section frame,
                # which is the same physical deflection - so the same input must give the same loads
                fb = api.solve(gen.build_scene(MX, sd, [("a", ac2, st, cs)]))
            except Exception as e:
                chk.count("error=" + type(e).__name__)
                continue
            bad = api.compare(fa, fb, rtol=2e-6, atol=2e-7)
            chk.case(dict(kind=kind, it=it), nontrivial=True)
            if bad:
                chk.violation("fin-left-vs-right", dict(kind="mirror", what="fin", scene=sd, aircraft=ac, state=st, differences=bad[:8]))
            continue
        sides = ("both",) if kind == "symmetric" else ("both", "left", "right")
        ac = gen.gen_aircraft(rng, chk.hist, max_wings=3, sides=sides, allow_fin=(kind != "symmetric"), qc_points_p=0.2)
        if it % 3 == 1:
            ac = rename_wings(ac)
            chk.count("wing-names-with-side-words")
        if it == 4:
            # an outer panel at the tip of the inner one with a lateral gap (y_offset), general corrections on: the grouping of segments into
            # lifting lines must come out the same on both sides
            af_ = next(iter(ac["airfoils"]))
            side_ = "both" if kind == "symmetric" else rng.choice(["left", "right"])
            ac["wings"] = {"inner": {"ID": 1, "side": side_, "is_main": True, "semispan": 3.0, "chord": 1.0, "sweep": 10.0, "airfoil": af_, "grid": {"N": 4, "reid_corrections": True}},
                           "outer": {"ID": 2, "side": side_, "is_main": True, "semispan": 1.2, "chord": 0.8, "sweep": 10.0, "dihedral": 8.0, "airfoil": af_,
                                     "connect_to": {"ID": 1, "location": "tip", "y_offset": 0.3}, "grid": {"N": 3, "reid_corrections": True}}}
            ac["controls"] = {}
            chk.count("forced=tip-connection-with-gap")
        if it >= 5 and kind == "general" and not fin_axis_done:
            fin_axis_done = True
            # a ventral fin given by its tip point, running from below the keel up to the body x-axis: its tip is at distance zero from the axis
            af_ = next(iter(ac["airfoils"]))
            ac["wings"] = {"wing": {"ID": 1, "side": "both", "is_main": True, "semispan": 3.0, "chord": 1.0, "airfoil": af_, "grid": {"N": 4}},
                           "ventral": {"ID": 2, "side": "left", "is_main": False, "quarter_chord_locs": [[-0.1, 0.0, -0.5]], "chord": 0.6, "airfoil": af_,
                                       "connect_to": {"ID": 0, "dx": -2.5, "dz": 0.5}, "grid": {"N": 3}}}
            ac["controls"] = {}
            chk.count("forced=fin-tip-on-axis")
        if it == 1:
            # a right-hand chain whose names contain "_left", whatever was drawn
            af_ = next(iter(ac["airfoils"]))
            ac["wings"] = {"port_left_inner": {"ID": 1, "side": "right", "is_main": True, "semispan": 3.0, "chord": 1.0, "sweep": 20.0, "airfoil": af_, "grid": {"N": 4}},
                           "port_left_outer": {"ID": 2, "side": "right", "is_main": True, "semispan": 1.0, "chord": 0.8, "sweep": 20.0, "dihedral": 20.0, "airfoil": af_,
                                               "connect_to": {"ID": 1, "location": "tip"}, "grid": {"N": 3}}}
            ac["controls"] = {}
        if kind == "symmetric":
            ac["CG"][1] = 0.0
            for w in ac["wings"].values():
                if w.get("side") != "both":
                    w["side"] = "both"
            st = gen.gen_state(rng, chk.hist, ang=5.0, pose=False, rate_frames=("body",))
            if isinstance(st["velocity"], list):
                st["velocity"][1] = 0.0
            else:
                st["beta"] = 0.0
            if "angular_rates" in st:
                st["angular_rates"] = [0.0, st["angular_rates"][1], 0.0]
            cs = {k: v for k, v in gen.gen_controls(rng, ac).items() if ac["controls"][k]["is_symmetric"]}
        else:
            st = gen.gen_state(rng, chk.hist, ang=6.0, pose=rng.random() < 0.5, rate_frames=("body",))
            cs = gen.gen_controls(rng, ac)
        ac2, st2, cs2 = mirror_aircraft(ac), mirror_state(st), mirror_controls(ac, cs)
        built, errs_ = [], []
        for d_ in ((ac, st, cs), (ac2, st2, cs2)):
            try:
                built.append(gen.build_scene(MX, sd, [("a",) + d_]))
                errs_.append(None)
            except Exception as e:
                built.append(None)
                errs_.append("%s: %s" % (type(e).__name__, str(e)[:150]))
        if errs_[0] is not None and errs_[1] is not None:
            chk.count("error=" + errs_[0].split(":")[0])
            continue
        if errs_[0] is not None or errs_[1] is not None:
            # a description that can be built must have a mirror image that can be built
            chk.case(dict(kind=kind, it=it, one_sided_build=True), nontrivial=True)
            chk.violation("build:one-side-only", dict(kind="mirror", what="one of the two mirror-image descriptions cannot be built", scene=sd, aircraft=ac,
                                                      mirrored_aircraft=ac2, errors=errs_))
            continue
        sa, sb = built
        g = check_geometry_mirror(sa._airplanes["a"], sb._airplanes["a"])
        chk.case(dict(kind=kind, sides=[w.get("side") for w in ac["wings"].values()], reid=[w["grid"].get("reid_corrections") for w in ac["wings"].values()], it=it),
                 nontrivial=any(w.get("side") != "both" for w in ac["wings"].values()) or kind == "symmetric")
        chk.count("kind=" + kind)
        if g:
            chk.violation("geometry:" + g.split()[0], dict(kind="mirror", what="H_geom_mirror: " + g, scene=sd, aircraft=ac))
            continue
        try:
            fa, fb = api.solve(sa), api.solve(sb)
        except Exception as e:
            if type(e).__name__ == "SolverNotConvergedError":
                chk.count("nonconverged")
                continue
            chk.violation("raises", dict(kind="mirror", scene=sd, aircraft=ac, state=st, error=repr(e)))
            continue
        bad = compare_mirror(fa, fb)
        if bad:
            chk.violation("loads:%s" % bad[0][0].split("/")[1], dict(kind="mirror", scene=sd, aircraft=ac, state=st, controls=cs, mirrored_state=st2,
                                                                   mirrored_controls=cs2, differences=bad[:8]))
            continue
        if kind == "symmetric":
            L = abs(fa["a"]["total"]["FL"]) + 1e-9
            for k in ("Fy", "Mx", "Mz"):
                if abs(fa["a"]["total"][k]) > 1e-7 * L * (1 if k == "Fy" else 10):
                    chk.violation("symmetric:%s" % k, dict(kind="mirror", scene=sd, aircraft=ac, state=st, controls=cs, value=fa["a"]["total"][k], lift=L))
            d = api.body_dist(sa)["a"]
            for wn in ac["wings"]:
                l, r_ = d.get(wn + "_left"), d.get(wn + "_right")
                if l and r_:
                    for key, sgn in (("circ", 1), ("section_CL", 1), ("Fz", 1), ("Fx", 1), ("Fy", -1), ("alpha", 1)):
                        if not np.allclose(np.array(l[key])[::-1], sgn * np.array(r_[key]), rtol=1e-6, atol=1e-7 * (1 + np.max(np.abs(r_[key])))):
                            chk.violation("symmetric-distribution:%s" % key, dict(kind="mirror", scene=sd, aircraft=ac, state=st, wing=wn, key=key))
    return chk.finish(rule="generated aircraft (one-sided and two-sided segments, y offsets, chains, winglets, Reid on/off) with random state and controls vs "
                           "the mirrored description/state/controls: live geometry arrays mirror each other; loads in body, stability and wind frames; "
                           "laterally symmetric cases; a fin described as left or right segment")


def replay(chk, path):
    print(json.dumps(json.load(open(path)), indent=1, default=str)[:3000])
    return 0
