"""C15 — control inputs map to section flap deflections exactly as documented."""
import math, copy, json
import numpy as np
from harness import common, gen, api
from harness.common import fhex, flist, cbool

LEVEL = "proof"
IMPORTS = ["From MuxV Require Import Base.Num Base.FInst Base.Interp Model.Controls Model.ControlsF."]


def coq_input(val, cps=None):
    if callable(val):
        # a function of span: its values at the control points, looked up by the span fraction (evaluated on the array, as the code does)
        cps = np.array(cps, dtype=float)
        vals = np.array(val(cps), dtype=float) * np.ones(len(cps))
        return "(CFun (olookup [%s]))" % "; ".join("(%s, %s)" % (fhex(float(c_)), fhex(float(v_))) for c_, v_ in zip(cps, vals))
    if isinstance(val, np.ndarray):
        return "(CTable [%s])" % "; ".join("(%s, %s)" % (fhex(r[0]), fhex(r[1])) for r in val)
    return "(CConst %s)" % fhex(val)


def rand_aircraft(rng, hist):
    ac = gen.gen_aircraft(rng, hist, max_wings=3, sides=("both", "both", "left", "right"), N=rng.randint(3, 7))
    # make sure several controls act on one surface and one control on several surfaces
    names = list(ac["controls"])
    for w in ac["wings"].values():
        if "control_surface" not in w and rng.random() < 0.7:
            w["control_surface"] = gen.gen_control_surface(rng, hist, names)
    # a control declared without "is_symmetric" is a symmetric one (the default of the implementation; the generator otherwise always
    # writes the flag)
    for c, v in ac["controls"].items():
        if v.get("is_symmetric", True) and rng.random() < 0.5:
            v.pop("is_symmetric", None)
            gen._tally(hist, "is_symmetric", "left to the default")
    return ac


def rand_setting(rng, ac, seg_windows):
    cs = {}
    for c in ac["controls"]:
        k = rng.random()
        if k < 0.25:
            continue
        if k < 0.6:
            cs[c] = round(rng.uniform(-25, 25), 3)
        elif k < 0.75:
            cs[c] = [round(rng.uniform(-0.4, 0.4), 4), "rad"]
        elif k < 0.85:
            cs[c] = rng.randint(-10, 10)
        else:
            cs[c] = None     # placeholder for a spanwise table (filled per surface window below when unique)
    # spanwise tables must span exactly [root, tip] of every surface mixing that control: only use when there is one such window
    for c in list(cs):
        if cs[c] is None:
            wins = set(seg_windows.get(c, []))
            if len(wins) == 1:
                r, t = list(wins)[0]
                m = round(r + (t - r) * rng.uniform(0.3, 0.7), 3)
                cs[c] = [[r, round(rng.uniform(-10, 10), 2)], [m, round(rng.uniform(-10, 10), 2)], [t, round(rng.uniform(-10, 10), 2)]]
            else:
                cs[c] = round(rng.uniform(-10, 10), 2)
    return cs



def surface_spec(ac, seg):
    """root/tip span, saturation [rad], mixing and symmetry of a segment's control surface, read from the aircraft INPUT dictionary
    (not from the live object: a slip in how the code stores them must show)"""
    w = ac["wings"][seg.name.rsplit("_", 1)[0]]
    c = w["control_surface"]
    mixing = dict(c.get("control_mixing", {}))
    sym = {k: bool(ac["controls"][k].get("is_symmetric", True)) for k in mixing}
    return float(c.get("root_span", 0.0)), float(c.get("tip_span", 1.0)), float(np.radians(c.get("saturation_angle", np.inf))), mixing, sym

def seg_cases(MX, H, sc, name, cs, cases, descr, chk, ac):
    """one bit-exact case per segment of the aircraft for the current control setting"""
    a = sc._airplanes[name]
    for seg in a.segments:
        if not seg._has_control_surface:
            if np.any(seg._delta_flap != 0.0):
                chk.violation("no-surface-but-deflected", dict(kind="controls", segment=seg.name))
            continue
        root, tip, sat, mixing, sym = surface_spec(ac, seg)
        mx = []
        for key in mixing:
            d = H.import_value(key, cs, a._unit_sys, 0.0)
            mx.append("(%s, %s, %s)" % (cbool(sym[key]), fhex(float(mixing[key])), coq_input(d, seg.cp_span_locs)))
        cases.append("chk_delta %s %s %s %s %s [%s] %s %s" % (fhex(np.pi / 180.0), cbool(seg.side == "left"), fhex(root),
                                                             fhex(tip), fhex(sat), "; ".join(mx), flist(seg.cp_span_locs),
                                                             flist(seg._delta_flap)))
        descr.append(dict(what="delta_flap", segment=seg.name, setting=cs))
        cf = seg._getter_data["flap_chord_fraction"]
        cases.append("chk_cf %s %s %s %s %s" % (fhex(root), fhex(tip), coq_input(cf if isinstance(cf, np.ndarray) else float(cf)),
                                                flist(seg.cp_span_locs), flist(seg._cp_c_f)))
        descr.append(dict(what="flap_fraction", segment=seg.name))
        chk.count("side=" + seg.side)
        chk.count("n_mixed=%d" % len(mixing))
        chk.count("saturation=%s" % (sat < 1e9))


def independent_delta(a, seg, cs, H, ac):
    """the documented mapping, written independently"""
    out = np.zeros(seg.N)
    root, tip, sat, mixing, sym = surface_spec(ac, seg)
    for i, s in enumerate(seg.cp_span_locs):
        if not (root <= s <= tip):
            continue
        tot = 0.0
        for key, mix in mixing.items():
            v = cs.get(key, 0.0)
            if isinstance(v, list) and v and isinstance(v[0], list):
                xs, ys = [r[0] for r in v], [r[1] for r in v]
                u = float(np.interp(s, xs, ys))
            elif callable(v):
                u = float(v(np.array([s]))[0])
            elif isinstance(v, list):
                u = math.degrees(v[0]) if v[1] == "rad" else float(v[0])
            else:
                u = float(v)
            sgn = -1.0 if (seg.side == "left" and not sym[key]) else 1.0
            tot += sgn * mix * u
        out[i] = max(-sat, min(sat, math.radians(tot)))
    return out


def unit_control(chk, MX):
    """a deflection given with a unit is the converted number: for the surfaces, for the recorded control state and for the analyses that
    perturb the recorded value"""
    rng = chk.rng
    ac = gen.simple_wing_aircraft(N=3)
    sd = {"solver": {"type": "nonlinear"}, "scene": {"atmosphere": {"rho": 0.0023769}}}
    st = {"velocity": 100.0, "alpha": 3.0}
    val = round(rng.uniform(-0.12, 0.12), 4)
    try:
        a = gen.build_scene(MX, sd, [("a", ac, st, {"elevator": [val, "rad"], "aileron": 2.0})])
        b = gen.build_scene(MX, sd, [("a", ac, st, {"elevator": math.degrees(val), "aileron": 2.0})])
        ra, rb = a.control_derivatives()["a"], b.control_derivatives()["a"]
        ta, tb = a.pitch_trim(set_trim_state=False)["a"], b.pitch_trim(set_trim_state=False)["a"]
    except Exception as e:
        if type(e).__name__ in ("SolverNotConvergedError", "MaxIterationError"):
            chk.count("unit-control-nonconverged")
            return
        chk.violation("unit-control:raises", dict(kind="controls", setting={"elevator": [val, "rad"]}, error=repr(e)))
        return
    chk.case(dict(kind="unit-control"), nontrivial=True)
    bad = api.compare(dict(cd=ra, trim=ta, state=a._airplanes["a"].current_control_state), dict(cd=rb, trim=tb, state=b._airplanes["a"].current_control_state), rtol=2e-6, atol=1e-8)
    if bad:
        chk.violation("unit-control:differs", dict(kind="controls", setting={"elevator": [val, "rad"]}, differences=bad[:6]))


def function_control(chk, MX, H, cases, descr):
    """a control input given as a function of the span fraction (accepted like the functions of twist, sweep ...): the same mapping,
    confined to the control surface; and the deflections listed in degrees are the ones listed in radians"""
    rng = chk.rng
    for k in range(chk.q(2, 10)):
        ac = gen.simple_wing_aircraft(N=rng.randint(4, 8), reid=False)
        ac["wings"]["main_wing"]["control_surface"].update(root_span=round(rng.uniform(0.2, 0.5), 2), tip_span=round(rng.uniform(0.7, 0.95), 2))
        c0, c1 = round(rng.uniform(2, 6), 2), round(rng.uniform(-8, 8), 2)
        cs = {"aileron": (lambda s_, c0=c0, c1=c1: c0 + c1 * s_), "elevator": round(rng.uniform(-5, 5), 2)}
        rep = dict(kind="controls", aircraft=ac, setting={"aileron": "function of span: %r + %r*s [deg]" % (c0, c1), "elevator": cs["elevator"]})
        chk.case(dict(kind="function-control", k=k), nontrivial=True)
        chk.count("setting=function-of-span")
        try:
            sc = gen.build_scene(MX, {"scene": {"atmosphere": {"rho": 0.0023769}}}, [("a", ac, {"velocity": 80.0, "alpha": 2.0}, {})])
            sc.set_aircraft_control_state(control_state=cs)
            a = sc._airplanes["a"]
            seg_cases(MX, H, sc, "a", cs, cases, descr, chk, ac)          # (Model/Controls.v with a CFun input, bit for bit)
            for seg in a.segments:
                if seg._has_control_surface:
                    exp = independent_delta(a, seg, cs, H, ac)
                    if not np.allclose(seg._delta_flap, exp, rtol=1e-6, atol=1e-9):
                        chk.violation("mapping-function:%s" % seg.side, dict(rep, segment=seg.name, got=np.array(seg._delta_flap).tolist(), expected=exp.tolist()))
            dr, dd = sc.distributions(), sc.distributions(radians=False)
            for seg in a.segments:
                if not np.allclose(np.radians(dd["a"][seg.name]["delta_flap"]), dr["a"][seg.name]["delta_flap"], rtol=1e-9, atol=1e-12) or \
                        not np.allclose(dr["a"][seg.name]["delta_flap"], seg._delta_flap, rtol=1e-12, atol=0.0):
                    chk.violation("distributions-delta_flap-degrees", dict(rep, segment=seg.name, degrees=list(map(float, dd["a"][seg.name]["delta_flap"])),
                                                                           radians=list(map(float, dr["a"][seg.name]["delta_flap"]))))
        except Exception as e:
            chk.violation("function-control-raises", dict(rep, error=repr(e)))


def caller_table(chk, MX, H):
    """a deflection table handed over as the caller's own NumPy array: the recorded control state is the aircraft's own copy"""
    rng = chk.rng
    for k in range(chk.q(2, 6)):
        ac = gen.simple_wing_aircraft(N=4, reid=False)
        tbl = np.array([[0.0, round(rng.uniform(-4, 4), 2)], [1.0, round(rng.uniform(-4, 4), 2)]])
        keep = tbl.copy()
        rep = dict(kind="controls", aircraft=ac, setting={"elevator": keep.tolist()})
        chk.case(dict(kind="caller-table", k=k), nontrivial=True)
        chk.count("setting=caller-owned-table")
        try:
            sc = gen.build_scene(MX, {"scene": {"atmosphere": {"rho": 0.0023769}}}, [("a", ac, {"velocity": 80.0, "alpha": 2.0}, {})])
            sc.set_aircraft_control_state(control_state={"elevator": tbl})
            before = sc.solve_forces()["a"]["total"]["Cm"]
            tbl[:, 1] += 3.0                      # the caller goes on using its array
            rec = np.array(sc._airplanes["a"].current_control_state["elevator"], dtype=float)
            sc.control_derivatives()              # a query: re-applies the recorded state
            after = sc.solve_forces()["a"]["total"]["Cm"]
            if not np.array_equal(rec, keep) or abs(after - before) > 1e-9 * max(1.0, abs(before)):
                chk.violation("record-follows-callers-array", dict(rep, recorded=rec.tolist(), Cm_before=before, Cm_after_query=after,
                                                                   what="the recorded deflection table changed with the caller's array"))
        except Exception as e:
            chk.violation("caller-table-raises", dict(rep, error=repr(e)))


def listed_aircraft(chk, MX, H):
    """several aircraft listed in the scene input, some with a "control_state" and some without (documented: all deflections zero then): every
    aircraft's sections carry the mapping of its own control inputs"""
    rng = chk.rng
    for k in range(chk.q(2, 8)):
        acs, listed = {}, {}
        for j, nm in enumerate(("lead", "second", "third")[:2 + k % 2]):
            ac = gen.simple_wing_aircraft(N=3, reid=False, b=rng.choice([3.0, 4.0]))
            cs = {"elevator": round(rng.uniform(-8, 8), 2), "aileron": round(rng.uniform(2, 8), 2)} if (j + k) % 2 == 0 else None
            acs[nm] = (ac, cs)
            listed[nm] = {"file": ac, "state": {"velocity": 80.0, "alpha": 2.0, "position": [0.0, 60.0 * j, 0.0]}}
            if cs is not None:
                listed[nm]["control_state"] = cs
        sd = {"solver": {"type": "nonlinear"}, "scene": {"atmosphere": {"rho": 0.0023769}, "aircraft": listed}}
        rep = dict(kind="controls", what="aircraft listed in the scene input", scene={"aircraft": {n_: {"control_state": v_[1]} for n_, v_ in acs.items()}})
        chk.case(dict(kind="listed-aircraft", k=k, with_controls=[n_ for n_, v_ in acs.items() if v_[1] is not None]), nontrivial=True)
        chk.count("setting=listed-in-scene-input")
        try:
            sc = MX.Scene(copy.deepcopy(sd))
            for nm, (ac, cs) in acs.items():
                a = sc._airplanes[nm]
                for seg in a.segments:
                    if seg._has_control_surface:
                        exp = independent_delta(a, seg, cs or {}, H, ac)
                        if not np.allclose(seg._delta_flap, exp, rtol=1e-6, atol=1e-9):
                            chk.violation("mapping-listed:%s" % ("own-controls" if cs else "no-control_state"),
                                          dict(rep, aircraft_name=nm, segment=seg.name, got=np.array(seg._delta_flap).tolist(), expected=exp.tolist()))
        except Exception as e:
            chk.violation("listed-aircraft-raises", dict(rep, error=repr(e)))


def run(chk):
    MX = common.setup_env()
    import machupX.helpers as H
    chk.proofs(extra_trusted=["correspondence: Model/Controls.v on binary64 vs WingSegment._delta_flap and _cp_c_f, bit-exact, after each of a sequence of settings",
                              "unit conversion of the inputs is done by helpers.import_value (modelled in C06)"])
    rng = chk.rng
    cases, descr = [], []
    n = chk.q(25, 250)
    for i in range(n):
        ac = rand_aircraft(rng, chk.hist)
        if i % 8 == 1:
            # control points exactly on the two ends of the control surface (linear spacing, N = 8: control points at (2k+1)/16): the
            # surface covers [root_span, tip_span], both ends included
            ac = gen.simple_wing_aircraft(N=8, reid=False)
            w_ = ac["wings"]["main_wing"]
            w_["grid"] = {"N": 8, "distribution": "linear", "reid_corrections": False}
            w_["control_surface"].update(root_span=3.0 / 16.0, tip_span=11.0 / 16.0)
            chk.count("forced=control-point-on-surface-end")
        sd = gen.gen_scene(rng, chk.hist, rho="const", solver={"type": "nonlinear"})
        st = gen.gen_state(rng, chk.hist, ang=3.0, rates=False)
        try:
            sc = gen.build_scene(MX, sd, [("a", ac, st, {})])
        except Exception as e:
            chk.count("build_error=" + type(e).__name__)
            continue
        a = sc._airplanes["a"]
        wins = {}
        for seg in a.segments:
            if seg._has_control_surface:
                for key in seg._control_mixing:
                    wins.setdefault(key, []).append((float(seg._cntrl_root_span), float(seg._cntrl_tip_span)))
        nset = rng.randint(1, 3)
        for j in range(nset):
            cs = rand_setting(rng, ac, wins)
            try:
                sc.set_aircraft_control_state(control_state=copy.deepcopy(cs))
            except Exception as e:
                chk.violation("set-controls-raises", dict(kind="controls", aircraft=ac, setting=cs, error=repr(e)))
                break
            seg_cases(MX, H, sc, "a", cs, cases, descr, chk, ac)
            # independent statement of the mapping + replacement semantics on the implementation
            for seg in a.segments:
                if seg._has_control_surface:
                    exp = independent_delta(a, seg, cs, H, ac)
                    if not np.allclose(seg._delta_flap, exp, rtol=1e-6, atol=1e-9):
                        chk.violation("mapping:%s" % seg.side, dict(kind="controls", aircraft=ac, setting=cs, segment=seg.name, got=seg._delta_flap, expected=exp))
            for c in a.control_names:
                v = a.current_control_state[c]
                # what is recorded is the value in the default unit (a number, or the table as given), zero for a control that was not named
                expv = H.import_value(c, cs, sd.get("units", "English"), 0.0)
                same = bool(np.allclose(np.asarray(v, dtype=float), np.asarray(expv, dtype=float), rtol=1e-12, atol=0.0)) if np.shape(v) == np.shape(expv) else False
                if not same:
                    chk.violation("replace-semantics", dict(kind="controls", control=c, stored=v, given=cs.get(c, "<missing>")))
            try:
                d = sc.distributions()
            except Exception as e:
                if type(e).__name__ != "SolverNotConvergedError":
                    raise
                chk.count("distributions-nonconverged")        # large generated deflections: not a mapping matter
                d = None
            for seg in (a.segments if d is not None else []):
                if not np.allclose(d["a"][seg.name]["delta_flap"], seg._delta_flap):
                    chk.violation("distributions-delta_flap", dict(kind="controls", segment=seg.name))
            chk.case(dict(n_settings=nset, j=j, setting={k: (v if not isinstance(v, list) else "tbl/unit") for k, v in cs.items()}, i=i),
                     nontrivial=any(np.any(s._delta_flap != 0) for s in a.segments))
    # sign convention: positive symmetric input and positive right antisymmetric input increase the section lift
    ac = gen.simple_wing_aircraft(N=4)
    sc = gen.build_scene(MX, {"scene": {"atmosphere": {"rho": 0.0023769}}}, [("a", ac, {"velocity": 80.0, "alpha": 2.0}, {})])
    base = sc.distributions()["a"]
    for ctrl, seg, sign in (("elevator", "h_stab_right", +1), ("elevator", "h_stab_left", +1), ("aileron", "main_wing_right", +1), ("aileron", "main_wing_left", -1)):
        sc.set_aircraft_control_state({ctrl: 4.0})
        d = sc.distributions()["a"]
        idx = [i for i, x in enumerate(d[seg]["delta_flap"]) if x != 0.0]
        dCL = np.array(d[seg]["section_CL"])[idx] - np.array(base[seg]["section_CL"])[idx]
        if not (idx and np.all(sign * dCL > 0)):
            chk.violation("sign-convention:%s:%s" % (ctrl, seg), dict(kind="controls", control=ctrl, segment=seg, dCL=dCL.tolist()))
    unit_control(chk, MX)
    function_control(chk, MX, H, cases, descr)
    listed_aircraft(chk, MX, H)
    caller_table(chk, MX, H)
    failing, nfiles, errors = common.run_cases("C15", IMPORTS, [], cases)
    chk.cov["traces_validated_against_impl"] = len(cases)
    chk.cov["correspondence_cases"] = len(cases)
    if errors:
        chk.fail_obligation("correspondence:C15(case files do not compile)", "\n".join(errors)[-3000:])
    elif failing and not chk.violations:
        chk.fail_obligation("correspondence:Model/Controls.v:" + descr[failing[0]]["what"], json.dumps(dict(first=descr[failing[0]], n=len(failing)), default=str)[:3000])
    return chk.finish(rule="generated aircraft (1-3 surfaces, left/right/both, several controls per surface and surfaces per control, span windows, "
                           "saturation, constant and tabulated flap fraction) x sequences of 1-3 control settings (degrees, radians by annotation, "
                           "integers, spanwise tables, missing controls); non-trivial = some section actually deflected")


def replay(chk, path):
    print(json.dumps(json.load(open(path)), indent=1, default=str)[:3000])
    return 0
