"""C13 — multi-aircraft scenes: order independence, isolation limit, add/remove identity, selection."""
import math, copy, json, itertools
import numpy as np
from harness import common, gen, api

LEVEL = "proof"


def gen_fleet(chk, n, first_frames=("body",)):
    rng = chk.rng
    acs = []
    for k in range(n):
        ac = gen.gen_aircraft(rng, chk.hist, max_wings=2, N=rng.randint(3, 4), sides=("both", "both", "right"))
        st = gen.gen_state(rng, chk.hist, ang=5.0, pose=True, rate_frames=first_frames if k == 0 else ("body",))
        st["position"] = [rng.uniform(-15, 15), k * rng.uniform(9, 16) - 10, rng.uniform(-8, 8) - 500.0]
        acs.append((("uav", "uav_2", "uav_21")[k], ac, st, gen.gen_controls(rng, ac)))      # names contained in one another on purpose
    return acs


def run(chk):
    MX = common.setup_env()
    import machupX.helpers as H
    MX.helpers = H
    chk.proofs(extra_trusted=["sweep: permuted insertion orders, add-then-remove, widely separated aircraft, named selections, per-aircraft reference quantities",
                              "the isolation limit is exercised, not proved"])
    rng = chk.rng
    n = chk.q(12, 120)
    for it in range(n):
        sd = gen.gen_scene(rng, chk.hist, rho=rng.choice(["const", "standard"]), wind=rng.random() < 0.3)
        na = rng.choice([2, 2, 3])
        # selections: the first aircraft gives its rates in stability / wind axes (what one aircraft's analysis sets up must not leak into the next one's)
        acs = gen_fleet(chk, na, first_frames=("stab", "wind") if it % 5 == 2 else ("body",))
        if it % 10 in (0, 3):
            # aircraft in different attitudes with the trailing sheet constrained to each aircraft's own plane
            sd["solver"]["constrain_vortex_sheet"] = True
            chk.count("forced=constrain_vortex_sheet")
        try:
            base_sc = gen.build_scene(MX, sd, acs)
            base = api.solve(base_sc, report_by_segment=True)
        except Exception as e:
            chk.count("error=" + type(e).__name__)
            continue
        kind = ("order", "add_remove", "selection", "isolation", "own_refs")[it % 5]
        chk.case(dict(kind=kind, n_aircraft=na, it=it), nontrivial=True)
        chk.count("kind=" + kind)
        try:
            if kind == "order":
                perm = list(acs)
                rng.shuffle(perm)
                if perm == acs:
                    perm = perm[::-1]
                sc = gen.build_scene(MX, sd, perm)
                other = api.solve(sc, report_by_segment=True)
                bad = api.compare(base, other, rtol=2e-6, atol=2e-7)
                if not bad:
                    # also through the input dictionary order and for the section distributions
                    bad = api.compare(api.body_dist(base_sc), api.body_dist(sc), rtol=2e-6, atol=2e-7)
                if bad:
                    chk.violation("order:%s" % bad[0][0].split("/")[0], dict(kind="multi", what="insertion order", scene=sd, aircraft=acs,
                                                                           order=[a[0] for a in perm], differences=bad[:8]))
            elif kind == "add_remove":
                extra = gen_fleet(chk, 1)[0]
                extra = ("guest", extra[1], dict(extra[2], position=[5.0, 3.0, -505.0]), extra[3])
                sc = gen.build_scene(MX, sd, acs)
                before = api.solve(sc)
                sc.add_aircraft(extra[0], copy.deepcopy(extra[1]), state=copy.deepcopy(extra[2]), control_state=copy.deepcopy(extra[3]))
                mid = api.solve(sc)
                sc.remove_aircraft("guest")
                after = api.solve(sc)
                bad = api.compare(before, after, rtol=2e-6, atol=2e-7)
                if set(after.keys()) != set(before.keys()):
                    bad = [("keys", sorted(before), sorted(after))]
                if bad:
                    chk.violation("add-remove", dict(kind="multi", what="add then remove", scene=sd, aircraft=acs, guest=extra, differences=bad[:8]))
                # removing an aircraft in the middle and re-adding the others' results
                victim = acs[0][0]
                sc.remove_aircraft(victim)
                rest = api.solve(sc)
                ref = api.solve(gen.build_scene(MX, sd, acs[1:]))
                bad = api.compare(rest, ref, rtol=2e-6, atol=2e-7)
                if bad:
                    chk.violation("remove-first", dict(kind="multi", what="remove first aircraft", scene=sd, aircraft=acs, differences=bad[:8]))
            elif kind == "selection":
                sc = gen.build_scene(MX, sd, acs)
                name = rng.choice([a[0] for a in acs])
                for fn in ("stability_derivatives", "damping_derivatives", "control_derivatives", "aero_center", "MAC", "derivatives", "state_derivatives"):
                    for sel in (name, [name]):
                        r = getattr(sc, fn)(aircraft=sel)
                        if set(r.keys()) != {name}:
                            chk.violation("selection:%s" % fn, dict(kind="multi", what="selection", function=fn, requested=sel, got=sorted(r.keys())))
                    r = getattr(sc, fn)()
                    if set(r.keys()) != {a[0] for a in acs}:
                        chk.violation("selection-all:%s" % fn, dict(kind="multi", function=fn, got=sorted(r.keys())))
                    # what is reported for an aircraft does not depend on which other aircraft the same call also reports
                    if fn != "MAC":
                        for nm in r:
                            one = getattr(gen.build_scene(MX, sd, acs), fn)(aircraft=nm)
                            allr = getattr(gen.build_scene(MX, sd, acs), fn)()
                            bad = api.compare({nm: one[nm]}, {nm: allr[nm]}, rtol=2e-6, atol=2e-7)
                            if bad:
                                chk.violation("selection-all-vs-one:%s" % fn, dict(kind="multi", what="result for one aircraft depends on the selection",
                                                                                   function=fn, aircraft_name=nm, scene=sd, aircraft=acs, differences=bad[:6]))
                                break
                try:
                    sc.set_aircraft_state(state={"velocity": 50.0})
                    chk.violation("selection:unnamed-accepted", dict(kind="multi", what="set_aircraft_state without a name in a multi-aircraft scene"))
                except IOError:
                    pass
                try:
                    sc.stability_derivatives(aircraft=42)
                    chk.violation("selection:bad-type-accepted", dict(kind="multi"))
                except IOError:
                    pass
            elif kind == "isolation":
                far = []
                for k, (nm, ac, st, cs) in enumerate(acs):
                    st2 = copy.deepcopy(st)
                    # far apart horizontally, and at altitudes in different layers of the standard atmosphere
                    st2["position"] = [k * 1.0e5 * rng.choice([1, 3]), -k * 2.0e5, -500.0 - k * (9000.0 if sd["units"] == "SI" else 30000.0)]
                    far.append((nm, ac, st2, cs))
                sdc = copy.deepcopy(sd)
                if it % 2 == 0:
                    sdc["scene"]["atmosphere"]["rho"] = "standard"           # every aircraft must see the air of its own altitude
                else:
                    sdc["scene"]["atmosphere"]["rho"] = 0.0023769 if sd["units"] == "English" else 1.225
                together = api.solve(gen.build_scene(MX, sdc, far))
                for a in far:
                    alone = api.solve(gen.build_scene(MX, sdc, [a]))
                    bad = api.compare({a[0]: together[a[0]]}, alone, rtol=1e-5, atol=1e-7)
                    if bad:
                        chk.violation("isolation", dict(kind="multi", what="isolation limit", scene=sdc, aircraft=far, which=a[0], differences=bad[:8]))
                        break
            else:
                sc = base_sc
                for nm, ac, st, cs in acs:
                    ap = sc._airplanes[nm]
                    W = np.array(sc._get_wind(ap.p_bar), dtype=float)
                    V = float(np.linalg.norm(np.array(ap.v) - W))
                    q_ = 0.5 * float(sc._get_density(ap.p_bar)) * V * V
                    t = base[nm]["total"]
                    S, lon, lat = sc.get_aircraft_reference_geometry(aircraft=nm)
                    for ck, fk, l in (("Cx", "Fx", 1), ("Cz", "Fz", 1), ("Cm", "My", lon), ("Cl", "Mx", lat), ("Cn", "Mz", lat)):
                        if not abs(t[ck] * q_ * S * l - t[fk]) <= 1e-7 * (abs(t[fk]) + 1e-6 * q_ * S * l):
                            chk.violation("own-references", dict(kind="multi", what="per-aircraft reference quantities / local atmosphere", aircraft_name=nm,
                                                                 key=ck, coefficient=t[ck], force=t[fk], qS=q_ * S, l=l, scene=sd, aircraft=acs))
                    # body-frame: the aircraft's own attitude
                    dist = sc.distributions()[nm]
                    Fsum = np.zeros(3)
                    for seg in dist.values():
                        Fsum += np.array([sum(seg["Fx"]), sum(seg["Fy"]), sum(seg["Fz"])])
                    if not np.allclose(Fsum, [t["Fx"], t["Fy"], t["Fz"]], rtol=1e-7, atol=1e-8 * (1 + np.max(np.abs(Fsum)))):
                        chk.violation("own-frame", dict(kind="multi", what="section forces not in the aircraft's own body frame", aircraft_name=nm))
        except Exception as e:
            if type(e).__name__ == "SolverNotConvergedError":
                chk.count("nonconverged")
                continue
            chk.violation("raises:%s:%s" % (kind, type(e).__name__), dict(kind="multi", what=kind, scene=sd, aircraft=acs, error=repr(e)))
    return chk.finish(rule="fleets of 2-3 generated aircraft at random relative positions/attitudes (wind, standard or constant density): permuted insertion "
                           "order; add a guest and remove it; remove the first aircraft; analyses restricted to a named aircraft (string and list); "
                           "separation 1e5 lengths vs each aircraft alone; coefficients x each aircraft's own q S l")


def replay(chk, path):
    print(json.dumps(json.load(open(path)), indent=1, default=str)[:3000])
    return 0
