"""C13 — multi-aircraft scenes: order independence, isolation limit, add/remove identity, selection."""
import math, copy, json, itertools
import numpy as np
from harness import common, gen, api

LEVEL = "proof"
IMPORTS = ["From MuxV Require Import Base.Num Base.Vec3 Base.FInst Model.Helpers Model.Assemble Model.AssembleF."]
ASM_CASES, ASM_DESCR = [], []


def _t3(v):
    from harness.common import fhex
    return "(%s, %s, %s)" % (fhex(v[0]), fhex(v[1]), fhex(v[2]))


def assemble_cases(chk, sc):
    """the scene's Earth-frame arrays against Model/Assemble.v: control points, the nodes and joints every control point sees (own aircraft:
    effective line, other aircraft: actual line), node-to-control-point vectors"""
    from harness.common import fhex, cbool
    rng = chk.rng
    objs = list(sc._airplane_objects)
    slices = list(sc._airplane_slices)
    scale = max(1.0, float(np.max(np.abs(sc._PC))))
    atol = fhex(1e-9 * scale)
    for a, sl in zip(objs, slices):
        q = "(Q4 %s %s %s %s)" % tuple(fhex(x) for x in a.q)
        p = _t3(a.p_bar)
        rows = "[" + "; ".join("(%s, %s)" % (_t3(a.PC[j]), _t3(sc._PC[sl.start + j])) for j in range(a.N)) + "]"
        ASM_CASES.append("chk_points %s %s %s %s" % (atol, q, p, rows))
        ASM_DESCR.append(dict(what="control-points", aircraft=a.name))
        own = rng.sample(range(sl.start, sl.stop), min(2, a.N))
        others = [i for i in range(sc._N) if i < sl.start or i >= sl.stop]
        seen_from = own + (rng.sample(others, min(2, len(others))) if others else [])
        for i in seen_from:
            same = sl.start <= i < sl.stop
            il = i - sl.start
            for eff, act, got, what in ((a.P0_eff, a.P0, sc._P0, "P0"), (a.P1_eff, a.P1, sc._P1, "P1"),
                                        (a.P0_joint_eff, a.P0_joint, sc._P0_joint, "P0_joint"), (a.P1_joint_eff, a.P1_joint, sc._P1_joint, "P1_joint")):
                rws = "[" + "; ".join("(%s, %s, %s, %s)" % (cbool(same), _t3(eff[il, j] if same else act[j]), _t3(act[j]), _t3(got[i, sl.start + j]))
                                       for j in range(a.N)) + "]"
                ASM_CASES.append("chk_nodes_seen %s %s %s %s" % (atol, q, p, rws))
                ASM_DESCR.append(dict(what="nodes-seen:" + what, horseshoes_of=a.name, control_point=i, same_aircraft=same))
            chk.count("assemble-row=%s" % ("own" if same else "other"))
            rv = "[" + "; ".join("(%s, %s, %s)" % (_t3(sc._PC[i]), _t3(sc._P0[i, sl.start + j]), _t3(sc._r_0[i, sl.start + j])) for j in range(a.N)) + "]"
            ASM_CASES.append("chk_rvecs %s %s" % (atol, rv))
            ASM_DESCR.append(dict(what="r_0", horseshoes_of=a.name, control_point=i))
            rv = "[" + "; ".join("(%s, %s, %s)" % (_t3(sc._PC[i]), _t3(sc._P1_joint[i, sl.start + j]), _t3(sc._r_1_joint[i, sl.start + j])) for j in range(a.N)) + "]"
            ASM_CASES.append("chk_rvecs %s %s" % (atol, rv))
            ASM_DESCR.append(dict(what="r_1_joint", horseshoes_of=a.name, control_point=i))


def split_equivalence(chk, MX):
    """the same two lifting surfaces described as one aircraft with two wings and as two aircraft: the same circulation"""
    rng = chk.rng
    af = {"type": "linear", "aL0": -0.02, "CLa": 6.2, "CmL0": -0.03, "Cma": 0.0, "CD0": 0.006, "CD1": 0.0, "CD2": 0.01, "geometry": {"NACA": "2410"}}

    def wing(ID, b, dx, dz, reid):
        return {"ID": ID, "side": "both", "is_main": True, "semispan": b, "chord": [[0.0, 1.0], [1.0, 0.6]], "sweep": 15.0, "dihedral": 3.0, "airfoil": "af",
                "grid": {"N": 4, "reid_corrections": reid}, "connect_to": {"ID": 0, "dx": dx, "dz": dz}}
    for it in range(chk.q(2, 8)):
        reid = it % 2 == 0
        dx, dz = round(rng.uniform(-8.0, -4.0), 2), round(rng.uniform(-0.8, 0.8), 2)
        ref = {"area": 8.0, "longitudinal_length": 1.0, "lateral_length": 8.0}
        one = {"CG": [0, 0, 0], "weight": 10.0, "airfoils": {"af": af}, "reference": ref, "wings": {"front": wing(1, 4.0, 0.0, 0.0, reid), "rear": wing(2, 2.5, dx, dz, reid)}}
        A = {"CG": [0, 0, 0], "weight": 10.0, "airfoils": {"af": af}, "reference": ref, "wings": {"front": wing(1, 4.0, 0.0, 0.0, reid)}}
        B = {"CG": [0, 0, 0], "weight": 10.0, "airfoils": {"af": af}, "reference": ref, "wings": {"rear": wing(1, 2.5, 0.0, 0.0, reid)}}
        st = {"velocity": 100.0, "alpha": round(rng.uniform(1.0, 5.0), 2), "beta": round(rng.uniform(-3.0, 3.0), 2)}
        sd = {"solver": {"type": "nonlinear"}, "scene": {"atmosphere": {"rho": 0.0023769}}}
        try:
            d1 = gen.build_scene(MX, sd, [("a", one, st, {})]).distributions()["a"]
            d2 = gen.build_scene(MX, sd, [("A", A, st, {}), ("B", B, dict(st, position=[dx, 0.0, dz]), {})]).distributions()
        except Exception as e:
            chk.count("split_error=" + type(e).__name__)
            continue
        chk.case(dict(kind="split", reid=reid, it=it), nontrivial=True)
        for seg, nm in (("front_left", "A"), ("front_right", "A"), ("rear_left", "B"), ("rear_right", "B")):
            c1, c2 = np.array(d1[seg]["circ"], dtype=float), np.array(d2[nm][seg]["circ"], dtype=float)
            if not np.allclose(c1, c2, rtol=1e-7, atol=1e-9 * float(np.max(np.abs(c1)))):
                chk.violation("split:one-aircraft-vs-two", dict(kind="multi", what="two surfaces as one aircraft and as two aircraft give different circulations",
                                                                 segment=seg, reid=reid, offset=[dx, dz], state=st, one_aircraft=c1, two_aircraft=c2))
                return



def gen_fleet(chk, n, first_frames=("body",)):
    rng = chk.rng
    acs = []
    for k in range(n):
        ac = gen.gen_aircraft(rng, chk.hist, max_wings=2, N=rng.randint(3, 4), sides=("both", "both", "right"))
        st = gen.gen_state(rng, chk.hist, ang=5.0, pose=True, rate_frames=first_frames if k == 0 else ("body",))
        if k == 0 and first_frames != ("body",):
            # rates in stability / wind axes really given, at an angle of attack that separates those axes from the body axes
            st["angular_rates"] = [0.08, -0.03, 0.05]
            st.setdefault("angular_rate_frame", rng.choice(first_frames))
            if not isinstance(st["velocity"], list):
                st["alpha"], st["beta"] = 6.0, 3.0
        st["position"] = [rng.uniform(-15, 15), k * rng.uniform(9, 16) - 10, rng.uniform(-8, 8) - 500.0]
        acs.append((("uav", "uav_2", "uav_21")[k], ac, st, gen.gen_controls(rng, ac)))      # names contained in one another on purpose
    return acs


def run(chk):
    MX = common.setup_env()
    import machupX.helpers as H
    MX.helpers = H
    chk.proofs(extra_trusted=["sweep: permuted insertion orders, add-then-remove, widely separated aircraft, named selections, per-aircraft reference quantities",
                              "the isolation limit is exercised, not proved"])
    rng = chk.rng
    n = chk.q(12, 120)
    for it in range(n):
        sd = gen.gen_scene(rng, chk.hist, rho=rng.choice(["const", "standard"]), wind=rng.random() < 0.3)
        na = rng.choice([2, 2, 3])
        # selections: the first aircraft gives its rates in stability / wind axes (what one aircraft's analysis sets up must not leak into the next one's)
        acs = gen_fleet(chk, na, first_frames=("stab", "wind") if it % 5 == 2 else ("body",))
        if it % 10 in (0, 3):
            # aircraft in different attitudes with the trailing sheet constrained to each aircraft's own plane
            sd["solver"]["constrain_vortex_sheet"] = True
            chk.count("forced=constrain_vortex_sheet")
        try:
            base_sc = gen.build_scene(MX, sd, acs)
            base = api.solve(base_sc, report_by_segment=True)
            if it % 2 == 0:
                assemble_cases(chk, base_sc)
        except Exception as e:
            chk.count("error=" + type(e).__name__)
            continue
        kind = ("order", "add_remove", "selection", "isolation", "own_refs")[it % 5]
        chk.case(dict(kind=kind, n_aircraft=na, it=it), nontrivial=True)
        chk.count("kind=" + kind)
        try:
            if kind == "order":
                perm = list(acs)
                rng.shuffle(perm)
                if perm == acs:
                    perm = perm[::-1]
                sc = gen.build_scene(MX, sd, perm)
                other = api.solve(sc, report_by_segment=True)
                bad = api.compare(base, other, rtol=2e-6, atol=2e-7)
                if not bad:
                    # also through the input dictionary order and for the section distributions
                    bad = api.compare(api.body_dist(base_sc), api.body_dist(sc), rtol=2e-6, atol=2e-7)
                if bad:
                    chk.violation("order:%s" % bad[0][0].split("/")[0], dict(kind="multi", what="insertion order", scene=sd, aircraft=acs,
                                                                           order=[a[0] for a in perm], differences=bad[:8]))
            elif kind == "add_remove":
                extra = gen_fleet(chk, 1)[0]
                extra = ("guest", extra[1], dict(extra[2], position=[5.0, 3.0, -505.0]), extra[3])
                sc = gen.build_scene(MX, sd, acs)
                before = api.solve(sc)
                sc.add_aircraft(extra[0], copy.deepcopy(extra[1]), state=copy.deepcopy(extra[2]), control_state=copy.deepcopy(extra[3]))
                mid = api.solve(sc)
                sc.remove_aircraft("guest")
                after = api.solve(sc)
                bad = api.compare(before, after, rtol=2e-6, atol=2e-7)
                if set(after.keys()) != set(before.keys()):
                    bad = [("keys", sorted(before), sorted(after))]
                if bad:
                    chk.violation("add-remove", dict(kind="multi", what="add then remove", scene=sd, aircraft=acs, guest=extra, differences=bad[:8]))
                # removing an aircraft in the middle and re-adding the others' results
                victim = acs[0][0]
                sc.remove_aircraft(victim)
                rest = api.solve(sc)
                ref = api.solve(gen.build_scene(MX, sd, acs[1:]))
                bad = api.compare(rest, ref, rtol=2e-6, atol=2e-7)
                if bad:
                    chk.violation("remove-first", dict(kind="multi", what="remove first aircraft", scene=sd, aircraft=acs, differences=bad[:8]))
            elif kind == "selection":
                sc = gen.build_scene(MX, sd, acs)
                name = rng.choice([a[0] for a in acs])
                for fn in ("stability_derivatives", "damping_derivatives", "control_derivatives", "aero_center", "MAC", "derivatives", "state_derivatives"):
                    for sel in (name, [name]):
                        r = getattr(sc, fn)(aircraft=sel)
                        if set(r.keys()) != {name}:
                            chk.violation("selection:%s" % fn, dict(kind="multi", what="selection", function=fn, requested=sel, got=sorted(r.keys())))
                    r = getattr(sc, fn)()
                    if set(r.keys()) != {a[0] for a in acs}:
                        chk.violation("selection-all:%s" % fn, dict(kind="multi", function=fn, got=sorted(r.keys())))
                    # what is reported for an aircraft does not depend on which other aircraft the same call also reports
                    if fn != "MAC":
                        for nm in r:
                            one = getattr(gen.build_scene(MX, sd, acs), fn)(aircraft=nm)
                            allr = getattr(gen.build_scene(MX, sd, acs), fn)()
                            bad = api.compare({nm: one[nm]}, {nm: allr[nm]}, rtol=2e-6, atol=2e-7)
                            if bad:
                                chk.violation("selection-all-vs-one:%s" % fn, dict(kind="multi", what="result for one aircraft depends on the selection",
                                                                                   function=fn, aircraft_name=nm, scene=sd, aircraft=acs, differences=bad[:6]))
                                break
                try:
                    sc.set_aircraft_state(state={"velocity": 50.0})
                    chk.violation("selection:unnamed-accepted", dict(kind="multi", what="set_aircraft_state without a name in a multi-aircraft scene"))
                except IOError:
                    pass
                try:
                    sc.stability_derivatives(aircraft=42)
                    chk.violation("selection:bad-type-accepted", dict(kind="multi"))
                except IOError:
                    pass
            elif kind == "isolation":
                far = []
                for k, (nm, ac, st, cs) in enumerate(acs):
                    st2 = copy.deepcopy(st)
                    # far apart horizontally, and at altitudes in different layers of the standard atmosphere
                    st2["position"] = [k * 1.0e5 * rng.choice([1, 3]), -k * 2.0e5, -500.0 - k * (9000.0 if sd["units"] == "SI" else 30000.0)]
                    far.append((nm, ac, st2, cs))
                sdc = copy.deepcopy(sd)
                if it % 2 == 0:
                    sdc["scene"]["atmosphere"]["rho"] = "standard"           # every aircraft must see the air of its own altitude
                else:
                    sdc["scene"]["atmosphere"]["rho"] = 0.0023769 if sd["units"] == "English" else 1.225
                together = api.solve(gen.build_scene(MX, sdc, far))
                for a in far:
                    alone = api.solve(gen.build_scene(MX, sdc, [a]))
                    # (a trailing vortex does not decay along its own length - C13_influence_decays: |K| h <= 2 with h the distance from the
                    # wake *line* - so an aircraft that happens to lie near the far-away one's wake line still feels it a little: the residual
                    # influence is allowed relative to the largest load, not to each small component)
                    bad = api.compare({a[0]: together[a[0]]}, alone, rtol=1e-5, atol=1e-7, scale_atol=2e-6)
                    if bad:
                        chk.violation("isolation", dict(kind="multi", what="isolation limit", scene=sdc, aircraft=far, which=a[0], differences=bad[:8]))
                        break
            else:
                sc = base_sc
                for nm, ac, st, cs in acs:
                    ap = sc._airplanes[nm]
                    W = np.array(sc._get_wind(ap.p_bar), dtype=float)
                    V = float(np.linalg.norm(np.array(ap.v) - W))
                    q_ = 0.5 * float(sc._get_density(ap.p_bar)) * V * V
                    t = base[nm]["total"]
                    S, lon, lat = sc.get_aircraft_reference_geometry(aircraft=nm)
                    for ck, fk, l in (("Cx", "Fx", 1), ("Cz", "Fz", 1), ("Cm", "My", lon), ("Cl", "Mx", lat), ("Cn", "Mz", lat)):
                        if not abs(t[ck] * q_ * S * l - t[fk]) <= 1e-7 * (abs(t[fk]) + 1e-6 * q_ * S * l):
                            chk.violation("own-references", dict(kind="multi", what="per-aircraft reference quantities / local atmosphere", aircraft_name=nm,
                                                                 key=ck, coefficient=t[ck], force=t[fk], qS=q_ * S, l=l, scene=sd, aircraft=acs))
                    # body-frame: the aircraft's own attitude
                    dist = sc.distributions()[nm]
                    Fsum = np.zeros(3)
                    for seg in dist.values():
                        Fsum += np.array([sum(seg["Fx"]), sum(seg["Fy"]), sum(seg["Fz"])])
                    if not np.allclose(Fsum, [t["Fx"], t["Fy"], t["Fz"]], rtol=1e-7, atol=1e-8 * (1 + np.max(np.abs(Fsum)))):
                        chk.violation("own-frame", dict(kind="multi", what="section forces not in the aircraft's own body frame", aircraft_name=nm))
        except Exception as e:
            if type(e).__name__ == "SolverNotConvergedError":
                chk.count("nonconverged")
                continue
            chk.violation("raises:%s:%s" % (kind, type(e).__name__), dict(kind="multi", what=kind, scene=sd, aircraft=acs, error=repr(e)))
    split_equivalence(chk, MX)
    failing, nfiles, errors = common.run_cases("C13", IMPORTS, [], ASM_CASES)
    chk.cov["correspondence_cases"] = len(ASM_CASES)
    chk.cov["traces_validated_against_impl"] = len(ASM_CASES)
    if errors:
        chk.fail_obligation("correspondence:C13(case files do not compile)", "\n".join(errors)[-3000:])
    elif failing and not chk.violations:
        chk.fail_obligation("correspondence:Model/Assemble.v:" + ASM_DESCR[failing[0]]["what"], json.dumps(dict(first=ASM_DESCR[failing[0]], n=len(failing)), default=str)[:3000])
    return chk.finish(rule="fleets of 2-3 generated aircraft at random relative positions/attitudes (wind, standard or constant density): permuted insertion "
                           "order; add a guest and remove it; remove the first aircraft; analyses restricted to a named aircraft (string and list); "
                           "separation 1e5 lengths vs each aircraft alone; coefficients x each aircraft's own q S l")


def replay(chk, path):
    print(json.dumps(json.load(open(path)), indent=1, default=str)[:3000])
    return 0
