"""C02 — loads are the correct integral of section loads and all reports agree."""
import math, copy, json, itertools
import numpy as np
from harness import common, gen, api, adapter
from harness.common import fhex, flist, fv3, fq4, cbool, ftable2
from harness.props.C01 import scene_defs

LEVEL = "proof"
IMPORTS = ["From Coq Require Import String.",
           "From MuxV Require Import Base.Num Base.Vec3 Base.FInst Model.Helpers Model.HelpersF Model.Kernel Model.Residual Model.Integrate Model.SceneF Model.IntegrateF.",
           "Open Scope string_scope."]
TOL = "0x1p-27"
FLAGS = ("body_frame", "stab_frame", "wind_frame", "dimensional", "non_dimensional", "report_by_segment")
BODY = (["Cx", "Cy", "Cz", "Cl", "Cm", "Cn"], ["Fx", "Fy", "Fz", "Mx", "My", "Mz"])
STAB = ([k + "_s" for k in BODY[0]], [k + "_s" for k in BODY[1]])
WIND = (["CD", "CS", "CL", "Cl_w", "Cm_w", "Cn_w"], ["FD", "FS", "FL", "Mx_w", "My_w", "Mz_w"])


def expected_keys(o):
    ks = []
    for fl, tab in (("body_frame", BODY), ("stab_frame", STAB), ("wind_frame", WIND)):
        if o[fl]:
            if o["non_dimensional"]:
                ks += tab[0]
            if o["dimensional"]:
                ks += tab[1]
    return ks


def probe_cd_cm(sc):
    """quadratic CD(alpha) and affine Cm(alpha) per control point, probed from the live segments"""
    d2, d1, d0, m1, m0 = [], [], [], [], []
    for ap in sc._airplane_objects:
        for seg in ap.segments:
            n = seg.N
            re = np.full(n, 1.0e6)
            z = np.zeros(n)
            h = 0.1
            f = lambda a: np.array(seg.get_cp_CD(np.full(n, a), re, z), dtype=float) * np.ones(n)
            cm, c0, cp = f(-h), f(0.0), f(h)
            d2.extend(((cp - 2 * c0 + cm) / (2 * h * h)).tolist())
            d1.extend(((cp - cm) / (2 * h)).tolist())
            d0.extend(c0.tolist())
            g = lambda a: np.array(seg.get_cp_Cm(np.full(n, a), re, z), dtype=float) * np.ones(n)
            m1.extend(((g(h) - g(0.0)) / h).tolist())
            m0.extend(g(0.0).tolist())
    return d2, d1, d0, m1, m0


def report_case(chk, MX, sc, acs, sd, ro, tag):
    """Gallina definitions + checks for one solved scene.  Returns list of (defs, expr), descriptions."""
    H = MX.helpers
    N = sc._N
    defs = scene_defs(sc, tag)
    d2, d1, d0, m1, m0 = probe_cd_cm(sc)
    rho = np.asarray(sc._rho, dtype=float) * np.ones(N)
    ua_un, un_un = np.zeros((N, 3)), np.zeros((N, 3))
    for ap, sl in zip(sc._airplane_objects, sc._airplane_slices):
        ua_un[sl] = H.quat_inv_trans(ap.q, ap.u_a_unswept)
        un_un[sl] = H.quat_inv_trans(ap.q, ap.u_n_unswept)
    v = np.array(sc._v_i, dtype=float)
    g = np.array(sc._gamma, dtype=float)
    at = []
    for i in range(N):
        vn, va = float(np.dot(v[i], sc._u_n[i])), float(np.dot(v[i], sc._u_a[i]))
        at.append((vn, va, float(np.arctan2(vn, va))))
        vn2, va2 = float(np.dot(v[i], un_un[i])), float(np.dot(v[i], ua_un[i]))
        at.append((vn2, va2, float(np.arctan2(vn2, va2))))
    defs = defs + ["Definition at_%s := %s." % (tag, ftable2(at))]
    # lever arms from the aircraft's own data (body-frame control points minus CG, turned to Earth axes), not from the scene's cache
    rcg = np.zeros((N, 3))
    for ap, sl in zip(sc._airplane_objects, sc._airplane_slices):
        rcg[sl] = H.quat_inv_trans(ap.q, np.array(ap.PC, dtype=float) - np.array(ap.CG, dtype=float)[np.newaxis, :])
    ipts = ["(mk_iptF %s %s %s %s %s %s %s %s %s)" % (fv3(rcg[i]), fhex(rho[i]), fv3(ua_un[i]), fv3(un_un[i]), fhex(d2[i]), fhex(d1[i]),
                                                     fhex(d0[i]), fhex(m1[i]), fhex(m0[i])) for i in range(N)]
    defs.append("Definition st_%s : list station := combine (combine (combine cs_%s [%s]) %s) %s." % (
        tag, tag, "; ".join(ipts), "[" + "; ".join(fv3(x) for x in v) + "]", flist(g)))
    cases, descr = [], []
    info = dict(scene=sd, aircraft=acs, options=ro, opts=adapter.opts_of(sc))
    fs = float(np.max(np.abs(sc._dF_inv)) + 1e-12)
    ms = float(np.max(np.abs(sc._dM_inv)) + 1e-12)
    exp = "[" + "; ".join("(%s, %s, %s, %s)" % (fv3(sc._dF_inv[i]), fv3(sc._dF_visc[i]), fv3(sc._dM_inv[i]), fv3(sc._dM_visc[i])) for i in range(N)) + "]"
    cases.append((defs, "chk_stations at_%s o_%s %s %s %s st_%s %s" % (tag, tag, TOL, fhex(fs), fhex(ms), tag, exp)))
    descr.append(dict(info, what="section-loads"))
    # report per aircraft
    FM = sc._FM
    idx = 0
    for ap in sc._airplane_objects:
        segs = []
        for seg in ap.segments:
            segs.append('("%s", firstn %d (skipn %d st_%s))' % (seg.name, seg.N, idx, tag))
            idx += seg.N
        vinf0 = -np.array(ap.v, dtype=float) + np.array(sc._get_wind(ap.p_bar), dtype=float)
        Vinf = float(np.linalg.norm(vinf0))
        rho0 = float(sc._get_density(ap.p_bar))
        qS = 0.5 * rho0 * Vinf ** 2 * ap.S_w
        refs = "(mk_refs %s %s %s %s %s)" % (fhex(ap.S_w), fhex(ap.l_ref_lon), fhex(ap.l_ref_lat), fhex(rho0), fhex(Vinf))
        ropts = "(mk_ropts %s %s %s %s %s %s)" % tuple(cbool(ro[k]) for k in ("body_frame", "stab_frame", "wind_frame", "dimensional",
                                                                            "non_dimensional", "report_by_segment"))
        ents = []
        fm = FM[ap.name]
        for part, pn in (("inviscid", "Inviscid"), ("viscous", "Viscous")):
            for key, sub in fm[part].items():
                for segname, val in sub.items():
                    ents.append((pn, key, 'Some "%s"' % segname, val))
        for key, val in fm["total"].items():
            ents.append(("Total", key, "None", val))

        def scale_of(key):
            if key[0] == "F":
                return qS
            if key[0] == "M":
                return qS * max(ap.l_ref_lon, ap.l_ref_lat)
            return 1.0
        xs = "[" + "; ".join('(%s, "%s", %s, %s, %s)' % (p, k, s, fhex(val), fhex(1e-3 * scale_of(k))) for p, k, s, val in ents) + "]"
        cases.append((defs, "chk_report %s (reportF at_%s o_%s %s %s %s %s [%s]) %s" % (TOL, tag, tag, ropts, refs, fq4(ap.q), fv3(vinf0),
                                                                                      "; ".join(segs), xs)))
        descr.append(dict(info, what="report", aircraft_name=ap.name, n_entries=len(ents)))
    return cases, descr


def api_identities(chk, MX, sc, acs, sd, FMfull):
    """The property's identities evaluated on the public results (failing-input search).  FMfull: all frames, all kinds, by segment."""
    dist = sc.distributions()
    for ap in sc._airplane_objects:
        name = ap.name
        fm = FMfull[name]
        keys = expected_keys(dict(body_frame=True, stab_frame=True, wind_frame=True, dimensional=True, non_dimensional=True))
        segnames = [s.name for s in ap.segments]
        for k in keys:
            tot = fm["total"][k]
            iv, vv = fm["inviscid"][k]["total"], fm["viscous"][k]["total"]
            sc_ = abs(iv) + abs(vv) + 1e-9
            if not abs(tot - (iv + vv)) <= 1e-9 * sc_:
                return "total!=inviscid+viscous", dict(key=k, total=tot, inviscid=iv, viscous=vv)
            for part in ("inviscid", "viscous"):
                ssum = sum(fm[part][k][s] for s in segnames)
                big = sum(abs(fm[part][k][s]) for s in segnames) + 1e-9
                if not abs(ssum - fm[part][k]["total"]) <= 1e-9 * big:
                    return "segments!=total", dict(key=k, part=part, segment_sum=ssum, total=fm[part][k]["total"])
        vinf0 = -np.array(ap.v, dtype=float) + np.array(sc._get_wind(ap.p_bar), dtype=float)
        V = float(np.linalg.norm(vinf0))
        q_ = 0.5 * float(sc._get_density(ap.p_bar)) * V * V
        for tabs in (BODY, STAB, WIND):
            for j, (ck, fk) in enumerate(zip(*tabs)):
                l = 1.0 if j < 3 else (ap.l_ref_lon if j == 4 else ap.l_ref_lat)
                for part in ("total",):
                    c, f = fm[part][ck], fm[part][fk]
                    if not abs(c * q_ * ap.S_w * l - f) <= 1e-8 * (abs(f) + 1e-6 * q_ * ap.S_w * l):
                        return "coefficient!=dimensional/qSl", dict(coefficient_key=ck, coefficient=c, dimensional=f, qS=q_ * ap.S_w, l=l)
        # frames: independent construction from the body-frame relative wind
        vb = MX.helpers.quat_trans(ap.q, -vinf0)          # velocity of the aircraft relative to the air, body axes
        u, v, w = [float(x) for x in vb]
        Vb = math.sqrt(u * u + v * v + w * w)
        m = math.sqrt(u * u + w * w)
        ui = -np.array([u, v, w]) / Vb
        ul = np.array([w, 0.0, -u]) / m
        us = np.cross(ul, ui)
        Rw = np.array([ui, us, ul])
        Rs = np.array([[u / m, 0, w / m], [0, 1, 0], [-w / m, 0, u / m]])
        Fb = np.array([fm["total"][k] for k in ("Fx", "Fy", "Fz")])
        Mb = np.array([fm["total"][k] for k in ("Mx", "My", "Mz")])
        for R, fk, mk in ((Rw, ("FD", "FS", "FL"), ("Mx_w", "My_w", "Mz_w")), (Rs, ("Fx_s", "Fy_s", "Fz_s"), ("Mx_s", "My_s", "Mz_s"))):
            ef, em = R @ Fb, R @ Mb
            gf, gm = np.array([fm["total"][k] for k in fk]), np.array([fm["total"][k] for k in mk])
            if not (np.allclose(ef, gf, rtol=1e-8, atol=1e-9 * (np.max(np.abs(Fb)) + 1e-9)) and np.allclose(em, gm, rtol=1e-8, atol=1e-9 * (np.max(np.abs(Mb)) + 1e-9))):
                return "frame-rotation", dict(keys=fk + mk, expected=ef.tolist() + em.tolist(), got=gf.tolist() + gm.tolist())
        # per-section distributions sum to the totals, and F_i - rho Gamma (v x dl) is drag along the local velocity
        tot = np.zeros(6)
        for s in ap.segments:
            d = dist[name][s.name]
            tot += np.array([sum(d[k]) for k in ("Fx", "Fy", "Fz", "Mx", "My", "Mz")])
        exp = np.concatenate([Fb, Mb])
        if not np.allclose(tot, exp, rtol=1e-8, atol=1e-9 * (np.max(np.abs(exp)) + 1e-9)):
            return "distributions!=total", dict(section_sum=tot.tolist(), total=exp.tolist())
        sl = sc._airplane_slices[sc._airplane_objects.index(ap)]
        rho = (np.asarray(sc._rho) * np.ones(sc._N))[sl]
        off = 0
        for s in ap.segments:
            d = dist[name][s.name]
            n = s.N
            vloc = np.array([d["u"], d["v"], d["w"]]).T
            F = np.array([d["Fx"], d["Fy"], d["Fz"]]).T
            dl = np.array(ap.dl)[off:off + n]
            circ = np.array(d["circ"])
            rest = F - (rho[off:off + n] * circ)[:, None] * np.cross(vloc, dl)
            cross = np.cross(rest, vloc)
            lim = 1e-8 * (np.linalg.norm(F, axis=1) * np.linalg.norm(vloc, axis=1) + 1e-12)
            if sc._use_total_velocity and np.any(np.linalg.norm(cross, axis=1) > lim + 1e-9 * np.max(np.linalg.norm(F, axis=1)) * np.max(np.linalg.norm(vloc, axis=1))):
                return "section-force!=rho*Gamma*(v x dl)+drag", dict(segment=s.name)
            if sc._use_total_velocity and np.any(np.einsum('ij,ij->i', rest, vloc) < -1e-9 * np.max(np.abs(F)) * np.max(np.abs(vloc))):
                return "drag-not-along-velocity", dict(segment=s.name)
            off += n
    return None, None


def options_sweep(chk, MX, sc, acs, sd, all_combos):
    """key sets and values for option combinations (values must agree with the full report)"""
    full = api.solve(sc, dimensional=True, non_dimensional=True, report_by_segment=True)
    combos = list(itertools.product([False, True], repeat=6))
    if not all_combos:
        combos = chk.rng.sample(combos, 10)
    for bits in combos:
        o = dict(zip(FLAGS, bits))
        try:
            FM = copy.deepcopy(sc.solve_forces(**o))
        except Exception as e:
            return "options:raises", dict(options=o, error=repr(e))
        ek = set(expected_keys(o))
        for ap in sc._airplane_objects:
            fm = FM[ap.name]
            if set(fm["total"].keys()) != ek:
                return "options:keys", dict(options=o, expected=sorted(ek), got=sorted(fm["total"].keys()), level="total")
            for part in ("inviscid", "viscous"):
                if set(fm[part].keys()) != ek:
                    return "options:keys", dict(options=o, expected=sorted(ek), got=sorted(fm[part].keys()), level=part)
                exp_sub = set(["total"] + ([s.name for s in ap.segments] if o["report_by_segment"] else []))
                for k in ek:
                    if set(fm[part][k].keys()) != exp_sub:
                        return "options:segments", dict(options=o, key=k, expected=sorted(exp_sub), got=sorted(fm[part][k].keys()))
                    for sname, val in fm[part][k].items():
                        ref = full[ap.name][part][k][sname]
                        if not abs(val - ref) <= 1e-7 * (abs(ref) + 1e-7):
                            return "options:value", dict(options=o, key=k, part=part, segment=sname, value=val, full_report=ref)
            for k in ek:
                ref = full[ap.name]["total"][k]
                if not abs(fm["total"][k] - ref) <= 1e-7 * (abs(ref) + 1e-7):
                    return "options:value", dict(options=o, key=k, part="total", value=fm["total"][k], full_report=ref)
        chk.count("combo=%s" % "".join("1" if b else "0" for b in bits))
    return None, None


def run(chk):
    MX = common.setup_env()
    import machupX.helpers as H
    MX.helpers = H
    chk.proofs(extra_trusted=[
        "correspondence: Model/Integrate.v on binary64 vs Scene._dF_inv/_dF_visc/_dM_inv/_dM_visc and the complete solve_forces dictionary "
        "(key sets exactly, values to 7.5e-9 of the load scale)",
        "oracles: arctan2; airfoil_db CD probed as quadratic and Cm as affine in alpha (linear airfoils); wind/density getters called live",
        "the per-key identities are proved on the table-driven model; that the ~450 assignments of the code implement that table is established by the "
        "correspondence on every run, not by proof"])
    rng = chk.rng
    nscenes = chk.q(8, 60)
    cases, descr = [], []
    built, attempts = 0, 0
    nv0 = len(chk.violations)
    while built < nscenes and attempts < 4 * nscenes:
        attempts += 1
        multi = rng.random() < 0.3
        sd = gen.gen_scene(rng, chk.hist, wind=rng.random() < 0.4, rho=rng.choice(["const", "standard", "default"]))
        acs = []
        for k in range(2 if multi else 1):
            ac = gen.gen_aircraft(rng, chk.hist, max_wings=3, N=rng.randint(2, 4), sides=("both", "both", "left", "right"))
            if built == 0 and k == 0:
                # a wing chain (outer panel on the tip): storage order, insertion order and the order of the report differ
                ac = gen.simple_wing_aircraft(N=3, reid=False, sweep=10.0)
                del ac["wings"]["v_stab"]
                ac["wings"]["outer"] = {"ID": 4, "side": "both", "is_main": True, "connect_to": {"ID": 1, "location": "tip"}, "semispan": 1.5,
                                        "chord": [[0.0, 0.8], [1.0, 0.4]], "dihedral": 20.0, "airfoil": "af0", "grid": {"N": 2, "reid_corrections": False},
                                        "control_surface": {"chord_fraction": 0.3, "control_mixing": {"aileron": 0.5}}}
            st = gen.gen_state(rng, chk.hist)
            if built == 1:
                # (enumerated) the MachUp Pro compatibility option with a rotating aircraft: the circulation reported is the one the loads were integrated with
                sd["solver"].update(match_machup_pro=True, use_total_velocity=True)
                st["angular_rates"] = [0.3, 0.1, -0.1]
                chk.count("match_machup_pro=rotating")
            if multi:
                st["position"] = [rng.uniform(-20, 20), k * rng.uniform(12, 30), rng.uniform(-500, -10)]
            acs.append(("ac%d" % k, ac, st, gen.gen_controls(rng, ac)))
        try:
            sc = gen.build_scene(MX, sd, acs)
            if sc._N > 18:
                continue
            ro = dict(zip(FLAGS, [rng.random() < 0.6 for _ in FLAGS]))
            sc.solve_forces(**ro)
        except Exception as e:
            chk.count("scene_error=" + type(e).__name__)
            continue
        if not np.all(np.isfinite(sc._gamma)):
            continue
        c, d = report_case(chk, MX, sc, acs, sd, ro, "s%d" % built)
        cases += c
        descr += d
        chk.case(dict(options=ro, N=sc._N, n_aircraft=len(acs), opts=adapter.opts_of(sc),
                      digest=common.hashlib.sha1(json.dumps([sd, acs], sort_keys=True, default=str).encode()).hexdigest()[:10]), nontrivial=True)
        # search on the public results
        full = api.solve(sc, dimensional=True, non_dimensional=True, report_by_segment=True)
        sig, det = api_identities(chk, MX, sc, acs, sd, full)
        if sig:
            chk.violation("identity:" + sig, dict(kind="identity", scene=sd, aircraft=acs, what=sig, detail=det))
        sig, det = options_sweep(chk, MX, sc, acs, sd, all_combos=(built < chk.q(2, 10)))
        if sig:
            chk.violation(sig, dict(kind="options", scene=sd, aircraft=acs, what=sig, detail=det))
        built += 1
    failing, nfiles, errors = common.run_cases("C02", IMPORTS, [], cases, chunk=6)
    chk.cov["traces_validated_against_impl"] = len(cases)
    chk.cov["correspondence_cases"] = len(cases)
    chk.cov["report_entries_compared"] = sum(d.get("n_entries", 0) for d in descr)
    if errors:
        chk.fail_obligation("correspondence:C02(case files do not compile)", "\n".join(errors)[-3000:])
    elif failing and len(chk.violations) == nv0 and not chk.known_hits:
        d = descr[failing[0]]
        chk.fail_obligation("correspondence:Model/Integrate.v:" + d["what"], json.dumps(dict(first_disagreement=d, n_disagreements=len(failing)), default=str)[:6000])
    elif failing:
        chk.notes.append("correspondence disagreements: %d (first: %s)" % (len(failing), descr[failing[0]]["what"]))
    return chk.finish(
        rule="generated scenes (1-2 aircraft, 1-3 surfaces, random solver options, wind, constant/standard density, arbitrary pose) solved with a "
             "random subset of the six output options: section loads and the complete result dictionary against the model; on the public results: "
             "total=inviscid+viscous, segments sum, coefficient*qSl, frame rotations, distributions sum, section force decomposition; key sets and "
             "values for all 64 option combinations on the first scenes and 10 random combinations on the others")


def replay(chk, path):
    r = json.load(open(path))
    MX = common.setup_env()
    import machupX.helpers as H
    MX.helpers = H
    if r.get("kind") in ("identity", "options"):
        sc = gen.build_scene(MX, r["scene"], [tuple(a) for a in r["aircraft"]])
        full = api.solve(sc, dimensional=True, non_dimensional=True, report_by_segment=True)
        sig, det = api_identities(chk, MX, sc, r["aircraft"], r["scene"], full)
        if not sig:
            sig, det = options_sweep(chk, MX, sc, r["aircraft"], r["scene"], all_combos=True)
        print(sig, det)
        if sig:
            print("VIOLATION property=C02 replay=%s" % path)
            return 1
        return 0
    print(json.dumps(r, indent=1)[:3000])
    return 0
