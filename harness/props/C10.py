"""C10 — trim, target-CL and aerodynamic-centre results satisfy their defining conditions."""
import math, copy, json
import numpy as np
from harness import common, gen, api
from harness.common import fhex, flist
from harness.props.C09 import Recorder, with_state

LEVEL = "proof"
IMPORTS = ["From MuxV Require Import Base.Num Base.Vec3 Base.FInst Model.Helpers Model.AeroState Model.Analyses Model.AnalysesF."]
TOL = 5e-9


def gen_case(chk, wind=None):
    rng = chk.rng
    rnd = getattr(chk, "round", 0)
    sd = gen.gen_scene(rng, chk.hist, rho="const", wind=(rnd % 2 == 0) if wind is None else wind, solver={"type": "nonlinear"})
    # (chord != 1: the longitudinal reference length then differs from one)
    ac = gen.simple_wing_aircraft(N=3, b=rng.uniform(3.5, 5), c=(0.8, 1.0, 1.25)[rnd % 3], sweep=rng.choice([None, 10.0]), reid=rng.random() < 0.5,
                                  extra={"CG": [round(rng.uniform(-0.2, 0.3), 2), 0.0, round(rng.uniform(-0.1, 0.1), 2)],
                                         "weight": round(rng.uniform(20, 60), 1)})
    st = {"velocity": round(rng.uniform(60, 120), 2), "alpha": round(rng.uniform(-2, 6), 3), "beta": round(rng.uniform(-4, 4), 3),
          "position": [rng.uniform(-100, 100), rng.uniform(-100, 100), -rng.uniform(100, 3000)],
          "orientation": [round(rng.uniform(-25, 25), 2), round(rng.uniform(-10, 10), 2), round(rng.uniform(-170, 170), 2)]}
    cs = {"aileron": round(rng.uniform(-3, 3), 2), "elevator": round(rng.uniform(-3, 3), 2), "rudder": round(rng.uniform(-3, 3), 2)}
    return sd, ac, st, cs


def totals_at(MX, sd, ac, st, cs):
    sc = gen.build_scene(MX, sd, [("a", ac, st, cs)])
    return sc, sc.solve_forces(dimensional=False, **api.ALL_FRAMES)["a"]["total"]


def check_pitch_trim(chk, MX):
    rng = chk.rng
    sd, ac, st, cs = gen_case(chk)
    kw = {}
    rnd_ = getattr(chk, "round", 0)
    if rnd_ % 4 in (1, 2):          # (round 0: wind and the default lift target; 1: still air, CL given; 2: wind, CL given; 3: neither)
        kw["CL"] = round(rng.uniform(0.2, 0.6), 3)
    if rnd_ % 4 == 1 and (rnd_ // 4) % 2 == 0:
        kw["CL"] = 0.0                                   # a zero-lift trim is a target like any other
        chk.count("pitch_trim:CL=0")
    pitch_control = "elevator"
    if rnd_ % 4 == 3:
        # a second pitch control on the tail (a tab mixed into the same surface): trimming with it leaves the elevator where it was
        ac = copy.deepcopy(ac)
        ac["controls"]["tab"] = {"is_symmetric": True}
        ac["wings"]["h_stab"]["control_surface"]["control_mixing"]["tab"] = 0.5
        cs = dict(cs, tab=0.0)
        kw["pitch_control"] = pitch_control = "tab"
        chk.count("pitch_trim:other-control")
    if rng.random() < 0.3:
        kw["Cm"] = round(rng.uniform(-0.02, 0.02), 4)
    if rng.random() < 0.3:
        kw["relaxation"] = round(rng.uniform(0.6, 1.0), 2)
    sc = gen.build_scene(MX, sd, [("a", ac, st, cs)])
    if (getattr(chk, "round", 0) % 4 == 2 or rng.random() < 0.3) and kw.get("CL") != 0.0:      # (enumerated in round 2)
        # one of the two targets is already met at the start (lift balanced, moment not): both conditions must still hold on return
        try:
            kw["CL"] = float(sc.solve_forces(dimensional=False, non_dimensional=True)["a"]["total"]["CL"])
            chk.count("pitch_trim:CL-target-already-met")
        except Exception:
            pass
    a = sc._airplanes["a"]
    W = np.array(sc._get_wind(a.p_bar), dtype=float)
    V = float(np.linalg.norm(np.array(a.v) - W))
    rho = float(sc._get_density(a.p_bar))
    CW = a.W / (0.5 * rho * V * V * a.S_w)
    try:
        set_it = pitch_control != "elevator"
        ret = sc.pitch_trim(set_trim_state=set_it, **kw)["a"]
        if set_it:
            left = api.aircraft_state(sc, "a")["controls"]
            if abs(left["elevator"] - cs["elevator"]) > 1e-12 or abs(left[pitch_control] - float(ret[pitch_control])) > 1e-9:
                return "pitch_trim:set-state-controls", dict(controls_left=left, controls_given=cs, returned=ret, scene=sd, aircraft=ac, state=st, kwargs=kw)
    except Exception as e:
        if type(e).__name__ in ("MaxIterationError", "SolverNotConvergedError"):
            chk.count("not-trimmable=" + type(e).__name__)        # a raised error is not a returned trim: nothing to check
            return None, None
        return "pitch_trim:raises:" + type(e).__name__, dict(error=repr(e), scene=sd, aircraft=ac, state=st, controls=cs, kwargs=kw)
    st2 = dict(st, alpha=float(ret["alpha"]))
    cs2 = dict(cs, **{pitch_control: float(ret[pitch_control])})
    _, tot = totals_at(MX, sd, ac, st2, cs2)
    CLt, Cmt = kw.get("CL", CW), kw.get("Cm", 0.0)
    if abs(tot["CL"] - CLt) > TOL or abs(tot["Cm"] - Cmt) > TOL:
        return "pitch_trim:targets-not-met", dict(CL=tot["CL"], CL_target=CLt, Cm=tot["Cm"], Cm_target=Cmt, returned=ret, default_target_used="CL" not in kw,
                                                  scene=sd, aircraft=ac, state=st, controls=cs, kwargs=kw)
    return None, dict(kind="pitch_trim", kwargs=kw, wind="V_wind" in sd["scene"]["atmosphere"])


def check_trim_orientation(chk, MX):
    rng = chk.rng
    sd, ac, st, cs = gen_case(chk)
    kw = {}
    if rng.random() < 0.5 and getattr(chk, "round", 0) != 0:
        # (round 0: the default lift target - the weight coefficient - on a banked aircraft, whatever the draw)
        kw["CL"] = round(rng.uniform(0.2, 0.6), 3)
    if getattr(chk, "round", 0) == 0 and abs(st["orientation"][0]) < 10.0:
        st["orientation"][0] = 30.0
    sc = gen.build_scene(MX, sd, [("a", ac, st, cs)])
    if getattr(chk, "round", 0) % 2 == 1:
        # targets that the aircraft meets as it is (its present CL and Cm): the answer of an aircraft that is already trimmed
        tot0 = sc.solve_forces(dimensional=False)["a"]["total"]
        kw["CL"], kw["Cm"] = float(tot0["CL"]), float(tot0["Cm"])
        chk.count("trim_orient:already-trimmed")
    before = api.aircraft_state(sc, "a")
    a = sc._airplanes["a"]
    W = np.array(sc._get_wind(a.p_bar), dtype=float)
    V = float(np.linalg.norm(np.array(a.v) - W))
    CW = a.W / (0.5 * float(sc._get_density(a.p_bar)) * V * V * a.S_w)
    try:
        rs, rc = sc.pitch_trim_using_orientation(set_trim_state=False, **kw)
    except Exception as e:
        if type(e).__name__ in ("MaxIterationError", "SolverNotConvergedError"):
            chk.count("not-trimmable=" + type(e).__name__)        # a raised error is not a returned trim: nothing to check
            return None, None
        return "trim_orient:raises:" + type(e).__name__, dict(error=repr(e), scene=sd, aircraft=ac, state=st, controls=cs, kwargs=kw)
    st2 = {"position": list(map(float, rs["position"])), "velocity": list(map(float, rs["velocity"])),
           "orientation": list(map(float, rs["orientation"])), "angular_rates": list(map(float, rs["angular_rates"]))}
    try:
        sc2, tot = totals_at(MX, sd, ac, st2, {k: float(v) for k, v in rc.items()})
    except Exception as e:
        if getattr(chk, "round", 0) % 2 == 1 and type(e).__name__ == "SolverNotConvergedError":
            # the aircraft was solved in the state it is in; the answer "already trimmed" must be that state
            return "trim_orient:returned-state-not-solvable", dict(returned=st2, scene=sd, aircraft=ac, state=st, controls=cs, kwargs=kw)
        raise
    CLt = kw.get("CL", CW)
    if abs(tot["CL"] - CLt) > TOL or abs(tot["Cm"] - kw.get("Cm", 0.0)) > TOL:
        return "trim_orient:targets-not-met", dict(CL=tot["CL"], CL_target=CLt, Cm=tot["Cm"], Cm_target=kw.get("Cm", 0.0), scene=sd, aircraft=ac, state=st, controls=cs, kwargs=kw)
    after = api.aircraft_state(sc2, "a")
    e0, e1 = api.quat_to_euler_deg(before["q"]), api.quat_to_euler_deg(after["q"])
    if abs(e0[0] - e1[0]) > 1e-6 or abs(e0[2] - e1[2]) > 1e-6:
        return "trim_orient:bank-or-heading-changed", dict(before=e0, after=e1, scene=sd, state=st)
    if not np.allclose(before["v"], after["v"], rtol=1e-9, atol=1e-8) or not np.allclose(before["p"], after["p"]):
        return "trim_orient:earth-velocity-or-position-changed", dict(before=before["v"], after=after["v"], scene=sd, state=st)
    for c in ("aileron", "rudder"):
        if abs(float(rc[c]) - cs[c]) > 1e-12:
            return "trim_orient:other-control-changed", dict(control=c, before=cs[c], after=float(rc[c]))
    return None, dict(kind="trim_orient", kwargs=kw)


def check_target_CL(chk, MX):
    rng = chk.rng
    sd, ac, st, cs = gen_case(chk)
    CLt = round(rng.uniform(0.1, 0.7), 3)
    mode = chk.hist.get("target_CL_calls", 0) % 3
    chk.count("target_CL_calls")
    given = {"elevator": round(rng.uniform(-3, 3), 2)} if mode == 0 else {}
    if mode != 0 and not any(abs(v) > 0.5 for v in cs.values() if isinstance(v, (int, float))):
        cs = dict(cs, elevator=-6.0)             # controls deflected beforehand: "defaults to no deflections" must still hold
    sc = gen.build_scene(MX, sd, [("a", ac, st, cs)])
    try:
        kw_cs = {"control_state": copy.deepcopy(given)} if mode != 2 else {}         # mode 2: argument left out altogether
        alpha = sc.target_CL(CL=CLt, set_state=False, relaxation=rng.choice([1.0, 0.8]), **kw_cs)
    except Exception as e:
        if type(e).__name__ in ("MaxIterationError", "SolverNotConvergedError"):
            chk.count("not-trimmable=" + type(e).__name__)        # a raised error is not a returned trim: nothing to check
            return None, None
        return "target_CL:raises:" + type(e).__name__, dict(error=repr(e), scene=sd, aircraft=ac, state=st)
    _, tot = totals_at(MX, sd, ac, dict(st, alpha=float(alpha)), given)
    if abs(tot["CL"] - CLt) > TOL:
        return "target_CL:target-not-met", dict(CL=tot["CL"], CL_target=CLt, alpha=float(alpha), scene=sd, aircraft=ac, state=st, controls=given)
    return None, dict(kind="target_CL")


def check_aero_center(chk, MX, cases, descr):
    rng = chk.rng
    sd, ac, st, cs = gen_case(chk)
    sc = gen.build_scene(MX, sd, [("a", ac, st, cs)])
    rec = Recorder(sc)
    res = sc.aero_center()["a"]
    rec.stop()
    ap = sc._airplanes["a"]
    acp, Cm_ac = res["aero_center"], res["Cm_ac"]
    if acp[1] != 0.0:
        return "aero_center:not-in-symmetry-plane", dict(point=acp)
    # model correspondence: the formula applied to the three recorded solves
    FM = [[c["result"]["a"]["total"][k] for k in ("Cx", "Cz", "Cm")] for c in rec.calls[:3]]   # order of calls: alpha0, alpha0-d, alpha0+d
    l_ref = ap.l_ref_lon
    x_ac = (ap.CG[0] - acp[0]) / l_ref
    z_ac = (ap.CG[2] - acp[2]) / l_ref
    cases.append("chk_ac %s %s %s 0.5 %s %s %s" % (flist(FM[1]), flist(FM[0]), flist(FM[2]), "(%s)" % fhex(x_ac), "(%s)" % fhex(z_ac), "(%s)" % fhex(Cm_ac)))
    descr.append(dict(what="aero_center-formula", tol="x_ac,z_ac recovered from the dimensional point: compared to 1e-12 in a separate case"))
    # the property: with the CG placed at the reported point the pitching moment is stationary in alpha and equals Cm_ac
    ac2 = copy.deepcopy(ac)
    ac2["CG"] = [float(acp[0]), float(ac["CG"][1]), float(acp[2])]
    sc2, tot = totals_at(MX, sd, ac2, st, cs)
    if abs(tot["Cm"] - Cm_ac) > 1e-7 * (abs(Cm_ac) + 1e-3):
        return "aero_center:Cm_ac", dict(Cm_at_AC=tot["Cm"], reported=Cm_ac, scene=sd, aircraft=ac, state=st, controls=cs)
    d = sc2.stability_derivatives(dtheta=0.5, body_frame=True, stab_frame=False, wind_frame=True)["a"]
    d0 = gen.build_scene(MX, sd, [("a", ac, st, cs)]).stability_derivatives(dtheta=0.5, body_frame=True, stab_frame=False, wind_frame=True)["a"]
    # Cm,alpha about the AC vanishes (to the accuracy of the difference scheme): compare with its size about the original CG / the lift slope
    scale = max(abs(d0["Cm,a"]), 0.02 * abs(d0["CL,a"]))
    if abs(d["Cm,a"]) > 2e-3 * scale + 1e-6:
        return "aero_center:Cm_alpha-not-zero", dict(Cm_alpha_at_AC=d["Cm,a"], Cm_alpha_at_CG=d0["Cm,a"], CL_alpha=d0["CL,a"], point=acp,
                                                     scene=sd, aircraft=ac, state=st, controls=cs)
    return None, dict(kind="aero_center")


def check_errors(chk, MX):
    rng = chk.rng
    sd, ac, st, cs = gen_case(chk, wind=False)
    sc = gen.build_scene(MX, sd, [("a", ac, st, cs)])
    for f, name in ((sc.pitch_trim, "pitch_trim"), (sc.pitch_trim_using_orientation, "trim_orient")):
        try:
            f(pitch_control="flaperon")
            return "%s:missing-control-accepted" % name, dict(scene=sd, aircraft=ac)
        except IOError:
            pass
        except Exception as e:
            return "%s:missing-control-wrong-exception" % name, dict(error=repr(e))
    # iteration cap
    from machupX.exceptions import MaxIterationError
    for call, name in ((lambda: sc.pitch_trim(max_iterations=1, set_trim_state=False), "pitch_trim"),
                       (lambda: sc.target_CL(CL=0.5, max_iterations=1, set_state=False), "target_CL"),
                       (lambda: sc.pitch_trim_using_orientation(max_iterations=1, set_trim_state=False), "trim_orient")):
        try:
            call()
            return "%s:iteration-cap-ignored" % name, dict(scene=sd, aircraft=ac, state=st, note="max_iterations=1 returned normally from an untrimmed state")
        except MaxIterationError:
            pass
        except Exception as e:
            if type(e).__name__ == "SolverNotConvergedError":      # the inner solve failed first: still no silent return
                continue
            return "%s:iteration-cap-wrong-exception" % name, dict(error=repr(e))
    # a trimmed aircraft trims again (no iterations needed)
    sc = gen.build_scene(MX, sd, [("a", ac, st, cs)])
    try:
        r1 = sc.pitch_trim(set_trim_state=True)
        r2 = sc.pitch_trim(set_trim_state=True)
        if abs(float(r1["a"]["alpha"]) - float(r2["a"]["alpha"])) > 1e-6:
            return "pitch_trim:retrim-differs", dict(first=r1, second=r2)
    except MaxIterationError:
        pass
    except Exception as e:
        if type(e).__name__ == "SolverNotConvergedError":
            return None, dict(kind="errors")
        return "pitch_trim:retrim-raises:" + type(e).__name__, dict(error=repr(e), scene=sd, aircraft=ac, state=st, controls=cs)
    return None, dict(kind="errors")


def run(chk):
    MX = common.setup_env()
    import machupX.helpers as H
    MX.helpers = H
    chk.proofs(extra_trusted=[
        "correspondence: Model/Analyses.v ac_point on binary64 from the three solves recorded inside aero_center",
        "search: returned trim values re-applied to freshly built scenes; aerodynamic centre re-applied as the CG of a fresh scene",
        "solve_forces and the 2x2 linear solver are arbitrary functions in the theorems"])
    cases, descr = [], []
    n = chk.q(20, 200)
    kinds = [check_pitch_trim, check_trim_orientation, check_target_CL, lambda c, m: check_aero_center(c, m, cases, descr), check_errors]
    names = ["pitch_trim", "trim_orient", "target_CL", "aero_center", "errors"]
    for i in range(n):
        k = i % len(kinds)
        chk.round = i // len(kinds)            # the dimensions that must not be left to chance are enumerated over the rounds
        try:
            sig, det = kinds[k](chk, MX)
        except Exception as e:
            if type(e).__name__ == "SolverNotConvergedError":
                chk.count("nonconverged=" + names[k])
                continue
            sig, det = "harness:%s:%s" % (names[k], type(e).__name__), dict(error=repr(e))
        if sig:
            chk.violation(sig, dict(kind="trim", what=sig, detail=det))
        elif det:
            chk.case(dict(det, i=i), nontrivial=True)
            chk.count("kind=" + names[k])
        else:
            chk.count("maxiter=" + names[k])
    failing, nfiles, errors = common.run_cases("C10", IMPORTS, [], cases)
    chk.cov["traces_validated_against_impl"] = len(cases)
    if errors:
        chk.fail_obligation("correspondence:C10(case files do not compile)", "\n".join(errors)[-3000:])
    elif failing and not chk.violations:
        chk.fail_obligation("correspondence:Model/Analyses.v:ac_point", json.dumps(dict(n_disagreements=len(failing), of=len(cases))))
    return chk.finish(rule="trimmable aircraft at random alpha/beta/attitude/controls, wind in 40 %, random targets and relaxation: returned values "
                           "re-applied to a fresh scene must meet CL/Cm targets within 5e-9; frame conditions; missing control; iteration cap; "
                           "re-trim; aerodynamic centre re-applied as CG")


def replay(chk, path):
    print(json.dumps(json.load(open(path)), indent=1, default=str)[:3000])
    return 0
