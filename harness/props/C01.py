"""C01 — the returned circulation solves the lifting-line equations, or an error is raised."""
import math, copy, json, warnings
import numpy as np
from harness import common, gen, api, adapter
from harness.common import fhex, flist, fv3, fq4, cbool, ftable2

LEVEL = "proof"
IMPORTS = ["From MuxV Require Import Base.Num Base.Vec3 Base.FInst Model.Helpers Model.HelpersF Model.Kernel Model.Residual Model.Integrate Model.SceneF Model.ErrPolicy."]
TOL = "0x1p-27"      # ~7.5e-9 relative to the row / entry scale


def scene_defs(sc, tag):
    """Gallina definitions of one live scene (after _calc_invariant_flow_properties)."""
    N = sc._N
    o = adapter.opts_of(sc)
    d = []
    d.append("Definition o_%s := %s." % (tag, adapter.coq_opts(o)))
    d.append("Definition cs_%s : list (cpt float) := [%s]." % (tag, ";\n ".join(adapter.coq_cpt(sc, i) for i in range(N))))
    d.append("Definition Ss_%s : list (section float) := %s." % (tag, adapter.coq_sections(sc)))
    d.append("Definition hs_%s : list (list (hshoe float)) := %s." % (tag, adapter.coq_hs_matrix(sc)))
    d.append("Definition Vm_%s := vmatF %s hs_%s." % (tag, fhex(np.pi), tag))
    return d


def residual_and_atan(sc, g):
    R = np.array(sc._lifting_line_residual(np.array(g, dtype=float)), dtype=float)
    at = [(float(vn), float(va), float(al)) for vn, va, al in zip(sc._v_n, sc._v_a, sc._alpha)]
    scale = (2.0 * np.array(sc._w_i_mag) * np.abs(g) + np.abs(R) + 1e-12).tolist()
    return R, at, scale


def numeric_cases(chk, MX, n):
    rng = chk.rng
    cases, descr = [], []
    built = 0
    attempts = 0
    while built < n and attempts < 3 * n:
        attempts += 1
        multi = rng.random() < 0.25
        sd = gen.gen_scene(rng, chk.hist, wind=rng.random() < 0.3)
        acs = []
        for k in range(2 if multi else 1):
            ac = gen.gen_aircraft(rng, chk.hist, max_wings=2, N=rng.randint(2, 4) if multi else rng.randint(3, 5),
                                  sides=("both", "both", "left", "right"))
            st = gen.gen_state(rng, chk.hist)
            if multi:
                st["position"] = [rng.uniform(-20, 20), k * rng.uniform(12, 30), rng.uniform(-10, 10)]
            acs.append(("ac%d" % k, ac, st, gen.gen_controls(rng, ac)))
        if built == 1:
            # (enumerated) the warning threshold for near-impingement raised far above its default: it decides when a warning is printed,
            # not which trailing legs induce velocity (control points of a wing without joints lie close to the legs of their own section)
            sd.setdefault("solver", {})["impingement_threshold"] = 0.05
            ac_ = gen.simple_wing_aircraft(N=5, reid=False)
            del ac_["wings"]["h_stab"], ac_["wings"]["v_stab"]
            acs = [("ac0", ac_, {k_: v_ for k_, v_ in acs[0][2].items() if k_ != "position"}, {"aileron": 2.0})]
            chk.count("impingement_threshold=raised")
        try:
            sc = gen.build_scene(MX, sd, acs)
        except Exception as e:
            chk.count("build_error=" + type(e).__name__)
            continue
        if sc._N > 16:
            continue
        try:
            FM = sc.solve_forces(**api.ALL_FRAMES)
            converged = True
            if rng.random() < 0.35:
                # warm start: change every aircraft's state and solve from the previous circulation; everything below then
                # refers to the scene as that path left it
                for nm, ac_, st_, cs_ in acs:
                    st2 = gen.gen_state(rng, None)
                    if "position" in st_:
                        st2["position"] = st_["position"]
                    sc.set_aircraft_state(state=st2, aircraft=nm)
                FM = sc.solve_forces(initial_guess="previous", **api.ALL_FRAMES)
                chk.count("path=previous")
        except Exception as e:
            converged = False
            chk.count("solve_raised=" + type(e).__name__)
        tag = "s%d" % built
        adapter.prepare(sc)
        g_ret = np.array(sc._gamma, dtype=float).copy()
        if not np.all(np.isfinite(g_ret)):
            chk.count("nonfinite_gamma")
            continue
        dev = adapter.geometry_consistency(sc)
        if dev > 1e-9:
            chk.violation("assembly:r-vectors", dict(kind="assembly", scene=sd, aircraft=acs, deviation=dev,
                                                     note="node-to-control-point vectors are not the differences of the stored points"))
        defs = scene_defs(sc, tag)
        N = sc._N
        info = dict(scene=sd, aircraft=acs, N=N, opts=adapter.opts_of(sc), converged=converged)
        # 0. freestream + rotation at the control points and the trailing directions, from the aircraft's CURRENT state
        for ap, sl in zip(sc._airplane_objects, sc._airplane_slices):
            wind = np.array(sc._get_wind(ap.p_bar), dtype=float)
            cg = np.array(ap.CG, dtype=float)
            pts = "[" + "; ".join("(%s, %s, %s)" % (fv3(ap.PC_CG[i]), fv3(np.array(ap.P0_joint[i]) - cg), fv3(np.array(ap.P1_joint[i]) - cg))
                                  for i in range(ap.N)) + "]"
            exp_ = "[" + "; ".join("(%s, %s, %s)" % (fv3(sc._v_inf_and_rot[sl][i]), fv3(sc._u_trailing_0[sl][i]), fv3(sc._u_trailing_1[sl][i]))
                                   for i in range(ap.N)) + "]"
            cases.append(([], "chk_flow 0x1p-36 %s %s %s %s %s %s %s %s" % (cbool(sc._constrain_vortex_sheet), cbool(sc._match_machup_pro), fq4(ap.q),
                                                                            fv3(ap.v), fv3(wind), fv3(ap.w), pts, exp_)))
            descr.append(dict(info, what="flow(v_inf+rot, trailing directions)", aircraft_name=ap.name, constrain=bool(sc._constrain_vortex_sheet)))
        # 1. influence matrix
        V = np.array(sc._V_ji, dtype=float)
        rowscale = [float(np.max(np.abs(V[i]))) for i in range(N)]
        cases.append((defs, "chk_vmat %s %s hs_%s %s %s" % (TOL, fhex(np.pi), tag, flist(rowscale), adapter.coq_v3_matrix(V))))
        descr.append(dict(info, what="V_ji"))
        # 2. residual at the returned circulation and at a perturbed one; Jacobian at the perturbed one
        g_pert = g_ret * (1.0 + 0.2 * chk.nprng.standard_normal(N)) + 0.05 * np.max(np.abs(g_ret) + 1e-3) * chk.nprng.standard_normal(N)
        R0, at0, sc0 = residual_and_atan(sc, g_ret)
        R1, at1, sc1 = residual_and_atan(sc, g_pert)
        d2 = defs + ["Definition at_%s := %s." % (tag, ftable2(at0 + at1))]
        common_args = "at_%s o_%s cs_%s Ss_%s Vm_%s" % (tag, tag, tag, tag, tag)
        cases.append((d2, "chk_residual %s %s %s %s %s" % (common_args, TOL, flist(g_ret), flist(sc0), flist(R0))))
        descr.append(dict(info, what="residual@returned"))
        cases.append((d2, "chk_residual %s %s %s %s %s" % (common_args, TOL, flist(g_pert), flist(sc1), flist(R1))))
        descr.append(dict(info, what="residual@perturbed"))
        with adapter.SolveRecorder() as rec:
            old_max = sc._max_solver_iterations
            sc._max_solver_iterations = 1
            sc._gamma = g_pert.copy()
            try:
                sc._solve_nonlinear()
            except Exception:
                pass
            sc._max_solver_iterations = old_max
        if rec.calls:
            J = rec.calls[0][0]
            jscale = [float(np.max(np.abs(J[i]))) for i in range(N)]
            cases.append((d2, "chk_jacobian %s %s %s %s %s" % (common_args, TOL, flist(g_pert), flist(jscale), adapter.coq_matrix(J))))
            descr.append(dict(info, what="jacobian"))
            # the recorded right-hand side is -R(g_pert)
            if not np.allclose(rec.calls[0][1], -R1, rtol=1e-12, atol=1e-14):
                chk.violation("newton:rhs", dict(kind="newton-rhs", scene=sd, aircraft=acs, note="Newton right-hand side is not -R(gamma)"))
            # and the update is gamma + relaxation * dGamma
            exp = g_pert + sc._solver_relaxation * rec.calls[0][2]
            if not np.allclose(np.array(sc._gamma, dtype=float), exp, rtol=1e-12, atol=1e-14):
                chk.violation("newton:update", dict(kind="newton-update", scene=sd, aircraft=acs, note="update is not gamma + relaxation*dGamma"))
        # 3. linear system
        with adapter.SolveRecorder() as rec:
            sc._solve_linear()
        vr = np.array(sc._v_inf_and_rot)
        at_lin = [(float(np.dot(vr[i], sc._u_n[i])), float(np.dot(vr[i], sc._u_a[i])), float(sc._alpha_inf[i])) for i in range(N)]
        if rec.calls:
            A, b = rec.calls[0][0], rec.calls[0][1]
            ascale = [float(max(np.max(np.abs(A[i])), abs(b[i]))) for i in range(N)]
            d3 = defs + ["Definition atl_%s := %s." % (tag, ftable2(at_lin))]
            cases.append((d3, "chk_linear atl_%s o_%s cs_%s Ss_%s Vm_%s %s %s %s %s" % (tag, tag, tag, tag, tag, TOL, flist(ascale),
                                                                                      adapter.coq_matrix(A), flist(b))))
            descr.append(dict(info, what="linear-system"))
        # 4. the returned circulation satisfies the *model's* equation (independent of the code's residual function)
        if converged:
            bound = max(10.0 * sc._solver_convergence, 1e-8 * float(np.max(sc0)))
            cases.append((d2, "PrimFloat.leb (norm2 (residualF at_%s o_%s cs_%s Ss_%s Vm_%s %s)) %s" % (tag, tag, tag, tag, tag, flist(g_ret), fhex(bound))))
            descr.append(dict(info, what="returned-circulation-solves-model-equation", gamma=g_ret.tolist(), bound=bound))
        chk.case(dict(N=N, n_aircraft=len(acs), opts=adapter.opts_of(sc), converged=converged, solver=sd["solver"],
                      digest=common.hashlib.sha1(json.dumps([sd, acs], sort_keys=True, default=str).encode()).hexdigest()[:10]),
                 nontrivial=bool(np.max(np.abs(g_ret)) > 1e-6))
        chk.count("opts=%s" % "".join("1" if v else "0" for v in adapter.opts_of(sc).values()))
        built += 1
    return cases, descr


# ------------------------------------------------------------------ error policy
def outcome_class(f):
    with warnings.catch_warnings(record=True) as wl:
        warnings.simplefilter("always")
        try:
            FM = f()
            nw = sum(1 for w in wl if "converge" in str(w.message))
            finite = api.all_finite(FM)
            return ("Loads", nw, finite)
        except Exception as e:
            return ("Raised" + type(e).__name__, 0, None)


def policy_cases(chk, MX):
    """Compare the live outcome class with Model/ErrPolicy.solve_forces_outcome."""
    import scipy.optimize as sopt
    import machupX.scene as S
    cases, descr = [], []
    rng = chk.rng
    ac = gen.simple_wing_aircraft(N=4)
    st = {"velocity": 60.0, "alpha": 3.0}
    instr = {"raise": "IRaise", "warn": "IWarn", "ignore": "IIgnore", "bogus": "IBad"}
    combos = []
    for solver in ("nonlinear", "linear", "scipy_fsolve"):
        for guess in ("linear", "previous"):
            for nc in instr:
                for fail in (True, False):
                    for verbose in (False, True):
                        combos.append((solver, guess, nc, fail, verbose))
    rng.shuffle(combos)
    for solver, guess, nc, fail, verbose in combos[:chk.q(60, len(combos))]:
        sd = {"solver": {"type": solver, "max_iterations": 1 if fail else 100}, "scene": {"atmosphere": {"rho": 0.0023769}}}
        sc = gen.build_scene(MX, sd, [("a", ac, st, {})])
        sc.set_err_state(not_converged=nc)
        orig = sopt.fsolve
        forced_ier = rng.choice([2, 3, 4, 5])          # every value other than 1 is a failure of scipy.optimize.fsolve
        if solver == "scipy_fsolve" and fail:
            def bad_fsolve(func, x0, full_output=True, **kw):
                x, info, ier, mesg = orig(func, x0, full_output=True, maxfev=2)
                return x, info, forced_ier, "forced failure"
            S.sopt.fsolve = bad_fsolve
        import io, contextlib
        try:
            with contextlib.redirect_stdout(io.StringIO()):
                out = outcome_class(lambda: sc.solve_forces(initial_guess=guess, verbose=verbose))
        finally:
            S.sopt.fsolve = orig
        s_coq = {"nonlinear": "SNonlinear", "linear": "SLinear", "scipy_fsolve": "SScipy"}[solver]
        g_coq = {"linear": "GLinear", "previous": "GPrevious"}[guess]
        fs_ok = not (solver == "scipy_fsolve" and fail)
        newton_ok = not fail
        facts = "{| n_aircraft := 1; fsolve_ok := %s; newton_ok := %s; integrate_db_error := false |}" % (cbool(fs_ok), cbool(newton_ok))
        if out[0] == "Loads":
            exp = "match solve_forces_outcome %s %s %s IRaise %s with Loads w _ => Nat.eqb w %d | _ => false end" % (s_coq, g_coq, instr[nc], facts, out[1])
        elif out[0] == "RaisedSolverNotConvergedError":
            exp = "match solve_forces_outcome %s %s %s IRaise %s with RaisedNotConverged => true | _ => false end" % (s_coq, g_coq, instr[nc], facts)
        elif out[0] == "RaisedRuntimeError":
            exp = "match solve_forces_outcome %s %s %s IRaise %s with RaisedRuntimeError => true | _ => false end" % (s_coq, g_coq, instr[nc], facts)
        else:
            exp = "false"
        cases.append(exp)
        d = dict(what="policy", solver=solver, initial_guess=guess, not_converged=nc, forced_failure=fail, forced_ier=forced_ier, verbose=verbose, outcome=out)
        descr.append(d)
        chk.count("policy=%s/%s/%s" % (solver, nc, "fail" if fail else "ok"))
        chk.case(dict(d), nontrivial=fail)
        # the property itself, on the implementation: under 'raise' nothing is returned from an unconverged solver
        unconverged = (solver == "nonlinear" and fail) or (solver == "scipy_fsolve" and fail)
        if nc == "raise" and unconverged and out[0] == "Loads":
            chk.violation("policy:silent-unconverged:%s" % solver, dict(kind="policy", **d))
        if nc == "warn" and unconverged and not (out[0] == "Loads" and out[1] >= 1):
            chk.violation("policy:warn:%s" % solver, dict(kind="policy", **d))
        if nc == "ignore" and unconverged and not (out[0] == "Loads" and out[1] == 0):
            chk.violation("policy:ignore:%s" % solver, dict(kind="policy", **d))
    # call histories of set_err_state: the last call decides, what it leaves out is "raise" again
    fixed_histories = [[{"not_converged": "ignore"}, {}], [{"not_converged": "warn"}, {"database_bounds": "warn"}],
                       [{"not_converged": "ignore"}, {"not_converged": "raise"}], [{"database_bounds": "ignore"}, {"not_converged": "warn"}], [{}]]
    for hi in range(len(fixed_histories) + chk.q(4, 30)):
        calls = [dict(c) for c in fixed_histories[hi]] if hi < len(fixed_histories) else []
        for _k in range(rng.randint(1, 3) if hi >= len(fixed_histories) else 0):
            kw = {}
            if rng.random() < 0.6:
                kw["not_converged"] = rng.choice(["raise", "warn", "ignore"])
            if rng.random() < 0.5:
                kw["database_bounds"] = rng.choice(["raise", "warn", "ignore"])
            calls.append(kw)
        sc = gen.build_scene(MX, {"solver": {"type": "nonlinear", "max_iterations": 1}, "scene": {"atmosphere": {"rho": 0.0023769}}}, [("a", ac, st, {})])
        for kw in calls:
            sc.set_err_state(**kw)
        out = outcome_class(lambda: sc.solve_forces())
        coq_calls = "[%s]" % "; ".join("(%s, %s)" % ("Some " + instr[kw["not_converged"]] if "not_converged" in kw else "None",
                                                     "Some " + instr[kw["database_bounds"]] if "database_bounds" in kw else "None") for kw in calls)
        facts = "{| n_aircraft := 1; fsolve_ok := true; newton_ok := false; integrate_db_error := false |}"
        want = {"Loads": "match o with Loads w _ => Nat.eqb w %d | _ => false end" % (out[1] if out[0] == "Loads" else 0),
                "RaisedSolverNotConvergedError": "match o with RaisedNotConverged => true | _ => false end",
                "RaisedRuntimeError": "match o with RaisedRuntimeError => true | _ => false end"}.get(out[0], "false")
        cases.append("let st := err_state_after %s in let o := solve_forces_outcome SNonlinear GLinear (fst st) (snd st) %s in %s" % (coq_calls, facts, want))
        d = dict(what="policy-history", calls=calls, outcome=out)
        descr.append(d)
        chk.case(dict(d), nontrivial=True)
        last = calls[-1].get("not_converged", "raise")
        if last == "raise" and out[0] == "Loads":
            chk.violation("policy:silent-unconverged:history", dict(kind="policy", **d))
    # empty scene
    sc = MX.Scene({})
    out = outcome_class(lambda: sc.solve_forces())
    cases.append("match solve_forces_outcome SNonlinear GLinear IRaise IRaise {| n_aircraft := 0; fsolve_ok := true; newton_ok := true; integrate_db_error := false |} with RaisedRuntimeError => %s | _ => false end" % cbool(out[0] == "RaisedRuntimeError"))
    descr.append(dict(what="policy", empty_scene=True, outcome=out))
    return cases, descr


# ------------------------------------------------------------------ well-posed cases converge; options sweep
def wellposed_sweep(chk, MX, n):
    rng = chk.rng
    for i in range(n):
        sd = gen.gen_scene(rng, chk.hist, wind=rng.random() < 0.2)
        # attached flow, small angles, no surface in another's wake: one wing + a tail placed out of the wake plane
        ac = gen.gen_aircraft(rng, chk.hist, max_wings=2, allow_chain=False, sides=("both", "both", "left", "right"))
        for name, w in ac["wings"].items():
            if name == "h_stab":
                w["connect_to"]["dz"] = -abs(w["connect_to"].get("dz", 0.0)) - 0.6
        st = gen.gen_state(rng, chk.hist, ang=5.0)
        cs = {k: v * 0.5 for k, v in gen.gen_controls(rng, ac).items()}
        solver_type = rng.choice(["nonlinear", "nonlinear", "scipy_fsolve"])
        sd["solver"]["type"] = solver_type
        try:
            sc = gen.build_scene(MX, sd, [("a", ac, st, cs)])
        except Exception as e:
            chk.violation("wellposed:build-raises", dict(kind="wellposed", scene=sd, aircraft=ac, state=st, controls=cs, error=repr(e)))
            continue
        with warnings.catch_warnings(record=True) as wl:
            warnings.simplefilter("always")
            try:
                FM = sc.solve_forces(**api.ALL_FRAMES)
            except Exception as e:
                if any("impinging" in str(w.message) for w in wl):
                    chk.count("wellposed_skipped=impingement")
                    continue
                chk.violation("wellposed:raises:%s" % type(e).__name__, dict(kind="wellposed", scene=sd, aircraft=ac, state=st, controls=cs,
                                                                             error=repr(e)))
                continue
        chk.case(dict(kind="wellposed", solver=sd["solver"]), nontrivial=True)
        if not api.all_finite(FM):
            chk.violation("wellposed:nonfinite", dict(kind="wellposed", scene=sd, aircraft=ac, state=st, controls=cs))
            continue
        # independent check of the equation on the public outputs for the scipy path as well
        R = np.array(sc._lifting_line_residual(np.array(sc._gamma, dtype=float)))
        # scipy stops on its own relative step tolerance (xtol 1.49e-8): the residual it leaves scales with the size of the two balanced terms
        bal = float(np.linalg.norm(2.0 * np.asarray(sc._w_i_mag) * np.asarray(sc._gamma)))
        lim = 1e-6 * max(1.0, bal) if solver_type == "scipy_fsolve" else 10 * sc._solver_convergence
        if not (np.linalg.norm(R) <= max(lim, 1e-9 * np.max(np.abs(sc._gamma) + 1.0))):
            chk.violation("wellposed:residual:%s" % solver_type, dict(kind="wellposed", scene=sd, aircraft=ac, state=st, controls=cs,
                                                                      residual_norm=float(np.linalg.norm(R))))


def run(chk):
    MX = common.setup_env()
    chk.proofs(extra_trusted=[
        "correspondence: Model/Kernel.v + Model/Residual.v on binary64 vs Scene._V_ji, _lifting_line_residual, the Jacobian and linear system "
        "captured at np.linalg.solve, to 7.5e-9 relative; Model/ErrPolicy.v vs live outcome classes",
        "oracles: np.linalg.solve (LAPACK), scipy fsolve, arctan2 (exact values supplied), airfoil_db section coefficients (probed as affine-in-alpha, "
        "valid for linear airfoils below CL_max)",
        "not proved: convergence of the Newton iteration for well-posed cases (exercised only); match_machup_pro is modelled but not exercised"])
    nv0 = len(chk.violations)
    cases, descr = numeric_cases(chk, MX, chk.q(14, 120))
    c2, d2 = policy_cases(chk, MX)
    ncorr = len(cases) + len(c2)
    failing, nfiles, errors = common.run_cases("C01", IMPORTS, [], cases + c2, chunk=12)
    descr = descr + d2
    chk.cov["traces_validated_against_impl"] = ncorr
    chk.cov["correspondence_cases"] = ncorr
    wellposed_sweep(chk, MX, chk.q(40, 400))
    if errors:
        chk.fail_obligation("correspondence:C01(case files do not compile)", "\n".join(errors)[-3000:])
    for k in failing:
        d = descr[k]
        if d.get("what") == "returned-circulation-solves-model-equation":
            chk.violation("solution:not-a-root:%s" % "".join("1" if v else "0" for v in d["opts"].values()),
                          dict(kind="returned-circulation", scene=d["scene"], aircraft=d["aircraft"], gamma=d["gamma"], bound=d["bound"],
                               note="solve_forces returned normally but the circulation does not satisfy the lifting-line equation of the model"))
        elif str(d.get("what", "")).startswith("flow"):
            # concrete input: for this scene and state the velocities / trailing directions the equations are evaluated with are not
            # those of the aircraft's current state (wrong frame, stale cache, ...), so the returned circulation solves another system
            chk.violation("flow:%s" % ("constrained" if d.get("constrain") else "free"),
                          dict(kind="flow", scene=d["scene"], aircraft=d["aircraft"], aircraft_name=d.get("aircraft_name"), opts=d["opts"],
                               note="freestream+rotation velocities or trailing-vortex directions of the live scene differ from the documented ones "
                                    "for the current aircraft state"))
    rest = [k for k in failing if descr[k].get("what") != "returned-circulation-solves-model-equation" and not str(descr[k].get("what", "")).startswith("flow")]
    if rest and len(chk.violations) == nv0 and not chk.known_hits:
        d = descr[rest[0]]
        chk.fail_obligation("correspondence:Model/Residual.v:" + str(d.get("what")),
                            json.dumps(dict(first_disagreement={k: v for k, v in d.items()}, n_disagreements=len(rest)), default=str)[:6000])
    elif rest:
        chk.notes.append("correspondence disagreements: %d (first: %s)" % (len(rest), descr[rest[0]].get("what")))
    return chk.finish(
        rule="correspondence: generated scenes (1-2 aircraft, 1-2 surfaces each, all combinations of use_swept_sections/use_total_velocity/"
             "use_in_plane/constrain_vortex_sheet/relaxation, Reid on/off, wind) -> influence matrix, residual at the returned and at a perturbed "
             "circulation, Jacobian, linear system, and the returned circulation substituted into the model's equation; error policy: solver x "
             "initial guess x err state x forced failure x verbose; search: well-posed cases must converge and satisfy the equation; "
             "non-trivial = non-zero circulation / forced failure")


def replay(chk, path):
    r = json.load(open(path))
    MX = common.setup_env()
    if r.get("kind") == "wellposed":
        sc = gen.build_scene(MX, r["scene"], [("a", r["aircraft"], r["state"], r["controls"])])
        try:
            sc.solve_forces()
            print("solved")
            return 0
        except Exception as e:
            print("raises", repr(e))
            print("VIOLATION property=C01 replay=%s" % path)
            return 1
    print(json.dumps(r, indent=1)[:3000])
    return 0
