"""C18 — classical lifting-line limits: elliptic wing vs Prandtl's closed forms (measured), closed forms themselves proved in Coq."""
import math, copy, json
import numpy as np
from harness import common, gen, api

LEVEL = "other"


class PlanformMismatch(Exception):
    pass


def wing(RA, a0, N, dist, reid, b, cluster=None, ref_area=None, unit_tag=None, profile_drag=False):
    bf = 2.0 * b
    cr = 4.0 * bf / (math.pi * RA)           # S = pi b_full c_root / 4,  RA = b_full^2 / S
    g = {"N": N, "reid_corrections": reid}
    if dist == "linear":
        g["distribution"] = "linear"
    elif dist == "explicit":                  # an explicit list (here: sine-spaced, finer towards the tip)
        th = np.linspace(0.0, math.pi / 2, 2 * N + 1)
        d = [float(x) for x in np.sin(th)]
        d[0], d[-1] = 0.0, 1.0
        g["distribution"] = d
    if cluster is not None and dist == "cosine_cluster":
        g["cluster_points"] = [cluster]
    ac = {"CG": [0, 0, 0], "weight": 10.0,
          "airfoils": {"af": {"type": "linear", "aL0": 0.0, "CLa": a0, "CmL0": 0.0, "Cma": 0.0, "CD0": 0.0, "CD1": 0.0, "CD2": 0.0, "geometry": {"NACA": "0010"}}},
          "wings": {"w": {"ID": 1, "side": "both", "is_main": True, "semispan": b, "chord": ["elliptic", cr], "airfoil": "af", "grid": g}}}
    if unit_tag is not None:
        # the root chord given in another unit of the scene's system (inches in an English scene, centimetres in an SI one)
        ac["wings"]["w"]["chord"] = ["elliptic", cr * unit_tag[1], unit_tag[0]]
    if profile_drag:
        # a section with profile drag: the induced drag is then the 'inviscid' part of the report
        ac["airfoils"]["af"].update(CD0=0.008, CD2=0.012)
    if ref_area is not None:
        # the user's reference area need not be the planform area (here: the enclosing rectangle); lengths stay the span and mean chord
        ac["reference"] = {"area": ref_area * 2.0 * b * cr, "lateral_length": 2.0 * b, "longitudinal_length": math.pi * cr / 4.0}
    return ac, cr


def measure(MX, RA, a0, N, dist, reid, alpha, units, b, V, cluster=None, ref_area=None, orientation=None, constrain=False, unit_tag=False, profile_drag=False):
    ac, cr = wing(RA, a0, N, dist, reid, b, cluster=cluster, ref_area=ref_area, unit_tag=((("in", 12.0) if units == "English" else ("cm", 100.0)) if unit_tag else None),
                  profile_drag=profile_drag)
    rho = 0.0023769 if units == "English" else 1.225
    sd = {"units": units, "solver": {"type": "nonlinear", "convergence": 1e-11}, "scene": {"atmosphere": {"rho": rho}}}
    if constrain:
        sd["solver"]["constrain_vortex_sheet"] = True
    st = {"velocity": V, "alpha": alpha}
    if orientation is not None:
        st["orientation"] = orientation
    sc = gen.build_scene(MX, sd, [("a", ac, st, {})])
    # the planform first (no solve needed): a wrong planform may not even converge
    mac0, S0 = sc.MAC()["a"]["length"], sc.get_aircraft_reference_geometry()[0]
    if ref_area is None and (abs(mac0 / (8.0 * cr / (3.0 * math.pi)) - 1.0) > TOL or abs(S0 / (math.pi * 2.0 * b * cr / 4.0) - 1.0) > TOL):
        raise PlanformMismatch("MAC %.6g (analytic %.6g), area %.6g (analytic %.6g)" % (mac0, 8.0 * cr / (3.0 * math.pi), S0, math.pi * 2.0 * b * cr / 4.0))
    full = sc.solve_forces(non_dimensional=True, dimensional=False, verbose=False)["a"]
    f = dict(full["total"])
    if profile_drag:
        f["CD"] = full["inviscid"]["CD"]["total"]             # induced drag = the inviscid part
        if abs(full["total"]["CD"] - full["viscous"]["CD"]["total"] - f["CD"]) > 1e-9 * max(1.0, abs(full["total"]["CD"])):
            f["CD"] = float("nan")                              # total = inviscid + viscous must hold as well
    a = math.radians(alpha)
    kS = 1.0 if ref_area is None else ref_area * 2.0 * b * cr / (math.pi * 2.0 * b * cr / 4.0)      # S_ref / S_planform
    f = {k: v * kS for k, v in f.items()}
    CLt = a0 * a / (1.0 + a0 / (math.pi * RA))
    CDit = CLt ** 2 / (math.pi * RA)
    dist_ = sc.distributions()["a"]
    G0 = 0.5 * V * cr * a0 * a / (1.0 + a0 / (math.pi * RA))
    circ_dev = 0.0
    for sn, d in dist_.items():
        eta = np.array(d["span_frac"])
        circ_dev = max(circ_dev, float(np.max(np.abs(np.array(d["circ"]) / G0 - np.sqrt(1.0 - eta ** 2)))))
    CLa = sc.stability_derivatives()["a"]["CL,a"] * kS
    Clp = sc.damping_derivatives()["a"]["Cl,pbar"] * kS
    mac = sc.MAC()["a"]["length"]
    ref = sc.get_aircraft_reference_geometry()
    return dict(CL=f["CL"] / CLt - 1.0, CDi=f["CD"] / CDit - 1.0, CLa=CLa / (a0 / (1.0 + a0 / (math.pi * RA))) - 1.0,
                Clp=Clp / (-a0 / (8.0 * (1.0 + 2.0 * a0 / (math.pi * RA)))) - 1.0,
                MAC=mac / (8.0 * cr / (3.0 * math.pi)) - 1.0, S=(ref[0] / kS if ref_area is not None else ref[0]) / (math.pi * 2.0 * b * cr / 4.0) - 1.0, span=ref[2] / (2.0 * b) - 1.0,
                circ=circ_dev)


TOL = 0.005          # the property's 0.5 percent
FLOOR_CLP = 0.003    # the roll-damping closed form carries the largest grid-independent part (finite roll rate and angle, central difference):
                     # e.g. RA 9.41, linear spacing: 0.232, 0.254, 0.204 % for N = 20, 40, 80
FLOOR = 0.002        # below this the error is dominated by what does not depend on the grid (finite-difference steps of the derivatives,
                     # finite angle): "monotonically closer" is asserted only while the error is above it


def run(chk):
    MX = common.setup_env()
    chk.proofs(extra_trusted=[
        "MEASURED, not proved: agreement of the code's discretised solution with the closed forms (0.5 % at N >= 20 cosine), monotone approach and "
        "first order for linear spacing; the Coq theorems cover only the analytic side (Prandtl's solution, closed forms, planform integrals, "
        "trapezoid monotonicity)",
        "Prandtl's uniform-downwash identity for the elliptic circulation (Glauert integral) enters the theorems as the form of the lifting-line equation",
        "monotone approach is asserted while the error exceeds 0.2 % (below that the grid-independent part of the error dominates)"])
    rng = chk.rng
    worst = {}

    def note(tag, r):
        for k, v in r.items():
            worst[tag + ":" + k] = max(worst.get(tag + ":" + k, 0.0), abs(v))

    # ---- (1) cosine clustering, N >= 20: 0.5 %
    for it in range(chk.q(8, 48)):
        RA = round(rng.uniform(3.0, 20.0), 2) if it % 5 else rng.choice([3.0, 20.0])
        a0 = round(rng.uniform(5.5, 6.9), 3)
        N = rng.choice([20, 20, 25, 30, 40])
        reid = bool(it % 2)
        units = rng.choice(["English", "SI"])
        alpha = round(rng.uniform(0.5, 1.5), 2)      # "small angles": the roll-damping closed form degrades as alpha^2
        b = round(rng.uniform(2.0, 12.0), 2)
        V = round(rng.uniform(30.0, 150.0), 1)
        var = ("plain", "cluster", "attitude", "ref_area", "unit_tag", "profile_drag")[it % 6]
        kw = {}
        if var == "cluster":
            kw["cluster"] = rng.choice([0.4, 0.5, 0.6])            # an extra clustering section: still cosine spacing, finer
        elif var == "attitude":
            kw["orientation"] = [round(rng.uniform(-40, 40), 1), round(rng.uniform(-25, 25), 1), round(rng.uniform(-170, 170), 1)]
            kw["constrain"] = (it // 6) % 2 == 0          # (enumerated: the first attitude case constrains the sheet)
        elif var == "ref_area":
            kw["ref_area"] = 1.0                                     # enclosing rectangle 2 b c_root as the reference area
        elif var == "unit_tag":
            kw["unit_tag"] = True
        elif var == "profile_drag":
            kw["profile_drag"] = True
        chk.count("variant=" + var)
        case = dict(kind="cosine", RA=RA, a0=a0, N=N, reid=reid, units=units, alpha=alpha, b=b, V=V, **kw)
        try:
            r = measure(MX, RA, a0, N, "cosine_cluster", reid, alpha, units, b, V, **kw)
        except PlanformMismatch as e:
            chk.case(case, nontrivial=True)
            chk.violation("limit:planform", dict(case, what="mean aerodynamic chord / planform area differ from the analytic values: " + str(e)))
            continue
        except Exception as e:
            chk.count("error=" + type(e).__name__)
            continue
        chk.case(case, nontrivial=True)
        note("cosine", r)
        for k in ("CL", "CDi", "CLa", "Clp", "MAC", "S"):
            if not abs(r[k]) <= TOL:
                chk.violation("limit:%s" % k, dict(case, what="%s differs from the closed form by %.3f %% (> 0.5 %%)" % (k, 100 * r[k]), errors=r))
        if not abs(r["span"]) <= 1e-9:
            chk.violation("limit:span", dict(case, what="reference span differs from the analytic span", errors=r))
        if not r["circ"] <= 0.02:
            chk.violation("limit:circulation", dict(case, what="circulation deviates from the elliptic distribution by %.3f of the root value" % r["circ"], errors=r))
    # ---- (2) refinement: every grid type approaches the limits monotonically; linear spacing at first order
    for it in range(chk.q(3, 12)):
        dist = ("cosine_cluster", "linear", "explicit")[it % 3]
        RA = round(rng.uniform(4.0, 16.0), 2)
        a0 = round(rng.uniform(5.8, 6.6), 3)
        reid = rng.random() < 0.5
        units = rng.choice(["English", "SI"])
        Ns = [20, 40, 80] + ([160] if dist == "linear" and chk.tier == "thorough" else [])     # the property quantifies over N >= 20
        case = dict(kind="refine", dist=dist, RA=RA, a0=a0, reid=reid, units=units, Ns=Ns)
        try:
            rs = [measure(MX, RA, a0, N, dist, reid, 1.5, units, 4.0, 100.0) for N in Ns]
        except Exception as e:
            chk.count("error=" + type(e).__name__)
            continue
        chk.case(case, nontrivial=True)
        chk.cov.setdefault("refinement_errors_percent", []).append(dict(case, errors=[{k: round(100 * v, 4) for k, v in r.items()} for r in rs]))
        for k in ("CL", "CDi", "CLa", "Clp", "MAC", "S"):
            e = [abs(r[k]) for r in rs]
            for i in range(len(e) - 1):
                if e[i + 1] > max(e[i], FLOOR_CLP if k == "Clp" else FLOOR) * 1.02 + 1e-6:
                    chk.violation("refine:%s:%s" % (dist, k), dict(case, what="refining N=%d -> %d moves %s away from the closed form (%.4f %% -> %.4f %%)"
                                                                   % (Ns[i], Ns[i + 1], k, 100 * e[i], 100 * e[i + 1]), errors=[100 * x for x in e]))
                    break
        if dist == "linear":
            for k in ("CL", "CDi", "S"):
                e = [abs(r[k]) for r in rs]
                for i in range(0, len(e) - 1):
                    if e[i] > 5e-4:
                        ratio = e[i + 1] / e[i]
                        lo, hi = (0.2, 0.8) if k != "S" else (0.15, 0.8)      # first order: 1/2 (the area converges slightly faster, ~ N^-3/2)
                        if not lo <= ratio <= hi:
                            chk.violation("refine:linear-order:%s" % k, dict(case, what="error ratio %.3f for N=%d -> %d is not first order" % (ratio, Ns[i], Ns[i + 1]),
                                                                            errors=[100 * x for x in e]))
                            break
    chk.cov["worst_abs_error_percent"] = {k: round(100 * v, 4) for k, v in sorted(worst.items())}
    return chk.finish(rule="elliptic, planar, untwisted, unswept wings with linear sections: RA in [3,20], a0 in [5.5,6.9], alpha in [0.5,1.5] deg, both unit systems, Reid on/off; "
                           "cosine N in {20..40}: CL, CDi, CL_alpha, Cl_pbar, MAC, S within 0.5 %, span exact, circulation within 2 % of root value of the ellipse; "
                           "N = 20,40,80(,160) for cosine / linear / explicit grids: errors non-increasing above the 0.2 % floor, linear spacing first order")


def replay(chk, path):
    d = json.load(open(path))
    print(json.dumps(d, indent=1, default=str)[:3000])
    if d.get("kind") == "cosine":
        MX = common.setup_env()
        print("now:", measure(MX, d["RA"], d["a0"], d["N"], "cosine_cluster", d["reid"], d["alpha"], d["units"], d["b"], d["V"],
                              **{k: d[k] for k in ("cluster", "ref_area", "orientation", "constrain") if k in d}))
    return 0
