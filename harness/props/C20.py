"""C20 — files, CLI runs and exports agree with the API; inputs are never mutated."""
import math, copy, json, os, re, tempfile, shutil, subprocess, sys
import numpy as np
from harness import common, gen, api
from harness.props.C19 import cstr

LEVEL = "proof"

JSON_METHODS = [
    ("solve_forces", [{}, {"non_dimensional": True, "dimensional": False}, {"report_by_segment": True}, {"body_frame": False, "wind_frame": True, "stab_frame": True}]),
    ("derivatives", [{}]),
    ("stability_derivatives", [{}, {"dtheta": 0.25}]),
    ("damping_derivatives", [{}]),
    ("control_derivatives", [{}]),
    ("state_derivatives", [{}]),
    ("pitch_trim", [{"set_trim_state": True}, {"set_trim_state": False}, {"pitch_control": "elevator", "set_trim_state": True}]),
    ("pitch_trim_using_orientation", [{"set_trim_state": False}, {"set_trim_state": True}]),
    ("aero_center", [{}]),
    ("MAC", [{}]),
]
CSV_HEADER_TO_KEY = {"span_fraction": "span_frac", "control_x": "cpx", "control_y": "cpy", "control_z": "cpz", "chord": "chord", "swept_chord": "swept_chord",
                     "twist": "twist", "dihedral": "dihedral", "sweep": "sweep", "aero_sweep": "aero_sweep", "area": "area", "alpha": "alpha",
                     "flap_deflection": "delta_flap", "u": "u", "v": "v", "w": "w", "Re": "Re", "M": "M", "q": "q", "CL": "section_CL", "Cm": "section_Cm",
                     "parasitic_CD": "section_parasitic_CD", "alpha_L0": "section_aL0", "Fx": "Fx", "Fy": "Fy", "Fz": "Fz", "Mx": "Mx", "My": "My", "Mz": "Mz",
                     "Circ": "circ", "CD_i": "CD_i"}


def jsonable(o):
    return json.loads(json.dumps(o, default=lambda x: x.tolist() if hasattr(x, "tolist") else list(x)))


def strict_eq(a, b, path=""):
    """deep, type-strict equality of caller-owned inputs; returns None or the first difference"""
    if type(a) != type(b):
        return "%s: type %s became %s" % (path, type(a).__name__, type(b).__name__)
    if isinstance(a, dict):
        if list(a.keys()) != list(b.keys()):
            return "%s: keys %s became %s" % (path, list(a.keys()), list(b.keys()))
        for k in a:
            r = strict_eq(a[k], b[k], path + "/" + str(k))
            if r:
                return r
        return None
    if isinstance(a, (list, tuple)):
        if len(a) != len(b):
            return "%s: length %d became %d" % (path, len(a), len(b))
        for i, (x, y) in enumerate(zip(a, b)):
            r = strict_eq(x, y, path + "/%d" % i)
            if r:
                return r
        return None
    if isinstance(a, np.ndarray):
        return None if np.array_equal(a, b) else path + ": array changed"
    return None if (a == b or (a != a and b != b)) else "%s: %r became %r" % (path, a, b)


def read_csv(path):
    with open(path) as fh:
        lines = [l.rstrip("\n") for l in fh if l.strip()]
    header = [h.strip() for h in lines[0].split(",")]
    rows = [[c.strip() for c in l.split(",")] for l in lines[1:]]
    return header, rows


def compare_csv(path, dist):
    """the CSV against the dictionary returned by distributions(): every column, matched by its header name"""
    header, rows = read_csv(path)
    bad = []
    if header[:2] != ["aircraft", "segment"]:
        return ["header starts with %s" % header[:2]]
    for h in header[2:]:
        if h not in CSV_HEADER_TO_KEY:
            bad.append("unknown column " + h)
    expected = []
    for an, segs in dist.items():
        for sn, d in segs.items():
            n = len(d["span_frac"])
            for i in range(n):
                expected.append((an, sn, {k: d[k][i] for k in d}))
    if len(rows) != len(expected):
        return ["%d rows, %d control points" % (len(rows), len(expected))]
    for r_, (an, sn, vals) in zip(rows, expected):
        if r_[0] != an or r_[1] != sn:
            bad.append("row labelled %s/%s, expected %s/%s" % (r_[0], r_[1], an, sn))
            break
        for h, cell in zip(header[2:], r_[2:]):
            key = CSV_HEADER_TO_KEY.get(h)
            if key is None or key not in vals:
                continue
            x, y = float(cell), float(vals[key])
            if not (abs(x - y) <= 2e-12 * abs(y) + 1e-300 or (x != x and y != y)):
                bad.append("column %s: file %r, API %r" % (h, x, y))
                break
        if bad:
            break
    return bad


def csv_label_case(path, dist):
    """the name columns of the file against the model's labels (Model/Export.v csv_label / name_width), one entry per (aircraft, segment)"""
    header, rows = read_csv(path)
    pairs = []
    for r_ in rows:
        if not pairs or pairs[-1] != (r_[0], r_[1]):
            pairs.append((r_[0], r_[1]))
    anames = list(dist.keys())
    snames = [sn for an in dist for sn in dist[an]]
    arows = [an for an in dist for sn in dist[an]]
    lst = lambda l: "[%s]" % "; ".join(cstr(x) for x in l)
    return ("str_list_eqb (map (csv_label (name_width %s)) %s) %s && str_list_eqb (map (csv_label (name_width %s)) %s) %s"
            % (lst(anames), lst(arows), lst([p_[0] for p_ in pairs]), lst(snames), lst(snames), lst([p_[1] for p_ in pairs])))


def fresh_scene(MX, sd, acs):
    return gen.build_scene(MX, copy.deepcopy(sd), copy.deepcopy(acs))


def gen_case(rng, hist, two=False):
    sd = gen.gen_scene(rng, hist, rho="const", wind=False)
    sd["solver"] = {"type": "nonlinear"}
    acs = []
    for k in range(2 if two else 1):
        if rng.random() < 0.5:
            ac = gen.simple_wing_aircraft(N=rng.randint(3, 5), reid=rng.random() < 0.5)
        else:
            ac = gen.gen_aircraft(rng, hist, max_wings=2, sides=("both", "both", "right"), N=rng.randint(3, 4), allow_fin=False)
            if "elevator" not in json.dumps(ac["wings"]):
                ac = gen.simple_wing_aircraft(N=4, reid=False)
        st = {"velocity": round(rng.uniform(70, 130), 2), "alpha": round(rng.uniform(0, 4), 2), "beta": round(rng.uniform(-2, 2), 2)}
        if two:
            st["position"] = [0.0, 40.0 * k, 0.0]
        acs.append(("ac%d" % k, ac, st, {"elevator": round(rng.uniform(-3, 3), 2)}))
    return sd, acs


# ----------------------------------------------------------------------------- A. files written through filename=
def check_files(chk, MX, tmp):
    rng = chk.rng
    label_cases, label_descr = [], []
    nfiles_ = chk.q(10, 80)
    for it in range(nfiles_ + 2):
        two = rng.random() < 0.25
        sd, acs = gen_case(rng, chk.hist, two)
        name, variants = JSON_METHODS[it % len(JSON_METHODS)] if rng.random() < 0.8 else ("distributions", [{}, {"radians": False}])
        kw = copy.deepcopy(rng.choice(variants))
        if it == nfiles_:
            # (enumerated) names longer than the usual ones: the rows of the CSV are attributed to segments by their names
            name, kw = "distributions", {}
            acs = [("research_glider_configuration_%d" % k_, dict(a_, wings={"long_outboard_panel_" + w_: v_ for w_, v_ in a_["wings"].items()}), st_, cs_)
                   for k_, (n_, a_, st_, cs_) in enumerate(acs)]
            chk.count("file:long-names")
        if it == nfiles_ + 1:
            # (enumerated) a density field: the reference density at the aircraft is one interpolated value
            name, kw = "solve_forces", {}
            sd["scene"].setdefault("atmosphere", {})["rho"] = [[x_, y_, z_, 0.0023769 * (1.0 + 2.0e-5 * z_)] for x_ in (-500.0, 500.0) for y_ in (-500.0, 500.0)
                                                                for z_ in (-3000.0, 100.0)]
            chk.count("file:density-field")
        if two and name.startswith("pitch_trim"):
            kw["aircraft"] = acs[0][0]
        fn = os.path.join(tmp, "out_%d.%s" % (it, "csv" if name == "distributions" else "json"))
        try:
            without = getattr(fresh_scene(MX, sd, acs), name)(**copy.deepcopy(kw))
        except Exception as e:
            chk.count("files-error=" + type(e).__name__)
            continue
        rep = dict(kind="file-vs-api", method=name, kwargs=kw, scene=sd, aircraft=acs)
        try:
            with_file = getattr(fresh_scene(MX, sd, acs), name)(filename=fn, **copy.deepcopy(kw))
        except Exception as e:
            chk.case(dict(kind="file", method=name, kw=kw, two=two, it=it), nontrivial=True)
            chk.violation("file:raises:" + name, dict(rep, what="the call returns without filename= and raises %s: %s with it" % (type(e).__name__, str(e)[:200])))
            continue
        chk.case(dict(kind="file", method=name, kw=kw, two=two, it=it), nontrivial=True)
        chk.count("file=" + name)
        if not os.path.exists(fn):
            chk.violation("file:missing:" + name, dict(rep, what="no file written"))
            continue
        if api.compare(jsonable(with_file), jsonable(without), rtol=1e-12, atol=1e-14):
            chk.violation("file:changes-result:" + name, dict(rep, what="passing filename= changes the returned values"))
        if name == "distributions":
            bad = compare_csv(fn, with_file)
            if bad:
                chk.violation("file:csv:" + name, dict(rep, what="CSV differs from the returned dictionary", differences=bad[:5]))
            label_cases.append(csv_label_case(fn, with_file))
            label_descr.append(dict(rep, what="labels of the distributions file differ from the model's csv_label"))
        else:
            try:
                content = json.load(open(fn))
            except Exception as e:
                chk.violation("file:not-json:" + name, dict(rep, what="file is not one JSON document: " + repr(e)))
                continue
            bad = api.compare({"r": content}, {"r": jsonable(with_file)}, rtol=0.0, atol=0.0)
            if bad:
                chk.violation("file:content:" + name, dict(rep, what="file content differs from the returned values", differences=bad[:6]))
    imports = ["From Coq Require Import String.", "From MuxV Require Import Model.Validate Model.Export."]
    defs = ["Close Scope float_scope.", "Open Scope string_scope.", "Open Scope list_scope.",
            "Definition str_list_eqb (a b : list string) : bool := Nat.eqb (List.length a) (List.length b) && forallb (fun p => String.eqb (fst p) (snd p)) (combine a b)."]
    failing, _, errors = common.run_cases("C20csv", imports, defs, label_cases, chunk=50)
    for e in errors:
        chk.fail_obligation("correspondence:C20-csv-coqc", e)
    for i in failing:
        chk.violation("file:csv-labels", label_descr[i])
    chk.cov["traces_validated_against_impl"] += len(label_cases)



# ----------------------------------------------------------------------------- B. command-line runner
def check_cli(chk, MX, tmp):
    rng = chk.rng
    methods = sorted(m for m in dir(MX.Scene) if not m.startswith("_") and callable(getattr(MX.Scene, m)))
    cli_cases = []
    for it in range(chk.q(3, 16)):
        sd, acs = gen_case(rng, None, two=False)
        name, ac, st, cs = acs[0]
        if it == 0:
            ac = gen.simple_wing_aircraft(N=4, reid=False)       # has an elevator: the trim below changes what the exports show
            acs[0] = (name, ac, st, cs)
        d = os.path.join(tmp, "cli%d" % it)
        rel = ["case.json.d/in.json", "a.b/run_1.json", "in.json", "x.json"][it % 4]       # (enumerated: a path with ".json" inside a directory name first)
        os.makedirs(os.path.dirname(os.path.join(d, rel)) or d, exist_ok=True)
        os.makedirs(d, exist_ok=True)
        acfile = os.path.join(d, "aircraft.json")
        json.dump(ac, open(acfile, "w"))
        # the run list: known commands with parameters, unknown commands, some explicit file names
        run = []
        pool = [m_ for m_ in JSON_METHODS] + [("distributions", [{}]), ("export_stl", [{"section_resolution": 8}]), ("export_vtk", [{"section_resolution": 8}])]
        for m_, variants in rng.sample(pool, rng.randint(3, 6)):
            kw = copy.deepcopy(rng.choice(variants))
            given = None
            if rng.random() < 0.3:
                ext = {"distributions": ".csv", "export_stl": ".stl", "export_vtk": ".vtk"}.get(m_, ".json")
                given = "given_%s%s" % (m_, ext)
                kw["filename"] = given
            run.append((m_, kw, given))
        if it == 0:
            # commands run in the order given: an analysis that changes the state, then exports (which draw the deflected controls), then analyses
            run = [("pitch_trim", {"set_trim_state": True}, None), ("export_stl", {"section_resolution": 8}, None), ("solve_forces", {}, None),
                   ("export_vtk", {"section_resolution": 8}, None), ("distributions", {}, None)]
            run.insert(1, ("_N", {}, None))        # names an attribute of the scene that is not a function: an unknown command like any other
        for bogus in rng.sample(["bogus_command", "solve_force", "Derivatives", "_solve_linear_", "trim"], rng.randint(1, 2)):
            run.insert(rng.randint(0, len(run)), (bogus, {"x": 1}, None))
        inp = copy.deepcopy(sd)
        inp["run"] = {m_: kw for m_, kw, _ in run}
        inp.setdefault("scene", {})["aircraft"] = {name: {"file": acfile, "state": st, "control_state": cs}}
        json.dump(inp, open(os.path.join(d, rel), "w"), indent=1)
        before = set(os.listdir(d)) | {os.path.join(dp, f) for dp, _, fs in os.walk(d) for f in fs}
        env = dict(os.environ, PYTHONPATH=common.REPO, MPLBACKEND="Agg", PYTHONHASHSEED="0")
        p = subprocess.run(["/venv/bin/python", "-m", "machupX", rel], cwd=d, env=env, capture_output=True, text=True, timeout=900)
        chk.case(dict(kind="cli", input=rel, run=[r_[0] for r_ in run], it=it), nontrivial=True)
        chk.count("cli-input=" + rel)
        rep = dict(kind="cli", input=rel, run=[(r_[0], r_[1]) for r_ in run], scene=sd, aircraft=acs, stdout=p.stdout[-1500:], stderr=p.stderr[-1500:])
        if p.returncode != 0:
            if "SolverNotConverged" in p.stderr or "MaxIteration" in p.stderr:
                chk.count("cli-nonconverged")
                continue
            # an analysis that fails on this (generated) aircraft fails through the API as well: only a runner that dies where the
            # same call sequence on a fresh scene goes through is a defect of the runner
            api_error = None
            try:
                sc_ = MX.Scene(os.path.join(d, rel))
                for m_, kw, given in run:
                    if m_ in methods:
                        kw2 = {k: v for k, v in kw.items() if k != "filename"}
                        if m_ in ("export_stl", "export_vtk"):
                            kw2["filename"] = os.path.join(d, "ref_" + m_ + (".stl" if m_ == "export_stl" else ".vtk"))
                        getattr(sc_, m_)(**kw2)
            except Exception as e:
                api_error = type(e).__name__
            if api_error is not None and api_error in p.stderr:
                chk.count("cli-analysis-error=" + api_error)
                continue
            chk.violation("cli:crash", dict(rep, what="the runner exited with status %d (the same calls through the API: %s)" % (p.returncode, api_error or "no error")))
            continue
        created = sorted(os.path.relpath(os.path.join(dp, f), d) for dp, _, fs in os.walk(d) for f in fs
                         if os.path.join(dp, f) not in before and os.path.join(dp, f) != acfile and os.path.relpath(os.path.join(dp, f), d) != rel)
        # the same calls, in the same order, through the API on a fresh scene
        expected_files = {}
        try:
            sc = MX.Scene(os.path.join(d, rel))
            for m_, kw, given in run:
                if m_ not in methods:
                    continue
                kw2 = {k: v for k, v in kw.items() if k != "filename"}
                if m_ in ("export_stl", "export_vtk"):
                    ref = os.path.join(d, "ref_" + m_ + (".stl" if m_ == "export_stl" else ".vtk"))
                    getattr(sc, m_)(filename=ref, **kw2)
                    expected_files[m_] = ("binary", ref)
                else:
                    expected_files[m_] = ("value", getattr(sc, m_)(**kw2))
        except Exception as e:
            chk.count("cli-api-error=" + type(e).__name__)
            continue
        cli_cases.append((rel, run, created, methods))
        # names predicted by the model are checked in Coq below; contents here
        base = rel[:rel.rfind(".json")]
        for m_, kw, given in run:
            if m_ not in methods:
                continue
            fn = given or (base + {"export_stl": ".stl", "export_vtk": ".vtk", "distributions": "_distributions.csv"}.get(m_, "_" + m_ + ".json"))
            path = os.path.join(d, fn)
            if not os.path.exists(path):
                chk.violation("cli:file-missing:" + m_, dict(rep, what="expected output %s was not written" % fn, created=created))
                continue
            kind, val = expected_files[m_]
            if kind == "binary":
                a, b = open(path, "rb").read(), open(val, "rb").read()
                if m_ == "export_stl":
                    a, b = a[80:], b[80:]          # 80-byte header carries a time stamp
                if a != b:
                    chk.violation("cli:content:" + m_, dict(rep, what="exported model differs from the API export"))
            elif m_ == "distributions":
                bad = compare_csv(path, val)
                if bad:
                    chk.violation("cli:content:" + m_, dict(rep, what="CSV differs from the API result", differences=bad[:5]))
            else:
                try:
                    content = json.load(open(path))
                except Exception as e:
                    chk.violation("cli:not-json:" + m_, dict(rep, what="%s is not one JSON document: %r" % (fn, e)))
                    continue
                bad = api.compare({"r": content}, {"r": jsonable(val)}, rtol=1e-12, atol=1e-13)
                if bad:
                    chk.violation("cli:content:" + m_, dict(rep, what="%s differs from the API result of the same call sequence" % fn, differences=bad[:6]))
    # the model's prediction of the calls / file names, evaluated in Coq
    imports = ["From Coq Require Import String.", "From MuxV Require Import Model.Validate Model.Export."]
    defs = ["Close Scope float_scope.", "Open Scope string_scope.", "Open Scope list_scope.",
            "Definition str_list_eqb (a b : list string) : bool := Nat.eqb (List.length a) (List.length b) && forallb (fun p => String.eqb (fst p) (snd p)) (combine a b).",
            "Fixpoint insert (s : string) (l : list string) : list string := match l with [] => [s] | x :: r => if String.leb s x then s :: l else x :: insert s r end.",
            "Definition sort (l : list string) : list string := fold_right insert [] l.",
            "Fixpoint dedup (l : list string) : list string := match l with [] => [] | x :: r => if existsb (String.eqb x) r then dedup r else x :: dedup r end.",
            "Definition files_of (calls : list (string * option string)) : list string := sort (dedup (flat_map (fun c => match snd c with Some f => [f] | None => [] end) calls))."]
    cases = []
    for rel, run, created, methods in cli_cases:
        mdef = "[%s]" % "; ".join(cstr(m_) for m_ in methods)
        rdef = "[%s]" % "; ".join("(%s, %s)" % (cstr(m_), "None" if given is None else "(Some %s)" % cstr(given)) for m_, kw, given in run)
        cdef = "[%s]" % "; ".join(cstr(f) for f in sorted(f for f in created if not os.path.basename(f).startswith("ref_")))
        cases.append("str_list_eqb (files_of (run_cli %s %s %s)) (sort %s)" % (mdef, cstr(rel), rdef, cdef))
    failing, _, errors = common.run_cases("C20cli", imports, defs, cases, chunk=50)
    for e in errors:
        chk.fail_obligation("correspondence:C20-coqc", e)
    for i in failing:
        rel, run, created, methods = cli_cases[i]
        chk.violation("cli:files:" + rel, dict(kind="cli", what="the files written differ from the model's run_cli (default names / skipped commands)",
                                               input=rel, run=[(r_[0], r_[2]) for r_ in run], created=created))
    chk.cov["traces_validated_against_impl"] += len(cases)


# ----------------------------------------------------------------------------- C. caller's dictionaries
ANALYSES = [("solve_forces", {}), ("derivatives", {}), ("state_derivatives", {}), ("pitch_trim", {"set_trim_state": True}), ("pitch_trim_using_orientation", {}),
            ("aero_center", {}), ("MAC", {}), ("distributions", {}), ("get_aircraft_reference_geometry", {}), ("target_CL", {"CL": 0.3}),
            ("export_stl", {"section_resolution": 6}), ("export_vtk", {"section_resolution": 6}), ("export_pylot_model", {})]


def check_no_mutation(chk, MX, tmp):
    rng = chk.rng
    for it in range(chk.q(8, 60)):
        sd, acs = gen_case(rng, chk.hist, two=False)
        name, ac, st, cs = acs[0]
        style = rng.choice(["scene-dict", "add_aircraft"])
        if it % 3 == 1:
            # a state whose entries are the caller's own NumPy arrays (an un-normalised attitude quaternion among them)
            style = "add_aircraft"
            st = {"position": np.array([10.0, -20.0, -300.0]), "velocity": np.array([st["velocity"], 2.0, 3.0]),
                  "orientation": np.array([1.998, 0.0, 0.0872, 0.0]), "angular_rates": np.array([0.02, -0.01, 0.03])}
            acs[0] = (name, ac, st, cs)
            chk.count("no-mutation:array-state")
        if style == "scene-dict":
            sd.setdefault("scene", {})["aircraft"] = {name: {"file": ac, "state": st, "control_state": cs}}
        if it % 4 == 3:
            # (enumerated) the optional "airfoils" entry left out: every section uses the default airfoil
            ac.pop("airfoils", None)
            for w in ac["wings"].values():
                w.pop("airfoil", None)
            chk.count("no-mutation:default-airfoil")
        if it % 2 == 0:
            # options given as lists / nested dictionaries are the easiest to alias: user cluster points on a cosine grid
            for w in ac["wings"].values():
                if w["grid"].get("distribution", "cosine_cluster") == "cosine_cluster":
                    w["grid"]["cluster_points"] = [0.3, 0.6]
                    break
        snap = copy.deepcopy((sd, ac, st, cs))
        chk.case(dict(kind="no-mutation", style=style, it=it), nontrivial=True)
        rep = dict(kind="no-mutation", style=style, scene=snap[0], aircraft=snap[1], state=snap[2], controls=snap[3])
        try:
            sc = MX.Scene(sd)
            if style == "add_aircraft":
                sc.add_aircraft(name, ac, state=st, control_state=cs)
            r = strict_eq(snap, (sd, ac, st, cs))
            if r:
                chk.violation("mutation:construct", dict(rep, what="constructing the scene modified the caller's input: " + r))
                continue
            seq = rng.sample(ANALYSES, rng.randint(3, 6))
            if it % 2 == 1 and not any(m_ == "export_pylot_model" for m_, _ in seq):
                seq.append(("export_pylot_model", {}))
            for m_, kw in seq:
                kw = copy.deepcopy(kw)
                if m_ in ("export_stl", "export_vtk"):
                    kw["filename"] = os.path.join(tmp, "m%d.%s" % (it, m_[-3:]))
                elif m_ == "export_pylot_model":
                    kw["filename"] = os.path.join(tmp, "pylot%d.json" % it)
                kw0 = copy.deepcopy(kw)
                try:
                    getattr(sc, m_)(**kw)
                except Exception as e:
                    chk.count("analysis-error=" + type(e).__name__)      # (a failed analysis must not have touched the inputs either)
                    if m_ == "export_pylot_model" and type(e).__name__ not in ("SolverNotConvergedError", "MaxIterationError"):
                        # the model file is made of reference geometry and derivatives: when those are available the export is too
                        try:
                            f_ = MX.Scene(copy.deepcopy(snap[0]))
                            if style == "add_aircraft":
                                f_.add_aircraft(name, copy.deepcopy(snap[1]), state=copy.deepcopy(snap[2]), control_state=copy.deepcopy(snap[3]))
                            f_.derivatives(); f_.get_aircraft_reference_geometry()
                            chk.violation("export:pylot-raises", dict(rep, what="export_pylot_model raises %s: %s where derivatives() and the reference geometry are available"
                                                                      % (type(e).__name__, str(e)[:200])))
                            break
                        except Exception:
                            pass
                r = strict_eq(snap, (sd, ac, st, cs)) or strict_eq(kw0, kw, "kwargs")
                if r:
                    chk.violation("mutation:" + m_, dict(rep, what="%s modified the caller's input: %s" % (m_, r), sequence=[s_[0] for s_ in seq]))
                    break
            # setters with caller-owned dictionaries
            st2, cs2 = copy.deepcopy(st), copy.deepcopy(cs)
            sc.set_aircraft_state(state=st2, aircraft=name)
            sc.set_aircraft_control_state(control_state=cs2, aircraft=name)
            sc.solve_forces()
            r = strict_eq((st, cs), (st2, cs2))
            if r:
                chk.violation("mutation:setters", dict(rep, what="the state setters modified the caller's dictionaries: " + r))
            # scenes built from the same dictionaries are independent of each other
            if style == "add_aircraft":
                sA, sB = MX.Scene(sd), MX.Scene(sd)
                sA.add_aircraft(name, ac, state=st, control_state=cs)
                sB.add_aircraft(name, ac, state=st, control_state=cs)
            else:
                sA, sB = MX.Scene(sd), MX.Scene(sd)
            ref = api.solve(sB)
            if isinstance(st.get("angular_rates"), np.ndarray):
                # the caller goes on using its own arrays: nothing it does to them reaches a scene already built
                keep = copy.deepcopy(st)
                st["angular_rates"] += 0.2
                st["position"][2] -= 5000.0
                st["velocity"] *= 0.5
                moved = api.solve(sB)
                for k_ in ("angular_rates", "position", "velocity"):
                    st[k_][:] = keep[k_]
                if api.compare(ref, moved, rtol=0.0, atol=0.0):
                    chk.violation("independence:caller-arrays", dict(rep, what="editing the caller's state arrays in place changed the results of a scene built from them"))
            sA.set_aircraft_state(state={"velocity": 55.0, "alpha": 7.0, "beta": -3.0}, aircraft=name)
            sA.set_aircraft_control_state(control_state={"elevator": -8.0, "aileron": 6.0}, aircraft=name)
            try:
                sA.pitch_trim(set_trim_state=True)
            except Exception:
                pass
            sA.solve_forces()
            again = api.solve(sB)
            sC = MX.Scene(sd)
            if style == "add_aircraft":
                sC.add_aircraft(name, ac, state=st, control_state=cs)
            third = api.solve(sC)
            if api.compare(ref, again, rtol=0.0, atol=0.0):
                chk.violation("independence:sibling", dict(rep, what="using one scene changed the results of another scene built from the same dictionaries"))
            if api.compare(ref, third, rtol=1e-13, atol=1e-15):
                chk.violation("independence:later", dict(rep, what="a scene built later from the same dictionaries gives different results"))
        except Exception as e:
            chk.count("mutation-case-error=" + type(e).__name__)
            continue


def check_same_names(chk, MX):
    """scenes and aircraft are independent of each other: an aircraft description means what it says, whatever was built before under
    the same names (a caller editing its own dictionary between builds; two aircraft that both call their section "af0")"""
    rng = chk.rng
    for k in range(chk.q(2, 8)):
        ac = gen.simple_wing_aircraft(N=4, reid=False, CLa=6.2)
        sd = {"solver": {"type": "nonlinear"}, "scene": {"atmosphere": {"rho": 0.0023769}}}
        st = {"velocity": 80.0 + 5 * k, "alpha": 3.0, "beta": 1.0}
        edited = copy.deepcopy(ac)
        edited["airfoils"]["af0"].update(CLa=round(rng.uniform(3.5, 5.0), 3), aL0=round(rng.uniform(-0.08, -0.05), 3), CD0=0.012)
        uniq = "section_%d_%d" % (k, rng.randrange(10 ** 6))
        renamed = copy.deepcopy(edited)
        renamed["airfoils"] = {uniq: renamed["airfoils"]["af0"]}
        for w in renamed["wings"].values():
            w["airfoil"] = uniq
        rep = dict(kind="same-names", aircraft=ac, edited_airfoil=edited["airfoils"]["af0"], state=st, k=k)
        chk.case(dict(kind="same-names", k=k, two=(k % 2 == 1)), nontrivial=True)
        chk.count("independence:same-names")
        try:
            first = api.solve(gen.build_scene(MX, sd, [("a", ac, st, {})]))
            if k % 2 == 0:
                got = api.solve(gen.build_scene(MX, sd, [("a", edited, st, {})]))
                ref = api.solve(gen.build_scene(MX, sd, [("a", renamed, st, {})]))
            else:
                st2 = dict(st, position=[0.0, 80.0, 0.0])
                got = api.solve(gen.build_scene(MX, sd, [("a", ac, st, {}), ("b", edited, st2, {})]))
                ref = api.solve(gen.build_scene(MX, sd, [("a", ac, st, {}), ("b", renamed, st2, {})]))
            bad = api.compare(got, ref, rtol=1e-12, atol=1e-13)
            if bad:
                chk.violation("independence:same-names", dict(rep, what="an aircraft whose airfoil has the name used by an earlier aircraft does not get the loads of its own description "
                                                                        "(the same description under a new airfoil name does)", differences=bad[:6]))
        except Exception as e:
            chk.count("same-names-error=" + type(e).__name__)


# ----------------------------------------------------------------------------- D. exported surfaces
def f32(a):
    return np.asarray(a, dtype=np.float32).astype(np.float64)


def rot_x(a):
    c, s = math.cos(a), math.sin(a)
    return np.array([[1, 0, 0], [0, c, -s], [0, s, c]])


def rot_y(a):
    c, s = math.cos(a), math.sin(a)
    return np.array([[c, 0, s], [0, 1, 0], [-s, 0, c]])


def section_local(seg, span, pts, shear=False):
    """independent of the export code: body-frame points -> section coordinates (chordwise, spanwise, thickness) in chords, using the documented
    placement: quarter chord on the curve checked in C12, rotated by dihedral about x and then by twist about y"""
    qc = seg._get_quarter_chord_loc(span)
    dih, tw, c = float(seg.get_dihedral(span)), float(seg.get_twist(span)), float(seg.get_chord(span))
    # "shear_dihedral": the dihedral is a shear transformation (like sweep): the sections stay in planes y = const and are only twisted
    R = rot_y(tw) if shear else rot_x(dih) @ rot_y(tw)
    loc = (np.asarray(pts) - np.asarray(qc).reshape(1, 3)) @ R          # R^T applied to each row
    return loc, c


def check_scene_stl(chk, MX, tmp, n):
    """several aircraft in one STL: each aircraft's surface is its own body-fixed surface placed at its position with its attitude"""
    from stl import mesh
    rng = chk.rng
    for it in range(n):
        sd, acs = gen_case(rng, None, two=True)
        acs = [(nm, ac, dict(st, orientation=[round(rng.uniform(-40, 40), 1), round(rng.uniform(-20, 20), 1), round(rng.uniform(-170, 170), 1)]), cs)
               for nm, ac, st, cs in acs]
        R = rng.choice([5, 6, 8])
        try:
            sc = gen.build_scene(MX, sd, acs)
            fn = os.path.join(tmp, "scene%d.stl" % it)
            sc.export_stl(filename=fn, section_resolution=R)
            whole = np.asarray(mesh.Mesh.from_file(fn).vectors, dtype=np.float64).reshape(-1, 3)
            parts = []
            for nm, ac, st, cs in acs:
                one = gen.build_scene(MX, sd, [(nm, ac, st, cs)])
                f1 = os.path.join(tmp, "one%d_%s.stl" % (it, nm))
                one.export_stl(filename=f1, section_resolution=R)            # a single aircraft is exported in its body-fixed frame
                body = np.asarray(mesh.Mesh.from_file(f1).vectors, dtype=np.float64).reshape(-1, 3)
                a = sc._airplanes[nm]
                q = np.array(a.q, dtype=float)
                placed = np.array(a.p_bar, dtype=float)[None, :] + np.array([api.quat_inv_rot(q, v) for v in body])
                parts.append(placed)
        except Exception as e:
            chk.count("scene-stl-error=" + type(e).__name__)
            continue
        chk.case(dict(kind="scene-stl", it=it, R=R), nontrivial=True)
        exp = np.concatenate(parts)
        rep = dict(kind="export", what="multi-aircraft STL", scene=sd, aircraft=acs, section_resolution=R)
        if exp.shape != whole.shape:
            chk.violation("stl:scene-facet-count", dict(rep, got=len(whole) // 3, expected=len(exp) // 3))
            continue
        dev = float(np.max(np.abs(exp - whole)))
        if dev > 1e-4 * (1.0 + float(np.max(np.abs(exp)))):
            chk.violation("stl:scene-placement", dict(rep, what="aircraft surfaces in the scene STL are not the body-fixed surfaces placed at position / attitude",
                                                      max_vertex_distance=dev))


def check_outline_blend(chk, MX, tmp):
    """a wing whose airfoil changes along the span is exported with the root airfoil at the root and the tip airfoil at the tip, linearly
    blended in between - compared with the exports of the two constant-airfoil wings of the same planform (STL and VTK)"""
    from stl import mesh
    rng = chk.rng

    def lin(naca):
        return {"type": "linear", "aL0": 0.0, "CLa": 6.2, "CmL0": 0.0, "Cma": 0.0, "CD0": 0.006, "CD1": 0.0, "CD2": 0.01, "geometry": {"NACA": naca}}

    for it in range(chk.q(1, 4)):
        side = ("both", "right", "left", "both")[it % 4]
        b, R = round(rng.uniform(2.0, 5.0), 2), rng.choice([6, 9, 12])
        stations = [0.0, 1.0] if it % 2 == 0 else [0.0, round(rng.uniform(0.3, 0.7), 2), 1.0]

        def aircraft(afl):
            return {"CG": [0, 0, 0], "weight": 10.0, "airfoils": {"thick": lin("0018"), "thin": lin("2408")},
                    "reference": {"area": 8.0, "longitudinal_length": 1.0, "lateral_length": 8.0},
                    "wings": {"w": {"ID": 1, "side": side, "is_main": True, "semispan": b, "chord": 1.0, "airfoil": afl,
                                    "grid": {"N": 4, "reid_corrections": False}}}}
        names = ["thick", "thin", "thick"][:len(stations)] if len(stations) == 3 else ["thick", "thin"]
        blend_afl = [[s_, n_] for s_, n_ in zip(stations, names)]
        pts = {}
        try:
            for tag, afl in (("blend", blend_afl), ("root", names[0]), ("tip", names[-1])):
                sc = gen.build_scene(MX, {"scene": {"atmosphere": {"rho": 0.0023769}}}, [("a", aircraft(afl), {"velocity": 50.0}, {})])
                fn = os.path.join(tmp, "ob%d_%s.stl" % (it, tag))
                sc.export_stl(filename=fn, section_resolution=R)
                pts[tag] = mesh.Mesh.from_file(fn).vectors.reshape(-1, 3).astype(float)
        except Exception as e:
            chk.count("outline-blend-error=" + type(e).__name__)
            continue
        chk.case(dict(kind="outline-blend", side=side, stations=stations, it=it), nontrivial=True)

        def section(v, y):
            return v[np.abs(np.abs(v[:, 1]) - y) < 1e-6][:, [0, 2]]

        def far(a_, b_):
            return max(float(np.min(np.linalg.norm(b_ - p_, axis=1))) for p_ in a_) if len(a_) and len(b_) else float("inf")
        for where, y, ref in (("root", 0.0, "root"), ("tip", b, "tip")):
            A, B = section(pts["blend"], y), section(pts[ref], y)
            dist_ = max(far(A, B), far(B, A))
            if not dist_ < 1e-5:
                chk.violation("export:outline-blend:" + where, dict(kind="outline-blend", side=side, airfoil=blend_afl, semispan=b, section_resolution=R,
                                                                   what="the exported %s section is not the %s airfoil's outline (distance %.3g)" % (where, names[0 if where == "root" else -1], dist_)))


def read_vtk(path):
    txt = open(path).read().split("\n")
    ip = [i for i, l in enumerate(txt) if l.startswith("POINTS")][0]
    npts = int(txt[ip].split()[1])
    pts = np.array([[float(x) for x in l.split()] for l in txt[ip + 1:ip + 1 + npts]])
    ig = ip + 1 + npts
    npoly, nint = int(txt[ig].split()[1]), int(txt[ig].split()[2])
    polys = [[int(x) for x in l.split()] for l in txt[ig + 1:ig + 1 + npoly]]
    return pts, polys, nint


def check_vtk_caps(chk, MX, tmp):
    """VTK export with closed / rounded wing ends (CAD_options): the end caps add polygons (triangles among them); every record is
    well-formed and every panel of the plain export is still there, vertex for vertex"""
    rng = chk.rng
    opts = [{"close_wing_tip": True}, {"close_wing_root": True, "close_wing_tip": True}, {"round_wing_tip": True, "n_rounding_sections": 4},
            {"close_wing_root": True}]
    for it in range(chk.q(3, 12)):
        ac = gen.simple_wing_aircraft(N=rng.randint(3, 5), reid=False, dihedral=rng.choice([None, 6.0]))
        R = rng.choice([6, 8, 10])
        o = opts[it % len(opts)]
        rep = dict(kind="vtk-caps", aircraft=ac, CAD_options=o, section_resolution=R)
        out = []
        try:
            for capped in (False, True):
                a2 = copy.deepcopy(ac)
                if capped:
                    a2["wings"]["main_wing"]["CAD_options"] = dict(o)
                sc = gen.build_scene(MX, {"scene": {"atmosphere": {"rho": 0.0023769}}}, [("a", a2, {"velocity": 50.0}, {})])
                fv = os.path.join(tmp, "cap%d_%d.vtk" % (it, int(capped)))
                sc.export_vtk(filename=fv, section_resolution=R)
                out.append(read_vtk(fv))
        except Exception as e:
            chk.violation("vtk-caps:raises", dict(rep, error=repr(e)))
            continue
        chk.case(dict(kind="vtk-caps", options=sorted(o), R=R), nontrivial=True)
        chk.count("vtk-caps=" + "+".join(sorted(o)))
        (p0, q0, n0), (p1, q1, n1) = out
        bad = None
        if any(len(r_) != r_[0] + 1 or r_[0] < 3 or min(r_[1:]) < 0 or max(r_[1:]) >= len(p1) or len(set(r_[1:])) != r_[0] for r_ in q1):
            bad = "a polygon record of the capped export is malformed (length, index range or a repeated vertex)"
        elif n1 != sum(len(r_) for r_ in q1):
            bad = "the POLYGONS header announces %d integers, the records hold %d" % (n1, sum(len(r_) for r_ in q1))
        elif len(q1) <= len(q0):
            bad = "closing the wing end added no polygon"
        else:
            key = lambda P, r_: tuple(sorted(tuple(np.round(P[i], 9)) for i in r_[1:]))
            have = set(key(p1, r_) for r_ in q1)
            missing = [r_ for r_ in q0 if key(p0, r_) not in have]
            if missing:
                bad = "%d of the %d panels of the plain export are not in the capped export" % (len(missing), len(q0))
        if bad:
            chk.violation("vtk-caps:panels", dict(rep, what=bad))


def check_exports(chk, MX, tmp):
    from stl import mesh
    rng = chk.rng
    imports = ["From MuxV Require Import Model.Export."]
    cases = []
    for it in range(chk.q(6, 40)):
        symmetric = rng.random() < 0.5 or it % 3 == 2          # (every third aircraft: not left to the draw)
        sd, acs = gen_case(rng, chk.hist, two=False)
        name, ac, st, cs = acs[0]
        if symmetric:
            ac = gen.gen_aircraft(rng, None, max_wings=2, sides=("both",), N=rng.randint(3, 4), allow_fin=False)
            ac["CG"][1] = 0.0
            # symmetric controls deflected: the exported flaps must be mirror images too (part-span surfaces included)
            cs = {k: round(rng.uniform(4.0, 15.0) * rng.choice([-1, 1]), 1) for k, v in ac["controls"].items() if v.get("is_symmetric", True)}
            part_span = 0
            for w in ac["wings"].values():
                c_ = w.get("control_surface")
                if c_ and (rng.random() < 0.6 or (it % 3 == 2 and part_span == 0 and any(k_ in cs for k_ in c_.get("control_mixing", {})))):
                    c_["root_span"], c_["tip_span"] = round(rng.uniform(0.35, 0.6), 2), 1.0
                    if isinstance(c_.get("chord_fraction"), list):
                        c_["chord_fraction"] = 0.25
                    part_span += 1
            if part_span and cs:
                chk.count("export:symmetric-part-span-deflected")
        R = rng.choice([5, 6, 8, 9, 12])
        close_te = rng.random() < 0.7
        sheared = it % 3 == 1
        if it % 3 == 0:
            # twist and dihedral both present on the first surface of every third aircraft (not left to the draw): the order of the two
            # rotations of a section matters only then
            for w in list(ac["wings"].values())[:1]:
                if "quarter_chord_locs" not in w:
                    w["twist"] = [[0.0, round(rng.uniform(2.0, 5.0), 2)], [1.0, -round(rng.uniform(1.0, 4.0), 2)]]
                    w["dihedral"] = round(rng.uniform(8.0, 20.0), 1)
                    chk.count("export:twist-and-dihedral")
        if sheared:
            # the documented export option "shear_dihedral" on every surface (wings with dihedral: the sections stay in planes y = const)
            for w in ac["wings"].values():
                w["shear_dihedral"] = True
                if not isinstance(w.get("dihedral"), (list, str)) and abs(float(w.get("dihedral", 0.0))) < 2.0 and "quarter_chord_locs" not in w:
                    w["dihedral"] = round(rng.uniform(5.0, 25.0) * rng.choice([-1, 1]), 1)
            chk.count("export:shear_dihedral")
        try:
            sc = gen.build_scene(MX, sd, [(name, ac, st, cs)])
            fn = os.path.join(tmp, "e%d.stl" % it)
            fv = os.path.join(tmp, "e%d.vtk" % it)
            sc.export_stl(filename=fn, section_resolution=R, close_te=close_te)
            sc.export_vtk(filename=fv, section_resolution=R, close_te=close_te)
        except Exception as e:
            chk.count("export-error=" + type(e).__name__)
            continue
        chk.case(dict(kind="export", symmetric=symmetric, R=R, close_te=close_te, it=it), nontrivial=True)
        rep = dict(kind="export", scene=sd, aircraft=ac, state=st, controls=cs, section_resolution=R, close_te=close_te)
        airplane = sc._airplanes[name]
        m = mesh.Mesh.from_file(fn)
        V = np.asarray(m.vectors, dtype=np.float64)            # (facets, 3, 3)
        segs = list(airplane.wing_segments.items())
        Ns = [s_.N for _, s_ in segs]
        cases.append("Nat.eqb (fold_right Nat.add 0 (map (fun n => num_facets n %d) [%s])) %d" % (R, "; ".join(str(n) for n in Ns), len(V)))
        if len(V) != sum(2 * n * (R - 1) for n in Ns):
            chk.violation("stl:facet-count", dict(rep, what="%d facets for segments with N=%s, resolution %d" % (len(V), Ns, R)))
            continue
        off = 0
        bad = None
        seg_points = {}
        for sn, seg in segs:
            nodes = seg.node_span_locs if seg.side == "right" else seg.node_span_locs[::-1]
            outl = [seg._get_airfoil_outline_coords_at_span(s_, R, close_te) for s_ in nodes]
            pts_all = []
            for i in range(seg.N):
                for j in range(R - 1):
                    k = off + 2 * (i * (R - 1) + j)                      # facet index = slot / 3
                    six = V[k:k + 2].reshape(6, 3)
                    corners = f32(np.array([outl[i][j], outl[i][j + 1], outl[i + 1][j], outl[i + 1][j + 1]]))
                    # every vertex of the two triangles is a corner of the panel, and every corner is used
                    d = np.abs(six[:, None, :] - corners[None, :, :]).max(axis=2)
                    if not (np.all(d.min(axis=1) == 0.0) and np.all(d.min(axis=0) == 0.0)):
                        bad = "segment %s panel (%d,%d): the two facets are not the two triangles of the panel's quadrilateral" % (sn, i, j)
                        break
                    pts_all.append(six)
                if bad:
                    break
            if bad:
                break
            off += 2 * seg.N * (R - 1)
            seg_points[sn] = np.concatenate(pts_all)
            # independent oracle: every exported vertex lies in the plane of a section at a grid node, between leading and trailing edge
            P = seg_points[sn]
            ok = np.zeros(len(P), dtype=bool)
            for s_ in nodes:
                loc, c = section_local(seg, float(s_), P, shear=bool(ac["wings"][sn.rsplit("_", 1)[0]].get("shear_dihedral", False)))   # (an elliptic tip has zero chord: the outline collapses to a point)
                tol = 1e-5 * (1.0 + np.abs(P).max())
                ok |= (np.abs(loc[:, 1]) <= tol) & (loc[:, 0] <= 0.27 * c + tol) & (loc[:, 0] >= -0.77 * c - tol) & (np.abs(loc[:, 2]) <= 0.5 * c + tol)
            if not np.all(ok):
                bad = "segment %s: %d exported vertices are not on a section plane at a grid node" % (sn, int((~ok).sum()))
                break
        if bad:
            chk.violation("stl:panels", dict(rep, what=bad))
            continue
        # VTK: one quadrilateral per panel, same corner points
        try:
            txt = open(fv).read().split("\n")
            ip = [i for i, l in enumerate(txt) if l.startswith("POINTS")][0]
            npts = int(txt[ip].split()[1])
            pts = np.array([[float(x) for x in l.split()] for l in txt[ip + 1:ip + 1 + npts]])
            ig = ip + 1 + npts
            npoly = int(txt[ig].split()[1])
            polys = [[int(x) for x in l.split()] for l in txt[ig + 1:ig + 1 + npoly]]
        except Exception as e:
            chk.violation("vtk:unreadable", dict(rep, what="cannot parse the VTK file: %r" % e))
            continue
        if npoly != sum(n * (R - 1) for n in Ns) or any(p[0] != 4 or len(p) != 5 for p in polys):
            chk.violation("vtk:panel-count", dict(rep, what="%d polygons (expected %d quadrilaterals)" % (npoly, sum(n * (R - 1) for n in Ns))))
            continue
        k = 0
        vbad = None
        for seg in airplane.segments:
            outl = [seg._get_airfoil_outline_coords_at_span(s_, R, close_te) for s_ in seg.node_span_locs]
            for i in range(seg.N):
                for j in range(R - 1):
                    quad = pts[polys[k][1:]]
                    corners = np.array([outl[i + 1][j], outl[i + 1][j + 1], outl[i][j + 1], outl[i][j]])
                    if not np.allclose(quad, corners, rtol=1e-10, atol=1e-10):
                        vbad = "segment %s panel (%d,%d)" % (seg.name, i, j)
                    k += 1
        if vbad:
            chk.violation("vtk:panels", dict(rep, what="VTK polygon is not the panel's quadrilateral: " + vbad))
        # mirror symmetry
        if symmetric:
            Mv = np.array([1.0, -1.0, 1.0])
            for sn, seg in segs:
                if not sn.endswith("_left"):
                    continue
                other = sn[:-5] + "_right"
                if other not in seg_points:
                    continue
                A, B = seg_points[sn] * Mv, seg_points[other]
                tol = 2e-6 * (1.0 + np.abs(B).max())
                for i in range(seg.N):
                    for j in range(R - 1):
                        a = A[6 * (i * (R - 1) + j):6 * (i * (R - 1) + j) + 6]
                        b = B[6 * (i * (R - 1) + j):6 * (i * (R - 1) + j) + 6]
                        d = np.abs(a[:, None, :] - b[None, :, :]).max(axis=2)
                        if not (np.all(d.min(axis=1) <= tol) and np.all(d.min(axis=0) <= tol)):
                            chk.violation("stl:mirror", dict(rep, what="panel (%d,%d) of %s is not the mirror image of the panel of %s" % (i, j, sn, other)))
                            break
    failing, _, errors = common.run_cases("C20stl", imports, ["Close Scope float_scope."], cases, chunk=100)
    for e in errors:
        chk.fail_obligation("correspondence:C20stl-coqc", e)
    if failing:
        chk.fail_obligation("correspondence:C20stl", "model facet count differs from the exported files in cases %s" % failing[:5])
    chk.cov["traces_validated_against_impl"] += len(cases)


def run(chk):
    MX = common.setup_env()
    chk.proofs(extra_trusted=[
        "equality of file contents with API results, non-mutation / non-aliasing of caller-owned dictionaries and the position of exported vertices are "
        "runtime facts exercised on every run (before/after deep comparison, sibling scenes, parsed files), not theorems",
        "numpy-stl reader, json module; the runner is started as a subprocess with PYTHONPATH=/repo",
        "end caps / rounded tips of the CAD options, DXF/STEP exports and the display functions are not covered"])
    tmp = tempfile.mkdtemp(prefix="tmp_c20_", dir=common.REPLAYS)
    try:
        check_files(chk, MX, tmp)
        check_cli(chk, MX, tmp)
        check_no_mutation(chk, MX, tmp)
        check_same_names(chk, MX)
        check_exports(chk, MX, tmp)
        check_vtk_caps(chk, MX, tmp)
        check_outline_blend(chk, MX, tmp)
        check_scene_stl(chk, MX, tmp, chk.q(2, 12))
    finally:
        shutil.rmtree(tmp, ignore_errors=True)
    return chk.finish(rule="(A) every documented filename= method on generated scenes: file parsed and compared with the returned value and with a run without file; "
                           "(B) python -m machupX on generated inputs (relative paths incl. '.json' inside directory names, unknown commands, explicit names): files "
                           "created = model's run_cli evaluated in Coq, contents = API results of the same call sequence on a fresh scene; (C) deep type-strict "
                           "before/after comparison of caller-owned dictionaries around construction, analyses and setters, sibling and later scenes from the "
                           "same dictionaries; (D) STL and VTK parsed: facet count = model, panel slots hold the two triangles of the panel quadrilateral, "
                           "vertices on section planes at grid nodes (independent placement oracle), left/right mirror images for symmetric aircraft (controls deflected); several aircraft in one STL = body-fixed surfaces placed at position / attitude")


def replay(chk, path):
    d = json.load(open(path))
    print(json.dumps(d, indent=1, default=str)[:4000])
    return 0
