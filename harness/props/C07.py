"""C07 — results always reflect the current state, whatever the call history."""
import math, copy, json
import numpy as np
from harness import common, gen, api
from harness.common import cbool

LEVEL = "proof"
IMPORTS = ["From MuxV Require Import Model.SceneFSM Model.SceneFSMF."]
DEFS = ["Close Scope float_scope."]
SD = {"units": "English", "solver": {"type": "nonlinear"}, "scene": {"atmosphere": {"rho": 0.0023769}}}


# ------------------------------------------------------------------ histories
def live_state(sc, name, MX):
    """state dictionary that reproduces the aircraft's current state exactly in a new scene"""
    a = sc._airplanes[name]
    q = np.array(a.q, dtype=float)
    st = {"position": [float(x) for x in a.p_bar], "orientation": [float(x) for x in q],
          "velocity": [float(x) for x in MX.helpers.quat_trans(q, np.array(a.v, dtype=float))],
          "angular_rates": [float(x) for x in a.w]}
    fr = getattr(a, "angular_rate_frame", "body")
    if fr in ("stab", "wind"):
        # the frame the rates were last given in is part of the state (the damping derivatives are taken about its axes):
        # hand the current body rates over in that frame, whose axes belong to the CURRENT wind-relative angle of attack / sideslip
        al, be, _ = a.get_aerodynamic_state(v_wind=sc._get_wind(a.p_bar))
        H = MX.helpers
        qf = H.quat_conj(H.euler_to_quat([0.0, math.radians(al), 0.0 if fr == "stab" else -math.radians(be)]))
        st["angular_rates"] = [float(x) for x in H.quat_trans(qf, np.array(a.w, dtype=float))]
        st["angular_rate_frame"] = fr
    return st


def fresh_scene(sc, pool, names_ids, MX, sd):
    acs = []
    for name in sc._airplanes:
        a = sc._airplanes[name]
        cs = {k: (float(v) if not isinstance(v, (list, np.ndarray)) else v) for k, v in a.current_control_state.items()}
        acs.append((name, pool[names_ids[name]], live_state(sc, name, MX), cs))
    return gen.build_scene(MX, sd, acs)


def rand_op(rng, names_in, all_names, pool, wind):
    k = rng.random()
    missing = [n for n in all_names if n not in names_in]
    if not names_in and k < 0.35:
        return dict(op="dist") if k < 0.2 else dict(op="solve", guess="linear")
    if not names_in or (k < 0.08 and missing):
        name = rng.choice(missing if missing else all_names)
        return dict(op="add", name=name, ac=rng.randrange(len(pool)), state=gen.gen_state(rng, None, rates=True, pose=True, rate_frames=("body",)),
                    controls={"elevator": round(rng.uniform(-3, 3), 2)})
    if k < 0.11:
        return dict(op="add", name=rng.choice(names_in), ac=rng.randrange(len(pool)), state=gen.gen_state(rng, None), controls={})   # duplicate name
    if k < 0.17 and len(names_in) > 0:
        return dict(op="remove", name=rng.choice(names_in + ["ghost"]))
    name = rng.choice(names_in)
    if k < 0.40:
        mode = rng.choice(["vel_only", "vel_only", "pose", "position_only", "tiny_pose", "full", "rates_only", "rejected"])
        return dict(op="set_state", name=name, mode=mode, V=round(rng.uniform(40, 120), 2), alpha=round(rng.uniform(-4, 8), 2),
                    beta=round(rng.uniform(-5, 5), 2), dp=[rng.uniform(-50, 50), rng.uniform(-50, 50), rng.uniform(-50, 50)],
                    E=[rng.uniform(-60, 60), rng.uniform(-30, 30), rng.uniform(-170, 170)])
    if k < 0.52:
        return dict(op="set_controls", name=name, controls={c: round(rng.uniform(-6, 6), 2) for c in rng.sample(["aileron", "elevator", "rudder"], rng.randint(0, 3))})
    if k < 0.70:
        return dict(op="solve", guess=rng.choice(["linear", "previous"]))
    if k < 0.82:
        return dict(op="dist")
    kind = rng.choice(["stab", "damp", "ctrl", "state_derivs", "aero_center", "trim", "trim_noset", "trim_orient", "trim_orient_noset",
                       "target_CL", "target_CL_noset", "derivs", "stab_all", "damp_all", "ctrl_all", "state_derivs_all", "stab_prev", "damp_prev"])
    return dict(op=kind, name=name)


def state_for(sc, o, MX):
    """the state dictionary a set_state op hands to set_aircraft_state (relative to the aircraft's current state)"""
    cur = live_state(sc, o["name"], MX)
    st = {"velocity": o["V"], "alpha": o["alpha"], "beta": o["beta"], "position": cur["position"], "orientation": cur["orientation"],
          "angular_rates": cur["angular_rates"]}
    if o["mode"] == "pose":
        st["position"] = [c + d for c, d in zip(cur["position"], o["dp"])]
        st["orientation"] = o["E"]
    elif o["mode"] == "position_only":
        # move (also in altitude) without turning: density / wind / the other aircraft are seen from the new place
        st["position"] = [cur["position"][0] + o["dp"][0], cur["position"][1] + o["dp"][1], cur["position"][2] + 40.0 * o["dp"][2]]
    elif o["mode"] == "tiny_pose":
        # a change of attitude far below any sensible comparison tolerance ... but not zero
        q = np.array(cur["orientation"])
        q = q + np.array([0.0, 3e-9, -2e-9, 1e-9])
        st["orientation"] = (q / np.linalg.norm(q)).tolist()
        st["position"] = [c + 1e-9 * (abs(c) + 1.0) for c in cur["position"]]
    elif o["mode"] == "rates_only":
        # same place, attitude and velocity: only the angular rates change
        st = dict(cur)
        st["angular_rates"] = [x + d for x, d in zip(cur["angular_rates"], (0.3, -0.1, 0.05))]
    elif o["mode"] == "full":
        st = {"velocity": o["V"], "alpha": o["alpha"], "beta": o["beta"]}      # everything else back to the defaults
    elif o["mode"] == "rejected":
        # a contradictory description (velocity vector together with alpha) at a new place and attitude: documented to be rejected; a
        # rejected call is one more public call of the history and must leave the scene as it was
        st = {"velocity": [o["V"], 0.0, 5.0], "alpha": o["alpha"], "position": [c + d for c, d in zip(cur["position"], o["dp"])], "orientation": o["E"]}
    return st


def raw_state(sc, name):
    """what the aircraft object holds: position, attitude, Earth-fixed velocity, body rates, rate frame, controls"""
    a = sc._airplanes[name]
    return dict(position=[float(x) for x in a.p_bar], orientation=[float(x) for x in a.q], velocity=[float(x) for x in a.v],
                angular_rates=[float(x) for x in a.w], rate_frame=getattr(a, "angular_rate_frame", "body"),
                controls={k: float(v) for k, v in a.current_control_state.items()})


NO_CHANGE = ("solve", "dist", "stab", "damp", "ctrl", "stab_prev", "damp_prev", "derivs_prev", "stab_all", "damp_all", "ctrl_all", "state_derivs_all",
             "derivs", "state_derivs", "aero_center", "trim_noset", "trim_orient_noset", "target_CL_noset")


def canon(x):
    """canonical JSON-able copy of an API result"""
    return json.loads(json.dumps(x, default=common._jsonable))


def apply_op(sc, o, pool, names_ids, MX):
    """Execute one op on a scene.  Returns (result or None, exception name or None)."""
    k = o["op"]
    try:
        if k == "add":
            if o["name"] in sc._airplanes and False:
                pass
            sc.add_aircraft(o["name"], copy.deepcopy(pool[o["ac"]]), state=copy.deepcopy(o["state"]), control_state=copy.deepcopy(o["controls"]))
            names_ids[o["name"]] = o["ac"]
            return None, None
        if k == "remove":
            sc.remove_aircraft(o["name"])
            names_ids.pop(o["name"], None)
            return None, None
        if k == "set_state":
            sc.set_aircraft_state(state=state_for(sc, o, MX), aircraft=o["name"])
            return None, None
        if k == "set_controls":
            sc.set_aircraft_control_state(control_state=copy.deepcopy(o["controls"]), aircraft=o["name"])
            return None, None
        if k == "solve":
            return canon(sc.solve_forces(initial_guess=o["guess"], **api.ALL_FRAMES)), None
        if k == "dist":
            return canon(api.body_dist(sc)), None
        if k == "stab":
            return canon(sc.stability_derivatives(aircraft=o["name"])), None
        if k == "damp":
            return canon(sc.damping_derivatives(aircraft=o["name"])), None
        if k == "ctrl":
            return canon(sc.control_derivatives(aircraft=o["name"])), None
        if k in ("stab_prev", "damp_prev", "derivs_prev"):
            # the analyses accept initial_guess like solve_forces; the documentation promises the same converged answer. On a scene that
            # has never solved (fresh comparison scene) there is no previous circulation: it uses the default guess.
            kw = {"initial_guess": "previous"} if hasattr(sc, "_V_ji") else {}
            fn = {"stab_prev": sc.stability_derivatives, "damp_prev": sc.damping_derivatives, "derivs_prev": sc.derivatives}[k]
            return canon(fn(**kw)), None
        if k == "stab_all":
            return canon(sc.stability_derivatives()), None
        if k == "damp_all":
            return canon(sc.damping_derivatives()), None
        if k == "ctrl_all":
            return canon(sc.control_derivatives()), None
        if k == "state_derivs_all":
            return canon(sc.state_derivatives()), None
        if k == "derivs":
            return canon(sc.derivatives()), None
        if k == "state_derivs":
            return canon(sc.state_derivatives(aircraft=o["name"])), None
        if k == "aero_center":
            return canon(sc.aero_center(aircraft=o["name"])), None
        if k in ("trim", "trim_noset"):
            return canon(sc.pitch_trim(aircraft=o["name"], set_trim_state=(k == "trim"))), None
        if k in ("trim_orient", "trim_orient_noset"):
            return canon(sc.pitch_trim_using_orientation(aircraft=o["name"], set_trim_state=(k == "trim_orient"))), None
        if k in ("target_CL", "target_CL_noset"):
            # the control state handed over differs from the current one (the call documents that it is applied for the analysis)
            cs = {kk: float(v) + (1.5 if kk == "elevator" else -0.75) for kk, v in sc._airplanes[o["name"]].current_control_state.items()}
            return canon(sc.target_CL(CL=0.35, control_state=cs, set_state=(k == "target_CL"))), None
    except Exception as e:
        return None, type(e).__name__
    raise ValueError(k)


QUERIES = ("solve", "dist", "stab", "damp", "ctrl", "stab_prev", "damp_prev", "derivs_prev", "stab_all", "damp_all", "ctrl_all", "state_derivs_all", "derivs", "state_derivs", "aero_center", "trim", "trim_noset", "trim_orient",
           "trim_orient_noset", "target_CL", "target_CL_noset")


def run_history(MX, ops, pool, compare=True, sd=SD):
    """Returns (trace, failure) where trace = [(names, solved, error)] and failure = None or dict."""
    sc = MX.Scene(copy.deepcopy(sd))
    names_ids = {}
    trace = []
    for i, o in enumerate(ops):
        ref = None
        if compare and o["op"] in QUERIES and sc._airplanes:
            try:
                fr = fresh_scene(sc, pool, names_ids, MX, sd)
                ref = apply_op(fr, o, pool, dict(names_ids), MX)
            except Exception as e:
                ref = ("fresh-build-failed", type(e).__name__)
        empty = not sc._airplanes
        before, twin = None, None
        if compare and o["op"] in NO_CHANGE and sc._airplanes:
            before = {n: raw_state(sc, n) for n in sc._airplanes}
        rejected_before = None
        if compare and o["op"] == "set_state" and o.get("mode") == "rejected" and o["name"] in sc._airplanes:
            rejected_before = ({n: raw_state(sc, n) for n in sc._airplanes}, bool(sc._solved))
        if compare and o["op"] == "set_state" and o["name"] in sc._airplanes:
            # what the same dictionary gives on an aircraft that has no history (its own scene: set_aircraft_state looks at nothing else)
            try:
                twin = MX.Scene(copy.deepcopy(sd))
                twin.add_aircraft(o["name"], copy.deepcopy(pool[names_ids[o["name"]]]), state=copy.deepcopy(state_for(sc, o, MX)))
            except Exception as e:
                twin = None
        got = apply_op(sc, o, pool, names_ids, MX)
        if rejected_before is not None:
            if got[1] is None:
                return trace, dict(step=i, op=o, what="contradictory-state-accepted")
            after = {n: raw_state(sc, n) for n in sc._airplanes}
            bad = api.compare(after, rejected_before[0], rtol=0, atol=0)
            if bad or bool(sc._solved) != rejected_before[1]:
                return trace, dict(step=i, op=o, what="rejected-call-changed-the-state", differences=bad[:6], solved_flag=[rejected_before[1], bool(sc._solved)])
        if before is not None and got[1] is None:       # a call that raised (diverging trim ...) promises nothing about the state it leaves
            after = {n: raw_state(sc, n) for n in sc._airplanes}
            bad = api.compare(after, before, rtol=1e-9, atol=1e-9)
            if bad or list(after) != list(before):
                return trace, dict(step=i, op=o, what="non-modifying-call-changed-the-state", differences=bad[:6])
        if twin is not None and got[1] is None:
            a1, a2 = raw_state(sc, o["name"]), raw_state(twin, o["name"])
            a1.pop("controls"); a2.pop("controls")
            bad = api.compare(a1, a2, rtol=1e-9, atol=1e-9)
            if bad:
                return trace, dict(step=i, op=o, what="set_state-depends-on-history", differences=bad[:6])
        if compare and empty and o["op"] in ("solve", "dist") and got[1] is None:
            return trace, dict(step=i, op=o, what="query-on-empty-scene-returns-results", returned=str(got[0])[:200])
        trace.append(([n for n in sc._airplanes], bool(sc._solved), got[1] is not None))
        if ref is not None and ref[0] != "fresh-build-failed":
            if (got[1] is None) != (ref[1] is None):
                if (got[1] or ref[1]) in ("SolverNotConvergedError", "MaxIterationError"):
                    continue      # ill-conditioned iteration: inconclusive, not a staleness witness
                return trace, dict(step=i, op=o, what="exception-differs", history=got[1], fresh=ref[1])
            if got[1] is None:
                bad = api.compare(got[0], ref[0], rtol=2e-6, atol=2e-7)
                if bad:
                    return trace, dict(step=i, op=o, what="result-differs", differences=bad[:6])
        elif ref is not None and got[1] is None:
            return trace, dict(step=i, op=o, what="history-succeeds-but-fresh-scene-cannot-be-built", fresh=ref[1])
        # a scene that cannot be solved after a successful structural op (e.g. NaN arrays) is caught by the next query
    return trace, None


def signature_of(ops, fail):
    """history pattern: the failing query and the last state-changing op before it"""
    i = fail["step"]
    prev = "start"
    for o in reversed(ops[:i]):
        if o["op"] not in ("solve", "dist"):
            prev = o["op"] + (":" + o["mode"] if o["op"] == "set_state" else "")
            break
    return "history:%s->%s" % (prev, ops[i]["op"])


def shrink(MX, ops, pool, fail):
    sig = signature_of(ops, fail)

    def still(cand):
        t, f = run_history(MX, cand, pool)
        return f is not None and signature_of(cand, f) == sig
    return api.shrink_list(ops, still, max_rounds=30)


def coq_ops(ops, trace_tokens):
    """mirror the public ops as Model/SceneFSM ops; tokens were interned from the live objects after each op"""
    out = []
    for o, tk in zip(ops, trace_tokens):
        k = o["op"]
        n = tk["name_id"]
        if k == "add":
            out.append("AddAircraft (mk_ac %d %d %d %d %d)" % (n, o["ac"], tk["pose"], tk["vel"], tk["ctrl"]))
        elif k == "remove":
            out.append("RemoveAircraft %d" % n)
        elif k == "set_state" and o.get("mode") == "rejected":
            out.append("SetState 0 0 0")       # the model's rejected call: no aircraft is called 0, the step reports an error and changes nothing
        elif k == "set_state":
            out.append("SetState %d %d %d" % (n, tk["pose"], tk["vel"]))
        elif k == "set_controls":
            out.append("SetControls %d %d" % (n, tk["ctrl"]))
        elif k == "solve":
            out.append("SolveForces")
        elif k == "dist":
            out.append("Distributions")
        elif k in ("stab", "damp", "aero_center", "target_CL_noset", "trim_noset", "derivs"):
            out.append("VelAnalysis %d [%d; %d]" % (n, tk["vel"] + 1000, tk["vel"] + 1001))
        elif k == "ctrl":
            out.append("CtrlAnalysis %d [%d]" % (n, tk["ctrl"] + 1000))
        elif k in ("state_derivs", "trim_orient_noset"):
            out.append("PoseAnalysis %d [(%d, %d)]" % (n, tk["pose"] + 1000, tk["vel"] + 1000))
        elif k in ("trim", "target_CL"):
            out.append("TrimSet %d [] %d %d" % (n, tk["vel"], tk["ctrl"]))
        elif k == "trim_orient":
            out.append("PoseAnalysis %d []" % n)      # placeholder; replaced below
        else:
            raise ValueError(k)
    return out


def fsm_case(MX, ops, pool, sd=SD):
    """Run the history on the live scene recording tokens; returns Coq case expression or None if not representable."""
    sc = MX.Scene(copy.deepcopy(sd))
    names_ids = {}
    intern = {}
    name_tok = {}

    def tok(kind, val):
        key = (kind, json.dumps(val))
        return intern.setdefault(key, len(intern))
    coq, exp = [], []
    for o in ops:
        if o["op"] in ("trim_orient", "derivs", "stab_all", "damp_all", "ctrl_all", "state_derivs_all", "stab_prev", "damp_prev", "derivs_prev"):
            return None      # multi-aircraft aggregate / pose-setting trim: covered by the sweep, not by the trace model
        name = o.get("name")
        got = apply_op(sc, o, pool, names_ids, MX)
        n_id = name_tok.setdefault(name, len(name_tok) + 1) if name is not None else 0
        tk = dict(name_id=n_id, pose=0, vel=0, ctrl=0)
        if name in sc._airplanes:
            a = sc._airplanes[name]
            tk["pose"] = tok("pose", [list(map(float, a.p_bar)), list(map(float, a.q))])
            tk["vel"] = tok("vel", [list(map(float, a.v)), list(map(float, a.w))])
            tk["ctrl"] = tok("ctrl", {k: (float(v) if not isinstance(v, (list, np.ndarray)) else str(v)) for k, v in a.current_control_state.items()})
        elif o["op"] == "add":
            return None
        one = coq_ops([o], [tk])[0]
        # analyses on a scene that raises inside (e.g. not trimmable) leave the object in an unspecified state: stop the trace there;
        # so does a solve that does not converge (a numerical outcome the bookkeeping model does not predict)
        if got[1] is not None and o["op"] not in ("add", "remove", "set_state", "set_controls", "solve", "dist"):
            break
        if got[1] in ("SolverNotConvergedError", "MaxIterationError"):
            break
        coq.append(one)
        exp.append("([%s], %s, %s)" % ("; ".join(str(name_tok[n]) for n in sc._airplanes), cbool(bool(sc._solved)), cbool(got[1] is not None)))
    return "chk_trace [%s] [%s]" % ("; ".join(coq), "; ".join(exp))


def check_caller_arrays(chk, MX, pool):
    """a state whose position / rates are the caller's own NumPy arrays: the scene works with the values it was handed in the call,
    whatever the caller does to its arrays afterwards (edit in place, hand the same dictionary over again)"""
    for k in range(chk.q(2, 8)):
        sd = copy.deepcopy(SD)
        sd["scene"]["atmosphere"]["rho"] = "standard"
        ac = pool[k % len(pool)]
        pos = np.array([0.0, 0.0, -1000.0 - 500.0 * k])
        rates = np.array([0.02, -0.01 * k, 0.03])
        st = {"velocity": 90.0 + 5.0 * k, "alpha": 2.0 + 0.5 * k, "position": pos, "angular_rates": rates}
        quat = None
        if k % 2 == 1:
            # the attitude as a unit quaternion in the caller's own array (a time-stepping loop updates it in place and hands it over again)
            b0 = math.radians(10.0 + 5.0 * k)
            quat = np.array([math.cos(0.5 * b0), math.sin(0.5 * b0), 0.0, 0.0])
            st["orientation"] = quat
        rep = dict(kind="caller-arrays", scene=sd, aircraft=ac, state={n: (v.tolist() if isinstance(v, np.ndarray) else v) for n, v in st.items()}, k=k)
        chk.case(dict(kind="caller-arrays", k=k), nontrivial=True)
        chk.count("op=caller-arrays")
        try:
            sc = MX.Scene(copy.deepcopy(sd))
            sc.add_aircraft("A", copy.deepcopy(ac), state=st)
            first = api.solve(sc)
            # the caller re-uses its arrays; no call on the scene
            new_pos, new_rates = [50.0, -20.0, -30000.0 + 1000.0 * k], [0.2, 0.1, -0.15]
            pos[:] = new_pos
            rates[:] = new_rates
            new_quat = None
            if quat is not None:
                b1, h1 = math.radians(35.0 + 5.0 * k), math.radians(40.0)
                new_quat = [math.cos(0.5 * h1) * math.cos(0.5 * b1), math.cos(0.5 * h1) * math.sin(0.5 * b1), math.sin(0.5 * h1) * math.sin(0.5 * b1),
                            math.sin(0.5 * h1) * math.cos(0.5 * b1)]
                quat[:] = new_quat
            again = api.solve(sc)
            bad = api.compare(again, first, rtol=1e-12, atol=1e-12)
            if bad:
                chk.violation("caller-arrays:edit-without-call", dict(rep, what="editing the caller's arrays changed the results of the scene without any call",
                                                                     new_position=new_pos, new_rates=new_rates, differences=bad[:6]))
                continue
            # the same dictionary handed over again: the results are those of a fresh scene in the new state
            sc.set_aircraft_state(state=st, aircraft="A")
            got = api.solve(sc)
            fr = MX.Scene(copy.deepcopy(sd))
            fr.add_aircraft("A", copy.deepcopy(ac), state=dict(st, position=list(new_pos), angular_rates=list(new_rates), **({"orientation": list(new_quat)} if new_quat else {})))
            bad = api.compare(got, api.solve(fr), rtol=2e-6, atol=2e-7)
            if bad:
                chk.violation("caller-arrays:same-dictionary-again", dict(rep, what="set_aircraft_state with the caller's (updated) arrays gives results of the earlier position / rates",
                                                                         new_position=new_pos, new_rates=new_rates, differences=bad[:6]))
        except Exception as e:
            chk.count("caller-arrays-error=" + type(e).__name__)


def alias_histories(chk, MX, pool):
    """Model/Alias.v on the live object: histories of hand-overs of the caller's position arrays, in-place edits of those arrays and
    queries; after every query the aircraft's position and the position the Earth-frame geometry in use was built for (recovered from the
    stored control points) are compared with the model's run under copy semantics"""
    rng = chk.rng
    cases, descr = [], []
    zl = lambda v: "[%s]%%Z" % "; ".join(str(int(x)) for x in v)
    for k in range(chk.q(4, 24)):
        ac = pool[k % len(pool)]
        nh = 1 + (k % 2)
        rnd_pos = lambda: [rng.randint(-500, 500), rng.randint(-500, 500), -rng.randint(100, 30000)]
        heap0 = [rnd_pos() for _ in range(nh)]
        p0 = rnd_pos()
        events = []
        if k == 0:
            events = [("set", 0), ("write", 0, [0, 0, -30000]), ("set", 0), ("query",)]     # a simulation loop re-using its position array
        elif k == 1:
            events = [("set", 0), ("query",), ("write", 0, [5, 5, -5]), ("query",)]          # an edit without any call
        else:
            for _ in range(rng.randint(3, 7)):
                r_ = rng.random()
                events.append(("set", rng.randrange(nh)) if r_ < 0.35 else (("write", rng.randrange(nh), rnd_pos()) if r_ < 0.7 else ("query",)))
            events.append(("query",))
        sd = copy.deepcopy(SD)
        sd["scene"]["atmosphere"]["rho"] = "standard"
        arrays = [np.array(h_, dtype=float) for h_ in heap0]
        outs = []
        try:
            sc = MX.Scene(copy.deepcopy(sd))
            sc.add_aircraft("A", copy.deepcopy(ac), state={"velocity": 90.0, "alpha": 2.0, "position": [float(x) for x in p0]})
            a = sc._airplanes["A"]
            for e in events:
                if e[0] == "set":
                    sc.set_aircraft_state(state={"velocity": 90.0, "alpha": 2.0, "position": arrays[e[1]]}, aircraft="A")
                elif e[0] == "write":
                    arrays[e[1]][:] = e[2]
                else:
                    sc.solve_forces()
                    built_for = np.array(sc._PC[0], dtype=float) - np.array(a.PC[0], dtype=float)      # (default attitude: no rotation)
                    outs.append(([int(round(float(x))) for x in a.p_bar], [int(round(float(x))) for x in built_for]))
        except Exception as e:
            chk.count("alias-history-error=" + type(e).__name__)
            continue
        chk.case(dict(kind="alias-history", k=k, events=[e[0] for e in events]), nontrivial=True)
        chk.count("op=alias-history")
        evs = "[%s]" % "; ".join("SetState %d" % e[1] if e[0] == "set" else ("CallerWrites %d %s" % (e[1], zl(e[2])) if e[0] == "write" else "Query") for e in events)
        exp = "[%s]" % "; ".join("(%s, %s)" % (zl(o[0]), zl(o[1])) for o in outs)
        cases.append("outs_eqb (run true (init [%s] %s) %s) %s" % ("; ".join(zl(h_) for h_ in heap0), zl(p0), evs, exp))
        descr.append(dict(kind="caller-arrays-history", scene=sd, aircraft=ac, heap=heap0, start=p0, events=events, observed=outs,
                          what="position of the aircraft / position the geometry in use was built for, after each query, differ from Model/Alias.v under copy semantics"))
    failing, nfiles, errors = common.run_cases("C07alias", ["From Coq Require Import ZArith List.", "From MuxV Require Import Model.Alias.", "Import ListNotations."],
                                               ["Close Scope float_scope."], cases, chunk=50)
    chk.cov["traces_validated_against_impl"] = chk.cov.get("traces_validated_against_impl", 0) + len(cases)
    for e in errors:
        chk.fail_obligation("correspondence:C07-alias-coqc", e)
    for i in failing:
        chk.violation("caller-arrays:history", descr[i])


def run(chk):
    MX = common.setup_env()
    import machupX.helpers as H
    MX.helpers = H
    chk.proofs(extra_trusted=[
        "correspondence: Model/SceneFSM.v evaluated by vm_compute on the same public-call histories as the live Scene; aircraft order, "
        "_solved flag and error/no-error compared after every call",
        "the numeric solve is treated as a function of (aircraft states, geometry cache); uniqueness of the converged solution is C14's hypothesis",
        "sweep: every query of a random history is compared with the same query on a scene freshly built from the current state"])
    rng = chk.rng
    pool = [gen.simple_wing_aircraft(N=3, b=4.0), gen.simple_wing_aircraft(N=3, b=3.0, sweep=15.0, reid=True),
            gen.simple_wing_aircraft(N=4, b=5.0, dihedral=5.0)]
    nh = chk.q(24, 240)
    maxlen = chk.q(9, 16)
    cases, descr = [], []
    corpus = json.load(open(common.os.path.join(common.VERIF, "corpus", "C07.json")))
    for h in range(len(corpus) + nh):
        if h < len(corpus):
            ops, wind, sd = corpus[h], False, copy.deepcopy(SD)
            if isinstance(ops, dict):                      # entry with its own atmosphere
                sd["scene"]["atmosphere"].update(ops.get("atmosphere", {}))
                ops = ops["ops"]
            elif h % 3 == 2:
                wind = True
                sd["scene"]["atmosphere"]["V_wind"] = [8.0, -6.0, 1.5]
            for o in ops:
                chk.count("op=" + o["op"] + (":" + o["mode"] if o["op"] == "set_state" else ""))
            trace, fail = run_history(MX, ops, pool, sd=sd)
            chk.case(dict(corpus=h, ops=[o["op"] for o in ops], wind=wind), nontrivial=True)
            if fail:
                chk.violation(signature_of(ops, fail) + (":wind" if wind else ""), dict(kind="history", scene=sd, pool=pool, ops=ops, failure=fail))
            c = fsm_case(MX, ops, pool, sd=sd)
            if c:
                cases.append(c)
                descr.append(dict(ops=ops, scene=sd))
            continue
        all_names = ["A", "B"] if rng.random() < 0.35 else ["A"]
        wind = rng.random() < 0.3
        sd = copy.deepcopy(SD)
        if wind:
            sd["scene"]["atmosphere"]["V_wind"] = [round(rng.uniform(-15, 15), 2), round(rng.uniform(-15, 15), 2), round(rng.uniform(-3, 3), 2)]
            if rng.random() < 0.4:
                # wind that changes with altitude: what an aircraft sees depends on where it is now
                w0 = sd["scene"]["atmosphere"]["V_wind"]
                sd["scene"]["atmosphere"]["V_wind"] = [[-2500.0, w0[0], w0[1], w0[2]], [0.0, -w0[1], 0.5 * w0[0], 0.0],
                                                       [2500.0, w0[0] + 12.0, w0[1] - 9.0, -w0[2]]]
                chk.count("wind=profile")
        if rng.random() < 0.35:
            sd["scene"]["atmosphere"]["rho"] = "standard"          # position matters: results depend on the altitude
            chk.count("atmosphere=standard")
        ops, names_in = [], []
        for i in range(rng.randint(4, maxlen)):
            o = rand_op(rng, names_in, all_names, pool, wind)
            if o["op"] == "add" and o["name"] not in names_in:
                names_in.append(o["name"])
            if o["op"] == "remove" and o["name"] in names_in:
                names_in.remove(o["name"])
            if o["op"] in ("derivs",) and len(names_in) != 1:
                continue
            if o["op"] in ("trim", "trim_noset", "trim_orient", "trim_orient_noset", "target_CL", "target_CL_noset") and len(names_in) != 1:
                continue
            ops.append(o)
        for o in ops:
            chk.count("op=" + o["op"] + (":" + o["mode"] if o["op"] == "set_state" else ""))
        trace, fail = run_history(MX, ops, pool, sd=sd)
        nq = sum(1 for o in ops if o["op"] in QUERIES)
        nset = sum(1 for i, o in enumerate(ops) if o["op"] not in ("solve", "dist") and any(p["op"] in QUERIES for p in ops[i + 1:]))
        chk.case(dict(ops=[o["op"] + (":" + o.get("mode", "") if o["op"] == "set_state" else "") for o in ops], wind=wind),
                 nontrivial=(nq >= 1 and nset >= 1))
        if fail:
            small = ops
            try:
                small = shrink(MX, ops, pool, fail) if not wind else ops
            except Exception:
                pass
            t2, f2 = run_history(MX, small, pool, sd=sd)
            if f2 is None:
                small, f2 = ops, fail
            chk.violation(signature_of(small, f2) + (":wind" if wind else ""), dict(kind="history", scene=sd, pool=pool, ops=small, failure=f2))
        c = fsm_case(MX, ops, pool, sd=sd)
        if c:
            cases.append(c)
            descr.append(dict(ops=ops, scene=sd))
    check_caller_arrays(chk, MX, pool)
    alias_histories(chk, MX, pool)
    failing, nfiles, errors = common.run_cases("C07", IMPORTS, DEFS, cases, chunk=40)
    chk.cov["traces_validated_against_impl"] = chk.cov.get("traces_validated_against_impl", 0) + len(cases)
    chk.cov["correspondence_cases"] = len(cases)
    if errors:
        chk.fail_obligation("correspondence:C07(case files do not compile)", "\n".join(errors)[-3000:])
    elif failing:
        d = descr[failing[0]]
        # model and object disagree on aircraft order / solved flag / error after some call: find the first such step on the implementation
        chk.violation("fsm-trace", dict(kind="fsm-trace", scene=d["scene"], pool=pool, ops=d["ops"],
                                        note="aircraft order, _solved flag or error status after some call differs from Model/SceneFSM.v; "
                                             "Theorem C07_queries_fresh no longer applies to this object"), no_input=not chk.violations)
    return chk.finish(
        rule="random histories (4-16 public calls on 1-2 aircraft, with and without wind): add (incl. duplicate names), remove (incl. unknown), "
             "set_aircraft_state (velocity-only, pose change, position-only move, sub-tolerance pose change, reset), constant or standard atmosphere, set_aircraft_control_state, solve_forces with both "
             "initial guesses, distributions, all derivative functions (for one named aircraft and for all aircraft at once), aero_center, both trims with and without set state, target_CL; "
             "non-trivial = at least one state-changing call followed by a query")


def replay(chk, path):
    r = json.load(open(path))
    MX = common.setup_env()
    import machupX.helpers as H
    MX.helpers = H
    if r.get("kind") == "history":
        t, f = run_history(MX, r["ops"], r["pool"], sd=r["scene"])
        print(f)
        if f:
            print("VIOLATION property=C07 replay=%s" % path)
            return 1
        return 0
    print(json.dumps(r, indent=1)[:3000])
    return 0
