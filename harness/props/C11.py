"""C11 — Galilean invariance: only air-relative motion matters under uniform wind."""
import math, copy, json
import numpy as np
from harness import common, gen, api

LEVEL = "proof"
EXTRA = {
    "solve_forces": lambda sc, n: api.solve(sc, report_by_segment=True),
    "pitch_trim": lambda sc, n: sc.pitch_trim(aircraft=n, set_trim_state=True),
    "pitch_trim_orient": lambda sc, n: list(sc.pitch_trim_using_orientation(aircraft=n, set_trim_state=True)),
    "target_CL": lambda sc, n: sc.target_CL(CL=0.4, set_state=True, control_state={"elevator": -1.0}),
    "export_pylot_model": lambda sc, n: pylot_coefficients(sc),
}


def pylot_coefficients(sc):
    """the linearised model written by export_pylot_model: its coefficients (drag polars from sweeps in alpha and beta included)"""
    fn = common.os.path.join(common.REPLAYS, "c11_pylot_%d.json" % common.os.getpid())
    sc.export_pylot_model(filename=fn)
    with open(fn) as fh:
        return json.load(fh)["coefficients"]


def twin_states(MX, rng, hist, wind):
    """state given as V/alpha/beta (air-relative by definition) in the windy scene; the twin gets the air-relative body velocity"""
    st = gen.gen_state(rng, hist, ang=5.0, vec_velocity_p=0.5, rate_frames=("body", "stab", "wind"))
    q = st.get("orientation", [1.0, 0.0, 0.0, 0.0])
    qn = np.array(api.euler_to_quat_deg(q) if len(q) == 3 else q, dtype=float)
    qn = qn / np.linalg.norm(qn)
    st2 = copy.deepcopy(st)
    if isinstance(st["velocity"], list):
        # ground-relative body velocity: subtract the wind expressed in body axes
        wb = MX.helpers.quat_trans(qn, np.array(wind, dtype=float))
        st2["velocity"] = (np.array(st["velocity"]) - wb).tolist()
        # (rates given in stability / wind axes refer to the wind-relative velocity in both scenes)
    return st, st2


def relative(res, name, MX, sc):
    """make position/velocity-bearing results comparable: trims returning states are compared in air-relative terms"""
    return res


def run(chk):
    MX = common.setup_env()
    import machupX.helpers as H
    MX.helpers = H
    chk.proofs(extra_trusted=["sweep: every analysis on a scene with uniform wind W vs the still-air twin with Earth-fixed velocity V - W",
                              "the theorems take 'the two scenes solve to the same loads' from C11_solve_galilean + the scene model (C01 correspondence)"])
    rng = chk.rng
    names = list(api.ANALYSES) + list(EXTRA)
    n = chk.q(32, 320)
    for i in range(n):
        an = names[i % len(names)]
        f = api.ANALYSES.get(an) or EXTRA[an]
        wind = [round(rng.uniform(-25, 25), 2), round(rng.uniform(-25, 25), 2), round(rng.uniform(-6, 6), 2)]
        if i % 4 == 2:
            # (enumerated) winds along one or two of the Earth-fixed axes only: a zero component is a value like any other
            for k_ in [(1, 2), (0, 2), (2,), (0,)][(i // 4) % 4]:
                wind[k_] = 0.0
            chk.count("wind-with-zero-components")
        sdW = gen.gen_scene(rng, chk.hist, rho="const", wind=False, solver=gen.gen_solver(rng, chk.hist) if i % 3 == 1 else {"type": "nonlinear"})
        if i % 7 == 3:
            sdW["solver"]["match_machup_pro"] = True       # compatibility mode: the wake follows the translational freestream only
            chk.count("match_machup_pro")
        sd0 = copy.deepcopy(sdW)
        sdW["scene"]["atmosphere"]["V_wind"] = wind
        ac = gen.simple_wing_aircraft(N=3, b=rng.uniform(3, 5), sweep=rng.choice([None, 12.0]), reid=rng.random() < 0.5)
        st, st2 = twin_states(MX, rng, chk.hist, wind)
        if i % 4 == 1 and not isinstance(st["velocity"], list):
            # an airspeed with neither alpha nor beta named (they default to zero): still relative to the air
            for st_ in (st, st2):
                st_.pop("alpha", None)
                st_.pop("beta", None)
            chk.count("airspeed-without-angles")
        if i % 2 == 0:
            # a position written with integers (as JSON files often have it): the wind there is still the wind
            pos_i = [rng.randint(-200, 200), rng.randint(-200, 200), -rng.randint(100, 3000)]
            st["position"], st2["position"] = list(pos_i), list(pos_i)
            chk.count("integer-position")
        cs = {"aileron": round(rng.uniform(-3, 3), 2), "elevator": round(rng.uniform(-3, 3), 2)}
        try:
            a = gen.build_scene(MX, sdW, [("a", ac, st, cs)])
            b = gen.build_scene(MX, sd0, [("a", ac, st2, cs)])
            va = np.array(a._airplanes["a"].v) - np.array(wind)
            vb = np.array(b._airplanes["a"].v)
            if not np.allclose(va, vb, rtol=1e-9, atol=1e-8):
                chk.violation("twin-construction", dict(kind="galilean", analysis="set_state", wind=wind, state=st, twin=st2,
                                                        note="airspeed/alpha/beta are not interpreted relative to the air mass", got=va.tolist(), expected=vb.tolist()))
                continue
            ra = json.loads(json.dumps(f(a, "a"), default=common._jsonable))
            rb = json.loads(json.dumps(f(b, "a"), default=common._jsonable))
        except Exception as e:
            if type(e).__name__ in ("MaxIterationError", "SolverNotConvergedError"):
                chk.count("nonconverged=" + an)
                continue
            chk.violation("raises:%s" % an, dict(kind="galilean", analysis=an, wind=wind, scene=sdW, aircraft=ac, state=st, error=repr(e)))
            continue
        chk.case(dict(analysis=an, wind=wind, i=i), nontrivial=(np.linalg.norm(wind) > 1.0))
        chk.count("analysis=" + an)
        if an == "pitch_trim_orient" or an == "pitch_trim_orient_noset":
            # returned state carries the (ground-relative) body velocity: compare air-relative
            for r_, w_ in ((ra, wind), (rb, [0.0, 0.0, 0.0])):
                q = np.array(r_[0]["orientation"])
                r_[0]["velocity"] = (np.array(r_[0]["velocity"]) - MX.helpers.quat_trans(q, np.array(w_))).tolist()
        bad = api.compare(ra, rb, rtol=5e-6, atol=5e-7)
        if bad:
            chk.violation("galilean:%s" % an, dict(kind="galilean", analysis=an, wind=wind, scene=sdW, aircraft=ac, state=st, twin_state=st2,
                                                   controls=cs, differences=bad[:8]))
            continue
        # and the states left behind correspond
        sa, sb = api.aircraft_state(a, "a"), api.aircraft_state(b, "a")
        sa["v"] = (np.array(sa["v"]) - np.array(wind)).tolist()
        bad = api.compare(sa, sb, rtol=1e-7, atol=1e-7)
        if bad:
            chk.violation("galilean-state:%s" % an, dict(kind="galilean", analysis=an, wind=wind, scene=sdW, aircraft=ac, state=st,
                                                         twin_state=st2, differences=bad[:8]))
    return chk.finish(rule="each analysis (all derivative functions, aero_center, distributions, trims with and without set state, target_CL, "
                           "solve_forces) on a windy scene and on its still-air twin; states given as V/alpha/beta or as a velocity vector, any "
                           "attitude; results and the states left behind compared; non-trivial = |W| > 1")


def replay(chk, path):
    print(json.dumps(json.load(open(path)), indent=1, default=str)[:3000])
    return 0
